package extract

// Round 12 facts of C17: the JSON codec behind EVERY declaration of sql/stmt (and of
// pkg/timeutil/interval.go, whose Interval travels inside the statement) — which encoder /
// decoder entry point each function, package variable and type names — resolved down to the
// jsoniter configuration literal (flags such as MarshalFloatWith6Digits) read from the module
// cache at the version /repo/go.mod requires. Emitted into Generated/C17.lean by genC17.

import (
	"fmt"
	"go/ast"
	"go/token"
	"os"
	"path/filepath"
	"regexp"
	"sort"
	"strconv"
	"strings"
)

// c17ModDir: directory of module `mod` in the module cache at the version required by repo/go.mod.
func c17ModDir(repo, mod string) (string, error) {
	gm, err := os.ReadFile(filepath.Join(repo, "go.mod"))
	if err != nil {
		return "", err
	}
	m := regexp.MustCompile(`(?m)^\s*` + regexp.QuoteMeta(mod) + `\s+(v\S+)`).FindSubmatch(gm)
	if m == nil {
		return "", fmt.Errorf("%s not required by go.mod", mod)
	}
	cache := os.Getenv("GOMODCACHE")
	if cache == "" {
		gp := os.Getenv("GOPATH")
		if gp == "" {
			home, _ := os.UserHomeDir()
			gp = filepath.Join(home, "go")
		}
		cache = filepath.Join(strings.Split(gp, string(os.PathListSeparator))[0], "pkg", "mod")
	}
	return filepath.Join(cache, filepath.FromSlash(mod)+"@"+string(m[1])), nil
}

func c17CodecImport(path string) bool {
	return strings.Contains(path, "json") || strings.HasSuffix(path, "/encoding") ||
		strings.HasPrefix(path, "encoding/") || strings.Contains(path, "msgpack") || strings.Contains(path, "codec")
}

// c17CodecUse: for one file, the codec-ish imports and, per top-level declaration, the distinct
// selectors `pkg.Name` on those imports (source order).
func c17CodecUse(label string, f *ast.File) (imports [][2]string, uses [][2]string) {
	local := map[string]bool{}
	for _, im := range f.Imports {
		p, _ := strconv.Unquote(im.Path.Value)
		if !c17CodecImport(p) {
			continue
		}
		name := p[strings.LastIndexByte(p, '/')+1:]
		if p == "github.com/json-iterator/go" {
			name = "jsoniter"
		}
		if im.Name != nil {
			name = im.Name.Name
		}
		local[name] = true
		imports = append(imports, [2]string{label, name + "=" + p})
	}
	collect := func(decl string, n ast.Node) {
		seen := map[string]bool{}
		ast.Inspect(n, func(x ast.Node) bool {
			if se, ok := x.(*ast.SelectorExpr); ok {
				if id, ok := se.X.(*ast.Ident); ok && local[id.Name] && id.Obj == nil {
					t := id.Name + "." + se.Sel.Name
					if !seen[t] {
						seen[t] = true
						uses = append(uses, [2]string{label + ":" + decl, t})
					}
				}
			}
			return true
		})
	}
	for _, d := range f.Decls {
		switch x := d.(type) {
		case *ast.FuncDecl:
			name := x.Name.Name
			if x.Recv != nil && len(x.Recv.List) == 1 {
				name = strings.TrimPrefix(exprText(x.Recv.List[0].Type), "*") + "." + name
			}
			collect(name, x)
		case *ast.GenDecl:
			if x.Tok == token.IMPORT {
				continue
			}
			for _, s := range x.Specs {
				switch sp := s.(type) {
				case *ast.ValueSpec:
					var ns []string
					for _, n := range sp.Names {
						ns = append(ns, n.Name)
					}
					collect(x.Tok.String()+" "+strings.Join(ns, ","), sp)
				case *ast.TypeSpec:
					collect("type "+sp.Name.Name, sp)
				}
			}
		}
	}
	return imports, uses
}

func genC17Round12(repo string) (string, error) {
	var sb strings.Builder
	matches, _ := filepath.Glob(filepath.Join(repo, "sql", "stmt", "*.go"))
	sort.Strings(matches)
	var imports, uses [][2]string
	for _, m := range matches {
		b := filepath.Base(m)
		if strings.HasSuffix(b, "_test.go") || strings.HasPrefix(b, "zz_verif") {
			continue
		}
		_, f, err := ParseFile(repo, filepath.Join("sql", "stmt", b))
		if err != nil {
			return "", err
		}
		im, us := c17CodecUse(b, f)
		imports = append(imports, im...)
		uses = append(uses, us...)
	}
	_, itv, err := ParseFile(repo, "pkg/timeutil/interval.go")
	if err != nil {
		return "", err
	}
	im, us := c17CodecUse("timeutil/interval.go", itv)
	imports = append(imports, im...)
	uses = append(uses, us...)
	multi := func(ps [][2]string) string {
		return "[\n  " + strings.TrimSuffix(strings.TrimPrefix(strings.ReplaceAll(c17Pairs(ps), "), (", "),\n  ("), "["), "]") + "]"
	}
	fmt.Fprintf(&sb, "/-- round 12: (file, local name=path) of every codec-like import of sql/stmt and timeutil/interval.go -/\ndef stmtCodecImports : List (String × String) := %s\n", multi(imports))
	fmt.Fprintf(&sb, "/-- (file:declaration, pkg.Name) for every use of such an import, declaration by declaration -/\ndef stmtCodecUse : List (String × String) := %s\n", multi(uses))

	// ---- lindb/common encoding: the package variable and what the two entry points call
	cdir, err := c17CommonDir(repo)
	if err != nil {
		return "", err
	}
	_, cf, err := ParseFile(cdir, "pkg/encoding/json.go")
	if err != nil {
		return "", err
	}
	var ce [][2]string
	for _, d := range cf.Decls {
		switch x := d.(type) {
		case *ast.GenDecl:
			if x.Tok != token.VAR {
				continue
			}
			for _, s := range x.Specs {
				vs := s.(*ast.ValueSpec)
				for i, n := range vs.Names {
					if i < len(vs.Values) && strings.HasPrefix(exprText(vs.Values[i]), "jsoniter.") {
						ce = append(ce, [2]string{"var " + n.Name, exprText(vs.Values[i])})
					}
				}
			}
		case *ast.FuncDecl:
			if x.Name.Name == "JSONMarshal" || x.Name.Name == "JSONUnmarshal" {
				ce = append(ce, [2]string{x.Name.Name, strings.Join(c17Callees(x, map[string]bool{"log.Error": true}), ",")})
			}
		}
	}
	fmt.Fprintf(&sb, "/-- lindb/common pkg/encoding/json.go: the codec variable and the calls of JSONMarshal / JSONUnmarshal -/\ndef commonEncoding : List (String × String) := %s\n", c17Pairs(ce))

	// ---- jsoniter: the configuration literals and the package-level entry points
	jdir, err := c17ModDir(repo, "github.com/json-iterator/go")
	if err != nil {
		return "", err
	}
	_, jc, err := ParseFile(jdir, "config.go")
	if err != nil {
		return "", err
	}
	var cfgs []string
	for _, d := range jc.Decls {
		gd, ok := d.(*ast.GenDecl)
		if !ok || gd.Tok != token.VAR {
			continue
		}
		for _, s := range gd.Specs {
			vs := s.(*ast.ValueSpec)
			if len(vs.Names) != 1 || len(vs.Values) != 1 || !strings.HasPrefix(vs.Names[0].Name, "Config") {
				continue
			}
			var lit *ast.CompositeLit
			ast.Inspect(vs.Values[0], func(n ast.Node) bool {
				if cl, ok := n.(*ast.CompositeLit); ok && lit == nil && exprText(cl.Type) == "Config" {
					lit = cl
				}
				return true
			})
			if lit == nil {
				continue
			}
			var flags []string
			for _, el := range lit.Elts {
				if kv, ok := el.(*ast.KeyValueExpr); ok {
					flags = append(flags, exprText(kv.Key)+"="+exprText(kv.Value))
				}
			}
			cfgs = append(cfgs, fmt.Sprintf("(%s, %s)", c17LeanStr(vs.Names[0].Name), LeanStrList(flags)))
		}
	}
	fmt.Fprintf(&sb, "/-- jsoniter config.go at the required version: (configuration, fields set in its literal) -/\ndef jsoniterConfigs : List (String × List String) := [%s]\n", strings.Join(cfgs, ", "))
	// which Config flag installs the 6-digit float encoder
	lossy := "?"
	ast.Inspect(jc, func(n ast.Node) bool {
		if is, ok := n.(*ast.IfStmt); ok && is.Init == nil && len(is.Body.List) == 1 {
			if t := c17NodeText(is.Body.List[0]); strings.Contains(t, "marshalFloatWith6Digits") {
				lossy = exprText(is.Cond) + " => " + t
			}
		}
		return true
	})
	fmt.Fprintf(&sb, "def jsoniterLossyGuard : String := %s\n", c17LeanStr(lossy))
	_, ja, err := ParseFile(jdir, "adapter.go")
	if err != nil {
		return "", err
	}
	var eps [][2]string
	for _, name := range []string{"Marshal", "Unmarshal", "MarshalToString", "UnmarshalFromString"} {
		fd := FindFunc(ja, "", name)
		if fd == nil {
			return "", fmt.Errorf("jsoniter.%s not found", name)
		}
		eps = append(eps, [2]string{name, strings.Join(c17Callees(fd, nil), ",")})
	}
	fmt.Fprintf(&sb, "/-- jsoniter adapter.go: what the package-level entry points call -/\ndef jsoniterEntryPoints : List (String × String) := %s\n", c17Pairs(eps))
	// the 6-digit writer: its constants
	_, jf, err := ParseFile(jdir, "stream_float.go")
	if err != nil {
		return "", err
	}
	wl := FindFunc(jf, "Stream", "WriteFloat64Lossy")
	if wl == nil {
		return "", fmt.Errorf("WriteFloat64Lossy not found")
	}
	var ls []string
	for _, st := range wl.Body.List {
		switch x := st.(type) {
		case *ast.AssignStmt:
			ls = append(ls, c17NodeText(x))
		case *ast.IfStmt:
			ls = append(ls, "if "+exprText(x.Cond))
		}
	}
	fmt.Fprintf(&sb, "/-- jsoniter stream_float.go WriteFloat64Lossy: top-level guards and assignments -/\ndef jsoniterLossyWriter : List String := %s\n", LeanStrList(ls))
	return sb.String(), nil
}
