package extract

import (
	"fmt"
	"go/ast"
	"strings"
)

// C01 round 12 facts: the buffered writer under the manifest.
//
//   - persistLoopSteps: the calls inside the `for range editLogs` body of storeVersionSet.persistEditLogs in
//     source order; a call that sits inside a nested if-BODY / else / switch / loop of that body is prefixed
//     "guarded:" (the init / condition of a top-level `if err := f(); err != nil` is NOT guarded: it runs on
//     every iteration). Jumps are steps too: "continue" / "break" / "goto", "return-nil" (a return whose last
//     result is the literal nil, or a bare return: a SUCCESS exit) and "return-err" (any other return). The
//     writer model's persist loop syncs a record iff "writer.Sync" follows "writer.Write" unguarded with no
//     jump other than an error return between them (BW.syncsEveryRecord): bufioEntryWriter.Sync is the only
//     flush of the user-space buffer on that path.
//   - entryWriterFlushCalls / entryWriterCloseCalls: Flush = w.Flush; Close = w.Flush, f.Close.
//   - newEntryWriterCalls: os.Create (truncating) and bufio.NewWriterSize.
//   - versionSetDestroyCalls: Destroy closes (= flushes) the manifest writer.
func c01Round12Facts(repo string) (string, error) {
	var sb strings.Builder
	_, vs, err := ParseFile(repo, "kv/version/version_set.go")
	if err != nil {
		return "", err
	}
	pe := FindFunc(vs, "storeVersionSet", "persistEditLogs")
	if pe == nil || pe.Body == nil {
		return "", fmt.Errorf("storeVersionSet.persistEditLogs not found")
	}
	var loop *ast.RangeStmt
	for _, st := range pe.Body.List {
		if rs, ok := st.(*ast.RangeStmt); ok {
			loop = rs
			break
		}
	}
	if loop == nil {
		return "", fmt.Errorf("persistEditLogs: no top-level range loop")
	}
	sb.WriteString("def persistLoopSteps : List String := " + LeanStrList(guardedCalls(loop.Body)) + "\n")
	_, ew, err := ParseFile(repo, "pkg/bufioutil/bufio_writer.go")
	if err != nil {
		return "", err
	}
	for _, p := range [][2]string{{"Flush", "entryWriterFlushCalls"}, {"Close", "entryWriterCloseCalls"}} {
		fd := FindFunc(ew, "bufioEntryWriter", p[0])
		if fd == nil {
			return "", fmt.Errorf("bufioEntryWriter.%s not found", p[0])
		}
		sb.WriteString("def " + p[1] + " : List String := " + LeanStrList(CallSeq(fd)) + "\n")
	}
	sw := FindFunc(ew, "bufioStreamWriter", "Write")
	if sw == nil {
		return "", fmt.Errorf("bufioStreamWriter.Write not found")
	}
	sb.WriteString("def streamWriterWriteCalls : List String := " + LeanStrList(CallSeq(sw)) + "\n")
	nw := FindFunc(ew, "", "newBufioEntryWriter")
	if nw == nil {
		return "", fmt.Errorf("newBufioEntryWriter not found")
	}
	sb.WriteString("def newEntryWriterCalls : List String := " + LeanStrList(CallSeq(nw)) + "\n")
	ds := FindFunc(vs, "storeVersionSet", "Destroy")
	if ds == nil {
		return "", fmt.Errorf("storeVersionSet.Destroy not found")
	}
	sb.WriteString("def versionSetDestroyCalls : List String := " + LeanStrList(CallSeq(ds)) + "\n")
	return sb.String(), nil
}

// guardedCalls lists the calls of a block in source order; calls inside the body / else of an if, inside a
// switch / select / nested loop body or a function literal get the prefix "guarded:".
func guardedCalls(body *ast.BlockStmt) []string {
	var out []string
	var walk func(n ast.Node, guarded bool)
	emit := func(name string, guarded bool) {
		if guarded {
			name = "guarded:" + name
		}
		out = append(out, name)
	}
	walk = func(n ast.Node, guarded bool) {
		if n == nil {
			return
		}
		ast.Inspect(n, func(m ast.Node) bool {
			switch x := m.(type) {
			case *ast.IfStmt:
				if x.Init != nil {
					walk(x.Init, guarded)
				}
				walk(x.Cond, guarded)
				walk(x.Body, true)
				if x.Else != nil {
					walk(x.Else, true)
				}
				return false
			case *ast.SwitchStmt:
				if x.Init != nil {
					walk(x.Init, guarded)
				}
				if x.Tag != nil {
					walk(x.Tag, guarded)
				}
				walk(x.Body, true)
				return false
			case *ast.TypeSwitchStmt:
				walk(x.Body, true)
				return false
			case *ast.SelectStmt:
				walk(x.Body, true)
				return false
			case *ast.ForStmt:
				if x.Init != nil {
					walk(x.Init, guarded)
				}
				if x.Cond != nil {
					walk(x.Cond, true)
				}
				if x.Post != nil {
					walk(x.Post, true)
				}
				walk(x.Body, true)
				return false
			case *ast.RangeStmt:
				walk(x.X, guarded)
				walk(x.Body, true)
				return false
			case *ast.FuncLit:
				walk(x.Body, true)
				return false
			case *ast.BranchStmt:
				// continue / break / goto: whatever follows in the loop body does not run on that path
				emit(x.Tok.String(), guarded)
				return false
			case *ast.ReturnStmt:
				for _, r := range x.Results {
					walk(r, guarded)
				}
				kind := "return-err"
				if len(x.Results) == 0 {
					kind = "return-nil"
				} else if id, ok := x.Results[len(x.Results)-1].(*ast.Ident); ok && id.Name == "nil" {
					kind = "return-nil"
				}
				emit(kind, guarded)
				return false
			case *ast.BinaryExpr:
				// short-circuit operators guard their right operand
				if x.Op.String() == "&&" || x.Op.String() == "||" {
					walk(x.X, guarded)
					walk(x.Y, true)
					return false
				}
			case *ast.CallExpr:
				for _, a := range x.Args {
					walk(a, guarded)
				}
				if se, ok := x.Fun.(*ast.SelectorExpr); ok {
					walk(se.X, guarded)
				}
				if lit, ok := x.Fun.(*ast.FuncLit); ok {
					walk(lit.Body, guarded)
					return false
				}
				emit(exprName(x.Fun), guarded)
				return false
			}
			return true
		})
	}
	walk(body, false)
	return out
}
