package extract

// C17, round 10: the field-expression stack machine of the query parser as regenerated facts —
// every leaf statement of the callbacks with its enclosing branches (fieldMachine), how a parse
// obtains its parser object and its statement value (parserObject), the function-type table
// (funcTypes) and the token switch of visitFuncName (funcNameSwitch).

import (
	"fmt"
	"go/ast"
	"go/token"
	"strings"
)

// c17LeafStmts lists every leaf statement of a function body as (name: enclosing branches, text).
func c17LeafStmts(name string, body *ast.BlockStmt) [][2]string {
	var out [][2]string
	join := func(ctx, add string) string { return strings.TrimPrefix(ctx+" / "+add, " / ") }
	var walk func(stmts []ast.Stmt, ctx string)
	clauses := func(list []ast.Stmt, ctx string) {
		for _, c := range list {
			cc := c.(*ast.CaseClause)
			var ls []string
			for _, l := range cc.List {
				ls = append(ls, exprText(l))
			}
			walk(cc.Body, join(ctx, "case "+strings.Join(ls, ",")))
		}
	}
	walk = func(stmts []ast.Stmt, ctx string) {
		for _, st := range stmts {
			switch x := st.(type) {
			case *ast.IfStmt:
				c := exprText(x.Cond)
				if x.Init != nil {
					c = c17NodeText(x.Init) + "; " + c
				}
				walk(x.Body.List, join(ctx, "if "+c))
				switch e := x.Else.(type) {
				case *ast.BlockStmt:
					walk(e.List, join(ctx, "else"))
				case *ast.IfStmt:
					walk([]ast.Stmt{e}, join(ctx, "else"))
				}
			case *ast.SwitchStmt:
				clauses(x.Body.List, ctx)
			case *ast.TypeSwitchStmt:
				clauses(x.Body.List, join(ctx, "switch "+c17NodeText(x.Assign)))
			case *ast.BlockStmt:
				walk(x.List, ctx)
			case *ast.ForStmt:
				walk(x.Body.List, join(ctx, "for"))
			case *ast.RangeStmt:
				walk(x.Body.List, join(ctx, "range "+exprText(x.X)))
			default:
				out = append(out, [2]string{name + ": " + ctx, c17NodeText(st)})
			}
		}
	}
	walk(body.List, "")
	return out
}

func c17LitKeys(cl *ast.CompositeLit) string {
	var ks []string
	for _, e := range cl.Elts {
		if kv, ok := e.(*ast.KeyValueExpr); ok {
			k := exprText(kv.Key)
			if _, isLit := kv.Value.(*ast.CompositeLit); !isLit {
				if _, isId := kv.Value.(*ast.Ident); !isId {
					k += ": " + exprText(kv.Value)
				}
			}
			ks = append(ks, k)
		} else {
			ks = append(ks, exprText(e))
		}
	}
	return strings.Join(ks, ",")
}

func genC17Round10(repo string) (string, error) {
	var sb strings.Builder
	_, qp, err := ParseFile(repo, "sql/query_stmt_parser.go")
	if err != nil {
		return "", err
	}
	_, bp, err := ParseFile(repo, "sql/base_stmt_parser.go")
	if err != nil {
		return "", err
	}
	_, ls, err := ParseFile(repo, "sql/listener.go")
	if err != nil {
		return "", err
	}
	_, pf, err := ParseFile(repo, "sql/parser.go")
	if err != nil {
		return "", err
	}
	var fm [][2]string
	for _, name := range []string{"visitFieldExpr", "completeFuncExpr", "visitExprAtom", "parseFieldName", "completeFieldExpr",
		"visitAlias", "visitSortField", "completeSortField", "check", "visitHaving", "visitBoolExpr", "completeHaving",
		"completeBoolExpr", "visitBoolExprLogicalOp", "resetExprStack"} {
		fd := FindFunc(qp, "queryStmtParser", name)
		if fd == nil {
			return "", fmt.Errorf("queryStmtParser.%s not found", name)
		}
		fm = append(fm, c17LeafStmts(name, fd.Body)...)
	}
	fd := FindFunc(bp, "baseStmtParser", "setExprParam")
	if fd == nil {
		return "", fmt.Errorf("baseStmtParser.setExprParam not found")
	}
	fm = append(fm, c17LeafStmts("setExprParam", fd.Body)...)
	fmt.Fprintf(&sb, "/-- the field-expression stack machine: (function: enclosing branches, statement) -/\ndef fieldMachine : List (String × String) := [\n  %s]\n",
		strings.TrimSuffix(strings.TrimPrefix(strings.ReplaceAll(c17Pairs(fm), "), (", "),\n  ("), "["), "]"))

	// ---- the parser object and the statement value
	var po [][2]string
	eq := FindFunc(ls, "listener", "EnterQueryStmt")
	if eq == nil {
		return "", fmt.Errorf("EnterQueryStmt not found")
	}
	var eqs []string
	for _, st := range eq.Body.List {
		eqs = append(eqs, c17NodeText(st))
	}
	po = append(po, [2]string{"EnterQueryStmt", strings.Join(eqs, "; ")})
	nq := FindFunc(qp, "", "newQueryStmtParse")
	if nq == nil {
		return "", fmt.Errorf("newQueryStmtParse not found")
	}
	var nqs, base []string
	for _, st := range nq.Body.List {
		t := c17NodeText(st)
		if rs, ok := st.(*ast.ReturnStmt); ok && len(rs.Results) == 1 {
			if ue, ok := rs.Results[0].(*ast.UnaryExpr); ok && ue.Op == token.AND {
				if cl, ok := ue.X.(*ast.CompositeLit); ok {
					t = "return &" + exprText(cl.Type) + "{" + c17LitKeys(cl) + "}"
					for _, e := range cl.Elts {
						if kv, ok := e.(*ast.KeyValueExpr); ok && exprText(kv.Key) == "baseStmtParser" {
							if bl, ok := kv.Value.(*ast.CompositeLit); ok {
								base = append(base, c17LitKeys(bl))
							}
						}
					}
				}
			}
		}
		nqs = append(nqs, t)
	}
	po = append(po, [2]string{"newQueryStmtParse", strings.Join(nqs, "; ")})
	po = append(po, [2]string{"newQueryStmtParse.baseStmtParser", strings.Join(base, "; ")})
	bd := FindFunc(qp, "queryStmtParser", "build")
	if bd == nil {
		return "", fmt.Errorf("build not found")
	}
	var bds []string
	ast.Inspect(bd.Body, func(n ast.Node) bool {
		if as, ok := n.(*ast.AssignStmt); ok && len(as.Lhs) == 1 {
			l := exprText(as.Lhs[0])
			if l == "query" || l == "query.SelectItems" || l == "query.OrderByItems" || l == "query.GroupBy" {
				bds = append(bds, c17NodeText(as))
			}
		}
		return true
	})
	po = append(po, [2]string{"build", strings.Join(bds, "; ")})
	pp := FindFunc(pf, "", "Parse")
	if pp == nil {
		return "", fmt.Errorf("sql.Parse not found")
	}
	var pps []string
	ast.Inspect(pp.Body, func(n ast.Node) bool {
		if as, ok := n.(*ast.AssignStmt); ok && len(as.Lhs) == 1 && exprText(as.Lhs[0]) == "sqlListener" {
			pps = append(pps, c17NodeText(as))
		}
		return true
	})
	po = append(po, [2]string{"Parse", strings.Join(pps, "; ")})
	// package-level variables of package sql that could carry parser state between parses
	var globals []string
	for _, f := range []*ast.File{qp, bp, ls} {
		for _, d := range f.Decls {
			if gd, ok := d.(*ast.GenDecl); ok && gd.Tok == token.VAR {
				for _, s := range gd.Specs {
					for _, n := range s.(*ast.ValueSpec).Names {
						globals = append(globals, n.Name)
					}
				}
			}
		}
	}
	po = append(po, [2]string{"package variables of listener / statement parsers", strings.Join(globals, ",")})
	fmt.Fprintf(&sb, "/-- how a parse obtains its parser object and its statement value -/\ndef parserObject : List (String × String) := [\n  %s]\n",
		strings.TrimSuffix(strings.TrimPrefix(strings.ReplaceAll(c17Pairs(po), "), (", "),\n  ("), "["), "]"))

	// ---- function types
	_, ft, err := ParseFile(repo, "aggregation/function/type.go")
	if err != nil {
		return "", err
	}
	var names []string
	for _, d := range ft.Decls {
		gd, ok := d.(*ast.GenDecl)
		if !ok || gd.Tok != token.CONST {
			continue
		}
		isFT := false
		for i, s := range gd.Specs {
			vs := s.(*ast.ValueSpec)
			if i == 0 {
				if vs.Type != nil && exprText(vs.Type) == "FuncType" && len(vs.Values) == 1 && exprText(vs.Values[0]) == "iota" {
					isFT = true
				}
			} else if vs.Type != nil || len(vs.Values) != 0 {
				isFT = false
			}
			if isFT {
				for _, n := range vs.Names {
					names = append(names, n.Name)
				}
			}
		}
		if !isFT {
			names = nil
		} else {
			break
		}
	}
	if len(names) == 0 {
		return "", fmt.Errorf("FuncType iota block not found (or not a plain iota block)")
	}
	strOf := map[string]string{}
	def := ""
	sf := FindFunc(ft, "FuncType", "String")
	if sf == nil {
		return "", fmt.Errorf("FuncType.String not found")
	}
	ast.Inspect(sf.Body, func(n ast.Node) bool {
		if cc, ok := n.(*ast.CaseClause); ok && len(cc.Body) == 1 {
			if rs, ok := cc.Body[0].(*ast.ReturnStmt); ok && len(rs.Results) == 1 {
				v := strings.Trim(exprText(rs.Results[0]), "\"")
				if len(cc.List) == 0 {
					def = v
				}
				for _, l := range cc.List {
					strOf[exprText(l)] = v
				}
			}
		}
		return true
	})
	sup := map[string]bool{}
	so := FindFunc(ft, "", "IsSupportOrderBy")
	if so == nil || len(so.Body.List) != 1 {
		return "", fmt.Errorf("IsSupportOrderBy not found or not a single return")
	}
	okShape := true
	var collect func(e ast.Expr)
	collect = func(e ast.Expr) {
		be, ok := e.(*ast.BinaryExpr)
		if !ok {
			okShape = false
			return
		}
		switch be.Op {
		case token.LOR:
			collect(be.X)
			collect(be.Y)
		case token.EQL:
			if exprText(be.X) != "t" {
				okShape = false
			}
			sup[exprText(be.Y)] = true
		default:
			okShape = false
		}
	}
	if rs, ok := so.Body.List[0].(*ast.ReturnStmt); ok && len(rs.Results) == 1 {
		collect(rs.Results[0])
	} else {
		okShape = false
	}
	if !okShape {
		return "", fmt.Errorf("IsSupportOrderBy is no longer a disjunction of t == <FuncType>")
	}
	var fts []string
	for i, n := range names {
		s, ok := strOf[n]
		if !ok {
			s = def
		}
		b := "false"
		if sup[n] {
			b = "true"
		}
		fts = append(fts, fmt.Sprintf("(%s, %d, %s, %s)", c17LeanStr(n), i, c17LeanStr(s), b))
	}
	fmt.Fprintf(&sb, "/-- FuncType: (name, number, String(), IsSupportOrderBy) -/\ndef funcTypes : List (String × Int × String × Bool) := [%s]\n", strings.Join(fts, ", "))

	// ---- visitFuncName's token switch
	vf := FindFunc(qp, "queryStmtParser", "visitFuncName")
	if vf == nil {
		return "", fmt.Errorf("visitFuncName not found")
	}
	var fns [][2]string
	ast.Inspect(vf.Body, func(n ast.Node) bool {
		cc, ok := n.(*ast.CaseClause)
		if !ok || len(cc.List) != 1 || len(cc.Body) != 1 {
			return true
		}
		as, ok := cc.Body[0].(*ast.AssignStmt)
		if !ok || exprText(as.Lhs[0]) != "callExpr.FuncType" {
			return true
		}
		c := exprText(cc.List[0])
		c = strings.TrimSuffix(strings.TrimPrefix(c, "ctx."), "() != nil")
		fns = append(fns, [2]string{c, strings.TrimPrefix(exprText(as.Rhs[0]), "function.")})
		return true
	})
	fmt.Fprintf(&sb, "/-- visitFuncName: (token, FuncType) -/\ndef funcNameSwitch : List (String × String) := %s\n", c17Pairs(fns))
	return sb.String(), nil
}
