package extract

import (
	"bytes"
	"fmt"
	"go/ast"
	"go/printer"
	"go/token"
	"os/exec"
	"strconv"
	"strings"
)

// c15goOut runs the go tool (in dir) and returns its trimmed output.
func c15goOut(dir string, args ...string) (string, error) {
	cmd := exec.Command("go", args...)
	cmd.Dir = dir
	out, err := cmd.Output()
	if err != nil {
		return "", fmt.Errorf("go %s: %v", strings.Join(args, " "), err)
	}
	return strings.TrimSpace(string(out)), nil
}

// c15bodies emits, for every {recv, func, leanName}, the top-level statements of the function body as a
// Lean string list.
func c15bodies(sb *strings.Builder, root, rel string, fns [][3]string) error {
	fset, f, err := ParseFile(root, rel)
	if err != nil {
		return err
	}
	for _, fn := range fns {
		fd := FindFunc(f, fn[0], fn[1])
		if fd == nil || fd.Body == nil {
			return fmt.Errorf("%s: %s.%s not found", rel, fn[0], fn[1])
		}
		var ss []string
		for _, st := range fd.Body.List {
			ss = append(ss, c15render(fset, st))
		}
		fmt.Fprintf(sb, "def %s : List String := %s\n", fn[2], LeanStrList(ss))
	}
	return nil
}

// C15: table footer constants/layout (kv/table/constants.go, builder.go Close, reader.go
// initialize), encoding.Uint32MinWidth as a Lean function, and the source text of the few
// comparisons / statement sequences the table and merged-iterator models mirror.
func init() {
	Register(Fact{Module: "C15", Gen: genC15})
}

func c15render(fset *token.FileSet, n ast.Node) string {
	var b bytes.Buffer
	_ = printer.Fprint(&b, fset, n)
	return strings.Join(strings.Fields(b.String()), " ")
}

// c15addends flattens a + b + c ... into its literal operands.
func c15addends(e ast.Expr, env map[string]int64) ([]int64, bool) {
	switch x := e.(type) {
	case *ast.ParenExpr:
		return c15addends(x.X, env)
	case *ast.BinaryExpr:
		if x.Op == token.ADD {
			a, ok1 := c15addends(x.X, env)
			b, ok2 := c15addends(x.Y, env)
			return append(a, b...), ok1 && ok2
		}
	}
	v, ok := evalInt(e, env, 0)
	return []int64{v}, ok
}

func c15constExpr(f *ast.File, name string) ast.Expr {
	for _, d := range f.Decls {
		gd, ok := d.(*ast.GenDecl)
		if !ok || gd.Tok != token.CONST {
			continue
		}
		for _, s := range gd.Specs {
			vs := s.(*ast.ValueSpec)
			for j, n := range vs.Names {
				if n.Name == name && j < len(vs.Values) {
					return vs.Values[j]
				}
			}
		}
	}
	return nil
}

// c15sliceBounds returns lo, hi of a slice expression `x[lo:hi]` evaluated with env (missing lo = 0,
// missing hi = def).
func c15sliceBounds(e ast.Expr, env map[string]int64, def int64) (int64, int64, bool) {
	se, ok := e.(*ast.SliceExpr)
	if !ok {
		return 0, 0, false
	}
	lo, hi := int64(0), def
	if se.Low != nil {
		v, ok := evalInt(se.Low, env, 0)
		if !ok {
			return 0, 0, false
		}
		lo = v
	}
	if se.High != nil {
		v, ok := evalInt(se.High, env, 0)
		if !ok {
			return 0, 0, false
		}
		hi = v
	}
	return lo, hi, true
}

func genC15(repo string) (string, error) {
	var sb strings.Builder
	// ---- constants.go
	_, cf, err := ParseFile(repo, "kv/table/constants.go")
	if err != nil {
		return "", err
	}
	cs := ConstInts(cf)
	for _, n := range []string{"magicNumberOffsetFile", "version0", "sstFileFooterSize", "magicNumberAtFooter"} {
		v, ok := cs[n]
		if !ok || v < 0 {
			return "", fmt.Errorf("constant %s not found in kv/table/constants.go", n)
		}
		fmt.Fprintf(&sb, "def %s : Nat := %d\n", n, v)
	}
	parts, ok := c15addends(c15constExpr(cf, "sstFileFooterSize"), cs)
	if !ok {
		return "", fmt.Errorf("sstFileFooterSize is not a sum of literals")
	}
	var ps []string
	for _, p := range parts {
		ps = append(ps, strconv.FormatInt(p, 10))
	}
	fmt.Fprintf(&sb, "/-- the addends of sstFileFooterSize, in source order -/\ndef footerFieldSizes : List Nat := [%s]\n", strings.Join(ps, ", "))

	// ---- builder.go
	bfset, bf, err := ParseFile(repo, "kv/table/builder.go")
	if err != nil {
		return "", err
	}
	closeFn := FindFunc(bf, "storeBuilder", "Close")
	if closeFn == nil {
		return "", fmt.Errorf("storeBuilder.Close not found")
	}
	// var buf [N]byte and the writes into it
	bufLen := int64(-1)
	var writes []string
	ast.Inspect(closeFn.Body, func(n ast.Node) bool {
		switch x := n.(type) {
		case *ast.ValueSpec:
			if len(x.Names) == 1 && x.Names[0].Name == "buf" {
				if at, ok := x.Type.(*ast.ArrayType); ok && at.Len != nil {
					if v, ok := evalInt(at.Len, cs, 0); ok {
						bufLen = v
					}
				}
			}
		case *ast.CallExpr:
			if se, ok := x.Fun.(*ast.SelectorExpr); ok && (se.Sel.Name == "PutUint32" || se.Sel.Name == "PutUint64") && len(x.Args) == 2 {
				if lo, hi, ok := c15sliceBounds(x.Args[0], cs, bufLen); ok {
					writes = append(writes, fmt.Sprintf("(%q, %d, %d, %q)", se.Sel.Name, lo, hi, c15render(bfset, x.Args[1])))
				}
			}
		case *ast.AssignStmt:
			if len(x.Lhs) == 1 && len(x.Rhs) == 1 {
				if ie, ok := x.Lhs[0].(*ast.IndexExpr); ok {
					if id, ok := ie.X.(*ast.Ident); ok && id.Name == "buf" {
						if v, ok := evalInt(ie.Index, cs, 0); ok {
							writes = append(writes, fmt.Sprintf("(%q, %d, %d, %q)", "byte", v, v+1, c15render(bfset, x.Rhs[0])))
						}
					}
				}
			}
		}
		return true
	})
	if bufLen < 0 || len(writes) == 0 {
		return "", fmt.Errorf("footer buffer of storeBuilder.Close not recognised")
	}
	fmt.Fprintf(&sb, "\n/-- `var buf [N]byte` in storeBuilder.Close -/\ndef closeBufLen : Nat := %d\n", bufLen)
	fmt.Fprintf(&sb, "/-- writes into buf in source order: (what, from, to, value expression) -/\ndef closeFooterWrites : List (String × Nat × Nat × String) := [%s]\n", strings.Join(writes, ", "))
	fmt.Fprintf(&sb, "def closeCalls : List String := %s\n", LeanStrList(CallSeq(closeFn)))

	ens := FindFunc(bf, "storeBuilder", "ensureIncreasingKey")
	if ens == nil {
		return "", fmt.Errorf("ensureIncreasingKey not found")
	}
	var conds []string
	for _, st := range ens.Body.List {
		if is, ok := st.(*ast.IfStmt); ok {
			conds = append(conds, c15render(bfset, is.Cond))
		}
	}
	fmt.Fprintf(&sb, "/-- the `if` conditions of ensureIncreasingKey, in order (first returns true, second false) -/\ndef ensureIncreasingConds : List String := %s\n", LeanStrList(conds))
	fmt.Fprintf(&sb, "def afterWriteCalls : List String := %s\n", LeanStrList(CallSeq(FindFunc(bf, "storeBuilder", "afterWrite"))))
	var aw []string
	if f := FindFunc(bf, "storeBuilder", "afterWrite"); f != nil {
		for _, st := range f.Body.List {
			aw = append(aw, c15render(bfset, st))
		}
	}
	fmt.Fprintf(&sb, "def afterWriteStmts : List String := %s\n", LeanStrList(aw))
	fmt.Fprintf(&sb, "def addCalls : List String := %s\n", LeanStrList(CallSeq(FindFunc(bf, "storeBuilder", "Add"))))
	var sw []string
	for _, fn := range []string{"Prepare", "Write", "Commit"} {
		f := FindFunc(bf, "streamWriter", fn)
		if f == nil {
			return "", fmt.Errorf("streamWriter.%s not found", fn)
		}
		var ss []string
		for _, st := range f.Body.List {
			ss = append(ss, c15render(bfset, st))
		}
		sw = append(sw, strings.Join(ss, " ; "))
	}
	fmt.Fprintf(&sb, "/-- bodies of streamWriter.Prepare / Write / Commit -/\ndef streamWriterBodies : List String := %s\n", LeanStrList(sw))

	// ---- reader.go
	rfset, rf, err := ParseFile(repo, "kv/table/reader.go")
	if err != nil {
		return "", err
	}
	initFn := FindFunc(rf, "storeMMapReader", "initialize")
	if initFn == nil {
		return "", fmt.Errorf("storeMMapReader.initialize not found")
	}
	env := map[string]int64{"footerStart": 0}
	for k, v := range cs {
		env[k] = v
	}
	var reads []string
	ast.Inspect(initFn.Body, func(n ast.Node) bool {
		ce, ok := n.(*ast.CallExpr)
		if !ok || len(ce.Args) != 1 {
			return true
		}
		name := exprName(ce.Fun)
		if name == "uint64Func" || strings.HasSuffix(name, ".Uint32") || strings.HasSuffix(name, ".Uint64") {
			if lo, hi, ok := c15sliceBounds(ce.Args[0], env, -1); ok {
				w := "Uint32"
				if strings.Contains(name, "64") {
					w = "Uint64"
				}
				if hi < 0 { // open slice: the reader takes the width of the integer
					if w == "Uint64" {
						hi = lo + 8
					} else {
						hi = lo + 4
					}
				}
				reads = append(reads, fmt.Sprintf("(%q, %d, %d)", w, lo, hi))
			}
		}
		return true
	})
	fmt.Fprintf(&sb, "\n/-- reads of storeMMapReader.initialize relative to footerStart, source order: (what, from, to) -/\ndef readerFooterReads : List (String × Nat × Nat) := [%s]\n", strings.Join(reads, ", "))
	var sorted string
	ast.Inspect(initFn.Body, func(n ast.Node) bool {
		if ce, ok := n.(*ast.CallExpr); ok && exprName(ce.Fun) == "intsAreSortedFunc" && len(ce.Args) == 1 {
			sorted = c15render(rfset, ce.Args[0])
		}
		return true
	})
	fmt.Fprintf(&sb, "def readerSortedCheck : String := %s\n", strconv.Quote(sorted))
	var gs []string
	if f := FindFunc(rf, "storeMMapReader", "Get"); f != nil {
		for _, st := range f.Body.List {
			gs = append(gs, c15render(rfset, st))
		}
	}
	fmt.Fprintf(&sb, "def readerGetStmts : List String := %s\n", LeanStrList(gs))
	var vs []string
	if f := FindFunc(rf, "storeMMapIterator", "Value"); f != nil {
		for _, st := range f.Body.List {
			vs = append(vs, c15render(rfset, st))
		}
	}
	fmt.Fprintf(&sb, "def iteratorValueStmts : List String := %s\n", LeanStrList(vs))
	var nis []string
	if f := FindFunc(rf, "", "newMMapIterator"); f != nil {
		for _, st := range f.Body.List {
			nis = append(nis, c15render(rfset, st))
		}
	}
	fmt.Fprintf(&sb, "/-- every Reader.Iterator() call allocates a new iterator object -/\ndef newMMapIteratorStmts : List String := %s\n", LeanStrList(nis))

	// ---- iterator.go
	ifset, itf, err := ParseFile(repo, "kv/table/iterator.go")
	if err != nil {
		return "", err
	}
	stm := func(recv, name string) ([]string, error) {
		f := FindFunc(itf, recv, name)
		if f == nil {
			return nil, fmt.Errorf("%s.%s not found in kv/table/iterator.go", recv, name)
		}
		var ss []string
		for _, st := range f.Body.List {
			ss = append(ss, c15render(ifset, st))
		}
		return ss, nil
	}
	for _, m := range []string{"Less", "Swap", "Push", "Pop", "update"} {
		ss, err := stm("priorityQueue", m)
		if err != nil {
			return "", err
		}
		fmt.Fprintf(&sb, "def pq%sStmts : List String := %s\n", m, LeanStrList(ss))
	}
	fmt.Fprintf(&sb, "def hasNextCalls : List String := %s\n", LeanStrList(CallSeq(FindFunc(itf, "mergedIterator", "HasNext"))))
	fmt.Fprintf(&sb, "def initQueueCalls : List String := %s\n", LeanStrList(CallSeq(FindFunc(itf, "mergedIterator", "initQueue"))))

	// ---- version.go FindFiles
	vfset, vf, err := ParseFile(repo, "kv/version/version.go")
	if err != nil {
		return "", err
	}
	ff := FindFunc(vf, "version", "FindFiles")
	if ff == nil {
		return "", fmt.Errorf("version.FindFiles not found")
	}
	var ffc string
	ast.Inspect(ff.Body, func(n ast.Node) bool {
		if is, ok := n.(*ast.IfStmt); ok && ffc == "" {
			ffc = c15render(vfset, is.Cond)
		}
		return true
	})
	fmt.Fprintf(&sb, "\ndef findFilesCond : String := %s\n", strconv.Quote(ffc))
	// FindFiles consults every file of every level: what it ranges over, and every jump out of /
	// inside its loops (there is none: no break, continue, return or goto below a `for`)
	var ffLoops, ffJumps, ffStmts []string
	for _, st := range ff.Body.List {
		ffStmts = append(ffStmts, c15render(vfset, st))
	}
	var walkLoops func(n ast.Node, inLoop bool)
	walkLoops = func(n ast.Node, inLoop bool) {
		ast.Inspect(n, func(m ast.Node) bool {
			switch x := m.(type) {
			case *ast.RangeStmt:
				ffLoops = append(ffLoops, c15render(vfset, x.X))
				walkLoops(x.Body, true)
				return false
			case *ast.ForStmt:
				ffLoops = append(ffLoops, "for "+c15render(vfset, x.Cond))
				walkLoops(x.Body, true)
				return false
			case *ast.BranchStmt:
				if inLoop {
					ffJumps = append(ffJumps, c15render(vfset, x))
				}
			case *ast.ReturnStmt:
				if inLoop {
					ffJumps = append(ffJumps, c15render(vfset, x))
				}
			}
			return true
		})
	}
	walkLoops(ff.Body, false)
	fmt.Fprintf(&sb, "def findFilesLoops : List String := %s\n", LeanStrList(ffLoops))
	fmt.Fprintf(&sb, "def findFilesJumps : List String := %s\n", LeanStrList(ffJumps))
	fmt.Fprintf(&sb, "def findFilesStmts : List String := %s\n", LeanStrList(ffStmts))
	// the level: a plain set of files (no cached key range), getFiles returns all of them
	lfset, lf, err := ParseFile(repo, "kv/version/level.go")
	if err != nil {
		return "", err
	}
	var levelFields []string
	for _, d := range lf.Decls {
		gd, ok := d.(*ast.GenDecl)
		if !ok || gd.Tok != token.TYPE {
			continue
		}
		for _, sp := range gd.Specs {
			ts := sp.(*ast.TypeSpec)
			if st, ok := ts.Type.(*ast.StructType); ok && ts.Name.Name == "level" {
				for _, f := range st.Fields.List {
					for _, n := range f.Names {
						levelFields = append(levelFields, n.Name+" "+c15render(lfset, f.Type))
					}
				}
			}
		}
	}
	fmt.Fprintf(&sb, "def levelFields : List String := %s\n", LeanStrList(levelFields))
	var gf []string
	if f := FindFunc(lf, "level", "getFiles"); f != nil {
		for _, st := range f.Body.List {
			gf = append(gf, c15render(lfset, st))
		}
	}
	fmt.Fprintf(&sb, "def levelGetFilesStmts : List String := %s\n", LeanStrList(gf))
	// a version's level maps are its own objects: newLevel allocates, Clone adds every file to the
	// clone's fresh levels, addFile/deleteFile act on the receiver's map
	for _, fn := range [][2]string{{"", "newLevel"}, {"level", "addFile"}, {"level", "deleteFile"}} {
		f := FindFunc(lf, fn[0], fn[1])
		if f == nil {
			return "", fmt.Errorf("kv/version/level.go: %s not found", fn[1])
		}
		var ss []string
		for _, st := range f.Body.List {
			ss = append(ss, c15render(lfset, st))
		}
		fmt.Fprintf(&sb, "def level_%s_Stmts : List String := %s\n", fn[1], LeanStrList(ss))
	}
	cl := FindFunc(vf, "version", "Clone")
	if cl == nil {
		return "", fmt.Errorf("version.Clone not found")
	}
	var cloneLoops []string
	for _, st := range cl.Body.List {
		if rs, ok := st.(*ast.RangeStmt); ok && c15render(vfset, rs.X) == "v.levels" {
			cloneLoops = append(cloneLoops, c15render(vfset, rs))
		}
	}
	fmt.Fprintf(&sb, "def versionCloneLevelLoops : List String := %s\n", LeanStrList(cloneLoops))
	var nvl []string
	if nv := FindFunc(vf, "", "newVersion"); nv != nil {
		for _, st := range nv.Body.List {
			if fs, ok := st.(*ast.ForStmt); ok {
				nvl = append(nvl, c15render(vfset, fs))
			}
		}
	}
	fmt.Fprintf(&sb, "def newVersionLevelLoops : List String := %s\n", LeanStrList(nvl))
	_, snf, err := ParseFile(repo, "kv/version/snapshot.go")
	if err != nil {
		return "", err
	}
	fmt.Fprintf(&sb, "def snapshotLoadCalls : List String := %s\n", LeanStrList(CallSeq(FindFunc(snf, "snapshot", "Load"))))
	// every guarded jump of Load / FindReaders, in source order: "cond => jump"
	snfset, snf2, err := ParseFile(repo, "kv/version/snapshot.go")
	if err != nil {
		return "", err
	}
	for _, fn := range []string{"Load", "FindReaders"} {
		f := FindFunc(snf2, "snapshot", fn)
		if f == nil {
			return "", fmt.Errorf("snapshot.%s not found", fn)
		}
		var js []string
		ast.Inspect(f.Body, func(n ast.Node) bool {
			is, ok := n.(*ast.IfStmt)
			if !ok {
				return true
			}
			for _, st := range is.Body.List {
				switch x := st.(type) {
				case *ast.BranchStmt, *ast.ReturnStmt:
					hd := c15render(snfset, is.Cond)
					if is.Init != nil {
						hd = c15render(snfset, is.Init) + "; " + hd
					}
					js = append(js, hd+" => "+c15render(snfset, x))
				}
			}
			return true
		})
		var loops []string
		ast.Inspect(f.Body, func(n ast.Node) bool {
			if r, ok := n.(*ast.RangeStmt); ok {
				loops = append(loops, c15render(snfset, r.X))
			}
			return true
		})
		fmt.Fprintf(&sb, "def snapshot%sJumps : List String := %s\n", fn, LeanStrList(js))
		fmt.Fprintf(&sb, "def snapshot%sLoops : List String := %s\n", fn, LeanStrList(loops))
	}

	// ---- encoding.Uint32MinWidth as a Lean function
	_, ef, err := ParseFile(repo, "pkg/encoding/encoding.go")
	if err != nil {
		return "", err
	}
	mw := FindFunc(ef, "", "Uint32MinWidth")
	if mw == nil || len(mw.Body.List) != 1 {
		return "", fmt.Errorf("Uint32MinWidth not recognised")
	}
	sws, ok := mw.Body.List[0].(*ast.SwitchStmt)
	if !ok || sws.Tag != nil {
		return "", fmt.Errorf("Uint32MinWidth: expected a tagless switch")
	}
	var body strings.Builder
	def := ""
	for _, c := range sws.Body.List {
		cc := c.(*ast.CaseClause)
		if len(cc.Body) != 1 {
			return "", fmt.Errorf("Uint32MinWidth: case body not a single return")
		}
		rs, ok := cc.Body[0].(*ast.ReturnStmt)
		if !ok || len(rs.Results) != 1 {
			return "", fmt.Errorf("Uint32MinWidth: case body not a return")
		}
		rv, ok := evalInt(rs.Results[0], nil, 0)
		if !ok {
			return "", fmt.Errorf("Uint32MinWidth: return value not a literal")
		}
		if cc.List == nil {
			def = strconv.FormatInt(rv, 10)
			continue
		}
		if def != "" {
			return "", fmt.Errorf("Uint32MinWidth: default is not the last clause")
		}
		be, ok := cc.List[0].(*ast.BinaryExpr)
		if !ok || len(cc.List) != 1 || be.Op != token.LSS {
			return "", fmt.Errorf("Uint32MinWidth: case is not `value < c`")
		}
		if id, ok := be.X.(*ast.Ident); !ok || id.Name != "value" {
			return "", fmt.Errorf("Uint32MinWidth: case is not `value < c`")
		}
		th, ok := evalInt(be.Y, nil, 0)
		if !ok {
			return "", fmt.Errorf("Uint32MinWidth: threshold not constant")
		}
		fmt.Fprintf(&body, "if value < %d then %d else ", th, rv)
	}
	if def == "" {
		return "", fmt.Errorf("Uint32MinWidth: no default clause")
	}
	fmt.Fprintf(&sb, "\n/-- encoding.Uint32MinWidth -/\ndef uint32MinWidth (value : Nat) : Nat :=\n  %s%s\n", body.String(), def)

	// ---- kv/flusher.go: Close before the NewFile log
	_, kff, err := ParseFile(repo, "kv/flusher.go")
	if err != nil {
		return "", err
	}
	fmt.Fprintf(&sb, "\ndef storeFlusherCommitCalls : List String := %s\n", LeanStrList(CallSeq(FindFunc(kff, "storeFlusher", "Commit"))))

	// ---- pkg/bufioutil: the table builder's writer
	bwfset, bwf, err := ParseFile(repo, "pkg/bufioutil/bufio_writer.go")
	if err != nil {
		return "", err
	}
	bwc := ConstInts(bwf)
	wbs, ok := bwc["defaultWriteBufferSize"]
	if !ok {
		return "", fmt.Errorf("defaultWriteBufferSize not found in pkg/bufioutil/bufio_writer.go")
	}
	fmt.Fprintf(&sb, "\ndef defaultWriteBufferSize : Nat := %d\n", wbs)
	bww := FindFunc(bwf, "bufioStreamWriter", "Write")
	if bww == nil {
		return "", fmt.Errorf("bufioStreamWriter.Write not found")
	}
	var bws []string
	for _, st := range bww.Body.List {
		bws = append(bws, c15render(bwfset, st))
	}
	fmt.Fprintf(&sb, "def bufioStreamWriteStmts : List String := %s\n", LeanStrList(bws))

	// ---- FixedOffsetDecoder.GetBlock / Get / Encoder.Write: statement text
	ofset, of, err := ParseFile(repo, "pkg/encoding/fixed_offset.go")
	if err != nil {
		return "", err
	}
	for _, fn := range [][2]string{{"FixedOffsetDecoder", "GetBlock"}, {"FixedOffsetDecoder", "Get"}, {"FixedOffsetEncoder", "Add"}} {
		f := FindFunc(of, fn[0], fn[1])
		if f == nil {
			return "", fmt.Errorf("%s.%s not found", fn[0], fn[1])
		}
		var conds []string
		ast.Inspect(f.Body, func(n ast.Node) bool {
			if is, ok := n.(*ast.IfStmt); ok {
				conds = append(conds, c15render(ofset, is.Cond))
			}
			return true
		})
		fmt.Fprintf(&sb, "def fixedOffset%sConds : List String := %s\n", fn[1], LeanStrList(conds))
	}
	fmt.Fprintf(&sb, "def fixedOffsetWriteCalls : List String := %s\n", LeanStrList(CallSeq(FindFunc(of, "FixedOffsetEncoder", "Write"))))

	// ---- reader.go: the checks of newMMapStoreReader / initialize (every top-level `if`, source
	// order) and every slice expression of initialize (Model: Reader.openE, footerPos)
	topIfs := func(fn *ast.FuncDecl) []string {
		var cs []string
		for _, st := range fn.Body.List {
			if is, ok := st.(*ast.IfStmt); ok {
				hd := c15render(rfset, is.Cond)
				if is.Init != nil {
					hd = c15render(rfset, is.Init) + "; " + hd
				}
				cs = append(cs, hd)
			}
		}
		return cs
	}
	newReader := FindFunc(rf, "", "newMMapStoreReader")
	if newReader == nil {
		return "", fmt.Errorf("newMMapStoreReader not found")
	}
	fmt.Fprintf(&sb, "\n/-- the top-level checks of newMMapStoreReader, then of initialize -/\ndef readerOpenChecks : List String := %s\n",
		LeanStrList(append(topIfs(newReader), topIfs(initFn)...)))
	var slices []string
	ast.Inspect(initFn.Body, func(n ast.Node) bool {
		if se, ok := n.(*ast.SliceExpr); ok {
			slices = append(slices, c15render(rfset, se))
		}
		return true
	})
	fmt.Fprintf(&sb, "def readerInitSlices : List String := %s\n", LeanStrList(slices))

	// whose FixedOffsetDecoder a reader reads through: every place in reader.go that sets the
	// `offsets` field, and every use of encoding's decoder pool (Model/TableDecoders.lean)
	var decSites []string
	for _, d := range rf.Decls {
		fd, ok := d.(*ast.FuncDecl)
		if !ok || fd.Body == nil {
			continue
		}
		ast.Inspect(fd.Body, func(n ast.Node) bool {
			switch x := n.(type) {
			case *ast.AssignStmt:
				for _, l := range x.Lhs {
					if se, ok := l.(*ast.SelectorExpr); ok && se.Sel.Name == "offsets" {
						decSites = append(decSites, fd.Name.Name+": "+c15render(rfset, x))
					}
				}
			case *ast.KeyValueExpr:
				if id, ok := x.Key.(*ast.Ident); ok && id.Name == "offsets" {
					decSites = append(decSites, fd.Name.Name+": "+c15render(rfset, x))
				}
			case *ast.CallExpr:
				f := c15render(rfset, x.Fun)
				if strings.HasPrefix(f, "encoding.") && strings.Contains(f, "FixedOffsetDecoder") && f != "encoding.NewFixedOffsetDecoder" {
					decSites = append(decSites, fd.Name.Name+": "+c15render(rfset, x))
				}
			}
			return true
		})
	}
	fmt.Fprintf(&sb, "/-- every assignment of a reader's `offsets` field and every use of encoding's FixedOffsetDecoder pool in kv/table/reader.go -/\ndef readerDecoderSites : List String := %s\n", LeanStrList(decSites))

	// ---- cache.go: the reader cache (Model/TableLRU.lean), statement for statement
	cfset, cachef, err := ParseFile(repo, "kv/table/cache.go")
	if err != nil {
		return "", err
	}
	for _, fn := range [][3]string{
		{"storeCache", "GetReader", "cacheGetReaderStmts"}, {"storeCache", "ReleaseReaders", "cacheReleaseStmts"},
		{"storeCache", "Evict", "cacheEvictStmts"}, {"storeCache", "Cleanup", "cacheCleanupStmts"},
		{"storeCache", "evict", "cacheEvictEntryStmts"}, {"cacheEntry", "retain", "cacheRetainStmts"},
		{"cacheEntry", "release", "cacheReleaseEntryStmts"}, {"LRUCache", "Add", "lruAddStmts"},
		{"LRUCache", "Get", "lruGetStmts"}, {"LRUCache", "Remove", "lruRemoveStmts"},
		{"LRUCache", "Walk", "lruWalkStmts"}, {"LRUCache", "removeElement", "lruRemoveElementStmts"},
	} {
		f := FindFunc(cachef, fn[0], fn[1])
		if f == nil {
			return "", fmt.Errorf("kv/table/cache.go: %s.%s not found", fn[0], fn[1])
		}
		var ss []string
		for _, st := range f.Body.List {
			s := c15render(cfset, st)
			if strings.HasPrefix(s, "metrics.") { // counters: not modelled
				continue
			}
			ss = append(ss, s)
		}
		fmt.Fprintf(&sb, "def %s : List String := %s\n", fn[2], LeanStrList(ss))
	}

	// ---- Go's container/heap as compiled into the harness (GOROOT of the local toolchain): the bodies that
	// Model/MergedIter.lean transcribes (up, down, Init, Fix, Pop, Push)
	goroot, err := c15goOut(repo, "env", "GOROOT")
	if err != nil {
		return "", err
	}
	fmt.Fprintf(&sb, "\n/-- container/heap (GOROOT/src/container/heap/heap.go), statement for statement -/\n")
	if err := c15bodies(&sb, goroot, "src/container/heap/heap.go", [][3]string{
		{"", "Init", "goHeapInitStmts"}, {"", "Push", "goHeapPushStmts"}, {"", "Pop", "goHeapPopStmts"},
		{"", "Fix", "goHeapFixStmts"}, {"", "up", "goHeapUpStmts"}, {"", "down", "goHeapDownStmts"},
	}); err != nil {
		return "", err
	}

	// ---- the roaring module lindb is built with (go.mod's version, module cache): Bitmap.Rank / Contains and
	// the per-container rank functions Model/C15Roaring.lean follows
	rdir, err := c15goOut(repo, "list", "-m", "-f", "{{.Dir}}", "github.com/lindb/roaring")
	if err != nil {
		return "", err
	}
	rver, err := c15goOut(repo, "list", "-m", "-f", "{{.Version}}", "github.com/lindb/roaring")
	if err != nil {
		return "", err
	}
	fmt.Fprintf(&sb, "\n/-- github.com/lindb/roaring as required by go.mod -/\ndef roaringVersion : String := %q\n", rver)
	if err := c15bodies(&sb, rdir, "roaring.go", [][3]string{
		{"Bitmap", "Rank", "roaringRankStmts"}, {"Bitmap", "Contains", "roaringContainsStmts"},
	}); err != nil {
		return "", err
	}
	if err := c15bodies(&sb, rdir, "arraycontainer.go", [][3]string{{"arrayContainer", "rank", "roaringArrayRankStmts"}}); err != nil {
		return "", err
	}
	if err := c15bodies(&sb, rdir, "runcontainer.go", [][3]string{{"runContainer16", "rank", "roaringRunRankStmts"}}); err != nil {
		return "", err
	}
	return sb.String(), nil
}
