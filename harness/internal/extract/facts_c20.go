package extract

import (
	"bytes"
	"fmt"
	"go/ast"
	"go/parser"
	"go/printer"
	"go/token"
	"strings"
)

// C20: constants of the succinct trie (terminator label, word / block / sample sizes, bitmap
// kinds), the `skipEnd` formula of the builder's group scan, the three position formulas of
// trie.go (as functions of the rank/select primitives) and the call orders of Get / buildNodes /
// Seek / TrieBucket.Write / TrieBucketBuilder.Write / indexKVMerger.Merge.
func init() {
	Register(Fact{Module: "C20", Gen: func(repo string) (string, error) {
		parse := func(rel string) (*ast.File, error) {
			_, f, err := ParseFile(repo, rel)
			return f, err
		}
		var files []*ast.File
		byName := map[string]*ast.File{}
		for _, n := range []string{"label_vector.go", "bits.go", "rank.go", "select.go", "level.go", "trie.go", "builder.go", "iterator.go"} {
			f, err := parse("pkg/trie/" + n)
			if err != nil {
				return "", err
			}
			files = append(files, f)
			byName[n] = f
		}
		cs := ConstInts(files...)
		var sb strings.Builder
		for _, n := range []string{"labelTerminator", "wordSize", "rankSparseBlockSize", "selectSampleInterval", "HasChild", "Louds", "HasPrefix", "HasSuffix"} {
			v, ok := cs[n]
			if !ok {
				return "", fmt.Errorf("constant %s not found in pkg/trie", n)
			}
			name := n
			if n[0] >= 'A' && n[0] <= 'Z' {
				name = "bitmap" + n
			}
			fmt.Fprintf(&sb, "def %s : Nat := %s\n", name, LeanInt(v))
		}
		// skipEnd := groupEnd + 4
		bn := FindFunc(byName["builder.go"], "builder", "buildNodes")
		se, err := ExprDef(FindAssign(bn, "skipEnd"), "skipEnd", []string{"groupEnd"}, nil, nil)
		if err != nil {
			return "", err
		}
		sb.WriteString("\n" + se)
		// position formulas: the single return expression, over the rank / select primitive
		ret := func(recv, fn string) (ast.Expr, error) {
			fd := FindFunc(byName["trie.go"], recv, fn)
			if fd == nil || fd.Body == nil || len(fd.Body.List) != 1 {
				return nil, fmt.Errorf("%s.%s is not a single return", recv, fn)
			}
			rs, ok := fd.Body.List[0].(*ast.ReturnStmt)
			if !ok || len(rs.Results) != 1 {
				return nil, fmt.Errorf("%s.%s is not a single return", recv, fn)
			}
			return rs.Results[0], nil
		}
		for _, f := range []struct{ fn, prim, goPrim, param string }{
			{"valuePos", "rankF", "Rank", "pos"},
			{"firstLabelPos", "selectF", "Select", "nodeID"},
			{"childNodeID", "rankF", "Rank", "pos"},
			{"nodeSize", "distF", "DistanceToNextSetBit", "pos"},
		} {
			e, err := ret("trie", f.fn)
			if err != nil {
				return "", err
			}
			t := &ifTr{calls: map[string]string{f.goPrim: f.prim}}
			s, err := t.expr(e)
			if err != nil {
				return "", fmt.Errorf("%s: %w", f.fn, err)
			}
			fmt.Fprintf(&sb, "\ndef %s (%s : Int → Int) (%s : Int) : Int :=\n  %s\n", f.fn, f.prim, leanIdent(f.param), s)
		}
		// call orders
		getCalls := CallSeq(FindFunc(byName["trie.go"], "trie", "Get"))
		seekCalls := CallSeq(FindFunc(byName["iterator.go"], "Iterator", "Seek"))
		has := func(xs []string, after, name string) bool {
			seen := after == ""
			for _, x := range xs {
				if x == after {
					seen = true
				} else if seen && x == name {
					return true
				}
			}
			return false
		}
		// which variant of the two repaired functions the source has (fixes/C20-*.patch): the models
		// follow these switches
		fmt.Fprintf(&sb, "\n/-- `trie.Get` tests `!isEndOfNode(pos)` before taking a first label 0xff for the terminator -/\ndef getChecksEndOfNode : Bool := %v\n", has(getCalls, "labelVec.GetLabel", "tree.isEndOfNode"))
		fmt.Fprintf(&sb, "\n/-- `Iterator.Seek` compares the landing key with the probe and steps once when it is smaller -/\ndef seekStepsToLowerBound : Bool := %v\n", has(seekCalls, "it.moveToRightMostKey", "bytes.Compare") && has(seekCalls, "bytes.Compare", "it.Next"))
		sb.WriteString("\ndef getCalls : List String := " + LeanStrList(getCalls) + "\n")
		sb.WriteString("\ndef buildNodesCalls : List String := " + LeanStrList(CallSeq(bn)) + "\n")
		sb.WriteString("\ndef seekCalls : List String := " + LeanStrList(seekCalls) + "\n")
		sb.WriteString("\ndef searchCalls : List String := " + LeanStrList(CallSeq(FindFunc(byName["label_vector.go"], "labelVector", "Search"))) + "\n")
		// serialised layout: table sizes as the writer and the reader compute them, and the order of
		// the sections in Write / UnmarshalBinary / MarshalSize
		fieldExpr := func(e ast.Expr, what string, params []string, consts map[string]int64) (string, error) {
			if e == nil {
				return "", fmt.Errorf("%s: expression not found", what)
			}
			var buf bytes.Buffer
			if err := printer.Fprint(&buf, token.NewFileSet(), e); err != nil {
				return "", err
			}
			src := strings.ReplaceAll(buf.String(), "v.", "")
			pe, err := parser.ParseExpr(src)
			if err != nil {
				return "", fmt.Errorf("%s: %w", what, err)
			}
			return ExprDef(pe, what, params, consts, nil)
		}
		retOf := func(f *ast.File, recv, fn string) ast.Expr {
			fd := FindFunc(f, recv, fn)
			if fd == nil || fd.Body == nil || len(fd.Body.List) != 1 {
				return nil
			}
			if rs, ok := fd.Body.List[0].(*ast.ReturnStmt); ok && len(rs.Results) == 1 {
				return rs.Results[0]
			}
			return nil
		}
		for _, d := range []struct {
			e      ast.Expr
			name   string
			params []string
		}{
			{retOf(byName["rank.go"], "rankVector", "lutSize"), "rankLutSize", []string{"numBits", "blockSize"}},
			{FindAssign(FindFunc(byName["rank.go"], "rankVector", "Write"), "nblks"), "rankWriteBlocks", []string{"numBits", "blockSize"}},
			{FindAssign(FindFunc(byName["rank.go"], "rankVector", "init"), "nblks"), "rankInitBlocks", []string{"numBits", "blockSize"}},
			{retOf(byName["select.go"], "selectVector", "lutSize"), "selectLutSize", []string{"numOnes"}},
			{FindAssign(FindFunc(byName["select.go"], "selectVector", "Write"), "lutBlk"), "selectWriteBlocks", []string{"numOnes"}},
		} {
			def, err := fieldExpr(d.e, d.name, d.params, cs)
			if err != nil {
				return "", err
			}
			sb.WriteString("\n" + def)
		}
		// re-used builder buffers: what bitVector.Init zeroes and what selectVector.Init ranges over
		rangeOf := func(f *ast.File, recv, fn string, zeroing bool) string {
			fd := FindFunc(f, recv, fn)
			out := "?"
			if fd == nil {
				return out
			}
			ast.Inspect(fd.Body, func(n ast.Node) bool {
				rs, ok := n.(*ast.RangeStmt)
				if !ok || out != "?" {
					return true
				}
				isZero := false
				if len(rs.Body.List) == 1 {
					if as, ok := rs.Body.List[0].(*ast.AssignStmt); ok && len(as.Rhs) == 1 {
						if bl, ok := as.Rhs[0].(*ast.BasicLit); ok && bl.Value == "0" {
							isZero = true
						}
					}
				}
				if isZero == zeroing {
					var buf bytes.Buffer
					_ = printer.Fprint(&buf, token.NewFileSet(), rs.X)
					out = buf.String()
				}
				return true
			})
			return out
		}
		bv, err := parse("pkg/trie/bits_vector.go")
		if err != nil {
			return "", err
		}
		fmt.Fprintf(&sb, "\n/-- the slice `bitVector.Init` zeroes when it re-uses a buffer -/\ndef bitInitZeroRange : String := %q\n", rangeOf(bv, "bitVector", "Init", true))
		fmt.Fprintf(&sb, "\n/-- the slice `selectVector.Init` ranges over -/\ndef selectInitRange : String := %q\n", rangeOf(byName["select.go"], "selectVector", "Init", false))
		sb.WriteString("\ndef resetCalls : List String := " + LeanStrList(CallSeq(FindFunc(byName["builder.go"], "builder", "Reset"))) + "\n")
		sb.WriteString("\ndef initWriteContextCalls : List String := " + LeanStrList(CallSeq(FindFunc(byName["builder.go"], "builder", "initWriteContext"))) + "\n")
		sb.WriteString("\ndef writeCalls : List String := " + LeanStrList(CallSeq(FindFunc(byName["builder.go"], "builder", "Write"))) + "\n")
		sb.WriteString("\ndef unmarshalCalls : List String := " + LeanStrList(CallSeq(FindFunc(byName["trie.go"], "trie", "UnmarshalBinary"))) + "\n")
		sb.WriteString("\ndef marshalSizeCalls : List String := " + LeanStrList(CallSeq(FindFunc(byName["builder.go"], "builder", "MarshalSize"))) + "\n")
		sb.WriteString("\ndef rankWriteCalls : List String := " + LeanStrList(CallSeq(FindFunc(byName["rank.go"], "rankVector", "Write"))) + "\n")
		sb.WriteString("\ndef rankUnmarshalCalls : List String := " + LeanStrList(CallSeq(FindFunc(byName["rank.go"], "rankVector", "Unmarshal"))) + "\n")
		sb.WriteString("\ndef pathWriteCalls : List String := " + LeanStrList(CallSeq(FindFunc(byName["label_vector.go"], "compressPathVector", "Write"))) + "\n")
		sb.WriteString("\ndef pathUnmarshalCalls : List String := " + LeanStrList(CallSeq(FindFunc(byName["label_vector.go"], "compressPathVector", "Unmarshal"))) + "\n")
		// round 8: the remaining readers, the cursor moves, and "every field of the object is assigned by
		// its Unmarshal" (a pooled trie object keeps nothing of its previous use)
		bvFile, err := parse("pkg/trie/bits_vector.go")
		if err != nil {
			return "", err
		}
		sb.WriteString("\ndef selectUnmarshalCalls : List String := " + LeanStrList(CallSeq(FindFunc(byName["select.go"], "selectVector", "Unmarshal"))) + "\n")
		sb.WriteString("\ndef labelUnmarshalCalls : List String := " + LeanStrList(CallSeq(FindFunc(byName["label_vector.go"], "labelVector", "Unmarshal"))) + "\n")
		sb.WriteString("\ndef valueUnmarshalCalls : List String := " + LeanStrList(CallSeq(FindFunc(byName["label_vector.go"], "valueVector", "Unmarshal"))) + "\n")
		sb.WriteString("\ndef bitUnmarshalCalls : List String := " + LeanStrList(CallSeq(FindFunc(bvFile, "bitVector", "unmarshal"))) + "\n")
		sb.WriteString("\ndef nextCalls : List String := " + LeanStrList(CallSeq(FindFunc(byName["iterator.go"], "Iterator", "Next"))) + "\n")
		sb.WriteString("\ndef prevCalls : List String := " + LeanStrList(CallSeq(FindFunc(byName["iterator.go"], "Iterator", "Prev"))) + "\n")
		for _, x := range []struct {
			name, typ, fn string
			file          *ast.File
		}{
			{"trie", "trie", "UnmarshalBinary", byName["trie.go"]},
			{"labelVector", "labelVector", "Unmarshal", byName["label_vector.go"]},
			{"valueVector", "valueVector", "Unmarshal", byName["label_vector.go"]},
			{"pathVector", "compressPathVector", "Unmarshal", byName["label_vector.go"]},
			{"bitVector", "bitVector", "unmarshal", bvFile},
			{"rankVector", "rankVector", "Unmarshal", byName["rank.go"]},
			{"selectVector", "selectVector", "Unmarshal", byName["select.go"]},
		} {
			fields := c20StructFields(x.file, x.typ)
			if fields == nil {
				return "", fmt.Errorf("struct %s not found", x.typ)
			}
			fd := FindFunc(x.file, x.typ, x.fn)
			if fd == nil {
				return "", fmt.Errorf("%s.%s not found", x.typ, x.fn)
			}
			fmt.Fprintf(&sb, "\ndef %sFields : List String := %s\n", x.name, LeanStrList(fields))
			fmt.Fprintf(&sb, "\ndef %sAssigned : List String := %s\n", x.name, LeanStrList(c20AssignedFields(fd)))
		}
		// like dispatch of the index kv store
		ks, err := parse("index/kv_store.go")
		if err != nil {
			return "", err
		}
		sb.WriteString("\ndef likeCalls : List String := " + LeanStrList(CallSeq(FindFunc(ks, "indexKVStore", "FindValuesByLike"))) + "\n")
		tb, err := parse("index/model/trie_bucket.go")
		if err != nil {
			return "", err
		}
		// control skeletons of the bucket loops (every trie is visited; the only early exit is "found")
		var skel func(stmts []ast.Stmt, out *[]string)
		show := func(n ast.Node) string {
			var buf bytes.Buffer
			_ = printer.Fprint(&buf, token.NewFileSet(), n)
			return buf.String()
		}
		skel = func(stmts []ast.Stmt, out *[]string) {
			for _, st := range stmts {
				switch x := st.(type) {
				case *ast.RangeStmt:
					*out = append(*out, "range "+show(x.X)+" {")
					skel(x.Body.List, out)
					*out = append(*out, "}")
				case *ast.ForStmt:
					c := ""
					if x.Cond != nil {
						c = show(x.Cond)
					}
					*out = append(*out, "for "+c+" {")
					skel(x.Body.List, out)
					*out = append(*out, "}")
				case *ast.IfStmt:
					*out = append(*out, "if "+show(x.Cond)+" {")
					skel(x.Body.List, out)
					*out = append(*out, "}")
					if x.Else != nil {
						*out = append(*out, "else {")
						if bl, ok := x.Else.(*ast.BlockStmt); ok {
							skel(bl.List, out)
						} else {
							skel([]ast.Stmt{x.Else}, out)
						}
						*out = append(*out, "}")
					}
				case *ast.ReturnStmt:
					*out = append(*out, "return")
				case *ast.BranchStmt:
					*out = append(*out, x.Tok.String())
				case *ast.BlockStmt:
					skel(x.List, out)
				}
			}
		}
		for _, d := range []struct{ fn, name string }{{"GetValue", "getValueLoop"}, {"FindValuesByLike", "findLikeLoop"},
			{"FindValuesByRegexp", "findRegexpLoop"}, {"Suggest", "suggestLoop"}, {"GetValues", "getValuesLoop"}} {
			fd := FindFunc(tb, "TrieBucket", d.fn)
			var out []string
			if fd != nil && fd.Body != nil {
				skel(fd.Body.List, &out)
			}
			sb.WriteString("\ndef " + d.name + " : List String := " + LeanStrList(out) + "\n")
		}
		// round 10: the lookup object carries no state of earlier lookups (its fields), and the bodies of
		// the word-arithmetic functions that Model/C20Words.lean mirrors statement by statement
		tbFields := c20StructFields(tb, "TrieBucket")
		if tbFields == nil {
			return "", fmt.Errorf("struct TrieBucket not found")
		}
		sb.WriteString("\ndef trieBucketFields : List String := " + LeanStrList(tbFields) + "\n")
		var stmts func(list []ast.Stmt, out *[]string)
		stmts = func(list []ast.Stmt, out *[]string) {
			for _, st := range list {
				switch x := st.(type) {
				case *ast.RangeStmt:
					*out = append(*out, "range "+show(x.X)+" {")
					stmts(x.Body.List, out)
					*out = append(*out, "}")
				case *ast.ForStmt:
					h := ""
					if x.Init != nil {
						h += show(x.Init)
					}
					h += ";"
					if x.Cond != nil {
						h += " " + show(x.Cond)
					}
					h += ";"
					if x.Post != nil {
						h += " " + show(x.Post)
					}
					*out = append(*out, "for "+h+" {")
					stmts(x.Body.List, out)
					*out = append(*out, "}")
				case *ast.IfStmt:
					*out = append(*out, "if "+show(x.Cond)+" {")
					stmts(x.Body.List, out)
					*out = append(*out, "}")
					if x.Else != nil {
						*out = append(*out, "else {")
						if bl, ok := x.Else.(*ast.BlockStmt); ok {
							stmts(bl.List, out)
						} else {
							stmts([]ast.Stmt{x.Else}, out)
						}
						*out = append(*out, "}")
					}
				case *ast.BlockStmt:
					stmts(x.List, out)
				default:
					*out = append(*out, strings.Join(strings.Fields(show(st)), " "))
				}
			}
		}
		for _, d := range []struct {
			f        *ast.File
			recv, fn string
			name     string
		}{
			{bvFile, "bitVector", "DistanceToNextSetBit", "distNextStmts"},
			{bvFile, "bitVector", "numWords", "numWordsStmts"},
			{byName["bits.go"], "", "popcountBlock", "popcountBlockStmts"},
			{byName["bits.go"], "", "selectInByte", "selectInByteStmts"},
			{byName["bits.go"], "", "findFirstSet", "findFirstSetStmts"},
			{byName["rank.go"], "rankVectorSparse", "Rank", "rankStmts"},
		} {
			fd := FindFunc(d.f, d.recv, d.fn)
			if fd == nil || fd.Body == nil {
				return "", fmt.Errorf("%s.%s not found", d.recv, d.fn)
			}
			var out []string
			stmts(fd.Body.List, &out)
			sb.WriteString("\ndef " + d.name + " : List String := " + LeanStrList(out) + "\n")
		}
		sb.WriteString("\ndef bucketWriteCalls : List String := " + LeanStrList(CallSeq(FindFunc(tb, "TrieBucket", "Write"))) + "\n")
		tbb, err := parse("index/model/trie_bucket_builder.go")
		if err != nil {
			return "", err
		}
		sb.WriteString("\ndef bucketBuilderWriteCalls : List String := " + LeanStrList(CallSeq(FindFunc(tbb, "TrieBucketBuilder", "Write"))) + "\n")
		// round 12: the whole body of TrieBucketBuilder.Write, statement by statement (block count from
		// len/blockSize and len%blockSize, the slice bounds of every block): Model/TrieBucket.lean
		// `numBlocksGo` / `blockBounds` / `blocksLoop` mirror exactly these statements
		{
			fd := FindFunc(tbb, "TrieBucketBuilder", "Write")
			if fd == nil || fd.Body == nil {
				return "", fmt.Errorf("TrieBucketBuilder.Write not found")
			}
			var out []string
			stmts(fd.Body.List, &out)
			sb.WriteString("\ndef bucketBuilderWriteStmts : List String := " + LeanStrList(out) + "\n")
		}
		// round 12: TrieBucket.CollectKVs and TrieBucket.Unmarshal, statement by statement
		for _, d := range []struct{ fn, name string }{{"CollectKVs", "collectKVsStmts"}, {"Unmarshal", "bucketUnmarshalStmts"}} {
			fd := FindFunc(tb, "TrieBucket", d.fn)
			if fd == nil || fd.Body == nil {
				return "", fmt.Errorf("TrieBucket.%s not found", d.fn)
			}
			var out []string
			stmts(fd.Body.List, &out)
			sb.WriteString("\ndef " + d.name + " : List String := " + LeanStrList(out) + "\n")
		}
		mg, err := parse("index/v1/index_kv_merger.go")
		if err != nil {
			return "", err
		}
		sb.WriteString("\ndef mergerCalls : List String := " + LeanStrList(CallSeq(FindFunc(mg, "indexKVMerger", "Merge"))) + "\n")
		return sb.String(), nil
	}})
}

// c20StructFields lists the field names of a struct type (an embedded field by its type name).
func c20StructFields(f *ast.File, typ string) []string {
	var out []string
	ast.Inspect(f, func(n ast.Node) bool {
		ts, ok := n.(*ast.TypeSpec)
		if !ok || ts.Name.Name != typ {
			return true
		}
		st, ok := ts.Type.(*ast.StructType)
		if !ok {
			return false
		}
		for _, fl := range st.Fields.List {
			if len(fl.Names) == 0 {
				if id, ok := fl.Type.(*ast.Ident); ok {
					out = append(out, id.Name)
				}
				continue
			}
			for _, nm := range fl.Names {
				out = append(out, nm.Name)
			}
		}
		return false
	})
	return out
}

// c20AssignedFields lists, in source order, the fields of the receiver that the method assigns
// (`recv.f = …`, also inside a tuple assignment) and the fields / embedded parts whose own
// Unmarshal / unmarshal method it calls (`recv.f.Unmarshal(…)`, `recv.unmarshal(…)` → "bitVector").
func c20AssignedFields(fd *ast.FuncDecl) []string {
	if fd.Recv == nil || len(fd.Recv.List) == 0 || len(fd.Recv.List[0].Names) == 0 {
		return nil
	}
	recv := fd.Recv.List[0].Names[0].Name
	var out []string
	ast.Inspect(fd.Body, func(n ast.Node) bool {
		switch x := n.(type) {
		case *ast.AssignStmt:
			for _, l := range x.Lhs {
				if se, ok := l.(*ast.SelectorExpr); ok {
					if id, ok := se.X.(*ast.Ident); ok && id.Name == recv {
						out = append(out, se.Sel.Name)
					}
				}
			}
		case *ast.CallExpr:
			se, ok := x.Fun.(*ast.SelectorExpr)
			if !ok || (se.Sel.Name != "Unmarshal" && se.Sel.Name != "unmarshal") {
				return true
			}
			switch r := se.X.(type) {
			case *ast.Ident:
				if r.Name == recv {
					out = append(out, "bitVector") // promoted method of the embedded bit vector
				}
			case *ast.SelectorExpr:
				if id, ok := r.X.(*ast.Ident); ok && id.Name == recv {
					out = append(out, r.Sel.Name)
				}
			}
		}
		return true
	})
	return out
}
