package extract

import (
	"fmt"
	"go/ast"
	"go/token"
	"strconv"
	"strings"
)

// C09: sequence file layout, the call orders of get-or-create / createValue / the schema
// generators / the flush methods of package index, the default limits, and the step lists of the
// verification export file (so that hook and Flush bodies cannot drift apart unnoticed).
func init() {
	Register(Fact{Module: "C09", Gen: func(repo string) (string, error) {
		var sb strings.Builder
		// ---- index/sequence.go
		_, sq, err := ParseFile(repo, "index/sequence.go")
		if err != nil {
			return "", err
		}
		cs := ConstInts(sq)
		for _, n := range []string{"SeqSize", "NamespaceOffset", "MetricNameOffset", "TagKeyOffset", "TagValueOffset"} {
			v, ok := cs[n]
			if !ok {
				return "", fmt.Errorf("constant %s not found in index/sequence.go", n)
			}
			fmt.Fprintf(&sb, "def %s : Nat := %s\n", lowerFirst(n), LeanInt(v))
		}
		emit := func(name string, fd *ast.FuncDecl, what string) error {
			if fd == nil {
				return fmt.Errorf("%s not found", what)
			}
			sb.WriteString("\ndef " + name + " : List String := " + LeanStrList(CallSeq(fd)) + "\n")
			return nil
		}
		for _, g := range []string{"GenNamespaceSeq", "GenMetricNameSeq", "GenTagKeySeq", "GenTagValueSeq", "Sync", "Close"} {
			if err := emit("seq"+g+"Calls", FindFunc(sq, "Sequence", g), "Sequence."+g); err != nil {
				return "", err
			}
		}
		// helper methods of Sequence that the Gen*Seq functions may call (one level)
		var helpers []string
		for _, d := range sq.Decls {
			fd, ok := d.(*ast.FuncDecl)
			if !ok || fd.Recv == nil || ast.IsExported(fd.Name.Name) {
				continue
			}
			helpers = append(helpers, "(\""+"s."+fd.Name.Name+"\", "+LeanStrList(CallSeq(fd))+")")
		}
		sb.WriteString("\ndef seqHelperCalls : List (String × List String) := [" + strings.Join(helpers, ", ") + "]\n")

		// ---- index/kv_store.go
		_, kvf, err := ParseFile(repo, "index/kv_store.go")
		if err != nil {
			return "", err
		}
		// the lookup/create body: `getOrCreateValue`, or `tryGetOrCreateValue` when the former is only a retry loop around it
		body := "getOrCreateValue"
		if FindFunc(kvf, "indexKVStore", "tryGetOrCreateValue") != nil {
			body = "tryGetOrCreateValue"
			if err := emit("kvRetryLoopCalls", FindFunc(kvf, "indexKVStore", "getOrCreateValue"), "indexKVStore.getOrCreateValue"); err != nil {
				return "", err
			}
		} else {
			sb.WriteString("\ndef kvRetryLoopCalls : List String := []\n")
		}
		for _, p := range [][2]string{{"kvGetOrCreateCalls", body}, {"kvCreateValueCalls", "createValue"},
			{"kvPrepareFlushCalls", "PrepareFlush"}, {"kvFlushCalls", "Flush"}, {"kvGetValueFromMemCalls", "GetValueFromMem"}} {
			if err := emit(p[0], FindFunc(kvf, "indexKVStore", p[1]), "indexKVStore."+p[1]); err != nil {
				return "", err
			}
		}
		if fd := FindFunc(kvf, "indexKVStore", "addBucketCache"); fd != nil {
			sb.WriteString("\ndef kvAddBucketCacheCalls : List String := " + LeanStrList(CallSeq(fd)) + "\n")
		} else {
			sb.WriteString("\ndef kvAddBucketCacheCalls : List String := []\n")
		}
		// what the eviction callback of the LRU bucket cache does (NewIndexKVStore: second argument of expirable.NewLRU;
		// [] = no callback): round 12, a bucket released on eviction / purge may still be in a lock-free reader's hands
		sb.WriteString("\ndef kvNewStoreEvictCalls : List String := " + LeanStrList(lruEvictCallbackCalls(FindFunc(kvf, "", "NewIndexKVStore"))) + "\n")
		// what createValue builds its index-kv reader on (the argument text of v1.NewIndexKVReader)
		sb.WriteString("\ndef kvCreateValueReaderArgs : List String := " + LeanStrList(callArgTexts(FindFunc(kvf, "indexKVStore", "createValue"), "NewIndexKVReader")) + "\n")
		// what the error branches of indexKVStore.Flush do besides returning the error
		sb.WriteString("\ndef kvFlushErrBranchCalls : List (List String) := [" + strings.Join(errBranchCalls(FindFunc(kvf, "indexKVStore", "Flush")), ", ") + "]\n")
		// ---- index/metric_schema_store.go
		_, ssf, err := ParseFile(repo, "index/metric_schema_store.go")
		if err != nil {
			return "", err
		}
		for _, p := range [][2]string{{"schemaGenFieldCalls", "genFieldID"}, {"schemaGenTagKeyCalls", "genTagKeyID"},
			{"schemaGetSchemaCalls", "GetSchema"}, {"schemaFlushCalls", "Flush"}, {"schemaPrepareFlushCalls", "PrepareFlush"}} {
			if err := emit(p[0], FindFunc(ssf, "metricSchemaStore", p[1]), "metricSchemaStore."+p[1]); err != nil {
				return "", err
			}
		}
		// the schema lookup of the create path (genFieldID / genTagKeyID under the write lock), if there is one
		if fd := FindFunc(ssf, "metricSchemaStore", "getSchemaLocked"); fd != nil {
			sb.WriteString("\ndef schemaGetSchemaLockedCalls : List String := " + LeanStrList(CallSeq(fd)) + "\n")
		} else {
			sb.WriteString("\ndef schemaGetSchemaLockedCalls : List String := []\n")
		}
		// ---- index/metric_meta_database.go
		_, mmf, err := ParseFile(repo, "index/metric_meta_database.go")
		if err != nil {
			return "", err
		}
		for _, p := range [][2]string{{"metaPrepareFlushCalls", "PrepareFlush"}, {"metaFlushCalls", "Flush"}, {"metaCloseCalls", "Close"},
			{"metaGenMetricCalls", "GenMetricID"}} {
			if err := emit(p[0], FindFunc(mmf, "metricMetaDatabase", p[1]), "metricMetaDatabase."+p[1]); err != nil {
				return "", err
			}
		}
		// ---- index/metric_index_database.go
		_, mif, err := ParseFile(repo, "index/metric_index_database.go")
		if err != nil {
			return "", err
		}
		for _, p := range [][2]string{{"indexPrepareFlushCalls", "PrepareFlush"}, {"indexFlushCalls", "Flush"},
			{"indexGenSeriesCalls", "GenSeriesID"}, {"indexCreateSeriesCalls", "createSeriesID"}, {"indexBuildInvertCalls", "buildInvertIndex"}} {
			if err := emit(p[0], FindFunc(mif, "metricIndexDatabase", p[1]), "metricIndexDatabase."+p[1]); err != nil {
				return "", err
			}
		}
		// ---- what the miss branch of createSeriesID reads (round 12: the LRU sequence cache may have dropped the metric):
		// invertedIndex.getSeriesIDs = memory tables, then the kv family's snapshot; the memory tables = mutable, immutable
		for _, p := range [][2]string{{"invertedGetSeriesIDsCalls", "getSeriesIDs"}, {"invertedFindFromMemCalls", "findSeriesIDsByKeyFromMem"}} {
			if err := emit(p[0], FindFunc(mif, "invertedIndex", p[1]), "invertedIndex."+p[1]); err != nil {
				return "", err
			}
		}
		sb.WriteString("\ndef invertedFindFromMemTiers : List String := " + LeanStrList(identCallArgTexts(FindFunc(mif, "invertedIndex", "findSeriesIDsByKeyFromMem"), "findSeriesIDs")) + "\n")
		// ---- createFn of the namespace / metric dictionaries (limits first, then the counter) and what createValue
		// does when createFn fails
		for _, pr := range [][2]string{{"metaGenNSIDCalls", "genNSID"}, {"metaGenMetricIDFnCalls", "genMetricID"}} {
			if err := emit(pr[0], FindFunc(mmf, "metricMetaDatabase", pr[1]), "metricMetaDatabase."+pr[1]); err != nil {
				return "", err
			}
		}
		sb.WriteString("\ndef kvCreateValueErrBranchCalls : List (List String) := [" + strings.Join(errBranchCalls(FindFunc(kvf, "indexKVStore", "createValue")), ", ") + "]\n")
		// ---- control flow of the two Flush methods: is every step's error returned at once ("a failed step
		// aborts the round")? One pair per call, in evaluation order: (call, guarded by `if err := call(); err != nil { return err }`)
		sb.WriteString("\ndef indexFlushStepGuards : List (String × Bool) := " + leanGuardList(stepGuards(FindFunc(mif, "metricIndexDatabase", "Flush"))) + "\n")
		sb.WriteString("\ndef metaFlushStepGuards : List (String × Bool) := " + leanGuardList(stepGuards(FindFunc(mmf, "metricMetaDatabase", "Flush"))) + "\n")
		// what the error branches of the posting flushes do besides returning the error (nothing: `immutable` stays)
		sb.WriteString("\ndef invertedFlushErrBranchCalls : List (List String) := [" + strings.Join(errBranchCalls(FindFunc(mif, "invertedIndex", "flush")), ", ") + "]\n")
		sb.WriteString("\ndef forwardFlushErrBranchCalls : List (List String) := [" + strings.Join(errBranchCalls(FindFunc(mif, "forwardIndex", "flush")), ", ") + "]\n")
		if err := emit("invertedFlushCalls", FindFunc(mif, "invertedIndex", "flush"), "invertedIndex.flush"); err != nil {
			return "", err
		}
		if err := emit("forwardFlushCalls", FindFunc(mif, "forwardIndex", "flush"), "forwardIndex.flush"); err != nil {
			return "", err
		}
		if err := emit("invertedPrepareFlushCalls", FindFunc(mif, "invertedIndex", "prepareFlush"), "invertedIndex.prepareFlush"); err != nil {
			return "", err
		}
		if err := emit("forwardPrepareFlushCalls", FindFunc(mif, "forwardIndex", "prepareFlush"), "forwardIndex.prepareFlush"); err != nil {
			return "", err
		}
		// ---- tsdb/memdb/index_database.go: the double-checked creation of a metric's memory index
		_, mdf, err := ParseFile(repo, "tsdb/memdb/index_database.go")
		if err != nil {
			return "", err
		}
		if err := emit("memdbGetOrCreateTSICalls", FindFunc(mdf, "indexDatabase", "GetOrCreateTimeSeriesIndex"), "indexDatabase.GetOrCreateTimeSeriesIndex"); err != nil {
			return "", err
		}
		if err := emit("memdbGetOrCreateTSIInnerCalls", FindFunc(mdf, "indexDatabase", "getOrCreateTimeSeriesIndex"), "indexDatabase.getOrCreateTimeSeriesIndex"); err != nil {
			return "", err
		}
		// the index worker: where PrepareFlush runs (row-handler goroutine vs background flush goroutine)
		if err := emit("memdbHandleCalls", FindFunc(mdf, "indexDatabase", "handle"), "indexDatabase.handle"); err != nil {
			return "", err
		}
		if err := emit("memdbHandleFlushCalls", FindFunc(mdf, "indexDatabase", "handleFlush"), "indexDatabase.handleFlush"); err != nil {
			return "", err
		}
		{
			n := 0
			if fd := FindFunc(mdf, "indexDatabase", "handle"); fd != nil {
				ast.Inspect(fd.Body, func(x ast.Node) bool {
					if g, ok := x.(*ast.GoStmt); ok && exprName(g.Call.Fun) == "idb.handleFlush" {
						n++
					}
					return true
				})
			}
			fmt.Fprintf(&sb, "\ndef memdbHandleGoFlush : Nat := %d\n", n)
		}
		// ---- index/v1/index_kv_merger.go: the dictionary compaction merger
		_, mgf, err := ParseFile(repo, "index/v1/index_kv_merger.go")
		if err != nil {
			return "", err
		}
		if err := emit("kvMergerMergeCalls", FindFunc(mgf, "indexKVMerger", "Merge"), "indexKVMerger.Merge"); err != nil {
			return "", err
		}
		// ---- default limits (models/limits.go, NewDefaultLimits composite literal)
		_, lf, err := ParseFile(repo, "models/limits.go")
		if err != nil {
			return "", err
		}
		lim := compositeInts(FindFunc(lf, "", "NewDefaultLimits"))
		for _, n := range []string{"MaxFieldsPerMetric", "MaxTagsPerMetric", "MaxSeriesPerMetric", "MaxNamespaces", "MaxMetrics"} {
			v, ok := lim[n]
			if !ok {
				return "", fmt.Errorf("NewDefaultLimits: field %s not found", n)
			}
			fmt.Fprintf(&sb, "\ndef default%s : Nat := %s\n", n, LeanInt(v))
		}
		// ---- the verification export file: step lists must equal the Flush bodies
		_, hf, err := ParseFile(repo, "index/zz_verif_c09.go")
		if err != nil {
			return "", err
		}
		for _, p := range [][2]string{{"hookMetaFlushSteps", "VerifMetaFlushSteps"}, {"hookIndexFlushSteps", "VerifIndexFlushSteps"}} {
			fd := FindFunc(hf, "", p[1])
			if fd == nil {
				return "", fmt.Errorf("%s not found in index/zz_verif_c09.go", p[1])
			}
			sb.WriteString("\ndef " + p[0] + " : List String := " + LeanStrList(returnedFuncList(fd)) + "\n")
		}
		// ---- who copies a name: the expressions under which names are KEPT
		// createValue: the index expression(s) of `kvs[…] = id`; genTagKeyID: the `Key:` of the tag.Meta it appends;
		// SimpleFieldIterator.NextName: what the write path passes as field.Meta.Name
		sb.WriteString("\ndef kvStoredKeyExprs : List String := " + LeanStrList(mapStoreIndexTexts(FindFunc(kvf, "indexKVStore", "createValue"))) + "\n")
		sb.WriteString("\ndef schemaStoredTagKeyExprs : List String := " + LeanStrList(compositeFieldTexts(FindFunc(ssf, "metricSchemaStore", "genTagKeyID"), "Key")) + "\n")
		_, rrf, err := ParseFile(repo, "series/metric/row_readonly.go")
		if err != nil {
			return "", err
		}
		sb.WriteString("\ndef rowFieldNextNameExprs : List String := " + LeanStrList(returnTexts(FindFunc(rrf, "SimpleFieldIterator", "NextName"))) + "\n")
		return sb.String(), nil
	}})
}

type stepGuard struct {
	call    string
	guarded bool
}

// stepGuards: every call of fd's body that is not inside a function literal or a defer, in evaluation
// (source) order, with the answer to "is this call the init of `if err := call(); err != nil { …; return err }`
// (no else)?" — i.e. does a failure of this step end the function at once with that error.
func stepGuards(fd *ast.FuncDecl) []stepGuard {
	var out []stepGuard
	if fd == nil || fd.Body == nil {
		return out
	}
	guarded := map[*ast.CallExpr]bool{}
	ast.Inspect(fd.Body, func(n ast.Node) bool {
		is, ok := n.(*ast.IfStmt)
		if !ok || is.Init == nil || is.Else != nil {
			return true
		}
		as, ok := is.Init.(*ast.AssignStmt)
		if !ok || len(as.Rhs) != 1 || len(as.Lhs) == 0 {
			return true
		}
		ce, ok := as.Rhs[0].(*ast.CallExpr)
		if !ok {
			return true
		}
		errID, ok := as.Lhs[len(as.Lhs)-1].(*ast.Ident)
		if !ok {
			return true
		}
		// cond: <err> != nil
		be, ok := is.Cond.(*ast.BinaryExpr)
		if !ok || be.Op != token.NEQ {
			return true
		}
		x, okx := be.X.(*ast.Ident)
		y, oky := be.Y.(*ast.Ident)
		if !okx || !oky || x.Name != errID.Name || y.Name != "nil" {
			return true
		}
		// body ends in `return …, <err>`
		if len(is.Body.List) == 0 {
			return true
		}
		rs, ok := is.Body.List[len(is.Body.List)-1].(*ast.ReturnStmt)
		if !ok || len(rs.Results) == 0 {
			return true
		}
		if r, ok := rs.Results[len(rs.Results)-1].(*ast.Ident); ok && r.Name == errID.Name {
			guarded[ce] = true
		}
		return true
	})
	ast.Inspect(fd.Body, func(n ast.Node) bool {
		switch x := n.(type) {
		case *ast.FuncLit, *ast.DeferStmt, *ast.GoStmt:
			return false
		case *ast.CallExpr:
			// arguments are evaluated before the call itself: list them first
			for _, a := range x.Args {
				ast.Inspect(a, func(m ast.Node) bool {
					switch y := m.(type) {
					case *ast.FuncLit:
						return false
					case *ast.CallExpr:
						out = append(out, stepGuard{exprName(y.Fun), guarded[y]})
					}
					return true
				})
			}
			out = append(out, stepGuard{exprName(x.Fun), guarded[x]})
			return false
		}
		return true
	})
	return out
}

func leanGuardList(gs []stepGuard) string {
	p := make([]string, len(gs))
	for i, g := range gs {
		p[i] = fmt.Sprintf("(%q, %v)", g.call, g.guarded)
	}
	return "[" + strings.Join(p, ", ") + "]"
}

// mapStoreIndexTexts: the index expressions of the assignments `m[<index>] = …` in fd, in source order.
func mapStoreIndexTexts(fd *ast.FuncDecl) []string {
	var out []string
	if fd == nil || fd.Body == nil {
		return out
	}
	ast.Inspect(fd.Body, func(n ast.Node) bool {
		as, ok := n.(*ast.AssignStmt)
		if !ok {
			return true
		}
		for _, l := range as.Lhs {
			if ix, ok := l.(*ast.IndexExpr); ok {
				out = append(out, exprText(ix.Index))
			}
		}
		return true
	})
	return out
}

// compositeFieldTexts: the value expressions given to field `name` in the composite literals of fd.
func compositeFieldTexts(fd *ast.FuncDecl, name string) []string {
	var out []string
	if fd == nil || fd.Body == nil {
		return out
	}
	ast.Inspect(fd.Body, func(n ast.Node) bool {
		kv, ok := n.(*ast.KeyValueExpr)
		if !ok {
			return true
		}
		if id, ok := kv.Key.(*ast.Ident); ok && id.Name == name {
			out = append(out, exprText(kv.Value))
		}
		return true
	})
	return out
}

// returnTexts: the result expressions of the return statements of fd.
func returnTexts(fd *ast.FuncDecl) []string {
	var out []string
	if fd == nil || fd.Body == nil {
		return out
	}
	ast.Inspect(fd.Body, func(n ast.Node) bool {
		if rs, ok := n.(*ast.ReturnStmt); ok {
			for _, r := range rs.Results {
				out = append(out, exprText(r))
			}
		}
		return true
	})
	return out
}

// errBranchCalls: for every `if … err … { … }` statement of fd whose body returns, the calls made in
// that body (rendered as Lean string lists), in source order; function literals included.
func errBranchCalls(fd *ast.FuncDecl) []string {
	var out []string
	if fd == nil || fd.Body == nil {
		return out
	}
	ast.Inspect(fd.Body, func(n ast.Node) bool {
		is, ok := n.(*ast.IfStmt)
		if !ok {
			return true
		}
		mentionsErr := false
		ast.Inspect(is.Cond, func(m ast.Node) bool {
			if id, ok := m.(*ast.Ident); ok && strings.HasPrefix(id.Name, "err") {
				mentionsErr = true
			}
			return true
		})
		returns := false
		for _, st := range is.Body.List {
			if _, ok := st.(*ast.ReturnStmt); ok {
				returns = true
			}
		}
		if mentionsErr && returns {
			out = append(out, LeanStrList(CallSeq(&ast.FuncDecl{Body: is.Body})))
		}
		return true
	})
	return out
}

// callArgTexts: the first-argument texts ("recv.Sel" shortened as CallSeq does) of the calls of sel in fd.
func callArgTexts(fd *ast.FuncDecl, sel string) []string {
	var out []string
	if fd == nil || fd.Body == nil {
		return out
	}
	ast.Inspect(fd.Body, func(n ast.Node) bool {
		ce, ok := n.(*ast.CallExpr)
		if !ok || len(ce.Args) == 0 {
			return true
		}
		if se, ok := ce.Fun.(*ast.SelectorExpr); ok && se.Sel.Name == sel {
			out = append(out, exprName(ce.Args[0]))
		}
		return true
	})
	return out
}

// identCallArgTexts: first-argument texts of the calls `name(arg, …)` (name a plain identifier, e.g. a local
// closure) in fd's body, in source order.
func identCallArgTexts(fd *ast.FuncDecl, name string) []string {
	var out []string
	if fd == nil || fd.Body == nil {
		return out
	}
	ast.Inspect(fd.Body, func(n ast.Node) bool {
		ce, ok := n.(*ast.CallExpr)
		if !ok || len(ce.Args) == 0 {
			return true
		}
		if id, ok := ce.Fun.(*ast.Ident); ok && id.Name == name {
			out = append(out, exprName(ce.Args[0]))
		}
		return true
	})
	return out
}

// lruEvictCallbackCalls: the calls made inside the func literal passed as second argument of `….NewLRU(…)` /
// `….NewLRU[K, V](…)` in fd's body (empty when the argument is nil or not a func literal).
func lruEvictCallbackCalls(fd *ast.FuncDecl) []string {
	out := []string{}
	if fd == nil || fd.Body == nil {
		return out
	}
	ast.Inspect(fd.Body, func(n ast.Node) bool {
		ce, ok := n.(*ast.CallExpr)
		if !ok || len(ce.Args) < 2 {
			return true
		}
		fun := ce.Fun
		switch x := fun.(type) {
		case *ast.IndexExpr:
			fun = x.X
		case *ast.IndexListExpr:
			fun = x.X
		}
		se, ok := fun.(*ast.SelectorExpr)
		if !ok || se.Sel.Name != "NewLRU" {
			return true
		}
		if fl, ok := ce.Args[1].(*ast.FuncLit); ok {
			ast.Inspect(fl.Body, func(m ast.Node) bool {
				if c2, ok := m.(*ast.CallExpr); ok {
					out = append(out, exprName(c2.Fun))
				}
				return true
			})
		}
		return false
	})
	return out
}

func lowerFirst(s string) string { return strings.ToLower(s[:1]) + s[1:] }

// compositeInts returns Field: <int literal> pairs of the first composite literal in fd's body.
func compositeInts(fd *ast.FuncDecl) map[string]int64 {
	out := map[string]int64{}
	if fd == nil {
		return out
	}
	done := false
	ast.Inspect(fd.Body, func(n ast.Node) bool {
		cl, ok := n.(*ast.CompositeLit)
		if !ok || done {
			return !done
		}
		done = true
		for _, e := range cl.Elts {
			kv, ok := e.(*ast.KeyValueExpr)
			if !ok {
				continue
			}
			k, ok := kv.Key.(*ast.Ident)
			if !ok {
				continue
			}
			if bl, ok := kv.Value.(*ast.BasicLit); ok && bl.Kind == token.INT {
				if v, err := strconv.ParseInt(strings.ReplaceAll(bl.Value, "_", ""), 0, 64); err == nil {
					out[k.Name] = v
				}
			}
		}
		return false
	})
	return out
}

// returnedFuncList renders the elements of the composite literal returned by fd
// ("mm.sequence.Sync" → "sequence.Sync", the same shortening CallSeq applies).
func returnedFuncList(fd *ast.FuncDecl) []string {
	var out []string
	ast.Inspect(fd.Body, func(n ast.Node) bool {
		rs, ok := n.(*ast.ReturnStmt)
		if !ok || len(rs.Results) != 1 {
			return true
		}
		if cl, ok := rs.Results[0].(*ast.CompositeLit); ok {
			for _, e := range cl.Elts {
				out = append(out, exprName(e))
			}
		}
		return false
	})
	return out
}
