package extract

import (
	"go/ast"
	"strings"
)

// c06GuardedAssigns: every assignment in fd whose left-hand side (source text) is one of `lhs`,
// in source order, each as "<guard path> => <lhs> = <rhs>". The guard path is the chain of
// enclosing `if` conditions ("!(c)" inside an else branch), joined by " && "; "" at top level. A
// new branch around a cursor assignment, a changed right-hand side or a new assignment changes
// the list.
func c06GuardedAssigns(fd *ast.FuncDecl, lhs map[string]bool) []string {
	var out []string
	if fd == nil || fd.Body == nil {
		return out
	}
	var walk func(n ast.Stmt, path []string)
	block := func(b *ast.BlockStmt, path []string) {
		if b == nil {
			return
		}
		for _, st := range b.List {
			walk(st, path)
		}
	}
	walk = func(n ast.Stmt, path []string) {
		switch s := n.(type) {
		case *ast.AssignStmt:
			for i, l := range s.Lhs {
				if lhs[c06src(l)] {
					r := ""
					if len(s.Rhs) == len(s.Lhs) {
						r = c06src(s.Rhs[i])
					} else if len(s.Rhs) == 1 {
						r = c06src(s.Rhs[0])
					}
					out = append(out, strings.Join(path, " && ")+" => "+c06src(l)+" "+s.Tok.String()+" "+r)
				}
			}
		case *ast.IncDecStmt:
			if lhs[c06src(s.X)] {
				out = append(out, strings.Join(path, " && ")+" => "+c06src(s.X)+s.Tok.String())
			}
		case *ast.BlockStmt:
			block(s, path)
		case *ast.IfStmt:
			if s.Init != nil {
				walk(s.Init, path)
			}
			c := c06src(s.Cond)
			block(s.Body, append(append([]string{}, path...), c))
			if s.Else != nil {
				walk(s.Else, append(append([]string{}, path...), "!("+c+")"))
			}
		case *ast.ForStmt:
			block(s.Body, append(append([]string{}, path...), "for"))
		case *ast.RangeStmt:
			block(s.Body, append(append([]string{}, path...), "range"))
		case *ast.SwitchStmt:
			block(s.Body, append(append([]string{}, path...), "switch"))
		case *ast.CaseClause:
			for _, st := range s.Body {
				walk(st, append(append([]string{}, path...), "case"))
			}
		case *ast.LabeledStmt:
			walk(s.Stmt, path)
		}
	}
	block(fd.Body, nil)
	return out
}

// c06CursorFacts: the write cursor of pkg/queue/queue.go (dataPageIndex / messageOffset /
// indexPageIndex) — where it is assigned, under which guards, in the reopen path
// (initDataPageIndex), in alloc and in persistMetaOfMessage; and the barrier GC computes.
func c06CursorFacts(qu *ast.File) string {
	cur := map[string]bool{"q.dataPageIndex": true, "q.messageOffset": true, "q.indexPageIndex": true}
	var sb strings.Builder
	sb.WriteString("\n-- the write cursor: guarded assignments, source order\n")
	for _, f := range []struct{ lean, name string }{
		{"initCursor", "initDataPageIndex"}, {"allocCursor", "alloc"}, {"persistCursor", "persistMetaOfMessage"},
	} {
		sb.WriteString("def " + f.lean + " : List String := " + LeanStrList(c06GuardedAssigns(FindFunc(qu, "queue", f.name), cur)) + "\n")
	}
	sb.WriteString("def gcBarrier : List String := " + LeanStrList(c06GuardedAssigns(FindFunc(qu, "queue", "GC"),
		map[string]bool{"ackSeq": true, "indexPageID": true, "indexOffset": true, "dataPageID": true})) + "\n")
	// every function of queue.go that assigns the cursor at all
	var writers []string
	for _, d := range qu.Decls {
		if fd, ok := d.(*ast.FuncDecl); ok && len(c06GuardedAssigns(fd, cur)) > 0 {
			writers = append(writers, fd.Name.Name)
		}
	}
	sb.WriteString("def cursorWriters : List String := " + LeanStrList(writers) + "\n")
	return sb.String()
}
