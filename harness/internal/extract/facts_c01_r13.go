package extract

import (
	"fmt"
	"strings"
)

// C01 round 13 facts: where a merge compaction's output tables enter and leave family.pendingOutputs.
//
//   - finishCompactionOutputFileSteps / cleanupCompactionSteps / openCompactionOutputFileSteps /
//     mergeCompactionDeferCalls: calls (and jumps) of the function bodies in source order, in the
//     notation of guardedCalls ("guarded:" = inside an if-body / loop / switch).
//   - newTableBuilderCalls: family.newTableBuilder (NextFileNumber, addPendingOutput, table.NewStoreBuilder).
//
// The multi-output model's configuration (MO.Cfg: release at finish? release at cleanupCompaction?) is
// COMPUTED from these lists (Props.C01MultiOut.codeCfg), so a release of finished outputs that moves in
// front of the commit changes the theorem's instance.
func c01Round13Facts(repo string) (string, error) {
	var sb strings.Builder
	_, cj, err := ParseFile(repo, "kv/compact_job.go")
	if err != nil {
		return "", err
	}
	for _, p := range [][2]string{
		{"finishCompactionOutputFile", "finishCompactionOutputFileSteps"},
		{"cleanupCompaction", "cleanupCompactionSteps"},
		{"openCompactionOutputFile", "openCompactionOutputFileSteps"},
	} {
		fd := FindFunc(cj, "compactJob", p[0])
		if fd == nil || fd.Body == nil {
			return "", fmt.Errorf("compactJob.%s not found", p[0])
		}
		sb.WriteString("def " + p[1] + " : List String := " + LeanStrList(guardedCalls(fd.Body)) + "\n")
	}
	mc := FindFunc(cj, "compactJob", "mergeCompaction")
	if mc == nil {
		return "", fmt.Errorf("compactJob.mergeCompaction not found")
	}
	sb.WriteString("def mergeCompactionDeferCalls : List String := " + LeanStrList(deferBodyCalls(mc)) + "\n")
	_, fm, err := ParseFile(repo, "kv/family.go")
	if err != nil {
		return "", err
	}
	nb := FindFunc(fm, "family", "newTableBuilder")
	if nb == nil || nb.Body == nil {
		return "", fmt.Errorf("family.newTableBuilder not found")
	}
	sb.WriteString("def newTableBuilderSteps : List String := " + LeanStrList(guardedCalls(nb.Body)) + "\n")
	return sb.String(), nil
}
