package extract

import (
	"bytes"
	"fmt"
	"go/ast"
	"go/printer"
	"go/token"
	"os"
	"path/filepath"
	"reflect"
	"regexp"
	"strconv"
	"strings"
)

// C17: the wire vocabulary of sql/stmt — envelope type tags written by Marshal, the case labels
// of Unmarshal's switch, the json keys (+omitempty) of every struct that goes over the wire,
// the BinaryOP iota block with its String table, and the unit ladder of Interval.String /
// Interval.ValueOf with the millisecond constants of lindb/common.
func init() {
	Register(Fact{Module: "C17", Gen: genC17})
}

func c17StrConsts(files ...*ast.File) map[string]string {
	env := map[string]string{}
	for _, f := range files {
		for _, d := range f.Decls {
			gd, ok := d.(*ast.GenDecl)
			if !ok || gd.Tok != token.CONST {
				continue
			}
			for _, s := range gd.Specs {
				vs := s.(*ast.ValueSpec)
				for i, n := range vs.Names {
					if i < len(vs.Values) {
						if bl, ok := vs.Values[i].(*ast.BasicLit); ok && bl.Kind == token.STRING {
							if v, err := strconv.Unquote(bl.Value); err == nil {
								env[n.Name] = v
							}
						}
					}
				}
			}
		}
	}
	return env
}

func c17Str(e ast.Expr, env map[string]string) (string, bool) {
	switch x := e.(type) {
	case *ast.BasicLit:
		if x.Kind == token.STRING {
			v, err := strconv.Unquote(x.Value)
			return v, err == nil
		}
	case *ast.Ident:
		v, ok := env[x.Name]
		return v, ok
	}
	return "", false
}

// first `Type: <string>` key-value found in n
func c17TypeTag(n ast.Node, env map[string]string) (string, bool) {
	var tag string
	found := false
	ast.Inspect(n, func(m ast.Node) bool {
		if found {
			return false
		}
		if kv, ok := m.(*ast.KeyValueExpr); ok {
			if id, ok := kv.Key.(*ast.Ident); ok && id.Name == "Type" {
				if s, ok := c17Str(kv.Value, env); ok {
					tag, found = s, true
					return false
				}
			}
		}
		return true
	})
	return tag, found
}

func c17LeanStr(s string) string { return strconv.Quote(s) }

func c17LeanChar(c byte) string { return "'" + string(rune(c)) + "'" }

// json keys of a struct type (embedded structs of the same file expanded in place)
func c17StructKeys(files []*ast.File, name string) ([][2]string, error) {
	for _, f := range files {
		for _, d := range f.Decls {
			gd, ok := d.(*ast.GenDecl)
			if !ok || gd.Tok != token.TYPE {
				continue
			}
			for _, s := range gd.Specs {
				ts := s.(*ast.TypeSpec)
				if ts.Name.Name != name {
					continue
				}
				st, ok := ts.Type.(*ast.StructType)
				if !ok {
					return nil, fmt.Errorf("%s is not a struct", name)
				}
				var out [][2]string
				for _, fld := range st.Fields.List {
					if len(fld.Names) == 0 { // embedded
						id, ok := fld.Type.(*ast.Ident)
						if !ok {
							return nil, fmt.Errorf("%s: unsupported embedded field", name)
						}
						sub, err := c17StructKeys(files, id.Name)
						if err != nil {
							return nil, err
						}
						out = append(out, sub...)
						continue
					}
					if fld.Tag == nil {
						continue // no json tag: not a wire struct field we rely on
					}
					raw, _ := strconv.Unquote(fld.Tag.Value)
					js := reflect.StructTag(raw).Get("json")
					if js == "" || js == "-" {
						continue
					}
					parts := strings.Split(js, ",")
					omit := "false"
					for _, p := range parts[1:] {
						if p == "omitempty" {
							omit = "true"
						}
					}
					for range fld.Names {
						out = append(out, [2]string{parts[0], omit})
					}
				}
				return out, nil
			}
		}
	}
	return nil, fmt.Errorf("struct %s not found", name)
}

func c17CommonDir(repo string) (string, error) {
	gm, err := os.ReadFile(filepath.Join(repo, "go.mod"))
	if err != nil {
		return "", err
	}
	m := regexp.MustCompile(`(?m)^\s*github.com/lindb/common\s+(v\S+)`).FindSubmatch(gm)
	if m == nil {
		return "", fmt.Errorf("github.com/lindb/common not required by go.mod")
	}
	cache := os.Getenv("GOMODCACHE")
	if cache == "" {
		gp := os.Getenv("GOPATH")
		if gp == "" {
			home, _ := os.UserHomeDir()
			gp = filepath.Join(home, "go")
		}
		cache = filepath.Join(strings.Split(gp, string(os.PathListSeparator))[0], "pkg", "mod")
	}
	return filepath.Join(cache, "github.com", "lindb", "common@"+string(m[1])), nil
}

func genC17(repo string) (string, error) {
	var sb strings.Builder
	_, ex, err := ParseFile(repo, "sql/stmt/expr.go")
	if err != nil {
		return "", err
	}
	_, cs, err := ParseFile(repo, "sql/stmt/constants.go")
	if err != nil {
		return "", err
	}
	env := c17StrConsts(ex, cs)

	// ---- Marshal: type switch, one tag per Go type
	mf := FindFunc(ex, "", "Marshal")
	if mf == nil {
		return "", fmt.Errorf("stmt.Marshal not found")
	}
	var mtags []string
	ast.Inspect(mf.Body, func(n ast.Node) bool {
		ts, ok := n.(*ast.TypeSwitchStmt)
		if !ok {
			return true
		}
		for _, c := range ts.Body.List {
			cc := c.(*ast.CaseClause)
			if len(cc.List) == 0 {
				continue
			}
			tag, ok := c17TypeTag(cc, env)
			if !ok {
				tag = "?"
			}
			for _, t := range cc.List {
				if st, ok := t.(*ast.StarExpr); ok {
					if id, ok := st.X.(*ast.Ident); ok {
						mtags = append(mtags, fmt.Sprintf("(%s, %s)", c17LeanStr(id.Name), c17LeanStr(tag)))
					}
				}
			}
		}
		return false
	})
	if len(mtags) == 0 {
		return "", fmt.Errorf("no type switch in stmt.Marshal")
	}
	fmt.Fprintf(&sb, "def marshalTags : List (String × String) := [%s]\n\n", strings.Join(mtags, ", "))

	// ---- Unmarshal: switch expr.Type
	uf := FindFunc(ex, "", "Unmarshal")
	if uf == nil {
		return "", fmt.Errorf("stmt.Unmarshal not found")
	}
	var utags []string
	hasDefault := false
	ast.Inspect(uf.Body, func(n ast.Node) bool {
		sw, ok := n.(*ast.SwitchStmt)
		if !ok {
			return true
		}
		for _, c := range sw.Body.List {
			cc := c.(*ast.CaseClause)
			if len(cc.List) == 0 {
				hasDefault = true
			}
			for _, l := range cc.List {
				if s, ok := c17Str(l, env); ok {
					utags = append(utags, c17LeanStr(s))
				} else {
					utags = append(utags, c17LeanStr("?"))
				}
			}
		}
		return false
	})
	fmt.Fprintf(&sb, "def unmarshalTags : List String := [%s]\n", strings.Join(utags, ", "))
	fmt.Fprintf(&sb, "def unmarshalHasDefault : Bool := %v\n\n", hasDefault)

	// ---- wire structs
	_, qf, err := ParseFile(repo, "sql/stmt/query.go")
	if err != nil {
		return "", err
	}
	_, mm, err := ParseFile(repo, "sql/stmt/metric_metadata.go")
	if err != nil {
		return "", err
	}
	_, tr, err := ParseFile(repo, "pkg/timeutil/time_range.go")
	if err != nil {
		return "", err
	}
	files := []*ast.File{ex, qf, mm, tr}
	var structs []string
	for _, name := range []string{"exprData", "innerSelectItem", "innerOrderByExpr", "innerCallExpr", "innerBinaryExpr",
		"FieldExpr", "NumberLiteral", "EqualsExpr", "InExpr", "LikeExpr", "RegexExpr", "innerQuery", "innerMetadata", "TimeRange"} {
		keys, err := c17StructKeys(files, name)
		if err != nil {
			return "", err
		}
		var ks []string
		for _, k := range keys {
			ks = append(ks, fmt.Sprintf("(%s, %s)", c17LeanStr(k[0]), k[1]))
		}
		structs = append(structs, fmt.Sprintf("  (%s, [%s])", c17LeanStr(name), strings.Join(ks, ", ")))
	}
	fmt.Fprintf(&sb, "/-- (struct, [(json key, omitempty)]) in field order -/\ndef wireStructs : List (String × List (String × Bool)) := [\n%s]\n\n", strings.Join(structs, ",\n"))

	// ---- BinaryOP
	_, bo, err := ParseFile(repo, "sql/stmt/binary_operator.go")
	if err != nil {
		return "", err
	}
	ints := ConstInts(bo)
	bs := FindFunc(bo, "", "BinaryOPString")
	if bs == nil {
		return "", fmt.Errorf("BinaryOPString not found")
	}
	var ops []string
	def := "?"
	ast.Inspect(bs.Body, func(n ast.Node) bool {
		sw, ok := n.(*ast.SwitchStmt)
		if !ok {
			return true
		}
		for _, c := range sw.Body.List {
			cc := c.(*ast.CaseClause)
			ret := "?"
			for _, s := range cc.Body {
				if r, ok := s.(*ast.ReturnStmt); ok && len(r.Results) == 1 {
					if v, ok := c17Str(r.Results[0], env); ok {
						ret = v
					}
				}
			}
			if len(cc.List) == 0 {
				def = ret
			}
			for _, l := range cc.List {
				if id, ok := l.(*ast.Ident); ok {
					if v, ok := ints[id.Name]; ok {
						ops = append(ops, fmt.Sprintf("(%s, %s, %s)", c17LeanStr(id.Name), LeanInt(v), c17LeanStr(ret)))
					}
				}
			}
		}
		return false
	})
	// constants of the iota block that have no case (UNKNOWN) get the default string
	var names []string
	for _, d := range bo.Decls {
		if gd, ok := d.(*ast.GenDecl); ok && gd.Tok == token.CONST {
			for _, s := range gd.Specs {
				for _, n := range s.(*ast.ValueSpec).Names {
					names = append(names, n.Name)
				}
			}
		}
	}
	for _, n := range names {
		seen := false
		for _, o := range ops {
			if strings.HasPrefix(o, "("+c17LeanStr(n)+",") {
				seen = true
			}
		}
		if !seen {
			ops = append(ops, fmt.Sprintf("(%s, %s, %s)", c17LeanStr(n), LeanInt(ints[n]), c17LeanStr(def)))
		}
	}
	fmt.Fprintf(&sb, "/-- (name, value, BinaryOPString) -/\ndef binaryOps : List (String × Int × String) := [%s]\n", strings.Join(ops, ", "))
	fmt.Fprintf(&sb, "def binaryOpDefault : String := %s\n\n", c17LeanStr(def))

	// ---- interval units
	cdir, err := c17CommonDir(repo)
	if err != nil {
		return "", err
	}
	_, ct, err := ParseFile(cdir, "pkg/timeutil/time.go")
	if err != nil {
		return "", err
	}
	units := ConstInts(ct)
	for _, n := range []string{"OneSecond", "OneMinute", "OneHour", "OneDay", "OneWeek", "OneMonth", "OneYear"} {
		v, ok := units[n]
		if !ok {
			return "", fmt.Errorf("constant %s not found in lindb/common timeutil", n)
		}
		fmt.Fprintf(&sb, "def %s : Int := %s\n", strings.ToLower(n[:1])+n[1:], LeanInt(v))
	}
	_, iv, err := ParseFile(repo, "pkg/timeutil/interval.go")
	if err != nil {
		return "", err
	}
	sf := FindFunc(iv, "Interval", "String")
	if sf == nil {
		return "", fmt.Errorf("Interval.String not found")
	}
	unitOfNode := func(n ast.Node) (string, bool) {
		name := ""
		ast.Inspect(n, func(m ast.Node) bool {
			if se, ok := m.(*ast.SelectorExpr); ok && name == "" {
				if _, ok := units[se.Sel.Name]; ok {
					name = se.Sel.Name
				}
			}
			return true
		})
		return name, name != ""
	}
	fmtOfNode := func(n ast.Node) (string, bool) {
		s := ""
		ast.Inspect(n, func(m ast.Node) bool {
			if bl, ok := m.(*ast.BasicLit); ok && bl.Kind == token.STRING && s == "" {
				s, _ = strconv.Unquote(bl.Value)
			}
			return true
		})
		return s, s != ""
	}
	var ladder []string
	sdef := ""
	ast.Inspect(sf.Body, func(n ast.Node) bool {
		sw, ok := n.(*ast.SwitchStmt)
		if !ok {
			return true
		}
		for _, c := range sw.Body.List {
			cc := c.(*ast.CaseClause)
			var body ast.Node = &ast.BlockStmt{List: cc.Body}
			u, ok1 := unitOfNode(body)
			f, ok2 := fmtOfNode(body)
			if !ok1 || !ok2 || len(f) != 3 || f[:2] != "%d" {
				ladder = append(ladder, "(0, '?')")
				continue
			}
			// the guard must be `val%U == 0 && val/U > 0` for the same unit
			if len(cc.List) == 1 {
				g := c17ExprText(cc.List[0])
				want := fmt.Sprintf("val%%timeutil.%s==0&&val/timeutil.%s>0", u, u)
				if g != want {
					ladder = append(ladder, "(0, '!')")
					continue
				}
				ladder = append(ladder, fmt.Sprintf("(%s, %s)", LeanInt(units[u]), c17LeanChar(f[2])))
			} else if len(cc.List) == 0 {
				sdef = fmt.Sprintf("(%s, %s)", LeanInt(units[u]), c17LeanChar(f[2]))
			}
		}
		return false
	})
	fmt.Fprintf(&sb, "\n/-- `case val%%U == 0 && val/U > 0: Sprintf(\"%%d<c>\", val/U)` of Interval.String, in order -/\ndef stringLadder : List (Int × Char) := [%s]\n", strings.Join(ladder, ", "))
	fmt.Fprintf(&sb, "def stringDefault : Int × Char := %s\n", sdef)

	vf := FindFunc(iv, "Interval", "ValueOf")
	if vf == nil {
		return "", fmt.Errorf("Interval.ValueOf not found")
	}
	var sus []string
	ast.Inspect(vf.Body, func(n ast.Node) bool {
		sw, ok := n.(*ast.SwitchStmt)
		if !ok {
			return true
		}
		for _, c := range sw.Body.List {
			cc := c.(*ast.CaseClause)
			u, ok := unitOfNode(&ast.BlockStmt{List: cc.Body})
			for _, l := range cc.List {
				s, ok2 := c17Str(l, env)
				if ok && ok2 && len(s) == 1 {
					sus = append(sus, fmt.Sprintf("(%s, %s)", c17LeanChar(s[0]), LeanInt(units[u])))
				} else {
					sus = append(sus, "('?', 0)")
				}
			}
		}
		return false
	})
	fmt.Fprintf(&sb, "/-- the unit switch of Interval.ValueOf -/\ndef suffixUnits : List (Char × Int) := [%s]\n", strings.Join(sus, ", "))

	// ---- queryStmtParser.build(): where TimeRange comes from. Every statement that writes
	// query.TimeRange (or one of its fields), with the chain of enclosing if-conditions.
	_, qp, err := ParseFile(repo, "sql/query_stmt_parser.go")
	if err != nil {
		return "", err
	}
	bf := FindFunc(qp, "queryStmtParser", "build")
	if bf == nil {
		return "", fmt.Errorf("queryStmtParser.build not found")
	}
	var trs []string
	var walkTR func(stmts []ast.Stmt, conds string)
	walkTR = func(stmts []ast.Stmt, conds string) {
		for _, st := range stmts {
			switch x := st.(type) {
			case *ast.AssignStmt:
				for i, l := range x.Lhs {
					lt := exprText(l)
					if strings.HasPrefix(lt, "query.TimeRange") || lt == "now" {
						r := "?"
						if len(x.Rhs) == len(x.Lhs) {
							r = exprText(x.Rhs[i])
						}
						trs = append(trs, fmt.Sprintf("(%s, %s, %s)", c17LeanStr(lt), c17LeanStr(conds), c17LeanStr(r)))
					}
				}
			case *ast.IfStmt:
				cnd := exprText(x.Cond)
				if conds != "" {
					cnd = conds + " && " + cnd
				}
				walkTR(x.Body.List, cnd)
				if eb, ok := x.Else.(*ast.BlockStmt); ok {
					walkTR(eb.List, "!("+cnd+")")
				}
			case *ast.BlockStmt:
				walkTR(x.List, conds)
			}
		}
	}
	walkTR(bf.Body.List, "")
	fmt.Fprintf(&sb, "\n/-- queryStmtParser.build: (assigned, enclosing conditions, value) for `now` and query.TimeRange -/\ndef buildTimeRange : List (String × String × String) := [%s]\n", strings.Join(trs, ",\n  "))

	// ---- isCompleteExpr: the case list, and what validation() applies it to
	ic := FindFunc(qp, "", "isCompleteExpr")
	if ic == nil {
		return "", fmt.Errorf("isCompleteExpr not found in sql/query_stmt_parser.go")
	}
	var ccs []string
	ast.Inspect(ic.Body, func(n ast.Node) bool {
		ts, ok := n.(*ast.TypeSwitchStmt)
		if !ok {
			return true
		}
		for _, c := range ts.Body.List {
			cc := c.(*ast.CaseClause)
			var body []string
			for _, st := range cc.Body {
				body = append(body, c17NodeText(st))
			}
			label := "default"
			if len(cc.List) > 0 {
				var ls []string
				for _, l := range cc.List {
					ls = append(ls, exprText(l))
				}
				label = strings.Join(ls, ",")
			}
			ccs = append(ccs, fmt.Sprintf("(%s, %s)", c17LeanStr(label), c17LeanStr(strings.Join(body, "; "))))
		}
		return false
	})
	fmt.Fprintf(&sb, "\n/-- isCompleteExpr: (case, body) -/\ndef completeCases : List (String × String) := [%s]\n", strings.Join(ccs, ",\n  "))
	vfn := FindFunc(qp, "queryStmtParser", "validation")
	if vfn == nil {
		return "", fmt.Errorf("queryStmtParser.validation not found")
	}
	var vcs []string
	var walkV func(n ast.Node, ctxt string)
	walkV = func(n ast.Node, ctxt string) {
		ast.Inspect(n, func(m ast.Node) bool {
			switch x := m.(type) {
			case *ast.RangeStmt:
				walkV(x.Body, "range "+exprText(x.X))
				return false
			case *ast.CallExpr:
				if id, ok := x.Fun.(*ast.Ident); ok && id.Name == "isCompleteExpr" && len(x.Args) == 1 {
					vcs = append(vcs, fmt.Sprintf("(%s, %s)", c17LeanStr(ctxt), c17LeanStr(exprText(x.Args[0]))))
				}
			}
			return true
		})
	}
	walkV(vfn.Body, "")
	fmt.Fprintf(&sb, "/-- validation(): (enclosing range, argument) of every isCompleteExpr call -/\ndef validationChecks : List (String × String) := [%s]\n", strings.Join(vcs, ", "))

	// ---- visitExprAtom: the number literal comes from ParseFloat and its error is not dropped
	va := FindFunc(qp, "queryStmtParser", "visitExprAtom")
	if va == nil {
		return "", fmt.Errorf("visitExprAtom not found")
	}
	var pfs []string
	ast.Inspect(va.Body, func(n ast.Node) bool {
		switch x := n.(type) {
		case *ast.AssignStmt:
			if t := c17NodeText(x); strings.Contains(t, "ParseFloat") {
				pfs = append(pfs, t)
			}
		case *ast.IfStmt:
			if t := exprText(x.Cond); t == "err != nil" {
				pfs = append(pfs, c17NodeText(x))
			}
		}
		return true
	})
	fmt.Fprintf(&sb, "/-- visitExprAtom: the ParseFloat call and the guard on its error -/\ndef parseFloatGuard : List String := %s\n", LeanStrList(pfs))

	// ---- every stmt.<Expr kind> literal the listener builds: (function, kind, fields set at construction)
	var cons []string
	for _, rel := range []string{"sql/query_stmt_parser.go", "sql/base_stmt_parser.go", "sql/metric_metadata_stmt_parser.go"} {
		_, f, err := ParseFile(repo, rel)
		if err != nil {
			return "", err
		}
		for _, d := range f.Decls {
			fd, ok := d.(*ast.FuncDecl)
			if !ok || fd.Body == nil {
				continue
			}
			ast.Inspect(fd.Body, func(n ast.Node) bool {
				cl, ok := n.(*ast.CompositeLit)
				if !ok {
					return true
				}
				se, ok := cl.Type.(*ast.SelectorExpr)
				if !ok || exprText(se.X) != "stmt" || !strings.HasSuffix(se.Sel.Name, "Expr") && se.Sel.Name != "SelectItem" && se.Sel.Name != "NumberLiteral" {
					return true
				}
				var keys []string
				for _, e := range cl.Elts {
					if kv, ok := e.(*ast.KeyValueExpr); ok {
						keys = append(keys, exprText(kv.Key))
					} else {
						keys = append(keys, "<positional>")
					}
				}
				cons = append(cons, fmt.Sprintf("(%s, %s, %s)", c17LeanStr(fd.Name.Name), c17LeanStr(se.Sel.Name), LeanStrList(keys)))
				return true
			})
		}
	}
	// ---- where the listener links nodes together / stores the clauses of the statement
	var asg []string
	linkSel := map[string]bool{"Expr": true, "Left": true, "Right": true, "Params": true, "condition": true,
		"havingStmt": true, "selectItems": true, "orderBy": true}
	for _, rel := range []string{"sql/query_stmt_parser.go", "sql/base_stmt_parser.go", "sql/metric_metadata_stmt_parser.go"} {
		_, f, err := ParseFile(repo, rel)
		if err != nil {
			return "", err
		}
		for _, d := range f.Decls {
			fd, ok := d.(*ast.FuncDecl)
			if !ok || fd.Body == nil {
				continue
			}
			ast.Inspect(fd.Body, func(n ast.Node) bool {
				as, ok := n.(*ast.AssignStmt)
				if !ok || len(as.Lhs) != 1 || len(as.Rhs) != 1 {
					return true
				}
				if se, ok := as.Lhs[0].(*ast.SelectorExpr); ok && linkSel[se.Sel.Name] {
					asg = append(asg, fmt.Sprintf("(%s, %s, %s)", c17LeanStr(fd.Name.Name), c17LeanStr(exprText(as.Lhs[0])), c17LeanStr(exprText(as.Rhs[0]))))
				}
				return true
			})
		}
	}
	fmt.Fprintf(&sb, "/-- (function, assigned link or clause, value) -/\ndef listenerLinks : List (String × String × String) := [\n  %s]\n", strings.Join(asg, ",\n  "))
	fmt.Fprintf(&sb, "/-- every expression node literal in the listener: (function, kind, fields set) -/\ndef listenerConstructs : List (String × String × List String) := [\n  %s]\n", strings.Join(cons, ",\n  "))

	// ---- plan stages: where the payload of a task request comes from, and what the receiving
	// processors unmarshal
	var pps, calls []string
	for _, site := range [][3]string{
		{"query/context/root_metric_context.go", "RootMetricContext", "MakePlan"},
		{"query/context/intermediate_metric_context.go", "IntermediateMetricContext", "MakePlan"},
		{"query/context/metadata_context.go", "MetadataContext", "MakePlan"},
	} {
		_, f, err := ParseFile(repo, site[0])
		if err != nil {
			return "", err
		}
		fd := FindFunc(f, site[1], site[2])
		if fd == nil {
			return "", fmt.Errorf("%s.%s not found", site[1], site[2])
		}
		pps = append(pps, fmt.Sprintf("(%s, %s)", c17LeanStr(site[1]+"."+site[2]), c17LeanStr(c17PayloadSource(fd))))
		calls = append(calls, fmt.Sprintf("(%s, %s)", c17LeanStr(site[1]+"."+site[2]), LeanStrList(CallSeq(fd))))
	}
	fmt.Fprintf(&sb, "\n/-- (plan stage, the expression whose value is sent as TaskRequest.Payload) -/\ndef planPayloads : List (String × String) := [%s]\n", strings.Join(pps, ", "))
	fmt.Fprintf(&sb, "/-- calls of the plan stages in source order -/\ndef planCalls : List (String × List String) := [%s]\n", strings.Join(calls, ",\n  "))
	var lus []string
	for _, site := range [][3]string{
		{"query/leaf_processor.go", "leafTaskProcessor", "processMetadataSuggest"},
		{"query/leaf_processor.go", "leafTaskProcessor", "processDataSearch"},
		{"query/intermediate_processor.go", "intermediateTaskProcessor", "processDataSearch"},
		{"query/intermediate_processor.go", "intermediateTaskProcessor", "processMetadataSearch"},
	} {
		_, f, err := ParseFile(repo, site[0])
		if err != nil {
			return "", err
		}
		fd := FindFunc(f, site[1], site[2])
		if fd == nil {
			return "", fmt.Errorf("%s.%s not found", site[1], site[2])
		}
		var args []string
		ast.Inspect(fd.Body, func(n ast.Node) bool {
			if ce, ok := n.(*ast.CallExpr); ok {
				if se, ok := ce.Fun.(*ast.SelectorExpr); ok && se.Sel.Name == "UnmarshalJSON" {
					var as []string
					for _, a := range ce.Args {
						as = append(as, exprText(a))
					}
					args = append(args, strings.Join(as, ","))
				}
			}
			return true
		})
		lus = append(lus, fmt.Sprintf("(%s, %s)", c17LeanStr(site[1]+"."+site[2]), LeanStrList(args)))
	}
	fmt.Fprintf(&sb, "/-- (processor, arguments of its statement.UnmarshalJSON calls) -/\ndef leafUnmarshals : List (String × List String) := [%s]\n", strings.Join(lus, ", "))
	r8, err := genC17Round8(repo)
	if err != nil {
		return "", err
	}
	sb.WriteString(r8)
	r10, err := genC17Round10(repo)
	if err != nil {
		return "", err
	}
	sb.WriteString(r10)
	r12, err := genC17Round12(repo)
	if err != nil {
		return "", err
	}
	sb.WriteString(r12)
	return sb.String(), nil
}

// c17NodeText prints any node on one line.
func c17NodeText(n ast.Node) string {
	var b bytes.Buffer
	if err := printer.Fprint(&b, token.NewFileSet(), n); err != nil {
		return "<unprintable>"
	}
	return strings.Join(strings.Fields(b.String()), " ")
}

// c17PayloadSource: the value of `Payload:` in the TaskRequest literal of a plan stage; when it is
// a local variable, the right-hand side of its (single) assignment, otherwise the expression
// itself. Several assignments are reported as such.
func c17PayloadSource(fd *ast.FuncDecl) string {
	var payload ast.Expr
	ast.Inspect(fd.Body, func(n ast.Node) bool {
		if kv, ok := n.(*ast.KeyValueExpr); ok {
			if id, ok := kv.Key.(*ast.Ident); ok && id.Name == "Payload" && payload == nil {
				payload = kv.Value
			}
		}
		return true
	})
	if payload == nil {
		return "<no Payload field>"
	}
	id, ok := payload.(*ast.Ident)
	if !ok {
		return exprText(payload)
	}
	var rhs []string
	ast.Inspect(fd.Body, func(n ast.Node) bool {
		switch x := n.(type) {
		case *ast.AssignStmt:
			for i, l := range x.Lhs {
				if li, ok := l.(*ast.Ident); ok && li.Name == id.Name {
					if len(x.Rhs) == len(x.Lhs) {
						rhs = append(rhs, exprText(x.Rhs[i]))
					} else if len(x.Rhs) == 1 && i == 0 {
						rhs = append(rhs, exprText(x.Rhs[0]))
					} else {
						rhs = append(rhs, "<multi-value>")
					}
				}
			}
		case *ast.IncDecStmt:
			if li, ok := x.X.(*ast.Ident); ok && li.Name == id.Name {
				rhs = append(rhs, "<incdec>")
			}
		}
		return true
	})
	if len(rhs) == 1 {
		return rhs[0]
	}
	return fmt.Sprintf("<%d assignments: %s>", len(rhs), strings.Join(rhs, " | "))
}

// c17ExprText prints an expression without blanks (enough to compare a guard's shape).
func c17ExprText(e ast.Expr) string {
	switch x := e.(type) {
	case *ast.BinaryExpr:
		return c17ExprText(x.X) + x.Op.String() + c17ExprText(x.Y)
	case *ast.ParenExpr:
		return "(" + c17ExprText(x.X) + ")"
	case *ast.SelectorExpr:
		return c17ExprText(x.X) + "." + x.Sel.Name
	case *ast.Ident:
		return x.Name
	case *ast.BasicLit:
		return x.Value
	case *ast.CallExpr:
		var as []string
		for _, a := range x.Args {
			as = append(as, c17ExprText(a))
		}
		return c17ExprText(x.Fun) + "(" + strings.Join(as, ",") + ")"
	}
	return "?"
}
