package extract

import (
	"bytes"
	"fmt"
	"go/ast"
	"go/printer"
	"go/token"
	"sort"
	"strconv"
	"strings"
)

// C10: the expression-kind dispatch of the two query operators and of the dictionary, the key
// under which atomic results are stored, the like-pattern switch, the regexp iterator prefix,
// the forward reader's lookup table formula and the Rewrite() formats.

func c10Src(fset *token.FileSet, n ast.Node) string {
	var b bytes.Buffer
	_ = printer.Fprint(&b, fset, n)
	return strings.Join(strings.Fields(b.String()), " ")
}

// c10TypeSwitchCases lists the case types of the first type switch in fd ("default" for default).
func c10TypeSwitchCases(fset *token.FileSet, fd *ast.FuncDecl) ([]string, *ast.TypeSwitchStmt) {
	var ts *ast.TypeSwitchStmt
	ast.Inspect(fd, func(n ast.Node) bool {
		if ts != nil {
			return false
		}
		if t, ok := n.(*ast.TypeSwitchStmt); ok {
			ts = t
			return false
		}
		return true
	})
	if ts == nil {
		return nil, nil
	}
	var out []string
	for _, s := range ts.Body.List {
		cc := s.(*ast.CaseClause)
		if cc.List == nil {
			out = append(out, "default")
			continue
		}
		var ts []string
		for _, e := range cc.List {
			ts = append(ts, c10Src(fset, e))
		}
		out = append(out, strings.Join(ts, ","))
	}
	return out, ts
}

// c10IndexOf returns the index expressions X of every `<sel>.TagFilterResult[X]` in fd.
func c10IndexOf(fset *token.FileSet, fd *ast.FuncDecl, field string) []string {
	var out []string
	ast.Inspect(fd, func(n ast.Node) bool {
		ix, ok := n.(*ast.IndexExpr)
		if !ok {
			return true
		}
		if se, ok := ix.X.(*ast.SelectorExpr); ok && se.Sel.Name == field {
			out = append(out, c10Src(fset, ix.Index))
		}
		return true
	})
	return out
}

// c10Returns lists, per case clause of the type switch, the source of its return statements' results.
func c10Returns(fset *token.FileSet, ts *ast.TypeSwitchStmt) []string {
	var out []string
	for _, s := range ts.Body.List {
		cc := s.(*ast.CaseClause)
		var rs []string
		for _, st := range cc.Body {
			ast.Inspect(st, func(n ast.Node) bool {
				if _, ok := n.(*ast.FuncLit); ok {
					return false
				}
				if r, ok := n.(*ast.ReturnStmt); ok {
					var parts []string
					for _, e := range r.Results {
						parts = append(parts, c10Src(fset, e))
					}
					rs = append(rs, strings.Join(parts, ", "))
				}
				return true
			})
		}
		out = append(out, strings.Join(rs, " | "))
	}
	return out
}

func c10SprintfFormat(fd *ast.FuncDecl) (string, bool) {
	var f string
	var ok bool
	ast.Inspect(fd, func(n ast.Node) bool {
		c, isCall := n.(*ast.CallExpr)
		if !isCall || ok {
			return true
		}
		if se, isSel := c.Fun.(*ast.SelectorExpr); isSel && se.Sel.Name == "Sprintf" && len(c.Args) > 0 {
			if bl, isLit := c.Args[0].(*ast.BasicLit); isLit && bl.Kind == token.STRING {
				if s, err := strconv.Unquote(bl.Value); err == nil {
					f, ok = s, true
				}
			}
		}
		return true
	})
	return f, ok
}

func c10Bool(b bool) string {
	if b {
		return "true"
	}
	return "false"
}

func init() {
	Register(Fact{Module: "C10", Gen: func(repo string) (string, error) {
		var sb strings.Builder
		// ---- tagValuesLookup / seriesFiltering dispatch
		fs1, tvl, err := ParseFile(repo, "query/operator/tag_values_lookup.go")
		if err != nil {
			return "", err
		}
		fd := FindFunc(tvl, "tagValuesLookup", "findTagValueIDsByExpr")
		if fd == nil {
			return "", fmt.Errorf("tagValuesLookup.findTagValueIDsByExpr not found")
		}
		cases, ts := c10TypeSwitchCases(fs1, fd)
		if ts == nil {
			return "", fmt.Errorf("no type switch in findTagValueIDsByExpr")
		}
		sb.WriteString("/-- case types of the type switch in tagValuesLookup.findTagValueIDsByExpr -/\n")
		sb.WriteString("def lookupCases : List String := " + LeanStrList(cases) + "\n")
		lk := c10IndexOf(fs1, fd, "TagFilterResult")
		sb.WriteString("def lookupKeyExprs : List String := " + LeanStrList(lk) + "\n")
		// the guard on the binary operator
		var binGuard string
		ast.Inspect(fd, func(n ast.Node) bool {
			if is, ok := n.(*ast.IfStmt); ok && binGuard == "" {
				s := c10Src(fs1, is.Cond)
				if strings.Contains(s, "Operator") {
					binGuard = s
				}
			}
			return true
		})
		sb.WriteString("def lookupBinaryGuard : String := " + strconv.Quote(binGuard) + "\n\n")

		fs2, sf, err := ParseFile(repo, "query/operator/series_filtering.go")
		if err != nil {
			return "", err
		}
		fd2 := FindFunc(sf, "seriesFiltering", "findSeriesIDsByExpr")
		if fd2 == nil {
			return "", fmt.Errorf("seriesFiltering.findSeriesIDsByExpr not found")
		}
		cases2, ts2 := c10TypeSwitchCases(fs2, fd2)
		if ts2 == nil {
			return "", fmt.Errorf("no type switch in findSeriesIDsByExpr")
		}
		sb.WriteString("/-- case types / returned (tag key, series) per case of seriesFiltering.findSeriesIDsByExpr -/\n")
		sb.WriteString("def filterCases : List String := " + LeanStrList(cases2) + "\n")
		sb.WriteString("def filterReturns : List String := " + LeanStrList(c10Returns(fs2, ts2)) + "\n")
		fd3 := FindFunc(sf, "seriesFiltering", "getSeriesIDsByExpr")
		if fd3 == nil {
			return "", fmt.Errorf("seriesFiltering.getSeriesIDsByExpr not found")
		}
		fk := c10IndexOf(fs2, fd3, "TagFilterResult")
		sb.WriteString("def filterKeyExprs : List String := " + LeanStrList(fk) + "\n")
		byRewrite := len(lk) == 1 && len(fk) == 1 && lk[0] == "expr.Rewrite()" && fk[0] == "expr.Rewrite()"
		sb.WriteString("/-- both operators key TagFilterResult by expr.Rewrite() -/\n")
		sb.WriteString("def keyByRewrite : Bool := " + c10Bool(byRewrite) + "\n\n")

		// ---- dictionary dispatch + like switch
		fs3, ks, err := ParseFileRaw(repo, "index/kv_store.go")
		if err != nil {
			return "", err
		}
		fd4 := FindFunc(ks, "indexKVStore", "FindValuesByExpr")
		if fd4 == nil {
			return "", fmt.Errorf("indexKVStore.FindValuesByExpr not found")
		}
		cases3, _ := c10TypeSwitchCases(fs3, fd4)
		sb.WriteString("def resolveCases : List String := " + LeanStrList(cases3) + "\n")
		fd5 := FindFunc(ks, "indexKVStore", "FindValuesByLike")
		if fd5 == nil {
			return "", fmt.Errorf("indexKVStore.FindValuesByLike not found")
		}
		var wild []string
		var likeCases []string
		ast.Inspect(fd5, func(n ast.Node) bool {
			switch x := n.(type) {
			case *ast.CallExpr:
				if se, ok := x.Fun.(*ast.SelectorExpr); ok && (se.Sel.Name == "HasPrefix" || se.Sel.Name == "HasSuffix") && len(x.Args) == 2 {
					if bl, ok := x.Args[1].(*ast.BasicLit); ok && bl.Kind == token.STRING {
						if s, err := strconv.Unquote(bl.Value); err == nil {
							wild = append(wild, se.Sel.Name+":"+s)
						}
					}
				}
			case *ast.SwitchStmt:
				if x.Tag == nil {
					for _, s := range x.Body.List {
						cc := s.(*ast.CaseClause)
						if cc.List == nil {
							likeCases = append(likeCases, "default")
						} else {
							likeCases = append(likeCases, c10Src(fs3, cc.List[0]))
						}
					}
				}
			}
			return true
		})
		// slice expressions applied to the pattern
		var slices []string
		ast.Inspect(fd5, func(n ast.Node) bool {
			if se, ok := n.(*ast.SliceExpr); ok {
				slices = append(slices, c10Src(fs3, se))
			}
			return true
		})
		sb.WriteString("def likeWildcards : List String := " + LeanStrList(wild) + "\n")
		sb.WriteString("def likeCases : List String := " + LeanStrList(likeCases) + "\n")
		sb.WriteString("def likeSlices : List String := " + LeanStrList(slices) + "\n")
		guarded := false
		for i, c := range likeCases {
			if c == `like == "*"` {
				// must precede the case that slices both ends
				guarded = true
				for j := 0; j < i; j++ {
					if likeCases[j] == "hashPrefix && hasSuffix" {
						guarded = false
					}
				}
			}
		}
		sb.WriteString("def likeStarGuarded : Bool := " + c10Bool(guarded) + "\n\n")

		// ---- regexp iterator prefix
		fs4, tb, err := ParseFile(repo, "index/model/trie_bucket.go")
		if err != nil {
			return "", err
		}
		fd6 := FindFunc(tb, "TrieBucket", "FindValuesByRegexp")
		if fd6 == nil {
			return "", fmt.Errorf("TrieBucket.FindValuesByRegexp not found")
		}
		var itArg string
		ast.Inspect(fd6, func(n ast.Node) bool {
			if c, ok := n.(*ast.CallExpr); ok {
				if se, ok := c.Fun.(*ast.SelectorExpr); ok && se.Sel.Name == "NewPrefixIterator" && len(c.Args) == 1 {
					itArg = c10Src(fs4, c.Args[0])
				}
			}
			return true
		})
		if itArg == "" {
			return "", fmt.Errorf("NewPrefixIterator call not found in FindValuesByRegexp")
		}
		usesLit := false
		for _, c := range CallSeq(fd6) {
			if strings.HasSuffix(c, ".LiteralPrefix") {
				usesLit = true
			}
		}
		sb.WriteString("def rxIteratorArg : String := " + strconv.Quote(itArg) + "\n")
		sb.WriteString("/-- the persisted tries are walked from rp.LiteralPrefix() -/\n")
		sb.WriteString("def rxLitPrefix : Bool := " + c10Bool(itArg != "nil" && usesLit) + "\n\n")

		// ---- forward reader lut
		fs5, fr, err := ParseFile(repo, "index/v1/forward_reader.go")
		if err != nil {
			return "", err
		}
		fd7 := FindFunc(fr, "", "NewTagForwardReader")
		if fd7 == nil {
			return "", fmt.Errorf("NewTagForwardReader not found")
		}
		var lutRHS []string
		ast.Inspect(fd7, func(n ast.Node) bool {
			if as, ok := n.(*ast.AssignStmt); ok && len(as.Lhs) == 1 && len(as.Rhs) == 1 {
				if ix, ok := as.Lhs[0].(*ast.IndexExpr); ok {
					if id, ok := ix.X.(*ast.Ident); ok && id.Name == "lut" {
						lutRHS = append(lutRHS, "lut["+c10Src(fs5, ix.Index)+"] "+as.Tok.String()+" "+c10Src(fs5, as.Rhs[0]))
					}
				}
			}
			return true
		})
		sb.WriteString("def lutAssigns : List String := " + LeanStrList(lutRHS) + "\n")
		cum := false
		for _, a := range lutRHS {
			// lut[idx+1] = lut[idx] + <cardinality>
			if strings.HasPrefix(a, "lut[idx + 1] = ") || strings.HasPrefix(a, "lut[idx+1] = ") {
				rhs := a[strings.Index(a, "] = ")+4:]
				if strings.Contains(rhs, "lut[idx]") && strings.Contains(rhs, "+") {
					cum = true
				}
			}
		}
		sb.WriteString("/-- lut[idx+1] accumulates the cardinalities of the earlier containers -/\n")
		sb.WriteString("def lutCumulative : Bool := " + c10Bool(cum) + "\n\n")

		// ---- PrepareFlush swap condition of the three stores
		_, mid, err := ParseFileRaw(repo, "index/metric_index_database.go")
		if err != nil {
			return "", err
		}
		fsm := token.NewFileSet()
		var conds []string
		for _, t := range []struct {
			f          *ast.File
			recv, name string
		}{{ks, "indexKVStore", "PrepareFlush"}, {mid, "invertedIndex", "prepareFlush"}, {mid, "forwardIndex", "prepareFlush"}} {
			fd := FindFunc(t.f, t.recv, t.name)
			if fd == nil {
				return "", fmt.Errorf("%s.%s not found", t.recv, t.name)
			}
			found := false
			ast.Inspect(fd, func(n ast.Node) bool {
				if is, ok := n.(*ast.IfStmt); ok && !found {
					conds = append(conds, c10Src(fsm, is.Cond))
					found = true
				}
				return true
			})
			if !found {
				return "", fmt.Errorf("%s.%s: no if statement", t.recv, t.name)
			}
		}
		sb.WriteString("def prepareConds : List String := " + LeanStrList(conds) + "\n")
		onEmpty := true
		for _, c := range conds {
			if !strings.Contains(c, "IsEmpty()") || !strings.Contains(c, "||") {
				onEmpty = false
			}
		}
		sb.WriteString("/-- PrepareFlush swaps the tables also when the immutable table is empty -/\n")
		sb.WriteString("def prepareOnEmpty : Bool := " + c10Bool(onEmpty) + "\n\n")

		// ---- step order of the three flush functions: calls and writes to `.immutable` in source order
		flushEvents := func(fd *ast.FuncDecl) []string {
			type ev struct {
				pos token.Pos
				s   string
			}
			var evs []ev
			ast.Inspect(fd.Body, func(n ast.Node) bool {
				switch x := n.(type) {
				case *ast.FuncLit:
					evs = append(evs, ev{x.Pos(), "func-literal"})
					return false // the body of the WalkEntry callback is not a step of flush itself
				case *ast.CallExpr:
					evs = append(evs, ev{x.Pos(), "call:" + exprName(x.Fun)})
				case *ast.AssignStmt:
					for i, l := range x.Lhs {
						if se, ok := l.(*ast.SelectorExpr); ok && se.Sel.Name == "immutable" && i < len(x.Rhs) {
							evs = append(evs, ev{x.Pos(), "set:immutable=" + c10Src(fsm, x.Rhs[i])})
						}
					}
					for _, r := range x.Rhs {
						if se, ok := r.(*ast.SelectorExpr); ok && se.Sel.Name == "immutable" {
							evs = append(evs, ev{x.Pos(), "read:immutable"})
						}
					}
				case *ast.ReturnStmt:
					if len(x.Results) == 1 {
						if id, ok := x.Results[0].(*ast.Ident); ok {
							evs = append(evs, ev{x.Pos(), "return:" + id.Name})
						} else if _, ok := x.Results[0].(*ast.CallExpr); ok {
							evs = append(evs, ev{x.Pos(), "return:call"})
						}
					}
				}
				return true
			})
			sort.SliceStable(evs, func(i, j int) bool { return evs[i].pos < evs[j].pos })
			out := make([]string, len(evs))
			for i, e := range evs {
				out[i] = e.s
			}
			return out
		}
		for _, t := range []struct {
			f                *ast.File
			recv, name, lean string
		}{{mid, "invertedIndex", "flush", "invFlushEvents"}, {mid, "forwardIndex", "flush", "fwdFlushEvents"}, {ks, "indexKVStore", "Flush", "dictFlushEvents"}} {
			fd := FindFunc(t.f, t.recv, t.name)
			if fd == nil {
				return "", fmt.Errorf("%s.%s not found", t.recv, t.name)
			}
			sb.WriteString("def " + t.lean + " : List String := " + LeanStrList(flushEvents(fd)) + "\n")
		}
		// helpers of the stores that write `.immutable` (besides prepareFlush and flush themselves)
		var immWriters []string
		for _, f := range []*ast.File{mid, ks} {
			for _, d := range f.Decls {
				fd, ok := d.(*ast.FuncDecl)
				if !ok || fd.Body == nil {
					continue
				}
				writes := false
				ast.Inspect(fd.Body, func(n ast.Node) bool {
					if as, ok := n.(*ast.AssignStmt); ok {
						for _, l := range as.Lhs {
							if se, ok := l.(*ast.SelectorExpr); ok && se.Sel.Name == "immutable" {
								writes = true
							}
						}
					}
					return true
				})
				if writes {
					r := ""
					if fd.Recv != nil && len(fd.Recv.List) == 1 {
						r = lastIdent(fd.Recv.List[0].Type) + "."
					}
					immWriters = append(immWriters, r+fd.Name.Name)
				}
			}
		}
		sort.Strings(immWriters)
		sb.WriteString("/-- every function that assigns a store's `immutable` field -/\n")
		sb.WriteString("def immutableWriters : List String := " + LeanStrList(immWriters) + "\n\n")

		// ---- order of "take the file snapshot" vs "read the memory tables" in the read paths
		readOrder := func(fd *ast.FuncDecl) ([]string, bool) {
			type ev struct {
				pos token.Pos
				s   string
			}
			var evs []ev
			ast.Inspect(fd.Body, func(n ast.Node) bool {
				switch x := n.(type) {
				case *ast.CallExpr:
					nm := exprName(x.Fun)
					switch {
					case strings.HasSuffix(nm, ".getSnapshot") || strings.HasSuffix(nm, ".GetSnapshot"):
						evs = append(evs, ev{x.Pos(), "snapshot"})
					case strings.HasSuffix(nm, ".findValuesByRegexp") || strings.HasSuffix(nm, ".findValuesByLikeFormMem") ||
						strings.HasSuffix(nm, ".findSeriesIDsByKeyFromMem") || strings.HasSuffix(nm, ".loadSeriesIDsInMem") ||
						strings.HasSuffix(nm, ".getValuesFromMem") || nm == "collect" || nm == "suggest":
						evs = append(evs, ev{x.Pos(), "memory"})
					case strings.HasSuffix(nm, ".getGroupingScanners"):
						evs = append(evs, ev{x.Pos(), "scanners"})
					case nm == "verifhook.Yield":
						evs = append(evs, ev{x.Pos(), "yield"})
					}
				case *ast.SelectorExpr:
					if x.Sel.Name == "snapshot" {
						if _, isCall := x.X.(*ast.CallExpr); !isCall {
							evs = append(evs, ev{x.Pos(), "snapshot"})
						}
					}
				}
				return true
			})
			sort.SliceStable(evs, func(i, j int) bool { return evs[i].pos < evs[j].pos })
			var out []string
			firstMem, firstSnap := -1, -1
			for i, e := range evs {
				out = append(out, e.s)
				if e.s == "memory" && firstMem < 0 {
					firstMem = i
				}
				if e.s == "snapshot" && firstSnap < 0 {
					firstSnap = i
				}
			}
			return out, firstMem >= 0 && firstSnap >= 0 && firstMem < firstSnap
		}
		memFirstAll := func(names [][2]string, f *ast.File, lean string) error {
			all := true
			var lists []string
			for _, rn := range names {
				fd := FindFunc(f, rn[0], rn[1])
				if fd == nil {
					return fmt.Errorf("%s.%s not found", rn[0], rn[1])
				}
				l, mf := readOrder(fd)
				line := rn[1] + ": " + strings.Join(l, " ")
				if !strings.HasPrefix(lean, "dictScan") && lean != "inv" && lean != "fwd" {
					line = strings.ReplaceAll(line, " yield", "") // the same list with and without the hook line
				}
				lists = append(lists, line)
				all = all && mf
			}
			sb.WriteString("def " + lean + "Order : List String := " + LeanStrList(lists) + "\n")
			sb.WriteString("def " + lean + "MemFirst : Bool := " + c10Bool(all) + "\n")
			return nil
		}
		sb.WriteString("/-- per read path: the order of taking the file snapshot and reading the memory tables -/\n")
		if err := memFirstAll([][2]string{{"indexKVStore", "FindValuesByRegexp"}, {"indexKVStore", "findValuesByLike"}}, ks, "dictScan"); err != nil {
			return "", err
		}
		if err := memFirstAll([][2]string{{"invertedIndex", "findSeriesIDsByKeys"}}, mid, "inv"); err != nil {
			return "", err
		}
		if err := memFirstAll([][2]string{{"forwardIndex", "findSeriesIDsForTag"}}, mid, "fwd"); err != nil {
			return "", err
		}
		if err := memFirstAll([][2]string{{"indexKVStore", "GetValues"}}, ks, "values"); err != nil {
			return "", err
		}
		if err := memFirstAll([][2]string{{"indexKVStore", "CollectKVs"}}, ks, "collect"); err != nil {
			return "", err
		}
		if err := memFirstAll([][2]string{{"indexKVStore", "Suggest"}}, ks, "suggest"); err != nil {
			return "", err
		}
		if err := memFirstAll([][2]string{{"invertedIndex", "getSeriesIDs"}}, mid, "invGet"); err != nil {
			return "", err
		}
		{
			// GetGroupingContext hands its snapshot (if it takes one) to getGroupingScanners, which reads the
			// memory tables and then the files
			g1 := FindFunc(mid, "forwardIndex", "GetGroupingContext")
			g2 := FindFunc(mid, "forwardIndex", "getGroupingScanners")
			if g1 == nil || g2 == nil {
				return "", fmt.Errorf("forwardIndex.GetGroupingContext / getGroupingScanners not found")
			}
			l1, _ := readOrder(g1)
			l2, mf2 := readOrder(g2)
			outerSnapFirst := false
			for _, e := range l1 {
				if e == "snapshot" {
					outerSnapFirst = true
				}
				if e == "scanners" {
					break
				}
			}
			sb.WriteString("def groupingOrder : List String := " + LeanStrList([]string{strings.ReplaceAll("GetGroupingContext: "+strings.Join(l1, " "), " yield", ""), strings.ReplaceAll("getGroupingScanners: "+strings.Join(l2, " "), " yield", "")}) + "\n")
			sb.WriteString("def groupingMemFirst : Bool := " + c10Bool(!outerSnapFirst && mf2) + "\n")
		}
		sb.WriteString("\n")

		// ---- scanGroupingTags: loop structure (no early exit, no bookkeeping shared across keys)
		fsg, grp, err := ParseFile(repo, "flow/grouping.go")
		if err != nil {
			return "", err
		}
		sg := FindFunc(grp, "groupingContext", "scanGroupingTags")
		if sg == nil {
			return "", fmt.Errorf("groupingContext.scanGroupingTags not found")
		}
		var shape []string
		var walkStmts func(list []ast.Stmt, depth int)
		walkStmts = func(list []ast.Stmt, depth int) {
			for _, st := range list {
				switch x := st.(type) {
				case *ast.RangeStmt:
					shape = append(shape, fmt.Sprintf("%d:range %s", depth, c10Src(fsg, x.X)))
					walkStmts(x.Body.List, depth+1)
				case *ast.ForStmt:
					shape = append(shape, fmt.Sprintf("%d:for", depth))
					walkStmts(x.Body.List, depth+1)
				case *ast.IfStmt:
					shape = append(shape, fmt.Sprintf("%d:if %s", depth, c10Src(fsg, x.Cond)))
					walkStmts(x.Body.List, depth+1)
					if x.Else != nil {
						shape = append(shape, fmt.Sprintf("%d:else", depth))
						if b, ok := x.Else.(*ast.BlockStmt); ok {
							walkStmts(b.List, depth+1)
						}
					}
				case *ast.BranchStmt:
					shape = append(shape, fmt.Sprintf("%d:%s", depth, x.Tok.String()))
				case *ast.ReturnStmt:
					shape = append(shape, fmt.Sprintf("%d:return", depth))
				case *ast.AssignStmt:
					var l []string
					for _, e := range x.Lhs {
						l = append(l, c10Src(fsg, e))
					}
					shape = append(shape, fmt.Sprintf("%d:%s %s", depth, strings.Join(l, ","), x.Tok.String()))
				case *ast.IncDecStmt:
					shape = append(shape, fmt.Sprintf("%d:%s%s", depth, c10Src(fsg, x.X), x.Tok.String()))
				case *ast.ExprStmt:
					if c, ok := x.X.(*ast.CallExpr); ok {
						shape = append(shape, fmt.Sprintf("%d:call %s", depth, exprName(c.Fun)))
						for _, a := range c.Args {
							if fl, ok := a.(*ast.FuncLit); ok {
								shape = append(shape, fmt.Sprintf("%d:func-literal", depth+1))
								walkStmts(fl.Body.List, depth+2)
							}
						}
					}
				case *ast.DeclStmt:
					shape = append(shape, fmt.Sprintf("%d:decl", depth))
				default:
					shape = append(shape, fmt.Sprintf("%d:%T", depth, st))
				}
			}
		}
		walkStmts(sg.Body.List, 0)
		sb.WriteString("/-- statements of groupingContext.scanGroupingTags (depth:kind) -/\n")
		sb.WriteString("def scanGroupingShape : List String := " + LeanStrList(shape) + "\n\n")

		// ---- TrieBucketBuilder.Write: how a bucket's sorted keys are cut into trie blocks
		fsb, tbb, err := ParseFile(repo, "index/model/trie_bucket_builder.go")
		if err != nil {
			return "", err
		}
		bw := FindFunc(tbb, "TrieBucketBuilder", "Write")
		if bw == nil {
			return "", fmt.Errorf("TrieBucketBuilder.Write not found")
		}
		var blockStmts []string
		ast.Inspect(bw.Body, func(n ast.Node) bool {
			switch x := n.(type) {
			case *ast.AssignStmt:
				if len(x.Lhs) == 1 {
					if id, ok := x.Lhs[0].(*ast.Ident); ok && (id.Name == "numBlocks" || id.Name == "start" || id.Name == "end") {
						blockStmts = append(blockStmts, c10Src(fsb, x))
					}
				}
			case *ast.IncDecStmt:
				if id, ok := x.X.(*ast.Ident); ok && id.Name == "numBlocks" {
					blockStmts = append(blockStmts, c10Src(fsb, x))
				}
			case *ast.IfStmt:
				blockStmts = append(blockStmts, "if "+c10Src(fsb, x.Cond))
			case *ast.ForStmt:
				h := "for "
				if x.Init != nil {
					h += c10Src(fsb, x.Init)
				}
				h += "; "
				if x.Cond != nil {
					h += c10Src(fsb, x.Cond)
				}
				h += "; "
				if x.Post != nil {
					h += c10Src(fsb, x.Post)
				}
				blockStmts = append(blockStmts, h)
			case *ast.CallExpr:
				if exprName(x.Fun) == "builder.Build" {
					var as []string
					for _, a := range x.Args {
						as = append(as, c10Src(fsb, a))
					}
					blockStmts = append(blockStmts, "Build("+strings.Join(as, ", ")+")")
				}
			}
			return true
		})
		sb.WriteString("/-- the block arithmetic of TrieBucketBuilder.Write in source order -/\n")
		sb.WriteString("def trieBlockSplit : List String := " + LeanStrList(blockStmts) + "\n")
		// the block sizes used by the flush and by the compaction merge
		var flushBlock string
		ast.Inspect(FindFunc(ks, "indexKVStore", "Flush"), func(n ast.Node) bool {
			if c, ok := n.(*ast.CallExpr); ok && exprName(c.Fun) == "newIndexKVFlusher" && len(c.Args) > 0 {
				flushBlock = c10Src(fsb, c.Args[0])
			}
			return true
		})
		var mergeBlock string
		if nb := FindFunc(tb, "", "NewTrieBucket"); nb != nil {
			ast.Inspect(nb, func(n ast.Node) bool {
				if c, ok := n.(*ast.CallExpr); ok && exprName(c.Fun) == "NewTrieBucketWithBlockSize" && len(c.Args) > 0 {
					mergeBlock = c10Src(fsb, c.Args[0])
				}
				return true
			})
		}
		sb.WriteString("def trieBlockSizes : List String := " + LeanStrList([]string{flushBlock, mergeBlock}) + "\n\n")

		// ---- indexKVStore.Flush: is the bucket cache purged inside the locked section after flusher.Close()
		{
			evs := flushEvents(FindFunc(ks, "indexKVStore", "Flush"))
			idx := func(name string) int {
				for i, e := range evs {
					if e == name {
						return i
					}
				}
				return -1
			}
			cl, lk, pg, st := idx("call:flusher.Close"), idx("call:lock.Lock"), idx("call:bucketCache.Purge"), idx("set:immutable=nil")
			n := 0
			for _, e := range evs {
				if e == "call:bucketCache.Purge" {
					n++
				}
			}
			sb.WriteString("/-- Purge() runs once, after flusher.Close(), inside the write-locked section that swaps the snapshot -/\n")
			sb.WriteString("def cachePurgeAtSwap : Bool := " + c10Bool(n == 1 && cl >= 0 && lk > cl && pg > lk && st > lk) + "\n")
		}
		// ---- FindValuesByExpr: which lookup each filter kind is answered by
		{
			fdx := FindFunc(ks, "indexKVStore", "FindValuesByExpr")
			_, tsx := c10TypeSwitchCases(fs3, fdx)
			var disp []string
			if tsx != nil {
				for _, st := range tsx.Body.List {
					cc := st.(*ast.CaseClause)
					label := "default"
					if cc.List != nil {
						label = c10Src(fs3, cc.List[0])
					}
					var calls []string
					for _, b := range cc.Body {
						ast.Inspect(b, func(n ast.Node) bool {
							if c, ok := n.(*ast.CallExpr); ok {
								nm := exprName(c.Fun)
								if strings.HasPrefix(nm, "s.") || nm == "regexpCompile" {
									calls = append(calls, nm)
								}
							}
							return true
						})
					}
					disp = append(disp, label+" -> "+strings.Join(calls, ","))
				}
			}
			sb.WriteString("def resolveDispatch : List String := " + LeanStrList(disp) + "\n")
		}
		// ---- TrieBucket.Write: how the merge of small tries pairs keys and ids
		{
			wf := FindFunc(tb, "TrieBucket", "Write")
			if wf == nil {
				return "", fmt.Errorf("TrieBucket.Write not found")
			}
			var pair []string
			ast.Inspect(wf.Body, func(n ast.Node) bool {
				switch x := n.(type) {
				case *ast.AssignStmt:
					if len(x.Lhs) == 1 {
						if id, ok := x.Lhs[0].(*ast.Ident); ok && (id.Name == "keys" || id.Name == "ids" || id.Name == "itr") {
							pair = append(pair, c10Src(fs4, x))
						}
					}
				case *ast.ExprStmt:
					if c, ok := x.X.(*ast.CallExpr); ok && exprName(c.Fun) == "itr.Next" {
						pair = append(pair, "itr.Next()")
					}
				}
				return true
			})
			sb.WriteString("def trieMergePairing : List String := " + LeanStrList(pair) + "\n\n")
		}

		// ---- Rewrite() formats
		_, ex, err := ParseFile(repo, "sql/stmt/expr.go")
		if err != nil {
			return "", err
		}
		for _, t := range []struct{ recv, name string }{{"EqualsExpr", "rewriteEq"}, {"InExpr", "rewriteIn"}, {"LikeExpr", "rewriteLike"}, {"RegexExpr", "rewriteRegex"}, {"NotExpr", "rewriteNot"}} {
			f, ok := c10SprintfFormat(FindFunc(ex, t.recv, "Rewrite"))
			if !ok {
				return "", fmt.Errorf("%s.Rewrite: Sprintf format not found", t.recv)
			}
			sb.WriteString("def " + t.name + " : String := " + strconv.Quote(f) + "\n")
		}
		var joinSep string
		ast.Inspect(FindFunc(ex, "InExpr", "Rewrite"), func(n ast.Node) bool {
			if c, ok := n.(*ast.CallExpr); ok {
				if se, ok := c.Fun.(*ast.SelectorExpr); ok && se.Sel.Name == "Join" && len(c.Args) == 2 {
					if bl, ok := c.Args[1].(*ast.BasicLit); ok {
						joinSep, _ = strconv.Unquote(bl.Value)
					}
				}
			}
			return true
		})
		sb.WriteString("def rewriteInJoin : String := " + strconv.Quote(joinSep) + "\n")
		return sb.String(), nil
	}})
}
