package extract

import (
	"fmt"
	"go/ast"
	"go/token"
	"go/types"
	"strings"
)

// C04, round 8: the shape of the manifest snapshot of the rollup bookkeeping
// (storeVersionSet.createFamilySnapshot), the key under which family_rollup.go writes / looks up /
// deletes a reference, the add* methods of version/rollup.go, and the two ends of the target slot
// range in the rollup branch of merger.prepare.

// c04RangeStack walks body and calls visit for every call expression with the stack of the
// enclosing range statements (outermost first).
func c04RangeStack(body ast.Node, visit func(call *ast.CallExpr, stack []*ast.RangeStmt)) {
	var stack []*ast.RangeStmt
	var walk func(n ast.Node)
	walk = func(n ast.Node) {
		if n == nil {
			return
		}
		ast.Inspect(n, func(m ast.Node) bool {
			switch x := m.(type) {
			case *ast.RangeStmt:
				if x != n {
					// visit the ranged expression outside, the body inside the new frame
					walk(x.X)
					stack = append(stack, x)
					walk(x.Body)
					stack = stack[:len(stack)-1]
					return false
				}
			case *ast.CallExpr:
				visit(x, append([]*ast.RangeStmt(nil), stack...))
			}
			return true
		})
	}
	walk(body)
}

func c04RangeText(rs *ast.RangeStmt) string {
	k, v := "_", ""
	if rs.Key != nil {
		k = types.ExprString(rs.Key)
	}
	if rs.Value != nil {
		v = ", " + types.ExprString(rs.Value)
	}
	return fmt.Sprintf("%s%s %s range %s", k, v, rs.Tok.String(), types.ExprString(rs.X))
}

func c04Args(call *ast.CallExpr) []string {
	out := make([]string, len(call.Args))
	for i, a := range call.Args {
		out[i] = types.ExprString(a)
	}
	return out
}

// c04DefOf returns the text of the first `:=` statement of fd that defines name.
func c04DefOf(fd *ast.FuncDecl, name string) string {
	out := "not-found"
	if fd == nil {
		return out
	}
	done := false
	ast.Inspect(fd.Body, func(n ast.Node) bool {
		as, ok := n.(*ast.AssignStmt)
		if !ok || done || as.Tok != token.DEFINE {
			return true
		}
		for _, l := range as.Lhs {
			if id, ok := l.(*ast.Ident); ok && id.Name == name {
				var ls, rs []string
				for _, x := range as.Lhs {
					ls = append(ls, types.ExprString(x))
				}
				for _, x := range as.Rhs {
					rs = append(rs, types.ExprString(x))
				}
				out = strings.Join(ls, ", ") + " := " + strings.Join(rs, ", ")
				done = true
			}
		}
		return true
	})
	return out
}

func c04Round8(repo string) (string, error) {
	var sb strings.Builder
	// ---- createFamilySnapshot
	_, vs, err := ParseFile(repo, "kv/version/version_set.go")
	if err != nil {
		return "", err
	}
	snap := FindFunc(vs, "storeVersionSet", "createFamilySnapshot")
	if snap == nil {
		return "", fmt.Errorf("storeVersionSet.createFamilySnapshot not found")
	}
	var refArgs, refLoops, rolArgs, rolLoops []string
	refLoopVar := false
	refSrc, rolSrc := "not-found", "not-found"
	nRef, nRol := 0, 0
	c04RangeStack(snap.Body, func(call *ast.CallExpr, stack []*ast.RangeStmt) {
		switch lastIdent(call.Fun) {
		case "CreateNewReferenceFile":
			nRef++
			refArgs = c04Args(call)
			refLoops = nil
			for _, rs := range stack {
				refLoops = append(refLoops, c04RangeText(rs))
			}
			// the family argument is the KEY of the range loop over the VALUE of the outer loop
			if len(call.Args) == 3 && len(stack) >= 2 {
				fam := types.ExprString(call.Args[1])
				for i := 1; i < len(stack); i++ {
					outerVal := ""
					if stack[i-1].Value != nil {
						outerVal = types.ExprString(stack[i-1].Value)
					}
					if stack[i].Key != nil && types.ExprString(stack[i].Key) == fam && stack[i].Tok == token.DEFINE &&
						outerVal != "" && types.ExprString(stack[i].X) == outerVal {
						refLoopVar = true
					}
				}
			}
			if len(stack) > 0 {
				refSrc = c04DefOf(snap, types.ExprString(stack[0].X))
			}
		case "CreateNewRollupFile":
			nRol++
			rolArgs = c04Args(call)
			rolLoops = nil
			for _, rs := range stack {
				rolLoops = append(rolLoops, c04RangeText(rs))
			}
			if len(stack) > 0 {
				rolSrc = c04DefOf(snap, types.ExprString(stack[0].X))
			}
		}
	})
	if nRef != 1 || nRol != 1 {
		return "", fmt.Errorf("createFamilySnapshot: expected one CreateNewReferenceFile and one CreateNewRollupFile call, found %d / %d", nRef, nRol)
	}
	cut := func(s string) string { // "x := rhs" -> "rhs"
		if i := strings.Index(s, " := "); i >= 0 {
			return s[i+4:]
		}
		return s
	}
	sb.WriteString("\n/-- `createFamilySnapshot`: the reference / rollup logs of the manifest snapshot; is the family id of a\nreference log the key variable of the inner `range` loop (the source family)? -/\n")
	fmt.Fprintf(&sb, "def snapshotRefFamilyIsLoopVar : Bool := %v\n", refLoopVar)
	sb.WriteString("def snapshotRefArgs : List String := " + LeanStrList(refArgs) + "\n")
	sb.WriteString("def snapshotRefLoops : List String := " + LeanStrList(refLoops) + "\n")
	sb.WriteString("def snapshotRefSource : String := " + fmt.Sprintf("%q", cut(refSrc)) + "\n")
	sb.WriteString("def snapshotRollupArgs : List String := " + LeanStrList(rolArgs) + "\n")
	sb.WriteString("def snapshotRollupLoops : List String := " + LeanStrList(rolLoops) + "\n")
	sb.WriteString("def snapshotRollupSource : String := " + fmt.Sprintf("%q", cut(rolSrc)) + "\n")

	// ---- the reference key in kv/family_rollup.go
	_, fr, err := ParseFile(repo, "kv/family_rollup.go")
	if err != nil {
		return "", err
	}
	var keyArgs, lookups, defs []string
	for _, fc := range []struct{ fn, call string }{{"doRollupWork", "CreateNewReferenceFile"}, {"cleanReferenceFiles", "CreateDeleteReferenceFile"}} {
		fd := FindFunc(fr, "family", fc.fn)
		if fd == nil {
			return "", fmt.Errorf("family.%s not found", fc.fn)
		}
		var args []string
		ast.Inspect(fd.Body, func(n ast.Node) bool {
			if ce, ok := n.(*ast.CallExpr); ok && lastIdent(ce.Fun) == fc.call {
				args = c04Args(ce)
			}
			return true
		})
		keyArgs = append(keyArgs, fmt.Sprintf("(%q, %s)", fc.fn+"."+fc.call, LeanStrList(args)))
		for _, v := range []string{"sourceStore", "sourceFamilyID"} {
			defs = append(defs, fc.fn+": "+c04DefOf(fd, v))
		}
		if fc.fn == "doRollupWork" {
			lookups = append(lookups, cut(c04DefOf(fd, "referenceFiles")))
			ast.Inspect(fd.Body, func(n ast.Node) bool {
				if ix, ok := n.(*ast.IndexExpr); ok && exprName(ix.X) == "referenceFiles" {
					lookups = append(lookups, types.ExprString(ix))
				}
				return true
			})
		}
	}
	sb.WriteString("\n/-- the key of a target family's reference as written, looked up and deleted by family_rollup.go -/\n")
	sb.WriteString("def rollupRefKeyArgs : List (String × List String) := [" + strings.Join(keyArgs, ", ") + "]\n")
	sb.WriteString("def rollupRefLookup : List String := " + LeanStrList(lookups) + "\n")
	sb.WriteString("def rollupRefKeyDefs : List String := " + LeanStrList(defs) + "\n")

	// ---- version/rollup.go: addReferenceFile skips a listed file, addRollupFile appends
	_, vr, err := ParseFile(repo, "kv/version/rollup.go")
	if err != nil {
		return "", err
	}
	dedups := false
	if fd := FindFunc(vr, "rollup", "addReferenceFile"); fd != nil {
		ast.Inspect(fd.Body, func(n ast.Node) bool {
			rs, ok := n.(*ast.RangeStmt)
			if !ok {
				return true
			}
			ast.Inspect(rs.Body, func(m ast.Node) bool {
				is, ok := m.(*ast.IfStmt)
				if !ok {
					return true
				}
				c := types.ExprString(is.Cond)
				if (c == "file == fileNumber" || c == "fileNumber == file") && len(is.Body.List) == 1 {
					if _, ok := is.Body.List[0].(*ast.ReturnStmt); ok {
						dedups = true
					}
				}
				return true
			})
			return true
		})
	}
	appends := false
	if fd := FindFunc(vr, "rollup", "addRollupFile"); fd != nil && len(fd.Body.List) == 1 {
		if as, ok := fd.Body.List[0].(*ast.AssignStmt); ok && len(as.Rhs) == 1 {
			appends = types.ExprString(as.Lhs[0]) == "r.rollupFiles[fileNumber]" &&
				types.ExprString(as.Rhs[0]) == "append(r.rollupFiles[fileNumber], interval)"
		}
	}
	fmt.Fprintf(&sb, "def addReferenceFileDedups : Bool := %v\ndef addRollupFileAppends : Bool := %v\n", dedups, appends)

	// ---- merger.prepare: the two ends of the target range in the rollup branch, the hull updates
	_, mg, err := ParseFile(repo, "tsdb/tblstore/metricsdata/merger.go")
	if err != nil {
		return "", err
	}
	prep := FindFunc(mg, "merger", "prepare")
	if prep == nil {
		return "", fmt.Errorf("merger.prepare not found")
	}
	startE, endE := "not-found", "not-found"
	var hull []string
	ast.Inspect(prep.Body, func(n ast.Node) bool {
		is, ok := n.(*ast.IfStmt)
		if !ok {
			return true
		}
		cond := types.ExprString(is.Cond)
		if cond == "m.rollup != nil" {
			for _, st := range is.Body.List {
				if as, ok := st.(*ast.AssignStmt); ok && len(as.Lhs) == 1 && len(as.Rhs) == 1 {
					switch types.ExprString(as.Lhs[0]) {
					case "ctx.targetRange.Start":
						startE = types.ExprString(as.Rhs[0])
					case "ctx.targetRange.End":
						endE = types.ExprString(as.Rhs[0])
					}
				}
			}
			return true
		}
		if strings.HasPrefix(cond, "ctx.sourceRange.") && len(is.Body.List) == 1 {
			if as, ok := is.Body.List[0].(*ast.AssignStmt); ok && len(as.Lhs) == 1 && len(as.Rhs) == 1 {
				hull = append(hull, cond+" => "+types.ExprString(as.Lhs[0])+" = "+types.ExprString(as.Rhs[0]))
			}
		}
		return true
	})
	sb.WriteString("\n/-- rollup branch of `merger.prepare`: the two ends of the target slot range; the hull of the blocks' ranges -/\n")
	sb.WriteString("def prepareStartExpr : String := " + fmt.Sprintf("%q", startE) + "\n")
	sb.WriteString("def prepareEndExpr : String := " + fmt.Sprintf("%q", endE) + "\n")
	fmt.Fprintf(&sb, "def prepareEndIsMapped : Bool := %v\n", endE == "m.rollup.CalcSlot(m.rollup.GetTimestamp(ctx.sourceRange.End))")
	sb.WriteString("def prepareHullUpdates : List String := " + LeanStrList(hull) + "\n")
	return sb.String(), nil
}
