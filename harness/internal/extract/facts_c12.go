package extract

import (
	"bytes"
	"fmt"
	"go/ast"
	"go/printer"
	"go/token"
	"sort"
	"strings"
)

// C12: the shape of MetricContext.handleResponse / checkError / tryClose, of
// groupingAggregator.Aggregate and fieldAggregator.Aggregate (which model variant the code is),
// and the field-type / function / aggregate-kind tables of series/field/type.go.

func c12Src(fset *token.FileSet, n ast.Node) string {
	var b bytes.Buffer
	_ = printer.Fprint(&b, fset, n)
	return strings.Join(strings.Fields(b.String()), " ")
}

// c12Switch evaluates `switch <param> { case A, B: return []AggType{X} ... default: ... }` bodies of
// the small table functions in series/field/type.go for one argument value. ret is the list of
// constant names in the returned composite literal, or a call `helper(param)` (callee name).
type c12Ret struct {
	names  []string
	callee string
}

func c12EvalSwitch(fd *ast.FuncDecl, arg string, argIsRecv bool) (c12Ret, error) {
	if fd == nil || fd.Body == nil {
		return c12Ret{}, fmt.Errorf("function not found")
	}
	retOf := func(stmts []ast.Stmt) (c12Ret, bool) {
		for _, s := range stmts {
			if r, ok := s.(*ast.ReturnStmt); ok && len(r.Results) == 1 {
				switch x := r.Results[0].(type) {
				case *ast.CompositeLit:
					var out c12Ret
					for _, e := range x.Elts {
						out.names = append(out.names, exprName(e))
					}
					return out, true
				case *ast.CallExpr:
					return c12Ret{callee: exprName(x.Fun)}, true
				case *ast.Ident:
					if x.Name == "nil" {
						return c12Ret{}, true
					}
					return c12Ret{names: []string{x.Name}}, true
				case *ast.SelectorExpr:
					return c12Ret{names: []string{x.Sel.Name}}, true
				}
			}
		}
		return c12Ret{}, false
	}
	for _, s := range fd.Body.List {
		sw, ok := s.(*ast.SwitchStmt)
		if !ok {
			continue
		}
		var def *ast.CaseClause
		for _, c := range sw.Body.List {
			cc := c.(*ast.CaseClause)
			if cc.List == nil {
				def = cc
				continue
			}
			for _, e := range cc.List {
				n := exprName(e)
				if i := strings.LastIndexByte(n, '.'); i >= 0 {
					n = n[i+1:]
				}
				if n == arg {
					r, ok := retOf(cc.Body)
					if !ok {
						return c12Ret{}, fmt.Errorf("%s: case %s has no simple return", fd.Name.Name, arg)
					}
					return r, nil
				}
			}
		}
		if def != nil {
			if r, ok := retOf(def.Body); ok {
				return r, nil
			}
		}
		// fall out of the switch: the statements after it
		break
	}
	// trailing return after the switch (or function without switch)
	if r, ok := retOf(fd.Body.List); ok {
		return r, nil
	}
	return c12Ret{}, fmt.Errorf("%s: no return for %s", fd.Name.Name, arg)
}

// c12Nested lists the statements of a function body with their nesting (indent = depth).
func c12Nested(fset *token.FileSet, fd *ast.FuncDecl) []string {
	var out []string
	if fd == nil || fd.Body == nil {
		return out
	}
	var walk func(stmts []ast.Stmt, depth string)
	walk = func(stmts []ast.Stmt, depth string) {
		for _, st := range stmts {
			switch x := st.(type) {
			case *ast.RangeStmt:
				kv := ""
				if x.Key != nil {
					kv = c12Src(fset, x.Key)
				}
				if x.Value != nil {
					kv += ", " + c12Src(fset, x.Value)
				}
				out = append(out, depth+"range "+kv+" := "+c12Src(fset, x.X))
				walk(x.Body.List, depth+"  ")
			case *ast.IfStmt:
				out = append(out, depth+"if "+c12Src(fset, x.Cond))
				walk(x.Body.List, depth+"  ")
				if x.Else != nil {
					out = append(out, depth+"else")
					switch e := x.Else.(type) {
					case *ast.BlockStmt:
						walk(e.List, depth+"  ")
					case *ast.IfStmt:
						walk([]ast.Stmt{e}, depth+"  ")
					}
				}
			default:
				out = append(out, depth+c12Src(fset, st))
			}
		}
	}
	walk(fd.Body.List, "")
	return out
}

// c12Supported evaluates the nested switch of Type.IsFuncSupported for one (type, function).
func c12Supported(fd *ast.FuncDecl, typeName, funcName string) (bool, error) {
	if fd == nil || fd.Body == nil {
		return false, fmt.Errorf("IsFuncSupported not found")
	}
	last := func(e ast.Expr) string {
		n := exprName(e)
		if i := strings.LastIndexByte(n, '.'); i >= 0 {
			n = n[i+1:]
		}
		return n
	}
	boolOf := func(stmts []ast.Stmt) (bool, bool) {
		for _, s := range stmts {
			if r, ok := s.(*ast.ReturnStmt); ok && len(r.Results) == 1 {
				if id, ok := r.Results[0].(*ast.Ident); ok && (id.Name == "true" || id.Name == "false") {
					return id.Name == "true", true
				}
			}
		}
		return false, false
	}
	var evalBody func(stmts []ast.Stmt, depth int) (bool, bool)
	evalBody = func(stmts []ast.Stmt, depth int) (bool, bool) {
		for _, s := range stmts {
			sw, ok := s.(*ast.SwitchStmt)
			if !ok {
				continue
			}
			want := typeName
			if depth == 1 {
				want = funcName
			}
			var def *ast.CaseClause
			for _, c := range sw.Body.List {
				cc := c.(*ast.CaseClause)
				if cc.List == nil {
					def = cc
					continue
				}
				for _, e := range cc.List {
					if last(e) == want {
						if v, ok := boolOf(cc.Body); ok {
							return v, true
						}
						return evalBody(cc.Body, depth+1)
					}
				}
			}
			if def != nil {
				if v, ok := boolOf(def.Body); ok {
					return v, true
				}
				return evalBody(def.Body, depth+1)
			}
		}
		return boolOf(stmts)
	}
	v, ok := evalBody(fd.Body.List, 0)
	if !ok {
		return false, fmt.Errorf("IsFuncSupported(%s,%s): no boolean return found", typeName, funcName)
	}
	return v, nil
}

func init() {
	Register(Fact{Module: "C12", Gen: func(repo string) (string, error) {
		var sb strings.Builder
		// ---------------- metric_context.go
		fset, mc, err := ParseFile(repo, "query/context/metric_context.go")
		if err != nil {
			return "", err
		}
		hr := FindFunc(mc, "MetricContext", "handleResponse")
		if hr == nil {
			return "", fmt.Errorf("MetricContext.handleResponse not found")
		}
		// the aggregator creation and its guard
		guarded, elseBranch := false, false
		var groupAggCalls []string
		ast.Inspect(hr.Body, func(n ast.Node) bool {
			switch x := n.(type) {
			case *ast.IfStmt:
				if c12Src(fset, x.Cond) == "ctx.groupAgg == nil" {
					ast.Inspect(x.Body, func(m ast.Node) bool {
						if ce, ok := m.(*ast.CallExpr); ok && exprName(ce.Fun) == "newGroupingAgg" {
							guarded = true
						}
						return true
					})
					if x.Else != nil {
						elseBranch = true
					}
				}
			case *ast.CallExpr:
				if se, ok := x.Fun.(*ast.SelectorExpr); ok && c12Src(fset, se.X) == "ctx.groupAgg" {
					groupAggCalls = append(groupAggCalls, se.Sel.Name)
				}
			}
			return true
		})
		merges := false
		for _, c := range groupAggCalls {
			if c != "Aggregate" {
				merges = true
			}
		}
		fmt.Fprintf(&sb, "/-- the grouping aggregator is created inside `if ctx.groupAgg == nil` -/\ndef aggregatorCreatedOnce : Bool := %v\n", guarded)
		fmt.Fprintf(&sb, "/-- methods called on `ctx.groupAgg` in handleResponse -/\ndef groupAggCalls : List String := %s\n", LeanStrList(groupAggCalls))
		fmt.Fprintf(&sb, "/-- handleResponse does something with later specs (an else branch of the nil test, or a call other than Aggregate) -/\ndef mergesLaterSpecs : Bool := %v\n", merges || elseBranch)
		// top-level statement skeleton of handleResponse (what happens in which order)
		var steps []string
		for _, s := range hr.Body.List {
			switch x := s.(type) {
			case *ast.IncDecStmt:
				steps = append(steps, c12Src(fset, x))
			case *ast.IfStmt:
				steps = append(steps, "if "+c12Src(fset, x.Cond))
			case *ast.AssignStmt:
				steps = append(steps, c12Src(fset, x.Lhs[0])+" "+x.Tok.String())
			case *ast.ExprStmt:
				if ce, ok := x.X.(*ast.CallExpr); ok {
					steps = append(steps, exprName(ce.Fun))
				}
			case *ast.DeferStmt:
				steps = append(steps, "defer "+exprName(x.Call.Fun))
			case *ast.RangeStmt:
				steps = append(steps, "range "+c12Src(fset, x.X))
			}
		}
		// is the whole of handleResponse one critical section? (Lock first, deferred Unlock second)
		var beforeLock []string
		lockAt := -1
		for i, st := range steps {
			if st == "mutex.Lock" {
				lockAt = i
				break
			}
			beforeLock = append(beforeLock, st)
		}
		atomic := lockAt == 0 && len(steps) > 1 && steps[1] == "defer mutex.Unlock"
		fmt.Fprintf(&sb, "/-- statements of handleResponse that run before ctx.mutex is taken -/\ndef handleResponseBeforeLock : List String := %s\n", LeanStrList(beforeLock))
		fmt.Fprintf(&sb, "/-- handleResponse = `ctx.mutex.Lock(); defer ctx.mutex.Unlock(); ...`: one critical section -/\ndef handleResponseAtomic : Bool := %v\n", atomic)
		fmt.Fprintf(&sb, "/-- top-level statements of handleResponse, in order -/\ndef handleResponseSteps : List String := %s\n", LeanStrList(steps))
		// the per-series skip
		skipEmpty := false
		ast.Inspect(hr.Body, func(n ast.Node) bool {
			if is, ok := n.(*ast.IfStmt); ok && c12Src(fset, is.Cond) == "len(ts.Fields) == 0" && len(is.Body.List) == 1 {
				if b, ok := is.Body.List[0].(*ast.BranchStmt); ok && b.Tok == token.CONTINUE {
					skipEmpty = true
				}
			}
			return true
		})
		fmt.Fprintf(&sb, "def skipsSeriesWithoutFields : Bool := %v\n", skipEmpty)
		// checkError
		ce := FindFunc(mc, "MetricContext", "checkError")
		if ce == nil {
			return "", fmt.Errorf("MetricContext.checkError not found")
		}
		var ceSteps []string
		needle := ""
		for _, s := range ce.Body.List {
			switch x := s.(type) {
			case *ast.IfStmt:
				ceSteps = append(ceSteps, "if "+c12Src(fset, x.Cond))
			case *ast.IncDecStmt:
				ceSteps = append(ceSteps, c12Src(fset, x))
			case *ast.ReturnStmt:
				ceSteps = append(ceSteps, c12Src(fset, x))
			case *ast.LabeledStmt:
				ceSteps = append(ceSteps, x.Label.Name+": "+c12Src(fset, x.Stmt))
			}
		}
		ast.Inspect(ce.Body, func(n ast.Node) bool {
			if c, ok := n.(*ast.CallExpr); ok && exprName(c.Fun) == "strings.Contains" && len(c.Args) == 2 {
				if bl, ok := c.Args[1].(*ast.BasicLit); ok {
					needle = strings.Trim(bl.Value, "\"")
				}
			}
			return true
		})
		fmt.Fprintf(&sb, "/-- top-level statements of checkError, in order -/\ndef checkErrorSteps : List String := %s\n", LeanStrList(ceSteps))
		fmt.Fprintf(&sb, "def notFoundNeedle : String := %q\n", needle)
		// tryClose
		fsetTC, tc, err := ParseFile(repo, "query/context/task_context.go")
		if err != nil {
			return "", err
		}
		tcl := FindFunc(tc, "baseTaskContext", "tryClose")
		closeCond := ""
		if tcl != nil {
			ast.Inspect(tcl.Body, func(n ast.Node) bool {
				if is, ok := n.(*ast.IfStmt); ok && closeCond == "" {
					closeCond = c12Src(fsetTC, is.Cond)
				}
				return true
			})
		}
		fmt.Fprintf(&sb, "def tryCloseCond : String := %q\n", closeCond)
		// Complete: is the assignment of ctx.err guarded so that nil never replaces a recorded error?
		cpl := FindFunc(tc, "baseTaskContext", "Complete")
		var cplSteps []string
		keeps := false
		if cpl != nil {
			for _, st := range cpl.Body.List {
				switch x := st.(type) {
				case *ast.AssignStmt:
					cplSteps = append(cplSteps, c12Src(fsetTC, x))
				case *ast.IfStmt:
					cplSteps = append(cplSteps, "if "+c12Src(fsetTC, x.Cond))
					cond := c12Src(fsetTC, x.Cond)
					assigns := false
					ast.Inspect(x.Body, func(n ast.Node) bool {
						if as, ok := n.(*ast.AssignStmt); ok && c12Src(fsetTC, as) == "ctx.err = err" {
							assigns = true
						}
						return true
					})
					if assigns && (cond == "err != nil || ctx.err == nil" || cond == "ctx.err == nil || err != nil") {
						keeps = true
					}
				case *ast.ExprStmt:
					if ce, ok := x.X.(*ast.CallExpr); ok {
						cplSteps = append(cplSteps, exprName(ce.Fun))
					}
				}
			}
		}
		fmt.Fprintf(&sb, "/-- top-level statements of baseTaskContext.Complete -/\ndef completeSteps : List String := %s\n", LeanStrList(cplSteps))
		fmt.Fprintf(&sb, "/-- Complete assigns ctx.err only under `err != nil || ctx.err == nil` -/\ndef completeKeepsError : Bool := %v\n", keeps)
		ar := FindFunc(tc, "baseTaskContext", "addRequests")
		var arIncs []string
		if ar != nil {
			ast.Inspect(ar.Body, func(n ast.Node) bool {
				if x, ok := n.(*ast.IncDecStmt); ok {
					arIncs = append(arIncs, c12Src(fsetTC, x))
				}
				return true
			})
		}
		fmt.Fprintf(&sb, "/-- per plan target in addRequests -/\ndef addRequestsIncs : List String := %s\n", LeanStrList(arIncs))
		// round 12: the shape of addRequests statement by statement: which statements run once per
		// call (= per physical plan) and which once per target; perTarget = both counters are
		// incremented inside `for … range physicalPlan.Targets` and touched nowhere else.
		var arSteps []string
		perTarget := false
		if ar != nil {
			incIn, other := 0, 0
			touches := func(n ast.Node) bool {
				t := c12Src(fsetTC, n)
				return strings.Contains(t, "expectResults") || strings.Contains(t, "tolerantNotFounds")
			}
			for _, st := range ar.Body.List {
				if rs, ok := st.(*ast.RangeStmt); ok {
					overTargets := c12Src(fsetTC, rs.X) == "physicalPlan.Targets"
					arSteps = append(arSteps, "for range "+c12Src(fsetTC, rs.X))
					for _, b := range rs.Body.List {
						if es, ok := b.(*ast.ExprStmt); ok && strings.HasPrefix(c12Src(fsetTC, es), "verifhook.Yield") {
							continue
						}
						arSteps = append(arSteps, "  "+c12Src(fsetTC, b))
						if _, ok := b.(*ast.IncDecStmt); ok && overTargets && touches(b) {
							incIn++
						} else if touches(b) {
							other++
						}
					}
					continue
				}
				arSteps = append(arSteps, c12Src(fsetTC, st))
				if touches(st) {
					other++
				}
			}
			perTarget = incIn == 2 && other == 0 && len(arIncs) == 2
		}
		fmt.Fprintf(&sb, "/-- addRequests statement by statement (two spaces = inside the loop) -/\ndef addRequestsSteps : List String := %s\n", LeanStrList(arSteps))
		fmt.Fprintf(&sb, "/-- expectResults and tolerantNotFounds are incremented once per target of the plan, and only there -/\ndef addRequestsPerTarget : Bool := %v\n", perTarget)

		// ---------------- aggregation/group_agg.go, field_agg.go
		fsetGA, ga, err := ParseFile(repo, "aggregation/group_agg.go")
		if err != nil {
			return "", err
		}
		agg := FindFunc(ga, "groupingAggregator", "Aggregate")
		skipMissing := false
		if agg != nil {
			ast.Inspect(agg.Body, func(n ast.Node) bool {
				if is, ok := n.(*ast.IfStmt); ok && c12Src(fsetGA, is.Cond) == "sAgg == nil" && len(is.Body.List) == 1 {
					if b, ok := is.Body.List[0].(*ast.BranchStmt); ok && b.Tok == token.CONTINUE {
						skipMissing = true
					}
				}
				return true
			})
		}
		fmt.Fprintf(&sb, "/-- `if sAgg == nil { continue }` in groupingAggregator.Aggregate -/\ndef skipsFieldWithoutAggregator : Bool := %v\n", skipMissing)
		_, fa, err := ParseFile(repo, "aggregation/field_agg.go")
		if err != nil {
			return "", err
		}
		fagg := FindFunc(fa, "fieldAggregator", "Aggregate")
		usesKind, callsBySlot := false, false
		if fagg != nil {
			ast.Inspect(fagg.Body, func(n ast.Node) bool {
				if se, ok := n.(*ast.SelectorExpr); ok && se.Sel.Name == "AggType" {
					usesKind = true
				}
				if se, ok := n.(*ast.SelectorExpr); ok && se.Sel.Name == "AggregateBySlot" {
					callsBySlot = true
				}
				return true
			})
		}
		fmt.Fprintf(&sb, "/-- fieldAggregator.Aggregate never looks at `pIt.AggType()`: every incoming primitive series feeds every kind -/\ndef crossFeeds : Bool := %v\n", !usesKind)
		fmt.Fprintf(&sb, "/-- fieldAggregator.Aggregate looks at `pIt.AggType()` but still falls back to AggregateBySlot (every kind) -/\ndef crossFeedFallback : Bool := %v\n", usesKind && callsBySlot)
		fmt.Fprintf(&sb, "def fieldAggregateCalls : List String := %s\n", LeanStrList(CallSeq(fagg)))

		// ---------------- series/field/type.go tables
		fsetFT, ft, err := ParseFile(repo, "series/field/type.go")
		if err != nil {
			return "", err
		}
		fconsts := ConstInts(ft)
		_, fn, err := ParseFile(repo, "aggregation/function/type.go")
		if err != nil {
			return "", err
		}
		nconsts := ConstInts(fn)
		kindNames := []string{"Sum", "Count", "Min", "Max", "Last", "First"}
		typeNames := []string{"Unknown", "SumField", "MinField", "MaxField", "LastField", "HistogramField", "FirstField"}
		funcNames := []string{"Unknown", "Sum", "Min", "Max", "Count", "Avg", "Last", "First", "Quantile", "Stddev", "Rate"}
		// AggType and Type live in the same const namespace of package field: "Sum" is the AggType,
		// "SumField" the Type; function.Sum etc. come from the other file.
		var kc, tcodes, fc []string
		for _, n := range kindNames {
			v, ok := fconsts[n]
			if !ok {
				return "", fmt.Errorf("AggType %s not found", n)
			}
			kc = append(kc, fmt.Sprintf("(%q, %d)", n, v))
		}
		for _, n := range typeNames {
			v, ok := fconsts[n]
			if !ok {
				return "", fmt.Errorf("field.Type %s not found", n)
			}
			tcodes = append(tcodes, fmt.Sprintf("(%q, %d)", n, v))
		}
		for _, n := range funcNames {
			v, ok := nconsts[n]
			if !ok {
				return "", fmt.Errorf("function.%s not found", n)
			}
			fc = append(fc, fmt.Sprintf("(%q, %d)", n, v))
		}
		fmt.Fprintf(&sb, "def aggTypeCodes : List (String × Nat) := [%s]\n", strings.Join(kc, ", "))
		fmt.Fprintf(&sb, "def fieldTypeCodes : List (String × Nat) := [%s]\n", strings.Join(tcodes, ", "))
		fmt.Fprintf(&sb, "def funcTypeCodes : List (String × Nat) := [%s]\n", strings.Join(fc, ", "))
		// AggType.Aggregate: kind -> expression
		aggf := FindFunc(ft, "AggType", "Aggregate")
		var aggRows []string
		if aggf != nil {
			for _, s := range aggf.Body.List {
				sw, ok := s.(*ast.SwitchStmt)
				if !ok {
					continue
				}
				for _, c := range sw.Body.List {
					cc := c.(*ast.CaseClause)
					for _, e := range cc.List {
						for _, b := range cc.Body {
							if r, ok := b.(*ast.ReturnStmt); ok && len(r.Results) == 1 {
								aggRows = append(aggRows, fmt.Sprintf("(%d, %q)", fconsts[exprName(e)], c12Src(fsetFT, r.Results[0])))
							}
						}
					}
				}
			}
		}
		sort.Strings(aggRows)
		fmt.Fprintf(&sb, "/-- AggType.Aggregate(a, b): kind code -> returned expression -/\ndef aggregateExprs : List (Nat × String) := [%s]\n", strings.Join(aggRows, ", "))
		// GetFuncFieldParams / GetDefaultFuncFieldParams / GetOrderByFunc as full tables
		kindCode := func(r c12Ret) ([]string, error) {
			var out []string
			for _, n := range r.names {
				v, ok := fconsts[n]
				if !ok {
					return nil, fmt.Errorf("unknown AggType %s", n)
				}
				out = append(out, fmt.Sprint(v))
			}
			return out, nil
		}
		var fpRows, defRows, obRows []string
		for ti, tn := range typeNames {
			r, err := c12EvalSwitch(FindFunc(ft, "Type", "GetDefaultFuncFieldParams"), tn, true)
			if err != nil {
				return "", err
			}
			ks, err := kindCode(r)
			if err != nil {
				return "", err
			}
			defRows = append(defRows, fmt.Sprintf("(%d, [%s])", ti, strings.Join(ks, ", ")))
			ob, err := c12EvalSwitch(FindFunc(ft, "Type", "GetOrderByFunc"), tn, true)
			if err != nil {
				return "", err
			}
			if len(ob.names) != 1 {
				return "", fmt.Errorf("GetOrderByFunc(%s): unexpected shape", tn)
			}
			obn := ob.names[0]
			if i := strings.LastIndexByte(obn, '.'); i >= 0 {
				obn = obn[i+1:]
			}
			obRows = append(obRows, fmt.Sprintf("(%d, %d)", ti, nconsts[obn]))
			for fi, fnn := range funcNames {
				r, err := c12EvalSwitch(FindFunc(ft, "Type", "GetFuncFieldParams"), tn, true)
				if err != nil {
					return "", err
				}
				if r.callee != "" {
					r, err = c12EvalSwitch(FindFunc(ft, "", r.callee), fnn, false)
					if err != nil {
						return "", err
					}
				}
				ks, err := kindCode(r)
				if err != nil {
					return "", err
				}
				fpRows = append(fpRows, fmt.Sprintf("(%d, %d, [%s])", ti, fi, strings.Join(ks, ", ")))
			}
		}
		// DownSamplingFunc and IsFuncSupported (metadataLookup.planField)
		var dsRows, supRows []string
		isf := FindFunc(ft, "Type", "IsFuncSupported")
		for ti, tn := range typeNames {
			r, err := c12EvalSwitch(FindFunc(ft, "Type", "DownSamplingFunc"), tn, true)
			if err != nil {
				return "", err
			}
			if len(r.names) != 1 {
				return "", fmt.Errorf("DownSamplingFunc(%s): unexpected shape", tn)
			}
			dsRows = append(dsRows, fmt.Sprintf("(%d, %d)", ti, nconsts[r.names[0]]))
			for fi, fnn := range funcNames {
				v, err := c12Supported(isf, tn, fnn)
				if err != nil {
					return "", err
				}
				if v {
					supRows = append(supRows, fmt.Sprintf("(%d, %d)", ti, fi))
				}
			}
		}
		fmt.Fprintf(&sb, "/-- Type.DownSamplingFunc() per field type -/\ndef downSamplingFuncs : List (Nat × Nat) := [%s]\n", strings.Join(dsRows, ", "))
		fmt.Fprintf(&sb, "/-- the (field type, function type) pairs for which Type.IsFuncSupported is true -/\ndef supportedFuncs : List (Nat × Nat) := [%s]\n", strings.Join(supRows, ", "))
		fmt.Fprintf(&sb, "/-- Type.GetFuncFieldParams(funcType) for every (field type, function type) -/\ndef funcFieldParams : List (Nat × Nat × List Nat) := [%s]\n", strings.Join(fpRows, ", "))
		fmt.Fprintf(&sb, "def defaultFieldParams : List (Nat × List Nat) := [%s]\n", strings.Join(defRows, ", "))
		fmt.Fprintf(&sb, "def orderByFuncs : List (Nat × Nat) := [%s]\n", strings.Join(obRows, ", "))

		// ---------------- aggregation/topn.go: the comparison of two rows
		fsetTN, tn, err := ParseFile(repo, "aggregation/topn.go")
		if err != nil {
			return "", err
		}
		less := FindFunc(tn, "topNHeap", "Less")
		var lessSteps []string
		if less != nil {
			var walk func(stmts []ast.Stmt, depth string)
			walk = func(stmts []ast.Stmt, depth string) {
				for _, st := range stmts {
					switch x := st.(type) {
					case *ast.RangeStmt:
						lessSteps = append(lessSteps, depth+"range "+c12Src(fsetTN, x.X))
						walk(x.Body.List, depth+"  ")
					case *ast.IfStmt:
						lessSteps = append(lessSteps, depth+"if "+c12Src(fsetTN, x.Cond))
						walk(x.Body.List, depth+"  ")
						if x.Else != nil {
							lessSteps = append(lessSteps, depth+"else")
							switch e := x.Else.(type) {
							case *ast.BlockStmt:
								walk(e.List, depth+"  ")
							case *ast.IfStmt:
								walk([]ast.Stmt{e}, depth+"  ")
							}
						}
					default:
						lessSteps = append(lessSteps, depth+c12Src(fsetTN, st))
					}
				}
			}
			walk(less.Body.List, "")
		}
		fmt.Fprintf(&sb, "/-- topNHeap.Less, statement by statement (indent = nesting) -/\ndef topnLessSteps : List String := %s\n", LeanStrList(lessSteps))

		// ---------------- flow/node_choose.go: who executes, who only receives
		fsetNC, nc, err := ParseFile(repo, "flow/node_choose.go")
		if err != nil {
			return "", err
		}
		fmt.Fprintf(&sb, "/-- flow.BuildPhysicalPlan, statement by statement (indent = nesting) -/\ndef buildPlanSteps : List String := %s\n",
			LeanStrList(c12Nested(fsetNC, FindFunc(nc, "", "BuildPhysicalPlan"))))

		// ---------------- leaf_reduce_context.go: receiver index
		fsetLR, lr, err := ParseFile(repo, "query/context/leaf_reduce_context.go")
		if err != nil {
			return "", err
		}
		brs := FindFunc(lr, "LeafReduceContext", "BuildResultSet")
		idx := FindAssign(brs, "index")
		hsh := FindAssign(brs, "h")
		fmt.Fprintf(&sb, "/-- receiver of a series in BuildResultSet -/\ndef receiverIndexExpr : String := %q\ndef receiverHashExpr : String := %q\n", c12Src(fsetLR, idx), c12Src(fsetLR, hsh))

		// ---------------- row_broker.go: shard of a row
		fsetRB, rb, err := ParseFile(repo, "series/metric/row_broker.go")
		if err != nil {
			return "", err
		}
		ng := FindFunc(rb, "BrokerBatchRows", "NewShardGroupIterator")
		shardExpr := ""
		if ng != nil {
			ast.Inspect(ng.Body, func(n ast.Node) bool {
				if as, ok := n.(*ast.AssignStmt); ok && len(as.Lhs) == 1 && strings.HasSuffix(c12Src(fsetRB, as.Lhs[0]), ".shardIdx") {
					shardExpr = c12Src(fsetRB, as.Rhs[0])
				}
				return true
			})
		}
		fmt.Fprintf(&sb, "/-- shard index of a written row -/\ndef shardIdxExpr : String := %q\n", shardExpr)
		if err := c12CollectFacts(repo, &sb); err != nil {
			return "", err
		}
		if err := c12FilterFacts(repo, &sb); err != nil {
			return "", err
		}
		if err := c12GlueFacts(repo, &sb); err != nil {
			return "", err
		}
		if err := c12TimePlanFacts(repo, &sb); err != nil {
			return "", err
		}
		return sb.String(), nil
	}})
}
