package extract

import (
	"fmt"
	"go/ast"
	"go/token"
	"strings"
)

// C13, get-or-create step order: the events of a function body, in evaluation order, that decide
// whether a get-or-create is one critical section:
//
//	Lock / Unlock / RLock / RUnlock     x.mutex.Lock() ... (any receiver whose last selector is "mutex")
//	defer:Unlock / defer:RUnlock        defer x.mutex.Unlock()
//	read:<field>                        x.<field>[k] read (index expression on a selector)
//	write:<field>                       x.<field>[k] = v
//	call:<name>                         every other call (last identifier of the callee)
//
// Arguments are visited before the call, the right-hand side of an assignment before its
// left-hand side.
func lockEvents(fd *ast.FuncDecl) []string {
	var out []string
	var walk func(n ast.Node)
	mutexOp := func(call *ast.CallExpr) string {
		se, ok := call.Fun.(*ast.SelectorExpr)
		if !ok {
			return ""
		}
		switch se.Sel.Name {
		case "Lock", "Unlock", "RLock", "RUnlock":
		default:
			return ""
		}
		if lastIdent(se.X) != "mutex" {
			return ""
		}
		return se.Sel.Name
	}
	indexField := func(e ast.Expr) (string, *ast.IndexExpr) {
		ix, ok := e.(*ast.IndexExpr)
		if !ok {
			return "", nil
		}
		se, ok := ix.X.(*ast.SelectorExpr)
		if !ok {
			return "", nil
		}
		return se.Sel.Name, ix
	}
	walk = func(n ast.Node) {
		if n == nil {
			return
		}
		ast.Inspect(n, func(m ast.Node) bool {
			switch x := m.(type) {
			case *ast.DeferStmt:
				if op := mutexOp(x.Call); op != "" {
					out = append(out, "defer:"+op)
					return false
				}
				out = append(out, "defer:call:"+callName(x.Call))
				return false
			case *ast.AssignStmt:
				for _, r := range x.Rhs {
					walk(r)
				}
				for _, l := range x.Lhs {
					if f, ix := indexField(l); ix != nil && x.Tok == token.ASSIGN {
						walk(ix.Index)
						out = append(out, "write:"+f)
					} else {
						walk(l)
					}
				}
				return false
			case *ast.IndexExpr:
				if f, ix := indexField(x); ix != nil {
					walk(ix.Index)
					out = append(out, "read:"+f)
					return false
				}
				return true
			case *ast.CallExpr:
				if op := mutexOp(x); op != "" {
					out = append(out, op)
					return false
				}
				if se, ok := x.Fun.(*ast.SelectorExpr); ok {
					walk(se.X)
				}
				for _, a := range x.Args {
					walk(a)
				}
				out = append(out, "call:"+callName(x))
				return false
			}
			return true
		})
	}
	if fd != nil && fd.Body != nil {
		walk(fd.Body)
	}
	return out
}

func callName(c *ast.CallExpr) string {
	switch f := c.Fun.(type) {
	case *ast.Ident:
		return f.Name
	case *ast.SelectorExpr:
		return f.Sel.Name
	}
	return "?"
}

// genC13Goc emits the event lists of the four get-or-create functions of the write and the query
// path, initDataFamily (the callee that stores the family) and the call order of
// shard.GetOrCrateDataFamily.
func genC13Goc(repo string, sb *strings.Builder) error {
	_, isf, err := ParseFile(repo, "tsdb/interval_segment.go")
	if err != nil {
		return err
	}
	_, sf, err := ParseFile(repo, "tsdb/segment.go")
	if err != nil {
		return err
	}
	_, shf, err := ParseFileRaw(repo, "tsdb/shard.go")
	if err != nil {
		return err
	}
	sb.WriteString("\n-- get-or-create step order (lock / lookup / create / store events)\n")
	for _, f := range []struct {
		file       *ast.File
		recv, name string
		lean       string
	}{
		{isf, "intervalSegment", "GetOrCreateSegment", "getOrCreateSegmentEvents"},
		{isf, "intervalSegment", "getOrLoadSegment", "getOrLoadSegmentEvents"},
		{sf, "segment", "GetOrCreateDataFamily", "getOrCreateDataFamilyEvents"},
		{sf, "segment", "getOrLoadFamily", "getOrLoadFamilyEvents"},
		{sf, "segment", "initDataFamily", "initDataFamilyEvents"},
		{shf, "shard", "GetOrCrateDataFamily", "shardGetOrCrateDataFamilyEvents"},
		// eviction (round 9): what EvictSegment does under which lock, what Close leaves behind
		{isf, "intervalSegment", "EvictSegment", "evictSegmentEvents"},
		{sf, "segment", "NeedEvict", "needEvictEvents"},
		{sf, "segment", "Close", "segmentCloseEvents"},
		{shf, "shard", "EvictSegment", "shardEvictSegmentEvents"},
	} {
		fd := FindFunc(f.file, f.recv, f.name)
		if fd == nil {
			return fmt.Errorf("%s.%s not found", f.recv, f.name)
		}
		fmt.Fprintf(sb, "def %s : List String := %s\n", f.lean, LeanStrList(lockEvents(fd)))
	}
	return nil
}
