package extract

import (
	"fmt"
	"go/ast"
	"go/token"
	"strings"
)

// C14: constants of the XOR codec, the width thresholds of the fixed-offset encoder
// (Uint32MinWidth), the zig-zag formulas, and the call orders of the methods whose step
// order the models mirror (Bytes / Reset of the pooled objects).
func init() {
	Register(Fact{Module: "C14", Gen: func(repo string) (string, error) {
		var sb strings.Builder
		_, xor, err := ParseFile(repo, "pkg/encoding/xor.go")
		if err != nil {
			return "", err
		}
		cs := ConstInts(xor)
		for _, n := range []string{"blockSizeAdjustment", "firstValueLen"} {
			v, ok := cs[n]
			if !ok {
				return "", fmt.Errorf("constant %s not found in pkg/encoding/xor.go", n)
			}
			fmt.Fprintf(&sb, "def %s : Nat := %s\n", n, LeanInt(v))
		}
		_, tsd, err := ParseFile(repo, "pkg/encoding/tsd.go")
		if err != nil {
			return "", err
		}
		_, enc, err := ParseFile(repo, "pkg/encoding/encoding.go")
		if err != nil {
			return "", err
		}
		tbl, def, err := thresholdSwitch(FindFunc(enc, "", "Uint32MinWidth"), "value")
		if err != nil {
			return "", err
		}
		sb.WriteString("\n/-- `Uint32MinWidth`: (exclusive upper bound, width) in source order, then the default -/\n")
		sb.WriteString("def uint32MinWidthTable : List (Nat × Nat) := [" + strings.Join(tbl, ", ") + "]\n")
		fmt.Fprintf(&sb, "def uint32MinWidthDefault : Nat := %d\n", def)

		// zig-zag: single-return functions over fixed-width integers with shifts and xor
		sb.WriteString("\n" + goIntPrelude)
		for _, fn := range []struct{ goName, lean string }{{"ZigZagEncode", "zigZagEncode"}, {"ZigZagDecode", "zigZagDecode"}} {
			d, err := bitFunc(FindFunc(enc, "", fn.goName), fn.lean)
			if err != nil {
				return "", err
			}
			sb.WriteString("\n" + d)
		}

		_, dbp, err := ParseFile(repo, "pkg/encoding/delta_bit_packing.go")
		if err != nil {
			return "", err
		}
		_, fo, err := ParseFile(repo, "pkg/encoding/fixed_offset.go")
		if err != nil {
			return "", err
		}
		_, tsds, err := ParseFile(repo, "pkg/encoding/tsd_stream.go")
		if err != nil {
			return "", err
		}
		_, snp, err := ParseFile(repo, "pkg/compress/snappy.go")
		if err != nil {
			return "", err
		}
		// TSDDecoder.Next: is `startTime+idx <= endTime` evaluated in uint16 (wraps at 65536) or in int?
		wide, err := nextCompareIsWide(FindFunc(tsd, "TSDDecoder", "Next"))
		if err != nil {
			return "", err
		}
		sb.WriteString("\n/-- `TSDDecoder.Next`: true when `startTime+idx <= endTime` is computed in `int`, false when in `uint16` -/\n")
		fmt.Fprintf(&sb, "def tsdNextWideCompare : Bool := %v\n", wide)
		sb.WriteString("\n-- call orders of the methods whose step order the models mirror\n")
		for _, m := range []struct {
			f          *ast.File
			recv, name string
			lean       string
		}{
			{tsds, "", "NewTSDStreamReader", "newTSDStreamReaderCalls"},
			{tsds, "tsdStreamReader", "HasNext", "tsdStreamReaderHasNextCalls"},
			{tsds, "tsdStreamReader", "Next", "tsdStreamReaderNextCalls"},
			{tsds, "tsdStreamReader", "Close", "tsdStreamReaderCloseCalls"},
			{tsds, "tsdStreamReader", "TimeRange", "tsdStreamReaderTimeRangeCalls"},
			{tsd, "", "GetTSDEncoder", "getTSDEncoderCalls"},
			{tsd, "", "ReleaseTSDEncoder", "releaseTSDEncoderCalls"},
			{tsd, "", "GetTSDDecoder", "getTSDDecoderCalls"},
			{tsd, "", "ReleaseTSDDecoder", "releaseTSDDecoderCalls"},
			{fo, "", "GetFixedOffsetDecoder", "getFixedOffsetDecoderCalls"},
			{fo, "", "ReleaseFixedOffsetDecoder", "releaseFixedOffsetDecoderCalls"},
			{snp, "snappyWriter", "Bytes", "snappyWriterBytesCalls"},
			{snp, "snappyReader", "Uncompress", "snappyReaderUncompressCalls"},
			{tsd, "TSDEncoder", "Reset", "tsdEncoderResetCalls"},
			{tsd, "TSDEncoder", "RestWithStartTime", "tsdEncoderRestWithStartTimeCalls"},
			{tsd, "TSDEncoder", "Bytes", "tsdEncoderBytesCalls"},
			{tsd, "TSDDecoder", "Reset", "tsdDecoderResetCalls"},
			{tsd, "TSDDecoder", "reset", "tsdDecoderPrivateResetCalls"},
			{tsd, "TSDDecoder", "HasValueWithSlot", "tsdDecoderHasValueWithSlotCalls"},
			{xor, "XOREncoder", "Write", "xorEncoderWriteCalls"},
			{dbp, "DeltaBitPackingEncoder", "Bytes", "deltaEncoderBytesCalls"},
			{dbp, "DeltaBitPackingEncoder", "Reset", "deltaEncoderResetCalls"},
			{dbp, "DeltaBitPackingDecoder", "Reset", "deltaDecoderResetCalls"},
			{fo, "FixedOffsetEncoder", "Write", "fixedOffsetWriteCalls"},
		} {
			fd := FindFunc(m.f, m.recv, m.name)
			if fd == nil {
				return "", fmt.Errorf("method %s.%s not found", m.recv, m.name)
			}
			sb.WriteString("def " + m.lean + " : List String := " + LeanStrList(CallSeq(fd)) + "\n")
		}
		_, bw, err := ParseFile(repo, "pkg/bit/writer.go")
		if err != nil {
			return "", err
		}
		_, br, err := ParseFile(repo, "pkg/bit/reader.go")
		if err != nil {
			return "", err
		}
		// fields assigned by the Reset methods (which fields a reused object re-initialises)
		sb.WriteString("\n-- fields assigned (in source order) by the methods that re-arm a reused object\n")
		for _, m := range []struct {
			f          *ast.File
			recv, name string
			lean       string
		}{
			{bw, "Writer", "Reset", "bitWriterResetFields"},
			{bw, "Writer", "Flush", "bitWriterFlushFields"},
			{bw, "Writer", "WriteBit", "bitWriterWriteBitFields"},
			{bw, "Writer", "WriteByte", "bitWriterWriteByteFields"},
			{br, "Reader", "Reset", "bitReaderResetFields"},
			{xor, "XOREncoder", "Reset", "xorEncoderResetFields"},
			{xor, "XORDecoder", "Reset", "xorDecoderResetFields"},
			{tsd, "TSDEncoder", "RestWithStartTime", "tsdEncoderRestWithStartTimeFields"},
			{dbp, "DeltaBitPackingEncoder", "Reset", "deltaEncoderResetFields"},
			{fo, "FixedOffsetEncoder", "Reset", "fixedOffsetEncoderResetFields"},
			{fo, "FixedOffsetDecoder", "Unmarshal", "fixedOffsetDecoderUnmarshalFields"},
		} {
			fd := FindFunc(m.f, m.recv, m.name)
			if fd == nil {
				return "", fmt.Errorf("method %s.%s not found", m.recv, m.name)
			}
			sb.WriteString("def " + m.lean + " : List String := " + LeanStrList(assignedFields(fd)) + "\n")
		}
		// where a caller's slice argument ends up: the calls that receive it (builtins that only read the
		// header excluded) and the fields it is stored in ("store:<field>"), in source order
		_, swr, err := ParseFile(repo, "pkg/stream/writer.go")
		if err != nil {
			return "", err
		}
		sb.WriteString("\n-- sinks of the caller's slice parameter (who gets the []byte / []int an encoder is given)\n")
		for _, m := range []struct {
			f          *ast.File
			recv, name string
			lean       string
		}{
			{snp, "snappyWriter", "Write", "snappyWriterWriteSinks"},
			{swr, "writer", "PutBytes", "streamWriterPutBytesSinks"},
			{swr, "writer", "Write", "streamWriterWriteSinks"},
			{tsds, "tsdStreamWriter", "WriteField", "tsdStreamWriterWriteFieldSinks"},
			{fo, "FixedOffsetEncoder", "FromValues", "fixedOffsetFromValuesSinks"},
			{snp, "snappyReader", "Uncompress", "snappyReaderUncompressSinks"},
		} {
			fd := FindFunc(m.f, m.recv, m.name)
			if fd == nil {
				return "", fmt.Errorf("method %s.%s not found", m.recv, m.name)
			}
			sinks, err := sliceParamSinks(fd)
			if err != nil {
				return "", fmt.Errorf("%s.%s: %v", m.recv, m.name, err)
			}
			sb.WriteString("def " + m.lean + " : List String := " + LeanStrList(sinks) + "\n")
		}
		for _, m := range []struct {
			f          *ast.File
			recv, name string
			lean       string
		}{
			{snp, "snappyWriter", "Close", "snappyWriterCloseCalls"},
			{tsds, "tsdStreamWriter", "WriteField", "tsdStreamWriterWriteFieldCalls"},
		} {
			fd := FindFunc(m.f, m.recv, m.name)
			if fd == nil {
				return "", fmt.Errorf("method %s.%s not found", m.recv, m.name)
			}
			sb.WriteString("def " + m.lean + " : List String := " + LeanStrList(CallSeq(fd)) + "\n")
		}
		// what the deferred function literal of snappyReader.Uncompress re-initialises (CallSeq prints only "defer:?")
		if fd := FindFunc(snp, "snappyReader", "Uncompress"); fd == nil {
			return "", fmt.Errorf("snappyReader.Uncompress not found")
		} else {
			sb.WriteString("\n/-- calls inside the deferred function literal(s) of `snappyReader.Uncompress`, in source order -/\n")
			sb.WriteString("def snappyReaderUncompressDeferred : List String := " + LeanStrList(deferredLitCalls(fd)) + "\n")
		}
		// statement shape of TSDDecoder.reset: which assignments run on the first-use path and on the re-arm path
		if fd := FindFunc(tsd, "TSDDecoder", "reset"); fd == nil {
			return "", fmt.Errorf("TSDDecoder.reset not found")
		} else {
			sb.WriteString("\n/-- statement shape of `TSDDecoder.reset`: `if{…}else{…}`, `set:<field>`, `call:<f>`, `return`, in source order -/\n")
			sb.WriteString("def tsdDecoderPrivateResetShape : List String := " + LeanStrList(stmtShape(fd.Body.List)) + "\n")
		}
		_, srd, err := ParseFile(repo, "pkg/stream/reader.go")
		if err != nil {
			return "", err
		}
		r9, err := c14Round9Facts(fo, srd)
		if err != nil {
			return "", err
		}
		sb.WriteString(r9)
		r12, err := c14Round12Facts(repo, fo)
		if err != nil {
			return "", err
		}
		sb.WriteString(r12)
		return sb.String(), nil
	}})
}

// deferredLitCalls lists the calls made inside `defer func() { ... }()` literals of fd (top level of the body).
func deferredLitCalls(fd *ast.FuncDecl) []string {
	var out []string
	for _, st := range fd.Body.List {
		ds, ok := st.(*ast.DeferStmt)
		if !ok {
			continue
		}
		fl, ok := ds.Call.Fun.(*ast.FuncLit)
		if !ok {
			out = append(out, exprName(ds.Call.Fun))
			continue
		}
		ast.Inspect(fl.Body, func(n ast.Node) bool {
			if ce, ok := n.(*ast.CallExpr); ok {
				out = append(out, exprName(ce.Fun))
			}
			return true
		})
	}
	return out
}

// stmtShape flattens a statement list: assignments to selector expressions become "set:<field>", expression
// statements that are calls "call:<name>", returns "return", an if statement "if{" … "}else{" … "}" around the
// shapes of its branches; anything else "stmt".
func stmtShape(list []ast.Stmt) []string {
	var out []string
	for _, st := range list {
		switch x := st.(type) {
		case *ast.AssignStmt:
			for _, l := range x.Lhs {
				if se, ok := l.(*ast.SelectorExpr); ok {
					out = append(out, "set:"+se.Sel.Name)
				} else {
					out = append(out, "set:"+exprName(l))
				}
			}
		case *ast.ExprStmt:
			if ce, ok := x.X.(*ast.CallExpr); ok {
				out = append(out, "call:"+exprName(ce.Fun))
			} else {
				out = append(out, "stmt")
			}
		case *ast.ReturnStmt:
			out = append(out, "return")
		case *ast.IfStmt:
			out = append(out, "if{")
			out = append(out, stmtShape(x.Body.List)...)
			switch e := x.Else.(type) {
			case *ast.BlockStmt:
				out = append(out, "}else{")
				out = append(out, stmtShape(e.List)...)
			case *ast.IfStmt:
				out = append(out, "}else{")
				out = append(out, stmtShape([]ast.Stmt{e})...)
			}
			out = append(out, "}")
		default:
			out = append(out, "stmt")
		}
	}
	return out
}

// sliceParamSinks: fd's first parameter of slice type; every call (other than the header-only builtins len/cap)
// that has an argument mentioning it is a sink "recv.Sel"; every assignment whose right-hand side mentions it
// and whose left-hand side is a field is a sink "store:<field>"; returning it is "return". Re-slicing,
// indexing and conversions of the parameter count as mentions (they alias the same array) — except inside
// `append([]T(nil), p...)` / `copy(dst, p)`, which are reported as the sinks "append" / "copy".
func sliceParamSinks(fd *ast.FuncDecl) ([]string, error) {
	var param string
	for _, f := range fd.Type.Params.List {
		if _, ok := f.Type.(*ast.ArrayType); ok && len(f.Names) > 0 {
			param = f.Names[0].Name
			break
		}
	}
	if param == "" {
		return nil, fmt.Errorf("no slice parameter")
	}
	mentions := func(e ast.Node) bool {
		found := false
		ast.Inspect(e, func(n ast.Node) bool {
			if ce, ok := n.(*ast.CallExpr); ok {
				if id, ok := ce.Fun.(*ast.Ident); ok && (id.Name == "len" || id.Name == "cap") {
					return false
				}
			}
			if id, ok := n.(*ast.Ident); ok && id.Name == param {
				found = true
			}
			return !found
		})
		return found
	}
	var out []string
	ast.Inspect(fd.Body, func(n ast.Node) bool {
		switch x := n.(type) {
		case *ast.CallExpr:
			if id, ok := x.Fun.(*ast.Ident); ok && (id.Name == "len" || id.Name == "cap") {
				return false
			}
			for _, a := range x.Args {
				// direct mention only: an argument that is itself a call is reported by that call
				if _, isCall := a.(*ast.CallExpr); isCall {
					continue
				}
				if mentions(a) {
					out = append(out, exprName(x.Fun))
					break
				}
			}
		case *ast.AssignStmt:
			for i, r := range x.Rhs {
				if _, isCall := r.(*ast.CallExpr); isCall || !mentions(r) {
					continue
				}
				name := "local"
				if i < len(x.Lhs) {
					if se, ok := x.Lhs[i].(*ast.SelectorExpr); ok {
						name = "store:" + se.Sel.Name
					} else if id, ok := x.Lhs[i].(*ast.Ident); ok {
						name = "local:" + id.Name
					}
				}
				out = append(out, name)
			}
		case *ast.RangeStmt:
			if mentions(x.X) {
				out = append(out, "range")
			}
		case *ast.ReturnStmt:
			for _, r := range x.Results {
				if _, isCall := r.(*ast.CallExpr); !isCall && mentions(r) {
					out = append(out, "return")
				}
			}
		}
		return true
	})
	return out, nil
}

// nextCompareIsWide inspects the first `if` of TSDDecoder.Next: `a+b <= c`; wide = both summands are int(...) conversions.
func nextCompareIsWide(fd *ast.FuncDecl) (bool, error) {
	if fd == nil {
		return false, fmt.Errorf("TSDDecoder.Next not found")
	}
	for _, st := range fd.Body.List {
		is, ok := st.(*ast.IfStmt)
		if !ok {
			continue
		}
		be, ok := is.Cond.(*ast.BinaryExpr)
		if !ok || be.Op != token.LEQ {
			return false, fmt.Errorf("TSDDecoder.Next: condition is not `a+b <= c`")
		}
		sum, ok := be.X.(*ast.BinaryExpr)
		if !ok || sum.Op != token.ADD {
			return false, fmt.Errorf("TSDDecoder.Next: condition is not `a+b <= c`")
		}
		isInt := func(e ast.Expr) bool {
			ce, ok := e.(*ast.CallExpr)
			if !ok {
				return false
			}
			id, ok := ce.Fun.(*ast.Ident)
			return ok && (id.Name == "int" || id.Name == "int64" || id.Name == "uint32" || id.Name == "int32" || id.Name == "uint64")
		}
		switch {
		case isInt(sum.X) && isInt(sum.Y) && isInt(be.Y):
			return true, nil
		case !isInt(sum.X) && !isInt(sum.Y) && !isInt(be.Y):
			return false, nil
		}
		return false, fmt.Errorf("TSDDecoder.Next: mixed-width comparison")
	}
	return false, fmt.Errorf("TSDDecoder.Next: no if statement")
}

// thresholdSwitch reads `switch { case v < C1: return R1; ...; default: return Rd }`.
func thresholdSwitch(fd *ast.FuncDecl, v string) (rows []string, def int64, err error) {
	if fd == nil {
		return nil, 0, fmt.Errorf("threshold function not found")
	}
	var sw *ast.SwitchStmt
	for _, s := range fd.Body.List {
		if x, ok := s.(*ast.SwitchStmt); ok {
			sw = x
		}
	}
	if sw == nil || sw.Tag != nil {
		return nil, 0, fmt.Errorf("tagless switch not found")
	}
	haveDef := false
	for _, c := range sw.Body.List {
		cc := c.(*ast.CaseClause)
		if len(cc.Body) != 1 {
			return nil, 0, fmt.Errorf("case body is not a single return")
		}
		ret, ok := cc.Body[0].(*ast.ReturnStmt)
		if !ok || len(ret.Results) != 1 {
			return nil, 0, fmt.Errorf("case body is not a single return")
		}
		r, ok := evalInt(ret.Results[0], nil, 0)
		if !ok {
			return nil, 0, fmt.Errorf("non-constant width")
		}
		if cc.List == nil {
			def, haveDef = r, true
			continue
		}
		if haveDef {
			return nil, 0, fmt.Errorf("case after default")
		}
		if len(cc.List) != 1 {
			return nil, 0, fmt.Errorf("multi-condition case")
		}
		be, ok := cc.List[0].(*ast.BinaryExpr)
		if !ok || be.Op != token.LSS {
			return nil, 0, fmt.Errorf("case is not `%s < C`", v)
		}
		if id, ok := be.X.(*ast.Ident); !ok || id.Name != v {
			return nil, 0, fmt.Errorf("case is not `%s < C`", v)
		}
		t, ok := evalInt(be.Y, nil, 0)
		if !ok {
			return nil, 0, fmt.Errorf("non-constant threshold")
		}
		rows = append(rows, fmt.Sprintf("(%d, %d)", t, r))
	}
	if !haveDef {
		return nil, 0, fmt.Errorf("no default case")
	}
	return rows, def, nil
}

// assignedFields lists `recv.field` names assigned directly in fd's body, in source order
// (plain `=`; slices re-sliced to length 0 are reported as "field[:0]").
func assignedFields(fd *ast.FuncDecl) []string {
	var out []string
	if fd.Recv == nil || len(fd.Recv.List) != 1 || len(fd.Recv.List[0].Names) != 1 {
		return out
	}
	recv := fd.Recv.List[0].Names[0].Name
	ast.Inspect(fd.Body, func(n ast.Node) bool {
		as, ok := n.(*ast.AssignStmt)
		if !ok {
			return true
		}
		for i, l := range as.Lhs {
			suffix := ""
			if ix, ok := l.(*ast.IndexExpr); ok { // recv.field[k] = ...
				if lit, ok := ix.Index.(*ast.BasicLit); ok {
					suffix = "[" + lit.Value + "]"
				} else {
					suffix = "[]"
				}
				l = ix.X
			}
			se, ok := l.(*ast.SelectorExpr)
			if !ok {
				continue
			}
			if id, ok := se.X.(*ast.Ident); !ok || id.Name != recv {
				continue
			}
			name := se.Sel.Name + suffix
			if as.Tok != token.ASSIGN && as.Tok != token.DEFINE {
				name += as.Tok.String()
			}
			if i < len(as.Rhs) {
				if sl, ok := as.Rhs[i].(*ast.SliceExpr); ok && sl.Low == nil && sl.High != nil {
					if lit, ok := sl.High.(*ast.BasicLit); ok && lit.Value == "0" {
						name += "[:0]"
					}
				}
			}
			out = append(out, name)
		}
		return true
	})
	return out
}

// Go fixed-width integer semantics used by the translated zig-zag formulas (values are `Int`s:
// an `int64` lies in [-2^63, 2^63), a `uint64` in [0, 2^64)).
const goIntPrelude = `/-- wrap to int64 -/
def i64 (x : Int) : Int := (x + 9223372036854775808) % 18446744073709551616 - 9223372036854775808
/-- wrap to uint64 -/
def u64 (x : Int) : Int := x % 18446744073709551616
/-- bitwise xor / and of two uint64 values -/
def xorU (a b : Int) : Int := ((a.toNat ^^^ b.toNat : Nat) : Int)
def andU (a b : Int) : Int := ((a.toNat &&& b.toNat : Nat) : Int)
`

type bitTr struct{ types map[string]string }

// bitFunc translates `func f(x T) R { return e }` where e uses conversions int64()/uint64(),
// `<<`/`>>` by literal counts, `^` and `&` on unsigned operands, identifiers and literals.
func bitFunc(fd *ast.FuncDecl, leanName string) (string, error) {
	if fd == nil {
		return "", fmt.Errorf("function for %s not found", leanName)
	}
	if len(fd.Body.List) != 1 {
		return "", fmt.Errorf("%s: body is not a single return", leanName)
	}
	ret, ok := fd.Body.List[0].(*ast.ReturnStmt)
	if !ok || len(ret.Results) != 1 {
		return "", fmt.Errorf("%s: body is not a single return", leanName)
	}
	t := &bitTr{types: map[string]string{}}
	var params []string
	for _, fl := range fd.Type.Params.List {
		id, ok := fl.Type.(*ast.Ident)
		if !ok {
			return "", fmt.Errorf("%s: unsupported parameter type", leanName)
		}
		for _, n := range fl.Names {
			t.types[n.Name] = id.Name
			params = append(params, n.Name)
		}
	}
	e, _, err := t.expr(ret.Results[0])
	if err != nil {
		return "", fmt.Errorf("%s: %w", leanName, err)
	}
	var sb strings.Builder
	fmt.Fprintf(&sb, "def %s", leanName)
	for _, p := range params {
		fmt.Fprintf(&sb, " (%s : Int)", leanIdent(p))
	}
	fmt.Fprintf(&sb, " : Int :=\n  %s\n", e)
	return sb.String(), nil
}

func (t *bitTr) expr(e ast.Expr) (string, string, error) {
	switch x := e.(type) {
	case *ast.ParenExpr:
		return t.expr(x.X)
	case *ast.Ident:
		ty, ok := t.types[x.Name]
		if !ok {
			return "", "", fmt.Errorf("unknown identifier %s", x.Name)
		}
		return leanIdent(x.Name), ty, nil
	case *ast.BasicLit:
		if x.Kind == token.INT {
			return x.Value, "untyped", nil
		}
	case *ast.CallExpr:
		id, ok := x.Fun.(*ast.Ident)
		if !ok || len(x.Args) != 1 {
			return "", "", fmt.Errorf("unsupported call")
		}
		a, _, err := t.expr(x.Args[0])
		if err != nil {
			return "", "", err
		}
		switch id.Name {
		case "int64":
			return "(i64 " + a + ")", "int64", nil
		case "uint64":
			return "(u64 " + a + ")", "uint64", nil
		}
		return "", "", fmt.Errorf("unsupported conversion %s", id.Name)
	case *ast.BinaryExpr:
		a, ta, err := t.expr(x.X)
		if err != nil {
			return "", "", err
		}
		switch x.Op {
		case token.SHL, token.SHR:
			k, ok := evalInt(x.Y, nil, 0)
			if !ok || k < 0 || k > 63 {
				return "", "", fmt.Errorf("shift count is not a small literal")
			}
			if x.Op == token.SHR { // arithmetic for signed, logical for unsigned: floor division either way
				return fmt.Sprintf("(%s / %d)", a, uint64(1)<<uint(k)), ta, nil
			}
			wrap := map[string]string{"int64": "i64", "uint64": "u64"}[ta]
			if wrap == "" {
				return "", "", fmt.Errorf("shift of %s operand", ta)
			}
			return fmt.Sprintf("(%s (%s * %d))", wrap, a, uint64(1)<<uint(k)), ta, nil
		case token.XOR, token.AND:
			b, tb, err := t.expr(x.Y)
			if err != nil {
				return "", "", err
			}
			if tb == "untyped" {
				tb = ta
			}
			if ta != "uint64" || tb != "uint64" {
				return "", "", fmt.Errorf("bitwise op on %s/%s operands", ta, tb)
			}
			f := "xorU"
			if x.Op == token.AND {
				f = "andU"
			}
			return fmt.Sprintf("(%s %s %s)", f, a, b), "uint64", nil
		}
	}
	return "", "", fmt.Errorf("unsupported expression %T", e)
}
