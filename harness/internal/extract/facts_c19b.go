package extract

// Regenerated facts for C19, round 9 (module Generated/C19b.lean):
//   - errorToleranceSites: every place of the query packages where an error (or an error message of a
//     node) is looked at in order to be tolerated / ignored / dropped — each must be owned by a theorem
//     of C19 or C12 (Props/C19b.lean, toleranceOwners)
//   - baseStage.execute (the plan-node walk with the not-found tolerance) and its two condition switches
//   - the waits and the late-response path of a root request: MetadataContext.WaitResponse,
//     MetricContext.waitResponse, taskManager.Receive, exec
//   - what completeStage calls on the stage inside its critical section outside the recover
//     (Stats, IsAsync) and whether any stage type overrides those (none: baseStage's are field reads)

import (
	"fmt"
	"go/ast"
	"go/token"
	"go/types"
	"os"
	"path/filepath"
	"regexp"
	"sort"
	"strings"
)

var c19KeepAll = regexp.MustCompile(`.`)

func c19bGoFiles(repo, dir string) ([]string, error) {
	ents, err := os.ReadDir(filepath.Join(repo, dir))
	if err != nil {
		return nil, err
	}
	var out []string
	for _, e := range ents {
		n := e.Name()
		if !strings.HasSuffix(n, ".go") || strings.HasSuffix(n, "_test.go") || strings.HasPrefix(n, "zz_verif") ||
			strings.HasSuffix(n, "_mock.go") {
			continue
		}
		out = append(out, n)
	}
	sort.Strings(out)
	return out, nil
}

// c19ToleranceSites scans the function bodies of the given directories.
func c19ToleranceSites(repo string, dirs []string) ([]string, error) {
	var out []string
	for _, dir := range dirs {
		files, err := c19bGoFiles(repo, dir)
		if err != nil {
			return nil, err
		}
		for _, name := range files {
			_, f, err := ParseFile(repo, dir+"/"+name)
			if err != nil {
				return nil, err
			}
			for _, d := range f.Decls {
				fd, ok := d.(*ast.FuncDecl)
				if !ok || fd.Body == nil {
					continue
				}
				count := map[string]int{}
				var order []string
				add := func(k string) {
					if count[k] == 0 {
						order = append(order, k)
					}
					count[k]++
				}
				ast.Inspect(fd.Body, func(n ast.Node) bool {
					switch x := n.(type) {
					case *ast.CallExpr:
						fun := types.ExprString(x.Fun)
						switch {
						case fun == "errors.Is" && len(x.Args) == 2:
							add("errors.Is(" + types.ExprString(x.Args[1]) + ")")
						case (fun == "strings.Contains" || fun == "strings.HasPrefix" || fun == "strings.HasSuffix" || fun == "strings.EqualFold") && len(x.Args) == 2:
							a0 := types.ExprString(x.Args[0])
							if strings.Contains(strings.ToLower(a0), "err") {
								add(fun + "(" + a0 + ", " + types.ExprString(x.Args[1]) + ")")
							}
						case strings.HasSuffix(fun, "NewPlanNodeWithIgnore") && len(x.Args) == 1:
							op := types.ExprString(x.Args[0])
							if c, ok := x.Args[0].(*ast.CallExpr); ok {
								op = types.ExprString(c.Fun)
							}
							add("ignore-node(" + op + ")")
						case strings.HasSuffix(fun, ".IgnoreNotFound") && len(x.Args) == 0:
							add("IgnoreNotFound()")
						case fun == "recover" && len(x.Args) == 0:
							add("recover()")
						}
					case *ast.SelectorExpr:
						if x.Sel.Name == "tolerantNotFounds" {
							add("tolerantNotFounds")
						}
					case *ast.BinaryExpr:
						// an error message / error compared with a fixed value
						if x.Op == token.EQL || x.Op == token.NEQ {
							l, r := types.ExprString(x.X), types.ExprString(x.Y)
							if (strings.HasSuffix(l, "ErrMsg") || strings.HasSuffix(l, "errMsg")) && r != `""` {
								add("compare(" + l + ", " + r + ")")
							}
							if (l == "err" || strings.HasSuffix(l, ".err")) && r != "nil" {
								add("compare(" + l + ", " + r + ")")
							}
						}
					case *ast.AssignStmt:
						// a call whose (last) result is discarded into the blank identifier
						if len(x.Rhs) == 1 {
							if c, ok := x.Rhs[0].(*ast.CallExpr); ok && len(x.Lhs) > 0 {
								if id, ok := x.Lhs[len(x.Lhs)-1].(*ast.Ident); ok && id.Name == "_" {
									add("discard(" + types.ExprString(c.Fun) + ")")
								}
							}
						}
					}
					return true
				})
				for _, k := range order {
					s := fmt.Sprintf("%s/%s:%s:%s", dir, name, fd.Name.Name, k)
					if count[k] > 1 {
						s += fmt.Sprintf("×%d", count[k])
					}
					out = append(out, s)
				}
			}
		}
	}
	return out, nil
}

func init() {
	Register(Fact{Module: "C19b", Gen: func(repo string) (string, error) {
		var sb strings.Builder
		sites, err := c19ToleranceSites(repo, []string{"query", "query/context", "query/stage", "query/operator", "query/tracker", "internal/concurrent"})
		if err != nil {
			return "", err
		}
		sb.WriteString("/-- every place of query/, query/context, query/stage, query/operator, query/tracker, internal/concurrent (non-test) where an error is\n" +
			"looked at in order to be tolerated, ignored or dropped: `errors.Is(_, X)`, string tests on an error message,\n" +
			"comparisons of an error (message) with a fixed value, `NewPlanNodeWithIgnore(op)`, `IgnoreNotFound()`, uses of\n" +
			"`tolerantNotFounds`, `recover()`, calls whose last result goes to `_`. Format dir/file.go:func:what[×n] -/\n")
		sb.WriteString("def errorToleranceSites : List String := " + LeanStrList(sites) + "\n\n")

		_, bf, err := ParseFile(repo, "query/stage/base_stage.go")
		if err != nil {
			return "", err
		}
		ex := FindFunc(bf, "baseStage", "execute")
		if ex == nil {
			return "", fmt.Errorf("baseStage.execute not found")
		}
		exSteps := c19StepsKeep(ex.Body, c19KeepAll)
		sb.WriteString("def baseStageExecuteTreeSteps : List String := " + LeanStrList(exSteps) + "\n\n")
		// the tolerance condition: the `if` directly inside `if err != nil` whose body is `return nil`
		asksNode, asksNF, found := false, false, false
		ast.Inspect(ex.Body, func(n ast.Node) bool {
			ifs, ok := n.(*ast.IfStmt)
			if !ok || len(ifs.Body.List) != 1 {
				return true
			}
			ret, ok := ifs.Body.List[0].(*ast.ReturnStmt)
			if !ok || len(ret.Results) != 1 || types.ExprString(ret.Results[0]) != "nil" {
				return true
			}
			cond := types.ExprString(ifs.Cond)
			if cond == "node == nil" {
				return true
			}
			if found {
				asksNode, asksNF = false, false // two tolerance branches: not the shape the model knows
				return true
			}
			found = true
			conj := true
			ast.Inspect(ifs.Cond, func(m ast.Node) bool {
				if b, ok := m.(*ast.BinaryExpr); ok && b.Op != token.LAND {
					conj = false
				}
				return true
			})
			if conj {
				asksNode = strings.Contains(cond, "node.IgnoreNotFound()")
				asksNF = strings.Contains(cond, "errors.Is(err, constants.ErrNotFound)")
			}
			return true
		})
		if !found {
			// no tolerance at all: every error is returned; the model's switches then describe "tolerates nothing"
			// which no Tol value expresses — refuse, the tie names the function
			return "", fmt.Errorf("baseStage.execute: no `if … { return nil }` tolerance branch found")
		}
		sb.WriteString("/-- the tolerance condition of baseStage.execute is a conjunction that contains `node.IgnoreNotFound()` -/\n")
		sb.WriteString(fmt.Sprintf("def toleranceAsksNode : Bool := %v\n\n", asksNode))
		sb.WriteString("/-- … and `errors.Is(err, constants.ErrNotFound)` -/\n")
		sb.WriteString(fmt.Sprintf("def toleranceAsksNotFound : Bool := %v\n\n", asksNF))
		st := FindFunc(bf, "baseStage", "Stats")
		if st == nil {
			return "", fmt.Errorf("baseStage.Stats not found")
		}
		sb.WriteString("def baseStageStatsSteps : List String := " + LeanStrList(c19StepsKeep(st.Body, c19KeepAll)) + "\n\n")

		// methods named Stats / IsAsync declared in query/stage on a receiver other than baseStage
		var overrides []string
		files, err := c19bGoFiles(repo, "query/stage")
		if err != nil {
			return "", err
		}
		for _, name := range files {
			_, f, err := ParseFile(repo, "query/stage/"+name)
			if err != nil {
				return "", err
			}
			for _, d := range f.Decls {
				fd, ok := d.(*ast.FuncDecl)
				if !ok || fd.Recv == nil || len(fd.Recv.List) == 0 {
					continue
				}
				if fd.Name.Name != "Stats" && fd.Name.Name != "IsAsync" {
					continue
				}
				recv := strings.TrimPrefix(types.ExprString(fd.Recv.List[0].Type), "*")
				if recv != "baseStage" {
					overrides = append(overrides, name+":"+recv+"."+fd.Name.Name)
				}
			}
		}
		sb.WriteString("/-- methods Stats / IsAsync of query/stage declared on another receiver than baseStage -/\n")
		sb.WriteString("def stageStatsOverrides : List String := " + LeanStrList(overrides) + "\n\n")

		// completeStage: calls on s.stage made directly inside the critical section
		_, smf, err := ParseFile(repo, "query/pipeline_state_matchine.go")
		if err != nil {
			return "", err
		}
		cs := FindFunc(smf, "pipelineStateMachine", "completeStage")
		if cs == nil {
			return "", fmt.Errorf("pipelineStateMachine.completeStage not found")
		}
		var direct []string
		ast.Inspect(cs.Body, func(n ast.Node) bool {
			if c, ok := n.(*ast.CallExpr); ok {
				if sel, ok := c.Fun.(*ast.SelectorExpr); ok && types.ExprString(sel.X) == "s.stage" {
					direct = append(direct, sel.Sel.Name)
				}
			}
			return true
		})
		sb.WriteString("/-- methods of the stage that completeStage calls directly (outside any recover), in source order -/\n")
		sb.WriteString("def completeStageDirectStageCalls : List String := " + LeanStrList(direct) + "\n\n")

		// a root request and its deadline
		_, mcf, err := ParseFile(repo, "query/context/metadata_context.go")
		if err != nil {
			return "", err
		}
		if fd := FindFunc(mcf, "MetadataContext", "WaitResponse"); fd != nil {
			sb.WriteString("def metadataWaitResponseSteps : List String := " + LeanStrList(c19StepsKeep(fd.Body, c19KeepAll)) + "\n\n")
		} else {
			return "", fmt.Errorf("MetadataContext.WaitResponse not found")
		}
		_, mtf, err := ParseFile(repo, "query/context/metric_context.go")
		if err != nil {
			return "", err
		}
		if fd := FindFunc(mtf, "MetricContext", "waitResponse"); fd != nil {
			sb.WriteString("def metricWaitResponseSteps : List String := " + LeanStrList(c19StepsKeep(fd.Body, c19KeepAll)) + "\n\n")
		} else {
			return "", fmt.Errorf("MetricContext.waitResponse not found")
		}
		_, tmf, err := ParseFile(repo, "query/task_manager.go")
		if err != nil {
			return "", err
		}
		if fd := FindFunc(tmf, "taskManager", "Receive"); fd != nil {
			keep := regexp.MustCompile(`mgr\.get\(|^if taskCtx == nil|^return|Submit\(|HandleResponse\(|NewTask\(`)
			sb.WriteString("def receiveSteps : List String := " + LeanStrList(c19StepsKeep(fd.Body, keep)) + "\n\n")
		} else {
			return "", fmt.Errorf("taskManager.Receive not found")
		}
		_, sf, err := ParseFile(repo, "query/search.go")
		if err != nil {
			return "", err
		}
		if fd := FindFunc(sf, "", "exec"); fd != nil {
			keep := regexp.MustCompile(`AddTask\(|RemoveTask\(|pipeline\.Execute\(|WaitResponse\(\)|ctx\.Complete\(`)
			sb.WriteString("def execSteps : List String := " + LeanStrList(c19StepsKeep(fd.Body, keep)) + "\n")
		} else {
			return "", fmt.Errorf("exec not found in query/search.go")
		}
		return sb.String(), nil
	}})
}
