package main

import (
	"fmt"
	"math"
	"os"
	"time"

	"github.com/lindb/lindb/kv"
	"github.com/lindb/lindb/pkg/bit"
	"github.com/lindb/lindb/pkg/timeutil"
	"github.com/lindb/lindb/series/field"
	"github.com/lindb/lindb/tsdb/tblstore/metricsdata"
)

func build(start, end int, v float64) []byte {
	nop := kv.NewNopFlusher()
	fl, _ := metricsdata.NewFlusher(nop)
	fl.PrepareMetric(7, field.Metas{{ID: 1, Type: field.SumField}})
	enc := fl.GetEncoder(0)
	enc.RestWithStartTime(uint16(start))
	for t := start; t <= end; t++ {
		enc.AppendTime(bit.One)
		enc.AppendValue(math.Float64bits(v))
	}
	d, err := enc.BytesWithoutTime()
	if err != nil {
		panic(err)
	}
	_ = fl.FlushField(append([]byte(nil), d...))
	enc.Reset()
	_ = fl.FlushSeries(1)
	_ = fl.CommitMetric(timeutil.SlotRange{Start: uint16(start), End: uint16(end)})
	return append([]byte(nil), nop.Bytes()...)
}

func main() {
	var s, e int
	fmt.Sscan(os.Args[1], &s)
	fmt.Sscan(os.Args[2], &e)
	a := build(s, e, 1)
	b := build(s, e, 2)
	done := make(chan string, 1)
	go func() {
		nop := kv.NewNopFlusher()
		m, _ := metricsdata.NewMerger(nop)
		err := m.Merge(7, [][]byte{a, b})
		done <- fmt.Sprintf("merge err=%v out=%d bytes", err, len(nop.Bytes()))
	}()
	select {
	case r := <-done:
		fmt.Println(r)
	case <-time.After(3 * time.Second):
		fmt.Println("HANG: merge did not return in 3s")
		os.Exit(2)
	}
}
