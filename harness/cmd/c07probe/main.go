package main

import (
	"github.com/lindb/common/pkg/logger"
	"go.uber.org/zap/zapcore"

	"github.com/lindb/lindb/zzverif/internal/areas/c07"
)

func main() {
	logger.RunningAtomicLevel.SetLevel(zapcore.FatalLevel)
	c07.Probe()
}
