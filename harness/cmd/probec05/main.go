package main

import (
	"bytes"
	"fmt"
	"os"

	"github.com/lindb/lindb/pkg/queue"
	"github.com/lindb/lindb/zzverif/internal/areas/c05"
)

func main() {
	fmt.Println(c05.Probe(os.Args[1:]))
	_ = bytes.Equal
	_ = queue.NewQueue
}
