package main

import _ "github.com/lindb/lindb/zzverif/internal/areas/c11"
