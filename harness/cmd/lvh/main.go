// lvh is the correspondence harness: it runs lindb's real code (from /repo's working tree,
// built with -tags verif) on generated cases and writes the line-protocol streams that
// bin/check pipes to the Lean model driver.
//
//	lvh list
//	lvh run <area> -seed S -n N -tier quick|thorough -out DIR [-case K] [-arg k=v ...]
//	lvh extract -out DIR        (regenerated facts -> Lean source)
package main

import (
	"flag"
	"fmt"
	"os"
	"strings"

	"github.com/lindb/common/pkg/logger"
	"go.uber.org/zap/zapcore"

	"github.com/lindb/lindb/zzverif/internal/core"
)

type argList []string

func (a *argList) String() string     { return strings.Join(*a, ",") }
func (a *argList) Set(s string) error { *a = append(*a, s); return nil }

func main() {
	logger.RunningAtomicLevel.SetLevel(zapcore.FatalLevel) // lindb's own logging is noise here
	if len(os.Args) < 2 {
		fmt.Fprintln(os.Stderr, "usage: lvh list | run <area> ... | extract -out DIR")
		os.Exit(2)
	}
	switch os.Args[1] {
	case "list":
		for _, n := range core.Names() {
			fmt.Println(n)
		}
	case "run":
		if len(os.Args) < 3 {
			fmt.Fprintln(os.Stderr, "usage: lvh run <area> ...")
			os.Exit(2)
		}
		area := core.Lookup(os.Args[2])
		if area == nil {
			fmt.Fprintf(os.Stderr, "unknown area %q\n", os.Args[2])
			os.Exit(2)
		}
		fs := flag.NewFlagSet("run", flag.ExitOnError)
		seed := fs.Int64("seed", 1, "seed")
		n := fs.Int("n", 100, "number of cases")
		tier := fs.String("tier", "quick", "tier")
		out := fs.String("out", "", "output directory")
		only := fs.Int("case", -1, "run only this case index")
		var args argList
		fs.Var(&args, "arg", "k=v area argument")
		_ = fs.Parse(os.Args[3:])
		if *out == "" {
			fmt.Fprintln(os.Stderr, "-out required")
			os.Exit(2)
		}
		c, err := core.NewCtx(*out, *seed, *n, *tier, *only)
		if err != nil {
			fmt.Fprintln(os.Stderr, err)
			os.Exit(2)
		}
		for _, kv := range args {
			if i := strings.IndexByte(kv, '='); i > 0 {
				c.Args[kv[:i]] = kv[i+1:]
			}
		}
		runErr := area.Run(c)
		if err := c.Close(); err != nil {
			fmt.Fprintln(os.Stderr, err)
			os.Exit(2)
		}
		if runErr != nil {
			fmt.Fprintln(os.Stderr, "harness error:", runErr)
			os.Exit(3)
		}
	case "extract":
		fs := flag.NewFlagSet("extract", flag.ExitOnError)
		out := fs.String("out", "", "output directory for generated Lean files")
		repo := fs.String("repo", "/repo", "lindb source tree")
		_ = fs.Parse(os.Args[2:])
		if err := runExtract(*repo, *out); err != nil {
			fmt.Fprintln(os.Stderr, "extract:", err)
			os.Exit(3)
		}
	default:
		fmt.Fprintln(os.Stderr, "unknown command", os.Args[1])
		os.Exit(2)
	}
}
