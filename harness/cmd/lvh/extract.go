package main

import (
	"fmt"

	"github.com/lindb/lindb/zzverif/internal/extract"
)

func runExtract(repo, out string) error {
	if out == "" {
		return fmt.Errorf("-out required")
	}
	return extract.Run(repo, out)
}
