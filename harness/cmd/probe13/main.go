package main

import (
	"fmt"
	"os"
	"time"

	"github.com/lindb/lindb/config"
	"github.com/lindb/lindb/internal/verifhook"
	"github.com/lindb/lindb/models"
	"github.com/lindb/lindb/pkg/option"
	"github.com/lindb/lindb/pkg/timeutil"
	"github.com/lindb/lindb/tsdb"
)

func main() {
	time.Local = time.UTC
	dir, _ := os.MkdirTemp("", "lvh-c13-probe-*")
	defer os.RemoveAll(dir)
	cfg := config.NewDefaultStorageBase()
	cfg.TSDB.Dir = dir
	config.SetGlobalStorageConfig(cfg)
	open := func() (tsdb.Engine, tsdb.Shard) {
		engine, err := tsdb.NewEngine()
		if err != nil {
			panic(err)
		}
		opt := &option.DatabaseOption{Intervals: option.Intervals{{Interval: timeutil.Interval(10000), Retention: timeutil.Interval(400 * 365 * 86400000)}}}
		if _, ok := engine.GetShard("db", 1); !ok {
			if err := engine.CreateShards("db", opt, models.ShardID(1)); err != nil {
				panic(err)
			}
		}
		sh, _ := engine.GetShard("db", 1)
		return engine, sh
	}
	for sc := 0; sc < 4; sc++ {
	pre, mid := sc >= 2, sc%2 == 1
	t := time.Date(2024, 5, 16+sc, 9, 30, 0, 0, time.UTC).UnixMilli()
	e, sh := open()
	if pre {
	f0, err := sh.GetOrCrateDataFamily(t)
	fmt.Println("first", f0 != nil, err)
	}
	e.Close()
	e, sh = open()
	fmt.Println("SCENARIO pre", pre, "mid", mid)
	fmt.Println("registered after reopen", tsdb.VerifC13RegisteredFamily(sh, t))
	parked := make(chan struct{})
	resume := make(chan struct{})
	first := true
	var fb tsdb.DataFamily
	var eb error
	verifhook.Set(func(id string) {
		if id == "tsdb.shard.getOrCrateDataFamily.afterSegment" && first {
			first = false
			parked <- struct{}{}
			<-resume
		}
	})
	var fa tsdb.DataFamily
	var ea error
	done := make(chan struct{})
	go func() { fa, ea = sh.GetOrCrateDataFamily(t); close(done) }()
	<-parked
	sh.EvictSegment()
	if mid {
	fb, eb = sh.GetOrCrateDataFamily(t + 1)
	}
	resume <- struct{}{}
	<-done
	verifhook.Set(nil)
	fmt.Printf("A: %p err=%v\nB: %p err=%v\nregistered: %p\n", fa, ea, fb, eb, tsdb.VerifC13RegisteredFamily(sh, t))
	if fa != nil {
		fmt.Println("A range", fa.TimeRange(), "same object:", fa == fb)
	}
	if b, err := os.ReadFile(dir + "/db/shard/1/segment/day/" + time.UnixMilli(t).UTC().Format("20060102") + "/OPTIONS"); err == nil {
		fmt.Println("OPTIONS:", string(b))
	}
	fc, ec := sh.GetOrCrateDataFamily(t + 2)
	fmt.Printf("C (later writer): %p err=%v registered now %p\n", fc, ec, tsdb.VerifC13RegisteredFamily(sh, t))
	fs := sh.GetDataFamilies(timeutil.Day, timeutil.TimeRange{Start: t, End: t})
	fmt.Println("query finds", len(fs))
	for _, f := range fs {
		fmt.Printf("  %p\n", f)
	}
	e.Close()
	}
}
