package main

import (
	"bytes"
	"fmt"
	"math/rand"
	"os"
	"sort"

	"github.com/lindb/lindb/pkg/trie"
)

var alpha = []byte{0x00, 'a', 'b', 0xfe, 0xff}

func allStrings(maxLen int) [][]byte {
	res := [][]byte{{}}
	cur := [][]byte{{}}
	for l := 1; l <= maxLen; l++ {
		var nxt [][]byte
		for _, c := range cur {
			for _, a := range alpha {
				k := append(append([]byte{}, c...), a)
				nxt = append(nxt, k)
			}
		}
		res = append(res, nxt...)
		cur = nxt
	}
	return res
}

type fail struct{ kind, desc string }

var seen = map[string]int{}

func report(kind string, keys [][]byte, desc string) {
	seen[kind]++
	if seen[kind] <= 4 {
		fmt.Printf("FAIL %s keys=%q :: %s\n", kind, keys, desc)
	}
}

func guard(kind string, keys [][]byte, f func()) {
	defer func() {
		if r := recover(); r != nil {
			report(kind+"-panic", keys, fmt.Sprint(r))
		}
	}()
	f()
}

func check(keys [][]byte, probes [][]byte, reload bool) {
	vals := make([]uint32, len(keys))
	for i := range vals {
		vals[i] = uint32(i + 100)
	}
	var t trie.SuccinctTrie
	ok := false
	guard("build", keys, func() {
		b := trie.NewBuilder()
		b.Build(keys, vals)
		if reload {
			var buf bytes.Buffer
			if err := b.Write(&buf); err != nil {
				report("write-err", keys, err.Error())
				return
			}
			if buf.Len() != b.MarshalSize() {
				report("marshalsize", keys, fmt.Sprint(buf.Len(), b.MarshalSize()))
			}
			t = trie.NewTrie()
			if err := t.UnmarshalBinary(buf.Bytes()); err != nil {
				report("unmarshal-err", keys, err.Error())
				return
			}
		} else {
			t = b.Trie()
		}
		ok = true
	})
	if !ok {
		return
	}
	m := map[string]uint32{}
	for i, k := range keys {
		m[string(k)] = vals[i]
	}
	for _, p := range probes {
		guard("get", keys, func() {
			v, found := t.Get(p)
			ev, efound := m[string(p)]
			if found != efound || (found && v != ev) {
				report("get", keys, fmt.Sprintf("probe=%q got=%v,%v want=%v,%v", p, v, found, ev, efound))
			}
		})
	}
	guard("iter", keys, func() {
		it := t.NewIterator()
		i := 0
		for it.SeekToFirst(); it.Valid(); it.Next() {
			if i >= len(keys) || !bytes.Equal(it.Key(), keys[i]) || it.Value() != vals[i] {
				report("iter", keys, fmt.Sprintf("i=%d key=%q", i, it.Key()))
				return
			}
			i++
		}
		if i != len(keys) {
			report("iter", keys, fmt.Sprintf("count %d", i))
		}
		i = len(keys) - 1
		for it.SeekToLast(); it.Valid(); it.Prev() {
			if i < 0 || !bytes.Equal(it.Key(), keys[i]) || it.Value() != vals[i] {
				report("riter", keys, fmt.Sprintf("i=%d key=%q", i, it.Key()))
				return
			}
			i--
		}
		if i != -1 {
			report("riter", keys, fmt.Sprintf("count %d", i))
		}
	})
	for _, p := range probes {
		guard("seek", keys, func() {
			it := t.NewIterator()
			fp := it.Seek(p)
			lb := sort.Search(len(keys), func(i int) bool { return bytes.Compare(keys[i], p) >= 0 })
			if lb == len(keys) {
				if it.Valid() {
					report("seek-end", keys, fmt.Sprintf("probe=%q valid at %q", p, it.Key()))
				}
			} else {
				if !it.Valid() || !bytes.Equal(it.Key(), keys[lb]) {
					k := []byte("<invalid>")
					if it.Valid() {
						k = it.Key()
					}
					report("seek", keys, fmt.Sprintf("probe=%q at %q want %q", p, k, keys[lb]))
				} else {
					exact := bytes.Equal(keys[lb], p)
					if fp != exact {
						report("seek-fp", keys, fmt.Sprintf("probe=%q fp=%v exact=%v", p, fp, exact))
					}
					// continue iterating from there
					j := lb
					for ; it.Valid(); it.Next() {
						if j >= len(keys) || !bytes.Equal(it.Key(), keys[j]) {
							report("seek-next", keys, fmt.Sprintf("probe=%q j=%d key=%q", p, j, it.Key()))
							return
						}
						j++
					}
					if j != len(keys) {
						report("seek-next", keys, fmt.Sprintf("probe=%q stopped at %d", p, j))
					}
				}
			}
		})
		guard("prefix", keys, func() {
			it := t.NewPrefixIterator(p)
			var want []int
			for i, k := range keys {
				if bytes.HasPrefix(k, p) {
					want = append(want, i)
				}
			}
			n := 0
			for ; it.Valid(); it.Next() {
				if n >= len(want) || !bytes.Equal(it.Key(), keys[want[n]]) || it.Value() != vals[want[n]] {
					report("prefix", keys, fmt.Sprintf("prefix=%q n=%d key=%q", p, n, it.Key()))
					return
				}
				n++
			}
			if n != len(want) {
				report("prefix", keys, fmt.Sprintf("prefix=%q count %d want %d", p, n, len(want)))
			}
		})
	}
}

func main() {
	all := allStrings(4)
	probes := allStrings(3)
	rng := rand.New(rand.NewSource(1))
	// exhaustive small: all subsets of size 1,2 of strings up to len 2
	small := allStrings(2)
	for i := range small {
		check([][]byte{small[i]}, probes, false)
	}
	sort.Slice(small, func(i, j int) bool { return bytes.Compare(small[i], small[j]) < 0 })
	for i := range small {
		for j := i + 1; j < len(small); j++ {
			check([][]byte{small[i], small[j]}, probes, false)
		}
	}
	for it := 0; it < 3000; it++ {
		n := 1 + rng.Intn(12)
		set := map[string]bool{}
		for len(set) < n {
			set[string(all[rng.Intn(len(all))])] = true
		}
		var keys [][]byte
		for k := range set {
			keys = append(keys, []byte(k))
		}
		sort.Slice(keys, func(i, j int) bool { return bytes.Compare(keys[i], keys[j]) < 0 })
		check(keys, probes, it%2 == 0)
	}
	// big sets
	for it := 0; it < 30; it++ {
		n := 200 + rng.Intn(3000)
		set := map[string]bool{}
		for len(set) < n {
			l := rng.Intn(8)
			k := make([]byte, l)
			for i := range k {
				if rng.Intn(3) == 0 {
					k[i] = byte(rng.Intn(256))
				} else {
					k[i] = alpha[rng.Intn(len(alpha))]
				}
			}
			set[string(k)] = true
		}
		var keys [][]byte
		for k := range set {
			keys = append(keys, []byte(k))
		}
		sort.Slice(keys, func(i, j int) bool { return bytes.Compare(keys[i], keys[j]) < 0 })
		var pr [][]byte
		for i := 0; i < 300; i++ {
			k := keys[rng.Intn(len(keys))]
			pr = append(pr, k, append(append([]byte{}, k...), 0xff), k[:len(k)/2])
		}
		check(keys, pr, it%2 == 0)
	}
	fmt.Println("summary", seen)
	os.Exit(0)
}
