module github.com/lindb/lindb/zzverif

go 1.23

require (
	github.com/cespare/xxhash/v2 v2.2.0
	github.com/google/flatbuffers v23.3.3+incompatible
	github.com/lindb/common v0.0.6
	github.com/lindb/lindb v0.0.0
	github.com/lindb/roaring v1.2.1
	github.com/lithammer/go-jump-consistent-hash v1.0.2
	go.uber.org/atomic v1.11.0
	go.uber.org/zap v1.21.0
	google.golang.org/grpc v1.59.0
)

require (
	github.com/BurntSushi/toml v1.2.1 // indirect
	github.com/antlr4-go/antlr/v4 v4.13.0 // indirect
	github.com/caarlos0/env/v7 v7.1.0 // indirect
	github.com/coreos/go-semver v0.3.0 // indirect
	github.com/coreos/go-systemd/v22 v22.5.0 // indirect
	github.com/dustin/go-humanize v1.0.1 // indirect
	github.com/gogo/protobuf v1.3.2 // indirect
	github.com/golang/protobuf v1.5.4 // indirect
	github.com/google/uuid v1.3.1 // indirect
	github.com/grpc-ecosystem/go-grpc-middleware v1.3.0 // indirect
	github.com/hashicorp/golang-lru/v2 v2.0.7 // indirect
	github.com/jedib0t/go-pretty/v6 v6.4.6 // indirect
	github.com/json-iterator/go v1.1.12 // indirect
	github.com/klauspost/compress v1.17.1 // indirect
	github.com/klauspost/cpuid v1.3.1 // indirect
	github.com/mattn/go-isatty v0.0.19 // indirect
	github.com/mattn/go-runewidth v0.0.14 // indirect
	github.com/modern-go/concurrent v0.0.0-20180306012644-bacd9c7ef1dd // indirect
	github.com/modern-go/reflect2 v1.0.2 // indirect
	github.com/rivo/uniseg v0.2.0 // indirect
	github.com/shirou/gopsutil/v3 v3.22.5 // indirect
	github.com/tklauser/go-sysconf v0.3.10 // indirect
	github.com/tklauser/numcpus v0.4.0 // indirect
	github.com/xlab/treeprint v1.2.0 // indirect
	go.etcd.io/etcd/api/v3 v3.5.13 // indirect
	go.etcd.io/etcd/client/pkg/v3 v3.5.13 // indirect
	go.etcd.io/etcd/client/v3 v3.5.13 // indirect
	go.uber.org/multierr v1.11.0 // indirect
	golang.org/x/exp v0.0.0-20231006140011-7918f672742d // indirect
	golang.org/x/net v0.17.0 // indirect
	golang.org/x/sys v0.15.0 // indirect
	golang.org/x/text v0.14.0 // indirect
	google.golang.org/genproto/googleapis/api v0.0.0-20231012201019-e917dd12ba7a // indirect
	google.golang.org/genproto/googleapis/rpc v0.0.0-20231009173412-8bfb1ae86b6c // indirect
	google.golang.org/protobuf v1.33.0 // indirect
	gopkg.in/natefinch/lumberjack.v2 v2.2.1 // indirect
)

replace github.com/lindb/lindb => /repo
