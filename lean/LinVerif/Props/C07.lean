/-
C07 — Node crash recovery loses no logged write, never replays a persisted one.

Every theorem quantifies over ALL event sequences of the model (`run cfg St.init evs`), i.e. all
histories of appends, local replication (split into its three steps, so flushes race with it),
metadata / index / data flush steps, log GC, and `crash` / `recover` / `rewind` at every event
boundary (each event has at most one durable effect), and over both shapes `cfg` of the
dictionary `PrepareFlush`.
-/
import LinVerif.Lemmas.C07Resolve
import LinVerif.Lemmas.C07Replay
import LinVerif.Lemmas.C07Lanes
import LinVerif.Lemmas.C07Grid
import LinVerif.Generated.C07
import LinVerif.Generated.C07Loops
import LinVerif.Lemmas.C07Fanout
import LinVerif.Generated.C07Fanout

namespace LinVerif.Props.C07
set_option maxRecDepth 100000
open LinVerif.NodeRecovery

/-! ### sequences and acknowledgements

`WriteRows` looks the memory database up under the family mutex and registers as its writer
(`AcquireWrite`) only afterwards (`Cfg.atomicAcquire = false`, regenerated from /repo). A complete
`Flush` of that memory database in between does not wait for the write; the rows then go into a
memory database nobody references. The full-strength statements below are therefore proved for the
shape in which the registration happens inside the mutex section (`atomicAcquire = true`, the shape
of `fixes/C07-writeRows-acquire-under-mutex.patch`), the `…_partial` versions for BOTH shapes under
the explicit hypothesis `GapFree` (no `freeze` while the in-flight write has taken its memory
database but is not registered), and `Neg.gap_loses_entry` refutes `no_loss` for the current shape. -/

/-- hypothesis-free form of `GapFree` for the repaired shape -/
theorem gapFree_init (cfg : Cfg) (hc : cfg.atomicAcquire = true) (evs : List Ev) : GapFree cfg St.init evs :=
  gapFree_of_atomic cfg hc evs (by intro fl hfl; simp [St.init] at hfl)

/-- The log's acknowledged position never runs ahead of the sequence stored durably with the flushed
data, except over CORRUPT entries (payloads that do not decompress: they carry no rows, and
`IgnoreMessage` acknowledges such an entry only when it directly follows the acknowledged position) —
in every reachable state, hence in every crash image. With corrupt entries in the alphabet the bare
inequality `groupAck ≤ stored` is false for the code (a corrupt entry right behind a fully flushed log
is acknowledged without any flush), see `ack_past_stored_only_over_corrupt`. -/
theorem ack_le_stored_partial (cfg : Cfg) (hx : cfg.ignoreExact = true) (evs : List Ev)
    (hg : GapFree cfg St.init evs) (s : Int) (h0 : 0 ≤ s) (hs : s ≤ (run cfg St.init evs).groupAck) :
    s ≤ ov (run cfg St.init evs).stored ∨ Bad (run cfg St.init evs) s :=
  (inv_run cfg hx evs hg inv_init).ack_stored s h0 hs

theorem ack_le_stored (cfg : Cfg) (hx : cfg.ignoreExact = true) (hc : cfg.atomicAcquire = true)
    (evs : List Ev) (s : Int) (h0 : 0 ≤ s) (hs : s ≤ (run cfg St.init evs).groupAck) :
    s ≤ ov (run cfg St.init evs).stored ∨ Bad (run cfg St.init evs) s :=
  ack_le_stored_partial cfg hx evs (gapFree_init cfg hc evs) s h0 hs

/-- the literal inequality for histories without corrupt entries -/
theorem ack_le_stored_no_corrupt (cfg : Cfg) (hx : cfg.ignoreExact = true) (hc : cfg.atomicAcquire = true)
    (evs : List Ev) (hgood : ∀ s, ¬ Bad (run cfg St.init evs) s) :
    (run cfg St.init evs).groupAck ≤ ov (run cfg St.init evs).stored := by
  have hi := inv_run cfg hx evs (gapFree_init cfg hc evs) inv_init
  by_cases h0 : 0 ≤ (run cfg St.init evs).groupAck
  · rcases hi.ack_stored _ h0 (Int.le_refl _) with h | h
    · exact h
    · exact absurd h (hgood _)
  · have := hi.stored_lo; omega

/-- Every appended log entry that carries rows is contained in a durable data file (with its own
payload), or is still in the (existing) log above the acknowledged position, so the rewound
replicator consumes it again. -/
theorem no_loss_partial (cfg : Cfg) (hx : cfg.ignoreExact = true) (evs : List Ev)
    (hg : GapFree cfg St.init evs) (s : Int) (m t : Nat)
    (h0 : 0 ≤ s) (hs : (run cfg St.init evs).log[s.toNat]? = some (some (m, t))) :
    (∃ r ∈ fileRows (run cfg St.init evs), r.seq = s ∧ r.metric = m ∧ r.tagv = t) ∨
    ((run cfg St.init evs).groupAck < s ∧ (run cfg St.init evs).gcLow ≤ s ∧
      (run cfg St.init evs).walGone = false) := by
  have h := inv_run cfg hx evs hg inv_init
  have hnb : ¬ Bad (run cfg St.init evs) s := by intro hb; rw [hb.2] at hs; cases hs
  by_cases hk : s ≤ (run cfg St.init evs).groupAck
  · left
    rcases h.ack_stored s h0 hk with hst | hb
    · rcases h.stored_files s h0 hst with hb | ⟨r, hr, hrs⟩
      · exact absurd hb hnb
      · obtain ⟨_, hl⟩ := h.rows_log r (Or.inl hr)
        rw [hrs, hs] at hl
        simp at hl
        exact ⟨r, hr, hrs, hl.1.symm, hl.2.symm⟩
    · exact absurd hb hnb
  · right
    have := h.gc_ack
    refine ⟨by omega, by omega, ?_⟩
    cases hw : (run cfg St.init evs).walGone with
    | false => rfl
    | true =>
      have := (h.wal_gone hw).1
      have hlen : s.toNat < (run cfg St.init evs).log.length := by
        rcases Nat.lt_or_ge s.toNat (run cfg St.init evs).log.length with h' | h'
        · exact h'
        · simp [List.getElem?_eq_none h'] at hs
      simp only [St.appended] at this
      omega

theorem no_loss (cfg : Cfg) (hx : cfg.ignoreExact = true) (hc : cfg.atomicAcquire = true)
    (evs : List Ev) (s : Int) (m t : Nat)
    (h0 : 0 ≤ s) (hs : (run cfg St.init evs).log[s.toNat]? = some (some (m, t))) :
    (∃ r ∈ fileRows (run cfg St.init evs), r.seq = s ∧ r.metric = m ∧ r.tagv = t) ∨
    ((run cfg St.init evs).groupAck < s ∧ (run cfg St.init evs).gcLow ≤ s ∧
      (run cfg St.init evs).walGone = false) :=
  no_loss_partial cfg hx evs (gapFree_init cfg hc evs) s m t h0 hs

/-- The WAL garbage collector removes a log directory only when every entry of it that carries rows is
contained in durable data files. -/
theorem wal_gone_all_flushed (cfg : Cfg) (hx : cfg.ignoreExact = true) (evs : List Ev)
    (hg : GapFree cfg St.init evs) (hw : (run cfg St.init evs).walGone = true) (s : Int) (m t : Nat)
    (h0 : 0 ≤ s) (hs : (run cfg St.init evs).log[s.toNat]? = some (some (m, t))) :
    ∃ r ∈ fileRows (run cfg St.init evs), r.seq = s := by
  rcases no_loss_partial cfg hx evs hg s m t h0 hs with ⟨r, hr, hrs, _⟩ | ⟨_, _, h3⟩
  · exact ⟨r, hr, hrs⟩
  · rw [hw] at h3; cases h3

/-- "hence replayed": the replicator restarts exactly behind the acknowledged position. -/
theorem rewind_resumes_after_ack (cfg : Cfg) (st : St) (h : st.phase = .opened) :
    (step cfg st .rewind).consumed = (step cfg st .rewind).groupAck ∧
    (step cfg st .rewind).phase = .running := by
  simp [step, h, doRewind]

/-- An entry at or below the durably stored sequence is never applied again: whenever a replica
write has passed `ValidateSequence`, its sequence is above the stored one. -/
theorem no_replay_below_partial (cfg : Cfg) (hx : cfg.ignoreExact = true) (evs : List Ev)
    (hg : GapFree cfg St.init evs) (fl : InFlight)
    (h : (run cfg St.init evs).inflight = some fl) :
    ov (run cfg St.init evs).stored < fl.seq := by
  have hi := inv_run cfg hx evs hg inv_init
  obtain ⟨hr, _, hq, _, _, _⟩ := hi.infl fl h
  have := hi.stored_seq (by rw [hr]; decide)
  omega

theorem no_replay_below (cfg : Cfg) (hx : cfg.ignoreExact = true) (hc : cfg.atomicAcquire = true)
    (evs : List Ev) (fl : InFlight) (h : (run cfg St.init evs).inflight = some fl) :
    ov (run cfg St.init evs).stored < fl.seq :=
  no_replay_below_partial cfg hx evs (gapFree_init cfg hc evs) fl h

/-- File-level form of "never applied again": a durable data file only ever contains rows of entries
ABOVE the sequence that the manifest had stored before that file was committed, and the stored
sequence is the one of the newest record that carries one. -/
theorem no_replay_below_files_partial (cfg : Cfg) (hx : cfg.ignoreExact = true) (evs : List Ev)
    (hg : GapFree cfg St.init evs) :
    FilesAbove (run cfg St.init evs).files ∧
    (run cfg St.init evs).stored = latestStored (run cfg St.init evs).files :=
  have h := inv2_run cfg hx evs hg inv_init inv2_init
  ⟨h.files_above, h.stored_eq⟩

theorem no_replay_below_files (cfg : Cfg) (hx : cfg.ignoreExact = true) (hc : cfg.atomicAcquire = true)
    (evs : List Ev) :
    FilesAbove (run cfg St.init evs).files ∧
    (run cfg St.init evs).stored = latestStored (run cfg St.init evs).files :=
  no_replay_below_files_partial cfg hx evs (gapFree_init cfg hc evs)

/-- "... or still in the log and replayed": from ANY reachable idle running state whose log still
exists (in particular right after `recover` + `rewind`), running the replica loop to the end of the
log makes every appended entry that carries rows present in the node's storage (a data file or a
memory database), with its own payload. -/
theorem replay_complete_partial (cfg : Cfg) (hx : cfg.ignoreExact = true) (evs : List Ev)
    (hg : GapFree cfg St.init evs) (n : Nat)
    (hr : (run cfg St.init evs).phase = .running) (hn : (run cfg St.init evs).inflight = none)
    (hw : (run cfg St.init evs).walGone = false)
    (hd : (run cfg St.init evs).appended - (run cfg St.init evs).consumed ≤ n)
    (s : Int) (m t : Nat) (h0 : 0 ≤ s) (hs : (run cfg St.init evs).log[s.toNat]? = some (some (m, t))) :
    ∃ r, Stored (run cfg (run cfg St.init evs) (rounds n)) r ∧ r.seq = s ∧ r.metric = m ∧ r.tagv = t := by
  obtain ⟨hi, hp, hin, hl, hc⟩ := rounds_catch_up cfg hx n (inv_run cfg hx evs hg inv_init) hr hn hw hd
  have happ : (run cfg (run cfg St.init evs) (rounds n)).appended = (run cfg St.init evs).appended := by
    simp [St.appended, hl]
  have hlen : s.toNat < (run cfg St.init evs).log.length := by
    rcases Nat.lt_or_ge s.toNat (run cfg St.init evs).log.length with h' | h'
    · exact h'
    · simp [List.getElem?_eq_none h'] at hs
  have hsle : s ≤ (run cfg St.init evs).appended := by simp only [St.appended]; omega
  have hnb : ¬ Bad (run cfg (run cfg St.init evs) (rounds n)) s := by
    intro hb; have := hb.2; rw [hl, hs] at this; cases this
  have hidle := hi.idle hp hin
  have hcov : Present (run cfg (run cfg St.init evs) (rounds n)) s := by
    by_cases hle : s ≤ ov (run cfg (run cfg St.init evs) (rounds n)).seq
    · rcases hi.covered s h0 hle with hb | hp'
      · exact absurd hb hnb
      · exact hp'
    · exact absurd (hidle s (by omega) (by omega)) hnb
  obtain ⟨r, hr1, hr2⟩ := hcov
  obtain ⟨_, hlog⟩ := hi.rows_log r hr1
  rw [hr2, hl, hs] at hlog
  simp at hlog
  exact ⟨r, hr1, hr2, hlog.1.symm, hlog.2.symm⟩

theorem replay_complete (cfg : Cfg) (hx : cfg.ignoreExact = true) (hc : cfg.atomicAcquire = true)
    (evs : List Ev) (n : Nat)
    (hr : (run cfg St.init evs).phase = .running) (hn : (run cfg St.init evs).inflight = none)
    (hw : (run cfg St.init evs).walGone = false)
    (hd : (run cfg St.init evs).appended - (run cfg St.init evs).consumed ≤ n)
    (s : Int) (m t : Nat) (h0 : 0 ≤ s) (hs : (run cfg St.init evs).log[s.toNat]? = some (some (m, t))) :
    ∃ r, Stored (run cfg (run cfg St.init evs) (rounds n)) r ∧ r.seq = s ∧ r.metric = m ∧ r.tagv = t :=
  replay_complete_partial cfg hx evs (gapFree_init cfg hc evs) n hr hn hw hd s m t h0 hs

/-- The durably stored sequence never decreases (whatever order `Flush` / `Close` flush the pending
memory databases in: the older, frozen one is always committed before the mutable one can be frozen). -/
theorem stored_never_decreases (cfg : Cfg) (hx : cfg.ignoreExact = true) (evs : List Ev)
    (hg : GapFree cfg St.init evs) (e : Ev) :
    ov (run cfg St.init evs).stored ≤ ov (step cfg (run cfg St.init evs) e).stored := by
  have hi := inv_run cfg hx evs hg inv_init
  generalize run cfg St.init evs = st at hi
  have hsame : ∀ st' : St, st'.stored = st.stored → ov st.stored ≤ ov st'.stored := by
    intro st' h; rw [h]; exact Int.le_refl _
  have hif : ∀ (c : Prop) [Decidable c] (a : St), a.stored = st.stored →
      ov st.stored ≤ ov (if c then a else st).stored := by
    intro c _ a h; split
    · exact hsame a h
    · exact Int.le_refl _
  cases e <;> simp only [step, whenRunning]
  case crash => exact hsame _ rfl
  case recover =>
    apply hif
    unfold doRecover; split
    · rfl
    · rw [ackOpt_eq]
  case rewind => exact hif _ _ rfl
  case append m t => apply hif; split <;> rfl
  case appendBad => apply hif; split <;> rfl
  case foreignWrite m t => apply hif; simp
  case foreignNames m t => apply hif; simp
  case foreignMetric m => exact hif _ _ rfl
  case foreignTagv m t => exact hif _ _ rfl
  case applyBegin =>
    apply hif; split
    · rfl
    · unfold doApplyBegin beginAt ignoreMsg ackTo; (repeat' split) <;> rfl
  case applyGetFail =>
    apply hif; split
    · rfl
    · unfold doApplyGetFail ignoreMsg ackTo; (repeat' split) <;> rfl
  case applyNoRows =>
    apply hif; split
    · rfl
    · unfold doApplyNoRows; (repeat' split) <;> rfl
  case applyTake => apply hif; unfold doApplyTake; (repeat' split) <;> rfl
  case applyAcquire => apply hif; unfold doApplyAcquire; (repeat' split) <;> rfl
  case applyWrite =>
    apply hif; unfold doApplyWrite; split
    · split
      · rfl
      · simp only [addNames_stored]; unfold putRow; (repeat' split) <;> rfl
    · rfl
  case applyCommit => apply hif; unfold doApplyCommit; (repeat' split) <;> rfl
  case metaPrepare => exact hif _ _ rfl
  case metaFlushMetric => exact hif _ _ rfl
  case metaFlushTagv => exact hif _ _ rfl
  case indexPrepare => exact hif _ _ rfl
  case indexFlush => exact hif _ _ rfl
  case freeze => apply hif; unfold doFreeze; (repeat' split) <;> rfl
  case ackCallback =>
    apply hif; unfold doAckCallback; split
    · split
      · rw [ackOpt_eq]
      · rfl
    · rfl
  case logGC k => apply hif; unfold doLogGC; (repeat' split) <;> rfl
  case walExpire => apply hif; unfold doWalExpire; (repeat' split) <;> rfl
  case dataCommit =>
    split
    · unfold doDataCommit
      split
      case h_2 => exact Int.le_refl _
      case h_1 fz hfz =>
        split
        · exact Int.le_refl _
        · have h2 := (hi.fz_capt fz hfz).2
          show ov st.stored ≤ ov (newStored fz.captured st.stored)
          unfold newStored
          cases hcap : fz.captured with
          | some x => simp only [hcap, ov, Option.getD_some] at h2 ⊢; exact h2
          | none => exact Int.le_refl _
    · exact Int.le_refl _

/-- The recovered family rejects every sequence at or below the recovered (persisted) one. -/
theorem recovered_rejects_persisted (cfg : Cfg) (st : St) (hd : st.phase = .down)
    (x s : Int) (hx : st.stored = some x) (hs : s ≤ x) :
    validSeq (step cfg st .recover) s = false := by
  have : (step cfg st .recover).seq = some x := by
    simp only [step, hd, if_true, doRecover]
    split
    · simpa using hx
    · rw [ackOpt_eq]; simpa using hx
  simp [validSeq, this]; omega


/-! ### per leader

The family's sequence maps are keyed by the leader id, and every leader's writes come through their
own log partition. A node is a list of lanes (`Node`), one per leader; `stepNode` sends a partition
event to its lane (the other lanes see the written row as a foreign row of the shared family) and a
family / process event to all lanes. Every lane is a reachable state of the single-lane model, so
the statements above hold for EVERY leader of EVERY node history. -/

theorem no_loss_per_leader (cfg : Cfg) (hx : cfg.ignoreExact = true) (hc : cfg.atomicAcquire = true)
    (leaders : List Nat) (nevs : List NEv) (l : Nat) (st : St)
    (hl : (l, st) ∈ runNode cfg (Node.init leaders) nevs) (s : Int) (m t : Nat)
    (h0 : 0 ≤ s) (hs : st.log[s.toNat]? = some (some (m, t))) :
    (∃ r ∈ fileRows st, r.seq = s ∧ r.metric = m ∧ r.tagv = t) ∨
    (st.groupAck < s ∧ st.gcLow ≤ s ∧ st.walGone = false) := by
  obtain ⟨evs, he⟩ := lanes_run cfg nevs (lanes_init cfg leaders) (l, st) hl
  simp only [] at he
  subst he
  exact no_loss cfg hx hc evs s m t h0 hs

theorem no_replay_below_per_leader (cfg : Cfg) (hx : cfg.ignoreExact = true) (hc : cfg.atomicAcquire = true)
    (leaders : List Nat) (nevs : List NEv) (l : Nat) (st : St)
    (hl : (l, st) ∈ runNode cfg (Node.init leaders) nevs) (fl : InFlight) (h : st.inflight = some fl) :
    ov st.stored < fl.seq := by
  obtain ⟨evs, he⟩ := lanes_run cfg nevs (lanes_init cfg leaders) (l, st) hl
  simp only [] at he
  subst he
  exact no_replay_below cfg hx hc evs fl h

theorem ack_le_stored_per_leader (cfg : Cfg) (hx : cfg.ignoreExact = true) (hc : cfg.atomicAcquire = true)
    (leaders : List Nat) (nevs : List NEv) (l : Nat) (st : St)
    (hl : (l, st) ∈ runNode cfg (Node.init leaders) nevs) (s : Int) (h0 : 0 ≤ s) (hs : s ≤ st.groupAck) :
    s ≤ ov st.stored ∨ Bad st s := by
  obtain ⟨evs, he⟩ := lanes_run cfg nevs (lanes_init cfg leaders) (l, st) hl
  simp only [] at he
  subst he
  exact ack_le_stored cfg hx hc evs s h0 hs

/-- non-vacuity: a node that is leader 1 and follower of leader 2 for the same family: both logs are
applied into the shared memory database, one flush stores and acknowledges both sequences, a crash
leaves each leader's unflushed entry to be replayed from ITS log under ITS sequence -/
def twoLeaderTrace : List NEv :=
  [.lane 1 (.append 0 0)] ++ applyRound.map (NEv.lane 1) ++
  [.lane 2 (.append 5 5), .lane 2 (.append 6 6)] ++ applyRound.map (NEv.lane 2) ++ applyRound.map (NEv.lane 2) ++
  flushRound.map NEv.shared ++
  [.lane 1 (.append 1 1)] ++ applyRound.map (NEv.lane 1) ++
  [.shared .crash, .shared .recover, .shared .rewind]

example :
    ((runNode ⟨true, true, true⟩ (Node.init [1, 2]) twoLeaderTrace).map
      (fun p => (p.1, p.2.stored, p.2.groupAck, p.2.consumed, (fileRows p.2).length, p.2.log.length))) =
    [(1, some 0, 0, 0, 1, 2), (2, some 1, 1, 1, 2, 2)] := by decide

/-! ### flushed data resolves through the recovered dictionaries

Full-strength statement (what the property demands of the code):

    theorem resolves (cfg : Cfg) (evs : List Ev) : Resolves (run cfg St.init evs)

It is FALSE for the current flush order — `Neg.not_resolves` below refutes it with two concrete
histories. What is proved instead is `resolves_partial`: the statement for every history that
satisfies `Disciplined`, i.e. in which (a) no name exists only in memory at the moment a memory
database is frozen, (b) no metadata name exists only in memory when the index is prepared, and
(c) a row that lands in an already frozen memory database uses durable names only.
`flush_prefix_establishes` shows that the code's own order (metadata flush, index flush, then
freeze) establishes (a) and (b) from any state without a flush in progress — provided no new name
is created in between and no dictionary has been wedged by an earlier empty prepare; the two
excluded regions are exactly the two witnesses. -/

theorem resolves_partial (cfg : Cfg) (evs : List Ev) (h : Disciplined cfg St.init evs) :
    Resolves (run cfg St.init evs) :=
  (rinv_run cfg evs h rinv_init).resolves

/-- The flush order of `doFlush` up to the freeze, run from a state where no dictionary flush is in
progress (all immutable maps absent), leaves no name that exists only in memory: the following
`freeze` satisfies the discipline. -/
theorem flush_prefix_establishes (cfg : Cfg) (st : St) (hr : st.phase = .running)
    (h1 : st.metric.immut = none) (h2 : st.tagv.immut = none) (h3 : st.index.immut = none) :
    let st' := run cfg st [.metaPrepare, .metaFlushMetric, .metaFlushTagv, .indexPrepare, .indexFlush]
    st'.metric.pending = false ∧ st'.tagv.pending = false ∧ st'.index.pending = false := by
  have key : ∀ {α : Type} [DecidableEq α] (d : Dict α), d.immut = none →
      ((d.prepare cfg).flush).pending = false := by
    intro α _ d hd
    cases hm : d.mutab with
    | nil => simp [Dict.prepare, Dict.flush, Dict.pending, Dict.immList, hd, hm]
    | cons a l => simp [Dict.prepare, Dict.flush, Dict.pending, Dict.immList, hd, hm]
  simp only [run, List.foldl, step, whenRunning, hr, if_true]
  exact ⟨key _ h1, key _ h2, key _ h3⟩

/-- non-vacuity: a history with appends, replication, two complete flush rounds in the code's order
(new names before each round), a crash in between and recovery is disciplined — and resolves. -/
def goodTrace : List Ev :=
  [.append 0 0, .applyBegin, .applyTake, .applyAcquire, .applyWrite, .applyCommit, .append 1 0, .applyBegin, .applyTake, .applyAcquire, .applyWrite, .applyCommit] ++
  flushRound ++
  [.append 0 1, .append 2 5, .applyBegin, .applyTake, .applyAcquire, .applyWrite, .applyCommit, .crash, .recover, .rewind,
   .applyBegin, .applyTake, .applyAcquire, .applyWrite, .applyCommit, .applyBegin, .applyTake, .applyAcquire, .applyWrite, .applyCommit] ++
  flushRound ++ [.logGC 2, .crash, .recover, .rewind]

example : Disciplined ⟨false, false, true⟩ St.init goodTrace := by decide
example : (run ⟨false, false, true⟩ St.init goodTrace).groupAck = 3 ∧ (run ⟨false, false, true⟩ St.init goodTrace).stored = some 3 ∧
    (fileRows (run ⟨false, false, true⟩ St.init goodTrace)).length = 4 ∧ (run ⟨false, false, true⟩ St.init goodTrace).gcLow = 2 := by decide
example : Resolves (run ⟨false, false, true⟩ St.init goodTrace) := resolves_partial _ _ (by decide)

/-- the steps after a completed dictionary flush keep "no name exists only in memory" -/
theorem quiet_step (cfg : Cfg) (st : St) (e : Ev)
    (he : e = .indexPrepare ∨ e = .indexFlush ∨ e = .freeze ∨ e = .dataCommit ∨ e = .ackCallback)
    (hr : st.phase = .running)
    (hq : st.metric.pending = false ∧ st.tagv.pending = false ∧ st.index.pending = false) :
    (step cfg st e).phase = .running ∧ (step cfg st e).metric.pending = false ∧
    (step cfg st e).tagv.pending = false ∧ (step cfg st e).index.pending = false := by
  obtain ⟨q1, q2, q3⟩ := hq
  have keyP : ∀ {α : Type} [DecidableEq α] (d : Dict α), d.pending = false → (d.prepare cfg).pending = false := by
    intro α _ d hd
    cases hm : d.mutab with
    | cons a l => simp [Dict.pending, hm] at hd
    | nil =>
      cases hi : d.immut with
      | none => simp [Dict.prepare, Dict.pending, Dict.immList, hi, hm]
      | some l =>
        cases l with
        | nil => cases hs : cfg.swapOnEmpty <;> simp [Dict.prepare, Dict.pending, Dict.immList, hi, hm, hs]
        | cons a l => simp [Dict.pending, Dict.immList, hi, hm] at hd
  have keyF : ∀ {α : Type} [DecidableEq α] (d : Dict α), d.pending = false → d.flush.pending = false := by
    intro α _ d hd
    cases hi : d.immut with
    | none => simpa [Dict.flush, hi] using hd
    | some l =>
      cases l with
      | nil => simpa [Dict.flush, hi] using hd
      | cons a l => simp [Dict.pending, Dict.immList, hi] at hd
  rcases he with rfl | rfl | rfl | rfl | rfl
  · simp only [step, whenRunning, hr, if_true]; exact ⟨trivial, q1, q2, keyP _ q3⟩
  · simp only [step, whenRunning, hr, if_true]; exact ⟨trivial, q1, q2, keyF _ q3⟩
  · simp only [step, whenRunning, hr, if_true]
    unfold doFreeze
    split
    · split
      · exact ⟨hr, q1, q2, q3⟩
      · exact ⟨hr, q1, q2, q3⟩
    · exact ⟨hr, q1, q2, q3⟩
  · simp only [step, whenRunning, hr, if_true]
    unfold doDataCommit
    split
    · split
      · exact ⟨hr, q1, q2, q3⟩
      · exact ⟨hr, q1, q2, q3⟩
    · exact ⟨hr, q1, q2, q3⟩
  · simp only [step, whenRunning, hr, if_true]
    unfold doAckCallback
    split
    · split
      · rename_i fz _ _
        cases hc : fz.captured with
        | none => simp only [ackOpt]; exact ⟨hr, q1, q2, q3⟩
        | some x => simp only [ackOpt, ackTo]; split <;> exact ⟨hr, q1, q2, q3⟩
      · exact ⟨hr, q1, q2, q3⟩
    · exact ⟨hr, q1, q2, q3⟩

/-- GRACEFUL SHUTDOWN keeps the discipline: from any running state without a dictionary flush in
progress, the events of `database.Close` in the code's order (metadata, index, index again, then
`dataFamily.Close`: pending immutable memory database, then the mutable one) satisfy `Disciplined`
— so by `resolves_partial` a crash at ANY point inside the shutdown leaves only data whose names are
durable. (The same events with the shards closed before the metadata flush do not:
`Neg.shutdown_data_first_unresolved`.) -/
theorem shutdown_order_is_disciplined (cfg : Cfg) (st : St) (hr : st.phase = .running)
    (h1 : st.metric.immut = none) (h2 : st.tagv.immut = none) (h3 : st.index.immut = none) :
    Disciplined cfg st shutdownRound := by
  have h5 := flush_prefix_establishes cfg st hr h1 h2 h3
  simp only [run, List.foldl] at h5
  have r1 : (step cfg st .metaPrepare).phase = .running := by simp only [step, whenRunning, hr, if_true]
  have r2 : (step cfg (step cfg st .metaPrepare) .metaFlushMetric).phase = .running := by
    simp only [step, whenRunning, hr, if_true]
  have r3 : (step cfg (step cfg (step cfg st .metaPrepare) .metaFlushMetric) .metaFlushTagv).phase = .running := by
    simp only [step, whenRunning, hr, if_true]
  -- the metadata part of the prefix is already complete after the third event
  have m3 : (step cfg (step cfg (step cfg st .metaPrepare) .metaFlushMetric) .metaFlushTagv).metric.pending = false ∧
      (step cfg (step cfg (step cfg st .metaPrepare) .metaFlushMetric) .metaFlushTagv).tagv.pending = false := by
    have e1 : (step cfg (step cfg (step cfg (step cfg (step cfg st .metaPrepare) .metaFlushMetric) .metaFlushTagv) .indexPrepare) .indexFlush).metric
        = (step cfg (step cfg (step cfg st .metaPrepare) .metaFlushMetric) .metaFlushTagv).metric := by
      simp only [step, whenRunning, hr, if_true]
    have e2 : (step cfg (step cfg (step cfg (step cfg (step cfg st .metaPrepare) .metaFlushMetric) .metaFlushTagv) .indexPrepare) .indexFlush).tagv
        = (step cfg (step cfg (step cfg st .metaPrepare) .metaFlushMetric) .metaFlushTagv).tagv := by
      simp only [step, whenRunning, hr, if_true]
    exact ⟨e1 ▸ h5.1, e2 ▸ h5.2.1⟩
  have r4 : (step cfg (step cfg (step cfg (step cfg st .metaPrepare) .metaFlushMetric) .metaFlushTagv) .indexPrepare).phase = .running := by
    simp only [step, whenRunning, hr, if_true]
  have r5 : (step cfg (step cfg (step cfg (step cfg (step cfg st .metaPrepare) .metaFlushMetric) .metaFlushTagv) .indexPrepare) .indexFlush).phase = .running := by
    simp only [step, whenRunning, hr, if_true]
  -- from here on every step keeps the three dictionaries quiet
  have q6 := quiet_step cfg _ .indexPrepare (Or.inl rfl) r5 h5
  have q7 := quiet_step cfg _ .indexFlush (Or.inr (Or.inl rfl)) q6.1 q6.2
  have q8 := quiet_step cfg _ .dataCommit (Or.inr (Or.inr (Or.inr (Or.inl rfl)))) q7.1 q7.2
  have q9 := quiet_step cfg _ .ackCallback (Or.inr (Or.inr (Or.inr (Or.inr rfl)))) q8.1 q8.2
  simp only [shutdownRound, closeEvs, List.cons_append, List.nil_append, Disciplined, okAt, and_true, true_and,
    implies_true]
  refine ⟨fun _ => m3, fun _ => ⟨h5.1, h5.2.1⟩, fun _ _ _ => q9.2⟩

/-- non-vacuity: writes, a failed data flush (freeze only), more writes, shutdown, restart -/
def shutdownTrace : List Ev :=
  [.append 0 0] ++ applyRound ++ [.metaPrepare, .metaFlushMetric, .metaFlushTagv, .indexPrepare, .indexFlush, .freeze] ++
  [.append 1 1] ++ applyRound ++ shutdownRound ++ [.crash, .recover, .rewind]

example : Disciplined ⟨true, true, true⟩ St.init shutdownTrace := by decide
example : (run ⟨true, true, true⟩ St.init shutdownTrace).groupAck = 1 ∧ (run ⟨true, true, true⟩ St.init shutdownTrace).stored = some 1 ∧
    (fileRows (run ⟨true, true, true⟩ St.init shutdownTrace)).length = 2 ∧ Resolves (run ⟨true, true, true⟩ St.init shutdownTrace) := by decide

/-- a round whose index flush fails and which is ABORTED there: nothing is flushed or acknowledged,
the entry is replayed after a crash -/
example : let st := run ⟨true, true, true⟩ St.init ([.append 0 0] ++ applyRound ++ failedIndexRound ++ [.crash, .recover, .rewind])
    st.groupAck = -1 ∧ st.files = [] ∧ st.consumed = -1 ∧ Resolves st := by decide

/-- non-vacuity of `replay_complete`: a crash with two unapplied / unflushed entries; two rounds of
the replica loop bring both back -/
def lossyTrace : List Ev :=
  [.append 0 0, .applyBegin, .applyTake, .applyAcquire, .applyWrite, .applyCommit] ++ flushRound ++
  [.append 1 1, .applyBegin, .applyTake, .applyAcquire, .applyWrite, .applyCommit, .append 2 2, .crash, .recover, .rewind]

example : (run ⟨false, false, true⟩ St.init lossyTrace).phase = .running ∧ (run ⟨false, false, true⟩ St.init lossyTrace).inflight = none ∧
    (run ⟨false, false, true⟩ St.init lossyTrace).appended - (run ⟨false, false, true⟩ St.init lossyTrace).consumed ≤ 2 ∧
    (run ⟨false, false, true⟩ St.init lossyTrace).memMut = [] ∧
    (run ⟨false, false, true⟩ St.init (lossyTrace ++ rounds 2)).memMut = [⟨2, 2, 2⟩, ⟨1, 1, 1⟩] := by decide

/-! ### generated facts: the model's event order is the code's call order -/

open LinVerif.Generated.C07 in
/-- replace the call `name` by the (relevant part of the) body of the called function -/
def inlineCall (l : List String) (name : String) (body : List String) : List String :=
  l.flatMap (fun s => if s = name then body else [s])

/-- code step -> model events -/
def flushEv : String → List Ev
  | "db.FlushMeta" => [.metaPrepare, .metaFlushMetric, .metaFlushTagv]   -- synchronous: waits for the worker's callback
  | "shard.FlushIndex" => [.indexPrepare, .indexFlush]
  | "waitingFlushMemDB.MarkReadOnly" => [.freeze]                         -- inside the mutex section that swaps and captures
  | "memDB.FlushFamilyTo" => [.dataCommit]                                -- ends with flusher.Close = kv Commit
  | "fn" => [.ackCallback]
  | _ => []

open LinVerif.Generated.C07 in
/-- `doFlush` → `flushShard` → `family.Flush` → `flushMemoryDatabase`, in source order, is the
model's flush round: metadata, index, freeze, data commit, acknowledgement. -/
theorem flushRound_is_code_order :
    (inlineCall (inlineCall (inlineCall doFlushCalls "fc.flushShard" flushShardCalls)
        "family.Flush" familyFlushCalls) "f.flushMemoryDatabase" flushMemoryDatabaseCalls).flatMap flushEv
      = flushRound := by decide

open LinVerif.Generated.C07 in
/-- the swap of the memory database and the capture of the sequences happen in one mutex section
of `dataFamily.Flush`, before `flushMemoryDatabase` -/
theorem freeze_is_one_critical_section :
    familyFlushCalls.filter (fun s => s ∈ ["mutex.Lock", "mutex.Unlock", "waitingFlushMemDB.MarkReadOnly", "seq.Load", "f.flushMemoryDatabase"])
      = ["mutex.Lock", "mutex.Unlock", "waitingFlushMemDB.MarkReadOnly", "seq.Load", "mutex.Unlock",
         "f.flushMemoryDatabase", "mutex.Lock", "mutex.Unlock"] := by decide

open LinVerif.Generated.C07 in
/-- sequences are handed to the kv flusher before the table is written; the ack callbacks run after
`FlushFamilyTo` (whose last step is the kv commit) and before the memory database is closed -/
theorem dataCommit_then_ack :
    flushMemoryDatabaseCalls.filter (fun s => s ∈ ["flusher.Sequence", "memDB.FlushFamilyTo", "fn", "memDB.Close"])
      = ["flusher.Sequence", "memDB.FlushFamilyTo", "fn", "memDB.Close"] ∧
    flushFamilyToCalls.head? = some "writeCondition.Wait" ∧ flushFamilyToCalls.getLast? = some "flusher.Close" := by
  decide

open LinVerif.Generated.C07 in
/-- table and sequences go into ONE edit log, committed once -/
theorem table_and_sequence_one_record :
    storeFlusherCommitCalls.filter (fun s => s ∈ ["version.CreateNewFile", "version.CreateSequence", "family.commitEditLog"])
      = ["version.CreateNewFile", "version.CreateSequence", "family.commitEditLog"] := by decide

def applyEv : String → List Ev
  | "family.ValidateSequence" => [.applyBegin]
  | "family.WriteRows" => [.applyTake, .applyAcquire, .applyWrite]
  | "defer:family.CommitSequence" => [.applyCommit]
  | _ => []

open LinVerif.Generated.C07 in
/-- `localReplicator.Replica`: validate → write rows → (deferred) commit sequence; the defer is
registered after the validation, so a rejected sequence is not committed. -/
theorem applyRound_is_code_order :
    replicaCalls.flatMap applyEv = applyRound ∧
    replicaCalls.filter (fun s => s ∈ ["family.ValidateSequence", "defer-registered", "family.WriteRows"])
      = ["family.ValidateSequence", "defer-registered", "family.WriteRows"] := by decide

open LinVerif.Generated.C07 in
/-- `partition.replica`: consume, read the message, then `Replica` (or `IgnoreMessage` on a read error);
`WriteRows`: take the memory database, register the writer, write, wait for the workers, release. -/
theorem replica_loop_and_writeRows_order :
    partitionReplicaCalls.filter (fun s => s ∈ ["replicator.Consume", "replicator.GetMessage", "replicator.IgnoreMessage", "replicator.Replica"])
      = ["replicator.Consume", "replicator.GetMessage", "replicator.IgnoreMessage", "replicator.Replica"] ∧
    writeRowsCalls.filter (fun s => s ∈ ["db.WriteRow", "row.Wait", "defer:db.CompleteWrite"])
      = ["db.WriteRow", "row.Wait", "defer:db.CompleteWrite"] ∧
    -- the model's `applyTake` / `applyAcquire` are the two calls of the current shape
    (atomicAcquire = false →
      writeRowsCalls.filter (fun s => s ∈ ["f.GetOrCreateMemoryDatabase", "db.AcquireWrite", "db.WriteRow"])
        = ["f.GetOrCreateMemoryDatabase", "db.AcquireWrite", "db.WriteRow"]) := by
  decide

open LinVerif.Generated.C07 in
/-- `NewLocalReplicator`: register the ack callback (runs at once with the persisted sequence),
THEN rewind to ack+1 — the model's `recover` then `rewind`; the callback is the group ack. -/
theorem recover_then_rewind_is_code_order :
    newLocalReplicatorCalls.filter (fun s => s ∈ ["λ:lr.SetAckIndex", "family.AckSequence", "lr.AckIndex", "lr.ResetReplicaIndex"])
      = ["λ:lr.SetAckIndex", "family.AckSequence", "lr.AckIndex", "lr.ResetReplicaIndex", "lr.AckIndex"] ∧
    groupAckGuard = "ackSeq >= ts && ackSeq <= hs" := by decide

open LinVerif.Generated.C07 in
/-- the workers prepare (swap) inside their event loop and flush afterwards; the metadata flush
writes the metric store before the tag value store; one index flush covers the four index stores -/
theorem dictionary_flush_order :
    metaWorkerCalls = ["mdb.handleRow", "metaDB.PrepareFlush", "mdb.handleFlush"] ∧
    indexWorkerCalls = ["idb.handleRow", "indexDB.PrepareFlush", "idb.handleFlush"] ∧
    metaFlushCalls.filter (fun s => s ∈ ["metric.Flush", "tagValue.Flush"]) = ["metric.Flush", "tagValue.Flush"] ∧
    indexFlushCalls.filter (fun s => s ∈ ["metricInverted.flush", "forward.flush", "inverted.flush", "series.Flush", "family.Flush"]) =
      ["metricInverted.flush", "forward.flush", "inverted.flush", "series.Flush"] := by decide

open LinVerif.Generated.C07 in
/-- the WAL garbage collector: `destroy` removes a partition's directory only after `IsExpire`, whose
predicate is every consumer group's `IsEmpty`, and `IsEmpty` compares the APPENDED sequence with the
ACKNOWLEDGED one (the model's guard of `walExpire`); `recovery` rebuilds partitions from the directories -/
theorem wal_gc_predicate :
    groupIsEmptyExpr = "qh <= f.AcknowledgedSeq()" ∧
    isExpireCalls.filter (fun s => s ∈ ["log.Sync", "log.Queue().GC", "consumerGroup.IsEmpty"])
      = ["log.Sync", "log.Queue().GC", "consumerGroup.IsEmpty"] ∧
    walDestroyCalls.filter (fun s => s ∈ ["log.IsExpire", "log.Stop", "log.Close", "removeDirFn"])
      = ["log.IsExpire", "log.Stop", "log.Close", "removeDirFn", "removeDirFn"] ∧
    walRecoveryCalls.filter (fun s => s ∈ ["w.GetOrCreatePartition", "partition.recovery"])
      = ["w.GetOrCreatePartition", "partition.recovery"] := by decide

open LinVerif.Generated.C07 in
/-- `dataFamily.Close` flushes a pending IMMUTABLE memory database (older entries, the sequences
captured when it was frozen) BEFORE the mutable one (newer entries, the current sequences) — the order
in which the model's `dataCommit` of a frozen memdb necessarily precedes the next `freeze` — and
`Flush` passes the sequences it captured in the critical section of the switch -/
theorem close_flushes_older_first :
    closeFlushArgs = ["f.immutableSeq, f.immutableMemDB", "sequences, f.mutableMemDB"] ∧
    flushFlushArgs = ["immutableSeq, waitingFlushMemDB"] := by decide

open LinVerif.Generated.C07 in
/-- the leader id on the recovery path is the LOG DIRECTORY's leader all the way down: partition key,
`partition.recovery`, `buildReplica`, `ReplicaState.Leader`, `localReplicator.leader`, and the key of
the family's sequence maps in `ValidateSequence` / `CommitSequence` / `AckSequence` -/
theorem recovery_keeps_the_logs_leader :
    walRecoveryPartitionArgs = ["models.ParseShardID(shard), familyTime, models.ParseNodeID(leader)"] ∧
    walRecoveryLeaderArgs = ["models.ParseNodeID(leader)"] ∧
    partitionRecoveryBuildArgs = ["leader, models.ParseNodeID(replica)"] ∧
    buildReplicaStateLeader = ["leader"] ∧
    localReplicatorLeader = ["int32(channel.State.Leader)"] ∧
    localReplicaLeaderArgs = ["r.leader, sequence", "r.leader, sequence", "lr.leader, func"] := by decide

/-- code step of the shutdown path -> model events -/
def shutdownEv : String → List Ev
  | "db.flushMeta" => [.metaPrepare, .metaFlushMetric, .metaFlushTagv]
  | "thisShard.FlushIndex" => [.indexPrepare, .indexFlush]
  | "s.flushIndex" => [.indexPrepare, .indexFlush]
  | "family.Close" => closeEvs
  | _ => []

open LinVerif.Generated.C07 in
/-- graceful shutdown in source order, `engine.Close` → `database.Close` → `shard.Close` →
`intervalSegment.Close` → `segment.Close` → `dataFamily.Close`, is the model's `shutdownRound`:
the database metadata is flushed BEFORE any shard is closed, the shard's index before its
families' data — the order under which `shutdown_order_is_disciplined` holds. -/
theorem shutdown_is_meta_index_data :
    (inlineCall (inlineCall (inlineCall (inlineCall engineCloseCalls "db.Close" databaseCloseCalls)
        "thisShard.Close" shardCloseCalls) "segment.Close" intervalSegmentCloseCalls)
        "segment.Close" segmentCloseCalls).flatMap shutdownEv = shutdownRound ∧
    databaseCloseCalls.filter (fun s => s ∈ ["db.flushMeta", "thisShard.FlushIndex", "thisShard.Close"])
      = ["db.flushMeta", "thisShard.FlushIndex", "thisShard.Close"] ∧
    shardCloseCalls.filter (fun s => s ∈ ["s.flushIndex", "segment.Close"]) = ["s.flushIndex", "segment.Close"] := by
  decide

open LinVerif.Generated.C07 in
/-- every step of a flush round (and of the shutdown) aborts the round when it fails: the error
branch of `if err ... := step(); err != nil` ends by returning the error (or, in the two functions
without result, by returning), in `shard.FlushIndex` through the named result WITHOUT a `:=`
shadow; so no family data is flushed and no log acknowledged after a failed metadata / index flush
(the model's `failedIndexRound` has no data events) -/
theorem flush_step_error_aborts_round :
    shardFlushIndexGuards = ["s.flushIndex|=|abort"] ∧
    shardFlushIndexInnerGuards = ["<-ch|:=|abort"] ∧
    flushShardGuards = ["request.shard.FlushIndex|:=|abort", "family.Flush|:=|continue"] ∧
    doFlushGuards = ["request.db.FlushMeta|:=|abort"] ∧
    databaseFlushMetaGuards = ["db.flushMeta|:=|abort"] ∧
    databaseFlushMetaInnerGuards = ["<-ch|:=|abort"] ∧
    databaseCloseGuards.head? = some "db.flushMeta|:=|abort" ∧
    shardCloseGuards.head? = some "s.flushIndex|:=|abort" := by decide

/-- the configuration the driver runs the model with: the PrepareFlush shape found in /repo -/
def codeCfg : Cfg :=
  ⟨LinVerif.Generated.C07.swapOnEmpty, LinVerif.Generated.C07.atomicAcquire, LinVerif.Generated.C07.ignoreExact⟩

namespace Neg

/-- WITNESS 1 (flush window): entry 1 brings a NEW metric name after the metadata flush of the
running flush round and before the family is frozen. -/
def windowTrace : List Ev :=
  [.append 0 0, .applyBegin, .applyTake, .applyAcquire, .applyWrite, .applyCommit,
   .metaPrepare, .metaFlushMetric, .metaFlushTagv,
   .append 1 0, .applyBegin, .applyTake, .applyAcquire, .applyWrite, .applyCommit,
   .indexPrepare, .indexFlush, .freeze, .dataCommit, .ackCallback,
   .crash, .recover, .rewind]

/-- after the crash: entry 1's row is in a durable data file, the log is acknowledged up to 1 (the
entry will never be replayed), and its metric name is in no durable dictionary — for both shapes
of `PrepareFlush`. -/
theorem window_breaks_resolves (cfg : Cfg) :
    let st := run cfg St.init windowTrace
    (⟨1, 1, 0⟩ : Row) ∈ fileRows st ∧ st.groupAck = 1 ∧ st.stored = some 1 ∧
    1 ∉ st.metric.dur ∧ ¬ Resolves st := by
  cases cfg with
  | mk a b c => cases a <;> cases b <;> cases c <;> decide

/-- WITNESS 2 (empty prepare wedges the dictionary): three flush rounds in the code's order and
with NO write inside any round; the second round finds nothing new, its `PrepareFlush` parks an
empty map in `immutable`, `Flush` does not reset it, so the third round's prepare does not swap
and the name created before it never reaches the disk. Only for the current `PrepareFlush` shape. -/
def wedgeTrace : List Ev :=
  [.append 0 0, .applyBegin, .applyTake, .applyAcquire, .applyWrite, .applyCommit] ++ flushRound ++
  [.append 0 0, .applyBegin, .applyTake, .applyAcquire, .applyWrite, .applyCommit] ++ flushRound ++
  [.append 1 0, .applyBegin, .applyTake, .applyAcquire, .applyWrite, .applyCommit] ++ flushRound ++
  [.crash, .recover, .rewind]

theorem wedge_breaks_resolves :
    let st := run ⟨false, false, true⟩ St.init wedgeTrace
    (⟨2, 1, 0⟩ : Row) ∈ fileRows st ∧ st.groupAck = 2 ∧ st.stored = some 2 ∧
    1 ∉ st.metric.dur ∧ ¬ Resolves st := by decide

/-- with `PrepareFlush` also swapping an empty immutable map the same history resolves -/
theorem wedge_fixed_resolves : Resolves (run ⟨true, false, true⟩ St.init wedgeTrace) := by decide

/-- the full-strength statement is refuted (for every code shape) -/
theorem not_resolves (cfg : Cfg) : ¬ ∀ evs : List Ev, Resolves (run cfg St.init evs) := fun h =>
  (window_breaks_resolves cfg).2.2.2.2 (h windowTrace)

/-- the window history violates exactly clause (a) of the discipline, at the `freeze` -/
theorem window_not_disciplined (cfg : Cfg) : ¬ Disciplined cfg St.init windowTrace := by
  cases cfg with
  | mk a b c => cases a <;> cases b <;> cases c <;> decide

theorem wedge_not_disciplined : ¬ Disciplined ⟨false, false, true⟩ St.init wedgeTrace := by decide

/-- SHUTDOWN IN THE WRONG ORDER (shards closed before the database metadata is flushed): the process
dies inside the shutdown after the family's data file and before the metadata flush. -/
def shutdownDataFirstTrace : List Ev :=
  [.append 0 0] ++ applyRound ++ [.indexPrepare, .indexFlush] ++ closeEvs ++ [.crash, .recover, .rewind]

theorem shutdown_data_first_unresolved (cfg : Cfg) :
    let st := run cfg St.init shutdownDataFirstTrace
    (⟨0, 0, 0⟩ : Row) ∈ fileRows st ∧ st.groupAck = 0 ∧ st.stored = some 0 ∧
    0 ∉ st.metric.dur ∧ ¬ Resolves st ∧ ¬ Disciplined cfg St.init shutdownDataFirstTrace := by
  cases cfg with
  | mk a b c => cases a <;> cases b <;> cases c <;> decide

/-- A ROUND THAT GOES ON AFTER A FAILED INDEX FLUSH (`FlushIndex` swallowing the error): data file and
acknowledgement follow an index that was only prepared; crash before the next index flush. -/
def dataAfterFailedIndexTrace : List Ev :=
  [.append 0 0] ++ applyRound ++ failedIndexRound ++ [.freeze, .dataCommit, .ackCallback, .crash, .recover, .rewind]

theorem data_after_failed_index_flush_unresolved (cfg : Cfg) :
    let st := run cfg St.init dataAfterFailedIndexTrace
    (⟨0, 0, 0⟩ : Row) ∈ fileRows st ∧ st.groupAck = 0 ∧ (0, 0) ∉ st.index.dur ∧
    ¬ Resolves st ∧ ¬ Disciplined cfg St.init dataAfterFailedIndexTrace := by
  cases cfg with
  | mk a b c => cases a <;> cases b <;> cases c <;> decide

/-- WITNESS 3 (writer registered too late): entry 1's `WriteRows` has looked its memory database
up; before it registers as writer a complete `Flush` of that database runs (it holds entry 0 and
is not empty): sequence 0 is stored and acknowledged, the database is closed. Entry 1's row then
goes into the closed database, its sequence is committed; entry 2 and the next flush store and
acknowledge sequence 2. -/
def gapTrace : List Ev :=
  [.append 0 0] ++ applyRound ++
  [.metaPrepare, .metaFlushMetric, .metaFlushTagv, .indexPrepare, .indexFlush] ++
  [.append 0 0, .applyBegin, .applyTake, .freeze, .dataCommit, .ackCallback,
   .applyAcquire, .applyWrite, .applyCommit] ++
  [.append 0 0] ++ applyRound ++ flushRound ++ [.crash, .recover, .rewind]

/-- entry 1 is in no data file although the log is acknowledged up to 2: `no_loss` fails for the
current shape of `WriteRows` (and the history is, of course, not `GapFree`) -/
theorem gap_loses_entry :
    let st := run ⟨true, false, true⟩ St.init gapTrace
    st.appended = 2 ∧ st.groupAck = 2 ∧ st.stored = some 2 ∧ st.walGone = false ∧
    (∀ r ∈ fileRows st, r.seq ≠ 1) ∧ (fileRows st).length = 2 ∧
    ¬ GapFree ⟨true, false, true⟩ St.init gapTrace := by decide

/-- with the writer registered inside the mutex section the same schedule keeps the entry: the flush
waits for the write (`dataCommit` is not enabled), the row is part of the flushed table -/
theorem gap_closed_keeps_entry :
    ∃ r ∈ fileRows (run ⟨true, true, true⟩ St.init gapTrace), r.seq = 1 := by decide

theorem no_loss_fails_for_gap_shape : ¬ ∀ (evs : List Ev) (s : Int) (m t : Nat),
    0 ≤ s → (run ⟨true, false, true⟩ St.init evs).log[s.toNat]? = some (some (m, t)) →
    (∃ r ∈ fileRows (run ⟨true, false, true⟩ St.init evs), r.seq = s ∧ r.metric = m ∧ r.tagv = t) ∨
    ((run ⟨true, false, true⟩ St.init evs).groupAck < s ∧ (run ⟨true, false, true⟩ St.init evs).gcLow ≤ s ∧
      (run ⟨true, false, true⟩ St.init evs).walGone = false) := by
  intro h
  have := h gapTrace 1 0 0 (by decide) (by decide)
  revert this
  decide

/-- WITNESS 4 (`IgnoreMessage` acknowledging ANY unusable entry above the acknowledged position —
not the shape in /repo, `Generated.C07.ignoreExact = true`): entries 0 and 1 are applied but not
flushed, entry 2 is corrupt: the acknowledged position jumps to 2, after a crash nothing is replayed. -/
def ignoreTrace : List Ev :=
  [.append 0 0] ++ applyRound ++ [.append 1 1] ++ applyRound ++ [.appendBad] ++ applyRound ++
  [.crash, .recover, .rewind] ++ rounds 3

theorem ignore_any_skips_unflushed :
    let st := run ⟨true, true, false⟩ St.init ignoreTrace
    st.groupAck = 2 ∧ st.stored = none ∧ st.consumed = 2 ∧ fileRows st = [] ∧ st.memMut = [] := by decide

/-- with the exact condition the same history keeps both entries: nothing is acknowledged, both are replayed -/
theorem ignore_exact_keeps_unflushed :
    let st := run ⟨true, true, true⟩ St.init ignoreTrace
    st.groupAck = -1 ∧ st.memMut.length = 2 := by decide

/-- WITNESS 5 (same wrong shape of `IgnoreMessage`, reached through the OTHER caller: `partition.replica`
when `GetMessage` fails): entries 0, 1 flushed, 2 and 3 applied but not flushed, entry 4 cannot be read:
the acknowledged position jumps to 4 over the unflushed 2 and 3; after a crash the replicator resumes at 5. -/
def getFailTrace : List Ev :=
  [.append 0 0] ++ applyRound ++ [.append 1 1] ++ applyRound ++ flushRound ++
  [.append 0 1] ++ applyRound ++ [.append 1 0] ++ applyRound ++ [.appendBad, .applyGetFail] ++
  [.crash, .recover, .rewind] ++ rounds 3

theorem getfail_any_skips_unflushed :
    let st := run ⟨true, true, false⟩ St.init getFailTrace
    st.groupAck = 4 ∧ st.stored = some 1 ∧ st.consumed = 4 ∧ (fileRows st).length = 2 ∧ st.memMut = [] := by decide

/-- with the exact condition the same history keeps both entries: the ack stays at the stored sequence,
2 and 3 are replayed (the unreadable entry is consumed again and skipped again) -/
theorem getfail_exact_keeps_unflushed :
    let st := run ⟨true, true, true⟩ St.init getFailTrace
    st.groupAck = 1 ∧ st.stored = some 1 ∧ st.memMut.length = 2 ∧ st.consumed = 4 := by decide

end Neg

/-- the bare inequality `groupAck ≤ stored` does NOT hold once corrupt entries exist: a corrupt entry
directly behind a fully flushed log is acknowledged without a flush (`ack_le_stored` allows exactly this) -/
theorem ack_past_stored_only_over_corrupt :
    let st := run ⟨true, true, true⟩ St.init ([.append 0 0] ++ applyRound ++ flushRound ++ [.appendBad] ++ applyRound)
    st.groupAck = 1 ∧ st.stored = some 0 ∧ Bad st 1 ∧ st.seq = some 1 := by decide

open LinVerif.Generated.C07 in
/-- `replicator.IgnoreMessage` acknowledges an unusable entry only when it is the next one after the
acknowledged position, and `Replica` runs it (deferred) before the deferred `CommitSequence` -/
theorem ignore_is_next_only :
    ignoreCond = "currentAck+1 == replicaIdx" ∧ ignoreExact = true ∧
    ignoreMessageCalls = ["r.AckIndex", "r.SetAckIndex"] ∧
    replicaCalls.filter (fun s => s ∈ ["reader.Uncompress", "defer:r.IgnoreMessage", "defer:family.CommitSequence"])
      = ["reader.Uncompress", "defer:r.IgnoreMessage", "defer:family.CommitSequence"] := by decide

/-! ### the `GetMessage`-failure branch of `partition.replica` (round 12)

`partition.replica`: `seq := Consume(); data, err := GetMessage(seq); if err != nil { IgnoreMessage(seq) } else
{ Replica(seq, data) }`. The error branch is the model event `applyGetFail` (enabled on an unreadable
entry): the consumer group moves, `Replica` does not run, so the family's sequence is NOT committed —
unlike the decompress failure inside `Replica` (`applyBegin` on a corrupt entry: `IgnoreMessage` AND
`CommitSequence`). All theorems above quantify over histories that contain this event. -/

/-- `IgnoreMessage` (the shape in /repo) moves the acknowledged position by at most one entry, and only
onto the entry it was called for, which then is the one right behind the old position and already
consumed — for every state, reachable or not -/
theorem ignore_moves_ack_onto_next_only (cfg : Cfg) (hc : cfg.ignoreExact = true) (st : St) (s : Int) :
    (ignoreMsg cfg st s).groupAck = st.groupAck ∨
    (s = st.groupAck + 1 ∧ s ≤ st.consumed ∧ (ignoreMsg cfg st s).groupAck = s) := by
  unfold ignoreMsg ackTo
  rw [hc]
  simp only [if_true]
  split
  · split
    · rename_i h1 h2
      exact Or.inr ⟨h1.symm, h2.2, rfl⟩
    · exact Or.inl rfl
  · exact Or.inl rfl

/-- a failed `GetMessage` touches the consumer group only: log, family sequence, memory databases, data
files, stored sequence and dictionaries are what they were (every state, every `Cfg`) -/
theorem getfail_touches_only_the_group (cfg : Cfg) (st : St) :
    (step cfg st .applyGetFail).seq = st.seq ∧ (step cfg st .applyGetFail).stored = st.stored ∧
    (step cfg st .applyGetFail).files = st.files ∧ (step cfg st .applyGetFail).memMut = st.memMut ∧
    (step cfg st .applyGetFail).frozen = st.frozen ∧ (step cfg st .applyGetFail).log = st.log ∧
    (step cfg st .applyGetFail).inflight = st.inflight ∧ (step cfg st .applyGetFail).gcLow = st.gcLow ∧
    st.consumed ≤ (step cfg st .applyGetFail).consumed ∧
    (step cfg st .applyGetFail).consumed ≤ st.consumed + 1 := by
  simp only [step, whenRunning, doApplyGetFail, ignoreMsg, ackTo]
  repeat' split
  all_goals (refine ⟨rfl, rfl, rfl, rfl, rfl, rfl, rfl, rfl, ?_, ?_⟩ <;> (try simp only []) <;> omega)

/-- The family's sequence may lag behind the acknowledged position — but only over unreadable entries:
in every reachable idle running state every entry above the family's sequence and at or below the group
ack carries no rows. (Before the `GetMessage` branch was modelled the family's sequence was never below
the ack; now it can be, and this is the statement that keeps `ValidateSequence` sound: the entries the
family has not seen and the log no longer offers are exactly the ones with nothing to apply.) -/
theorem ack_past_family_seq_only_over_unreadable (cfg : Cfg) (hx : cfg.ignoreExact = true)
    (hc : cfg.atomicAcquire = true) (evs : List Ev)
    (hr : (run cfg St.init evs).phase = .running) (hn : (run cfg St.init evs).inflight = none)
    (s : Int) (h1 : ov (run cfg St.init evs).seq < s) (h2 : s ≤ (run cfg St.init evs).groupAck) :
    Bad (run cfg St.init evs) s := by
  have hi := inv_run cfg hx evs (gapFree_init cfg hc evs) inv_init
  exact hi.idle hr hn s h1 (Int.le_trans h2 hi.ack_cons)

/-- non-vacuity: an unreadable entry right behind a fully flushed log is acknowledged by the failed
`GetMessage` while the family's sequence stays below it; a later valid entry still passes validation,
is flushed, and the stored sequence catches up -/
example :
    (let st := run ⟨true, true, true⟩ St.init ([.append 0 0] ++ applyRound ++ flushRound ++ [.appendBad, .applyGetFail])
     st.groupAck = 1 ∧ st.seq = some 0 ∧ st.stored = some 0 ∧ st.consumed = 1 ∧ Bad st 1 ∧
     st.phase = .running ∧ st.inflight = none) ∧
    (let st := run ⟨true, true, true⟩ St.init ([.append 0 0] ++ applyRound ++ flushRound ++ [.appendBad, .applyGetFail] ++
       [.append 1 1] ++ applyRound ++ flushRound)
     st.groupAck = 2 ∧ st.seq = some 2 ∧ st.stored = some 2 ∧ (fileRows st).length = 2) ∧
    -- not the next entry: nothing is acknowledged, the family's sequence stays
    (let st := run ⟨true, true, true⟩ St.init ([.append 0 0] ++ applyRound ++ [.appendBad, .applyGetFail])
     st.groupAck = -1 ∧ st.seq = some 0 ∧ st.consumed = 1) := by decide

open LinVerif.Generated.C07 in
/-- `partition.replica` as data flow: the sequence handed to `GetMessage`, `IgnoreMessage` and `Replica` is
the one `Consume` returned; the error branch of `GetMessage` calls `IgnoreMessage(seq)` and no other method
of the replicator (in particular not `Replica`: no validation, no `CommitSequence` — the event
`applyGetFail`), the else branch calls `Replica(seq, data)` and nothing else (the events `applyRound`) -/
theorem getfail_branch_is_ignore_only :
    partitionReplicaBranches =
      ["if:replicator.IsReady() && replicator.Connect()", "assign:seq := replicator.Consume()", "if:seq >= 0",
       "assign:data, err := replicator.GetMessage(seq)", "then:replicator.IgnoreMessage(seq)",
       "else:replicator.Replica(seq, data)"] := by decide

/-! ### entries that decompress but yield no rows (round 12)

`Replica`: `rowsLen == 0` returns; a panic inside `UnmarshalRows` unwinds through the deferred function with
`err == nil`; `WriteRows`' error is a shadowed variable. In all three the deferred function calls
`CommitSequence` and NOT `IgnoreMessage`: model event `applyNoRows`. -/

/-- such an entry moves the consumer's head and (when it passes validation) the family's sequence, and
nothing else: in particular NOTHING is acknowledged — the log keeps it until a later flush stores a
sequence at or above it (every state, every `Cfg`) -/
theorem norows_commits_without_ack (cfg : Cfg) (st : St) :
    (step cfg st .applyNoRows).groupAck = st.groupAck ∧ (step cfg st .applyNoRows).stored = st.stored ∧
    (step cfg st .applyNoRows).files = st.files ∧ (step cfg st .applyNoRows).memMut = st.memMut ∧
    (step cfg st .applyNoRows).frozen = st.frozen ∧ (step cfg st .applyNoRows).log = st.log ∧
    (step cfg st .applyNoRows).inflight = st.inflight ∧
    ((step cfg st .applyNoRows).seq = st.seq ∨ (step cfg st .applyNoRows).seq = some (st.consumed + 1)) := by
  simp only [step, whenRunning, doApplyNoRows]
  repeat' split
  all_goals simp

/-- non-vacuity: two such entries behind a valid one: sequence 2 committed, nothing acknowledged; the next
flush stores and acknowledges sequence 2 with the one row; after a crash nothing is replayed -/
example :
    (let st := run ⟨true, true, true⟩ St.init ([.append 0 0] ++ applyRound ++ [.appendBad, .applyNoRows, .appendBad, .applyNoRows])
     st.groupAck = -1 ∧ st.seq = some 2 ∧ st.consumed = 2 ∧ st.memMut.length = 1) ∧
    (let st := run ⟨true, true, true⟩ St.init ([.append 0 0] ++ applyRound ++ [.appendBad, .applyNoRows, .appendBad, .applyNoRows] ++
       flushRound ++ [.crash, .recover, .rewind])
     st.groupAck = 2 ∧ st.stored = some 2 ∧ st.consumed = 2 ∧ (fileRows st).length = 1) := by decide

open LinVerif.Generated.C07 in
/-- `Replica`'s error flow: the deferred function is registered AFTER the validation (a rejected sequence is
neither ignored nor committed); it calls `IgnoreMessage` only under `err != nil` and `CommitSequence`
unconditionally; the only statement that sets that `err` is `Uncompress` (`applyBegin` on a corrupt entry);
`rowsLen == 0` returns with `err == nil` and the error of `WriteRows` is a NEW variable (`:=` in the if
header), so both reach the deferred function with `err == nil`: `applyNoRows`. -/
theorem replica_error_flow_is_model :
    replicaErrFlow =
      ["var:err", "guard:!r.family.ValidateSequence(r.leader, sequence)", "return",
       "defer-if:err != nil", "defer-then:r.IgnoreMessage(sequence)", "defer:r.family.CommitSequence(r.leader, sequence)",
       "set:block, err = r.reader.Uncompress", "guard:err != nil", "return",
       "guard:rowsLen == 0", "return",
       "shadow:err := r.family.WriteRows", "guard:err != nil", "return"] := by decide

/-! ### WAL garbage collection (non-vacuity of `walExpire`) -/

/-- an expired family's log is NOT removed while an entry is consumed but not flushed; it is removed
once everything is acknowledged, and a crash afterwards loses nothing -/
example :
    (run ⟨true, false, true⟩ St.init ([.append 0 0] ++ applyRound ++ [.walExpire])).walGone = false ∧
    (run ⟨true, false, true⟩ St.init ([.append 0 0] ++ applyRound ++ flushRound ++ [.walExpire])).walGone = true ∧
    (let st := run ⟨true, false, true⟩ St.init ([.append 0 0] ++ applyRound ++ flushRound ++ [.walExpire, .crash, .recover])
     st.phase = .running ∧ (fileRows st).length = 1) := by decide

/-! ### observation (b): flush racing replication (NOT a violation of C07 as stated) -/

/-- a flush that freezes between `WriteRows` and `CommitSequence` of entry 1 stores entry 1's row
with the captured sequence 0; after a crash entry 1 is above the stored sequence, is replayed, and
its row exists twice (duplicate for a sum field). -/
def raceTrace : List Ev :=
  [.append 0 0, .applyBegin, .applyTake, .applyAcquire, .applyWrite, .applyCommit,
   .metaPrepare, .metaFlushMetric, .metaFlushTagv, .indexPrepare, .indexFlush,
   .append 0 0, .applyBegin, .applyTake, .applyAcquire, .applyWrite, .freeze, .dataCommit, .ackCallback, .applyCommit,
   .crash, .recover, .rewind, .applyBegin, .applyTake, .applyAcquire, .applyWrite, .applyCommit]

theorem race_replays_flushed_entry :
    let st := run ⟨false, false, true⟩ St.init raceTrace
    st.stored = some 0 ∧ st.groupAck = 0 ∧ (⟨1, 0, 0⟩ : Row) ∈ fileRows st ∧ (⟨1, 0, 0⟩ : Row) ∈ st.memMut := by
  decide

/-! ### round 8: the manifest record of a data flush as a crash point; the family's sequence maps -/

/-- A crash right BEFORE the manifest record of a data flush (the table file is complete but no manifest
names it: an orphan) is a plain crash: the switch of the memory databases has no durable effect.
(Cases 26 and the random `crash-before-data-manifest-record` images replay this on the real node.) -/
theorem orphan_table_crash_is_plain_crash (cfg : Cfg) (st : St) :
    step cfg (step cfg st .freeze) .crash = step cfg st .crash := by
  simp only [step, whenRunning]
  split
  · simp only [doFreeze]
    split
    · split <;> rfl
    · rfl
  · rfl

/-- The data files and the stored sequence change in ONE event only — `dataCommit`, the single manifest
record that carries the table AND the sequences — and in no other: there is no state in which a sequence
is durable without the table that holds the entries up to it (what a split commit would allow). -/
theorem files_and_stored_change_only_at_dataCommit (cfg : Cfg) (st : St) (e : Ev) (h : e ≠ .dataCommit) :
    (step cfg st e).files = st.files ∧ (step cfg st e).stored = st.stored := by
  cases e <;> first
    | exact absurd rfl h
    | (simp only [step, whenRunning, doCrash, doRecover, doRewind, doAppend, doAppendBad, doApplyBegin, doApplyGetFail, doApplyNoRows, beginAt,
        ignoreMsg, ackTo, ackOpt, addNames, doApplyTake, doApplyAcquire, doApplyWrite, putRow, doApplyCommit,
        doFreeze, doAckCallback, doLogGC, doWalExpire]
       repeat' split
       all_goals simp)

/-- hence along ANY history the newest data file and the stored sequence move together: between two
`dataCommit`s every crash image shows the same files and the same stored sequence -/
theorem files_and_stored_frozen_between_commits (cfg : Cfg) (st : St) (evs : List Ev)
    (h : ∀ e ∈ evs, e ≠ .dataCommit) :
    (run cfg st evs).files = st.files ∧ (run cfg st evs).stored = st.stored := by
  induction evs generalizing st with
  | nil => exact ⟨rfl, rfl⟩
  | cons e es ih =>
    have h1 := files_and_stored_change_only_at_dataCommit cfg st e (h e (by simp))
    have h2 := ih (step cfg st e) (fun x hx => h x (by simp [hx]))
    simp only [run, List.foldl_cons] at h2 ⊢
    exact ⟨h2.1.trans h1.1, h2.2.trans h1.2⟩

/-- `ValidateSequence` as the model has it: a leader without entry passes, otherwise strictly above -/
theorem validSeq_iff (st : St) (s : Int) :
    validSeq st s = true ↔ ∀ q, st.seq = some q → q < s := by
  unfold validSeq
  cases hq : st.seq with
  | none => simp
  | some q => simp

open LinVerif.Generated.C07 in
/-- the family's sequence maps in the code are the model's: `ValidateSequence` = "no entry, or strictly
greater" behind a negated guard in `Replica`; `newDataFamily` loads BOTH `seq` and `persistSeq` from the
recovered version (`doRecover`: `seq := stored`, and the registration-time ack of `persistSeq`);
`Flush` / `Close` capture `seq` (`doFreeze`: `captured := seq`), `Flush` records the captured value as
persisted; `CommitSequence` stores the entry's sequence; `AckSequence` calls a new callback at once with the
persisted sequence; the flush passes each captured (leader, sequence) both to the kv flusher and to the
callbacks; the local replicator rewinds to ack + 1 -/
theorem sequence_maps_are_code :
    validateSequenceReturns = ["seq > seqForLeader.Load()", "true"] ∧
    replicaFirstGuard = "!r.family.ValidateSequence(r.leader, sequence)" ∧
    newDataFamilySeqAssigns = ["sequences := snapshot.GetCurrent().GetSequences()",
      "f.seq[leader] = *atomic.NewInt64(seq)", "f.persistSeq[leader] = *atomic.NewInt64(seq)"] ∧
    flushSeqAssigns = ["immutableSeq := make(map[int32]int64)", "immutableSeq[leader] = seq.Load()",
      "f.immutableSeq = immutableSeq", "f.immutableSeq = nil", "f.persistSeq[leader] = *atomic.NewInt64(seq)"] ∧
    closeSeqAssigns = ["sequences := make(map[int32]int64)", "sequences[leader] = seq.Load()"] ∧
    commitSequenceAssigns = ["seqForLeader := f.seq[leader]", "f.seq[leader] = seqForLeader"] ∧
    commitSequenceStoreArgs = ["seq"] ∧
    ackSequenceAssigns = ["f.callbacks[leader] = append(f.callbacks[leader], fn)", "seqForLeader, ok := f.persistSeq[leader]"] ∧
    ackSequenceFnArgs = ["seqForLeader.Load()"] ∧
    flushMemDBCallbackArgs = ["seq"] ∧ flushMemDBSequenceArgs = ["leader, seq"] ∧
    newLocalReplicatorResetArgs = ["lr.AckIndex() + 1"] := by decide

/-! ### several shards x several family hours x several leaders on one node (the outer loops)

`Grid` (Model/C07Grid.lean) is the product of the single-partition model over all log partitions
`<shard>/<family hour>/<leader>` of a node. Database-level flush steps reach every lane, shard-level ones the
lanes of the shard, family-level ones the leaders of that family; a row written by one partition reaches
the others as the names it creates; `crash` is global; `restart` is the whole recovery walk and
`walkCrash n mid` a process death inside it. Every statement below is over ALL grid histories. -/

/-- every partition of every reachable grid state is the single-partition model run on the partition's own
projection `laneTrace` of the grid history -/
theorem grid_lane_is_partition_history (cfg : Cfg) (keys : List PKey) (gevs : List GEv) (p : PKey × St)
    (hp : p ∈ runGrid cfg (Grid.init keys) gevs) :
    p.2 = run cfg St.init (laneTrace cfg (Grid.init keys) gevs p.1) :=
  grid_trace cfg keys gevs p hp

/-- the grid keeps its partitions: no grid event adds, drops or renames a lane -/
theorem grid_keeps_partitions (cfg : Cfg) (keys : List PKey) (gevs : List GEv) :
    (runGrid cfg (Grid.init keys) gevs).map (·.1) = keys := by
  rw [runGrid_keys]; simp [Grid.init, List.map_map, Function.comp_def]

/-- no logged write is lost, in every partition of every shard and family hour, at every point of every grid
history (crashes, whole and interrupted recovery walks, WAL GC ticks, Close and shutdown included) -/
theorem no_loss_grid (cfg : Cfg) (hx : cfg.ignoreExact = true) (hc : cfg.atomicAcquire = true)
    (keys : List PKey) (gevs : List GEv) (k : PKey) (st : St)
    (hl : (k, st) ∈ runGrid cfg (Grid.init keys) gevs) (s : Int) (m t : Nat)
    (h0 : 0 ≤ s) (hs : st.log[s.toNat]? = some (some (m, t))) :
    (∃ r ∈ fileRows st, r.seq = s ∧ r.metric = m ∧ r.tagv = t) ∨
    (st.groupAck < s ∧ st.gcLow ≤ s ∧ st.walGone = false) := by
  have he := grid_trace cfg keys gevs (k, st) hl
  simp only [] at he
  subst he
  exact no_loss cfg hx hc _ s m t h0 hs

theorem no_replay_below_grid (cfg : Cfg) (hx : cfg.ignoreExact = true) (hc : cfg.atomicAcquire = true)
    (keys : List PKey) (gevs : List GEv) (k : PKey) (st : St)
    (hl : (k, st) ∈ runGrid cfg (Grid.init keys) gevs) (fl : InFlight) (h : st.inflight = some fl) :
    ov st.stored < fl.seq := by
  have he := grid_trace cfg keys gevs (k, st) hl
  simp only [] at he
  subst he
  exact no_replay_below cfg hx hc _ fl h

theorem ack_le_stored_grid (cfg : Cfg) (hx : cfg.ignoreExact = true) (hc : cfg.atomicAcquire = true)
    (keys : List PKey) (gevs : List GEv) (k : PKey) (st : St)
    (hl : (k, st) ∈ runGrid cfg (Grid.init keys) gevs) (s : Int) (h0 : 0 ≤ s) (hs : s ≤ st.groupAck) :
    s ≤ ov st.stored ∨ Bad st s := by
  have he := grid_trace cfg keys gevs (k, st) hl
  simp only [] at he
  subst he
  exact ack_le_stored cfg hx hc _ s h0 hs

/-- a partition whose log directory the WAL garbage collector removed (`destroy`'s loop over ALL partitions
of the node) had every entry with rows in a durable data file of ITS family -/
theorem wal_gone_all_flushed_grid (cfg : Cfg) (hx : cfg.ignoreExact = true) (hc : cfg.atomicAcquire = true)
    (keys : List PKey) (gevs : List GEv) (k : PKey) (st : St)
    (hl : (k, st) ∈ runGrid cfg (Grid.init keys) gevs) (hw : st.walGone = true) (s : Int) (m t : Nat)
    (h0 : 0 ≤ s) (hs : st.log[s.toNat]? = some (some (m, t))) :
    ∃ r ∈ fileRows st, r.seq = s := by
  have he := grid_trace cfg keys gevs (k, st) hl
  simp only [] at he
  subst he
  exact wal_gone_all_flushed cfg hx _ (gapFree_init cfg hc _) hw s m t h0 hs

/-- flushed data resolves by name in every partition of the grid whose projection keeps the flush
discipline (the discipline is per lane: it speaks about the names that lane sees, and the lanes of other
family hours and shards see the names a write creates through `foreignNames` / `foreignMetric` / `foreignTagv`) -/
theorem resolves_grid_partial (cfg : Cfg) (keys : List PKey) (gevs : List GEv) (k : PKey) (st : St)
    (hl : (k, st) ∈ runGrid cfg (Grid.init keys) gevs)
    (hd : Disciplined cfg St.init (laneTrace cfg (Grid.init keys) gevs k)) : Resolves st := by
  have he := grid_trace cfg keys gevs (k, st) hl
  simp only [] at he
  subst he
  exact resolves_partial cfg _ hd

/-- non-vacuity and shape: 2 shards x 2 family hours (+ a follower log in one family): a write in shard 0 /
hour 0, one in shard 1 / hour 1, one whole `doFlush` round over both shards, a late write, a crash, a
recovery walk that dies after the second partition, a whole recovery walk -/
def gridKeys : List PKey := [⟨0, 0, 1⟩, ⟨0, 0, 2⟩, ⟨0, 1, 1⟩, ⟨1, 0, 1⟩, ⟨1, 1, 1⟩]

def gridTrace : List GEv :=
  [.lane ⟨0, 0, 1⟩ (.append 0 0)] ++ applyRound.map (GEv.lane ⟨0, 0, 1⟩) ++
  [.lane ⟨1, 1, 1⟩ (.append 0 0), .lane ⟨1, 1, 1⟩ (.append 7 7)] ++ applyRound.map (GEv.lane ⟨1, 1, 1⟩) ++
  doFlushRound [(0, [0, 1]), (1, [0, 1])] ++
  applyRound.map (GEv.lane ⟨1, 1, 1⟩) ++
  [.crash, .walkCrash 2 true, .restart]

example :
    ((runGrid ⟨true, true, true⟩ (Grid.init gridKeys) gridTrace).map
      (fun p => (p.2.stored, p.2.groupAck, p.2.consumed, (fileRows p.2).length, p.2.log.length))) =
    [(some 0, 0, 0, 1, 1), (none, -1, -1, 0, 0), (none, -1, -1, 0, 0), (none, -1, -1, 0, 0), (some 0, 0, 0, 1, 2)] := by decide

/-- ... and the names: the metric is durable database-wide, the series in the index of BOTH shards (each wrote it) -/
example :
    ((runGrid ⟨true, true, true⟩ (Grid.init gridKeys) gridTrace).map
      (fun p => (p.2.metric.dur, p.2.tagv.dur, p.2.index.dur, p.2.phase))) =
    [([0], [(0, 0)], [(0, 0)], Phase.running), ([0], [(0, 0)], [(0, 0)], Phase.running), ([0], [(0, 0)], [(0, 0)], Phase.running),
     ([0], [(0, 0)], [(0, 0)], Phase.running), ([0], [(0, 0)], [(0, 0)], Phase.running)] := by decide

/-- the discipline holds on every lane of that history up to the flush round (so `resolves_grid_partial` is not vacuous) -/
example : ∀ k ∈ gridKeys, Disciplined ⟨true, true, true⟩ St.init
    (laneTrace ⟨true, true, true⟩ (Grid.init gridKeys) (gridTrace.take 24) k) := by decide

/-- graceful shutdown of the 2 x 2 node: metadata once, the index of EVERY shard, then per shard the index
once more and `dataFamily.Close` of every family hour -/
example : shutdownGrid (Grid.init gridKeys) =
    [.db .metaPrepare, .db .metaFlushMetric, .db .metaFlushTagv,
     .shard 0 .indexPrepare, .shard 0 .indexFlush, .shard 1 .indexPrepare, .shard 1 .indexFlush,
     .shard 0 .indexPrepare, .shard 0 .indexFlush] ++ famClose 0 0 ++ famClose 0 1 ++
    [.shard 1 .indexPrepare, .shard 1 .indexFlush] ++ famClose 1 0 ++ famClose 1 1 := by decide

/-- `shutdownUpTo` followed by the family's Close is a prefix of the shutdown (the crash points the harness
takes inside the shutdown are points of `shutdownGrid`) -/
example : ∀ k ∈ gridKeys, (shutdownGrid (Grid.init gridKeys)).take
      (shutdownUpTo (Grid.init gridKeys) k.shard k.family ++ famClose k.shard k.family).length =
    shutdownUpTo (Grid.init gridKeys) k.shard k.family ++ famClose k.shard k.family := by decide

open LinVerif.Generated.C07Loops in
/-- the outer loops of the code are the ones the grid model is the product over: the recovery walk
(`Recovery` -> per database `recovery` -> shards -> family hours -> leaders: `GetOrCreatePartition`,
`partition.recovery`; an error ends the walk: `restart` / `walkCrash`), the WAL garbage collector
(`garbageCollect` -> `destroy`: `IsExpire` of EVERY partition under the lock, then `Stop`, `Close`,
remove the directory of each expired one, then the empty family directories; `IsExpire` tests every consumer group's
`IsEmpty`: `walGcTick`), the flush checker (`doFlush`: metadata once, then `flushShard` per shard: index once,
then `family.Flush` per family: `doFlushRound`), the graceful shutdown (`engine.Close` -> per database
`database.Close`: metadata, `FlushIndex` of every shard, `Close` of every shard -> index, segment ->
`family.Close` of every family: `shutdownGrid`), and family eviction (`Evict`: nothing while a replicator
holds the family or a memory database exists; otherwise `Close`, then the segment forgets the family) -/
theorem outer_loops_are_code :
    managerRecoveryNest = ["fileExistFn", "listDirFn", "range databaseNames {", "w.GetOrCreateLog", "log.recovery", "return", "}"] ∧
    walRecoveryNest = ["listDirFn", "range shards {", "listDirFn", "return", "range families {", "listDirFn", "return",
      "removeDirFn", "continue", "range leaders {", "w.GetOrCreatePartition", "return", "partition.recovery", "return",
      "}", "}", "}"] ∧
    managerGcNest = ["range w.databaseLogs {", "}", "range logs {", "log.destroy", "}"] ∧
    walDestroyNest = ["mutex.Lock", "range w.familyLogs {", "log.IsExpire", "}", "mutex.Unlock",
      "range expireLogs {", "log.Stop", "log.Close", "removeDirFn", "}",
      "range expireFamilies {", "listDirFn", "continue", "continue", "removeDirFn", "}"] ∧
    isExpireNest = ["log.Sync", "log.Queue().GC", "log.ConsumerGroupNames", "range ns {", "consumerGroup.IsEmpty",
      "continue", "p.stopReplicator", "}"] ∧
    doFlushNest = ["db.FlushMeta", "db.WaitFlushMetaCompleted", "range request.shards {", "fc.flushShard", "}"] ∧
    flushShardNest = ["shard.FlushIndex", "shard.WaitFlushIndexCompleted", "range request.families {", "family.Flush", "}"] ∧
    engineCloseNest = ["range e.dbSet.Entries() {", "db.Close", "}"] ∧
    databaseCloseNest = ["db.WaitFlushMetaCompleted", "db.flushMeta", "memMetaDB.Close",
      "range db.shardSet.Entries() {", "thisShard.FlushIndex", "}", "metaDB.Close",
      "range db.shardSet.Entries() {", "thisShard.Close", "}"] ∧
    shardCloseNest = ["s.WaitFlushIndexCompleted", "s.flushIndex", "memIndexDB.Close", "indexDB.Close", "segment.Close",
      "range s.rollupTargets {", "rollupSegment.Close", "}"] ∧
    intervalSegmentCloseNest = ["range s.segments {", "segment.Close", "}"] ∧
    segmentCloseNest = ["range s.families {", "family.Close", "}"] ∧
    familyEvictNest = ["ref.Load", "mutex.Lock", "mutex.Unlock", "mutex.Unlock", "closeFamilyFunc", "segment.EvictFamily"] := by
  decide

/-! ## Round 13: one log, SEVERAL consumer groups — the log's own acknowledged position

`fanOutQueue.Sync` (every WAL GC tick: `partition.IsExpire`) turns the consumer groups' acks into the queue's
acknowledged sequence: `queue.Get` refuses sequences at or below it, `queue.GC` truncates pages up to it and
`NewConsumerGroup` lifts a reopened group's ack / consumed position onto it. Model: `Model/C07Fanout.lean`. -/

open LinVerif.C07Fanout in
/-- full strength (every history of puts, new groups, group acks, Sync ticks in ANY visiting order, restarts):
the log's acknowledged sequence is at or below EVERY consumer group's acknowledged sequence -/
theorem queue_ack_le_every_group (evs : List FEv) :
    ∀ a ∈ (frun FQ.init evs).acks, (frun FQ.init evs).qAck ≤ a ∧ a ≤ (frun FQ.init evs).appended :=
  (finv_run FQ.init evs finv_init).2.2

open LinVerif.C07Fanout in
/-- hence the lifting in `NewConsumerGroup` never moves a reopened group: a restart resumes every group exactly
at its own stored positions (the local replicator then rewinds to ITS ack + 1) -/
theorem reopen_lift_is_noop (evs : List FEv) (a c : Int) (ha : a ∈ (frun FQ.init evs).acks) (hc : a ≤ c) :
    reopenGroup (frun FQ.init evs).qAck a c = (a, c) := by
  have h := (queue_ack_le_every_group evs a ha).1
  unfold reopenGroup
  have h1 : ¬ a < (frun FQ.init evs).qAck := by omega
  have h2 : ¬ c < a := by omega
  simp [h1, h2]

open LinVerif.C07Fanout in
/-- Go's map order is irrelevant for the code's shape of the minimum -/
theorem sync_order_irrelevant (app old : Int) (l1 l2 : List Int) (h : ∀ x, x ∈ l1 ↔ x ∈ l2) :
    sync app old l1 = sync app old l2 := by
  have he : l1.isEmpty = l2.isEmpty := by
    cases l1 with
    | nil =>
      cases l2 with
      | nil => rfl
      | cons y t => exact absurd ((h y).mpr List.mem_cons_self) (by simp)
    | cons x t =>
      cases l2 with
      | nil => exact absurd ((h x).mp List.mem_cons_self) (by simp)
      | cons y t2 => rfl
  unfold sync
  rw [he, syncMin_order_irrelevant app l1 l2 h]

open LinVerif.C07Fanout in
/-- the bridge to the node model, full strength (every node history `evs`, every set of other groups, every
visiting order `l` that contains the local replicator's group, every earlier queue ack at or below it): after
a Sync tick the LOG's acknowledged position covers no entry above the sequence stored with the flushed data
(except entries without rows, as in `ack_le_stored`) -/
theorem queue_ack_le_stored (cfg : Cfg) (hx : cfg.ignoreExact = true) (hc : cfg.atomicAcquire = true)
    (evs : List Ev) (old : Int) (l : List Int)
    (hold : old ≤ (run cfg St.init evs).groupAck) (hl : (run cfg St.init evs).groupAck ∈ l)
    (s : Int) (h0 : 0 ≤ s) (hs : s ≤ sync (run cfg St.init evs).appended old l) :
    s ≤ ov (run cfg St.init evs).stored ∨ Bad (run cfg St.init evs) s := by
  have := sync_le_mem (run cfg St.init evs).appended old l _ hl hold
  exact ack_le_stored cfg hx hc evs s h0 (by omega)

open LinVerif.C07Fanout in
/-- non-vacuity: local group (0) at -1 before the first flush, follower (1) acknowledged 2: both visiting orders
leave the log's position at -1; after the local group's first ack (1) the tick moves it to 1, a restart moves nothing -/
example :
    (frun FQ.init [.put, .put, .put, .newGroup, .newGroup, .groupAck 1 2, .sync [1, 0]]) = ⟨2, -1, [-1, 2]⟩ ∧
    (frun FQ.init [.put, .put, .put, .newGroup, .newGroup, .groupAck 1 2, .sync [0, 1]]).qAck = -1 ∧
    (frun FQ.init [.put, .put, .put, .newGroup, .newGroup, .groupAck 1 2, .sync [0, 1], .groupAck 0 1, .sync [1, 0], .reopen])
      = ⟨2, 1, [1, 2]⟩ := by decide

open LinVerif.Generated.C07Fanout LinVerif.C07Fanout in
/-- tie: `Model/C07Fanout.lean` was written against exactly these statements of /repo (regenerated on every run):
Sync's start value / loop / comparison / guard, SetAcknowledgedSeq's guard, the sequence bounding GC's truncation,
NewConsumerGroup's lifting -/
theorem fanout_sync_is_code :
    fanoutSyncShape = ["fq.lock4map.RLock()", "defer fq.lock4map.RUnlock()", "if len(fq.consumerGroups) == 0", "{", "return", "}",
      "ackSeq := fq.queue.AppendedSeq()", "for-value fo range fq.consumerGroups", "{", "ts := fo.AcknowledgedSeq()",
      "if ts < ackSeq", "{", "ackSeq = ts", "}", "}", "if ackSeq >= 0", "{", "fq.queue.SetAcknowledgedSeq(ackSeq)", "}"] ∧
    setQueueAckShape.take 5 = ["q.rwMutex.Lock()", "defer q.rwMutex.Unlock()",
      "if seq > q.acknowledgedSeq.Load() && seq <= q.appendedSeq.Load()", "{", "q.acknowledgedSeq.Store(seq)"] ∧
    queueGcShape.take 5 = ["ackSeq := q.AcknowledgedSeq()", "if ackSeq < 0", "{", "return", "}"] ∧
    newGroupShape.take 21 = ["consumedSeq := int64(-1)", "ackSeq := int64(-1)", "if hasMeta", "{",
      "consumedSeq = int64(metaPage.ReadUint64(consumerGroupConsumedSeqOffset))",
      "ackSeq = int64(metaPage.ReadUint64(consumerGroupAcknowledgedSeqOffset))",
      "ackOfQueue := q.Queue().AcknowledgedSeq()", "if ackSeq < ackOfQueue", "{", "ackSeq = ackOfQueue", "}",
      "if consumedSeq < ackSeq", "{", "consumedSeq = ackSeq", "}", "}", "else", "{",
      "ackSeq = q.Queue().AcknowledgedSeq()", "consumedSeq = ackSeq", "}"] := by
  decide

namespace Neg

open LinVerif.C07Fanout in
/-- the "unset sentinel" shape of the minimum (start at -1, `if ackSeq == -1 || ts < ackSeq`) is NOT a lower bound:
-1 is also the ack of a group that has acknowledged nothing (the local replicator before the family's first flush).
Visiting it first, the follower's ack 9 becomes the log's position — ahead of the stored sequence (none) —, and a
reopened local group is lifted to 9: replay starts at 10. The code's shape gives -1 in both orders. -/
theorem sentinel_min_runs_ahead :
    syncMinSentinel [-1, 9] = 9 ∧ syncMinSentinel [9, -1] = -1 ∧
    syncMin 9 [-1, 9] = -1 ∧ syncMin 9 [9, -1] = -1 ∧
    reopenGroup 9 (-1) 9 = (9, 9) ∧ reopenGroup (sync 9 (-1) [-1, 9]) (-1) 9 = (-1, 9) := by decide

end Neg

end LinVerif.Props.C07
