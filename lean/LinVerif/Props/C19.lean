/-
C19 — A query pipeline completes exactly once and reports failure if any stage failed.

Property theorems over `LinVerif.Model.Pipeline` (small-step model of pipeline.Execute /
executeStage / completeStage / complete, baseStage.Execute, pool.execTask's recover and
LeafExecuteContext.SendResponse).  Every theorem quantifies over ALL stage trees, ALL outcome
assignments and ALL schedules (`Reachable` = every sequence of atomic steps of every goroutine).

A stage may panic in `Plan()`, in its execution or in `NextStages()`, and its pool may reject its
task (stopped pool / cancelled context).  Three regenerated facts select the variant of the model:
`cfg.arg` = which value completeStage hands to complete (`own`, or `first` = fix 529944d);
`cfg.stageRecover` = executeStage recovers a panic of the stage it started and completes it (fix
b04bf84); `cfg.rejectNotifies` = workerPool.Submit calls the task's handler when it rejects the task
(fixes/C19-reject-notify.patch; `false` = the source as it is).

  at_most_once                    full strength, all variants
  exactly_once_clean              full strength, all variants: nothing in the tree loses a completion
                                  under cfg ⇒ exactly one callback, after every started stage finished
  exactly_once_no_panic           corollary: no panic, no rejected task
  completion_under_panic          corollary for `stageRecover`: ANY panics (Plan / execution /
                                  NextStages, inline or pooled, root or not), no rejected task;
                                  FALSE without `stageRecover` (Neg.completion_under_panic_fails)
  completion_under_rejection      corollary for `stageRecover` + `rejectNotifies`: every tree;
                                  FALSE without `rejectNotifies` (Neg.completion_under_rejection_fails)
  error_carried                   full strength for `first`;  FALSE for `own` (Neg.error_carried_fails_own)
  error_carried_partial           all variants: error carried when the stage that completes last failed
  completion_under_panic_partial  all variants: panics only where the code recovers *and* completes them
-/
import LinVerif.Lemmas.C19Carried
import LinVerif.Lemmas.C19Recover
import LinVerif.Lemmas.C19Term
import LinVerif.Lemmas.C19Pool
import LinVerif.Lemmas.C19Broker
import LinVerif.Lemmas.C19Lock
import LinVerif.Generated.C19

namespace LinVerif.Props.C19
open LinVerif.Pipeline

/-! ## the statements -/

/-- the completion callback never fires twice -/
def AtMostOnce (cfg : Cfg) : Prop :=
  ∀ root s, Reachable cfg (init root) s → s.sh.fired.length ≤ 1

/-- whenever some stage had failed or panicked when the callback fired, its argument is an error -/
def ErrorCarried (cfg : Cfg) : Prop :=
  ∀ root s, Reachable cfg (init root) s → ∀ f ∈ s.sh.fired, f.failedBefore = true → f.arg = true

/-- every maximal run signals completion exactly once -/
def CompletesOnce (cfg : Cfg) (root : Stage) : Prop :=
  ∀ s, Reachable cfg (init root) s → Terminal s → s.sh.fired.length = 1

/-- … whatever the stages do (returning, failing or panicking — in `Plan()`, in the execution or in
`NextStages()`), as long as every pool accepts every task -/
def CompletionUnderPanic (cfg : Cfg) : Prop := ∀ root, root.noReject = true → CompletesOnce cfg root

/-- … even when a pool rejects a task (stopped pool, cancelled query context) -/
def CompletionUnderRejection (cfg : Cfg) : Prop := ∀ root, CompletesOnce cfg root

/-! ## at most once -/

/-- **at_most_once.** For every stage tree, outcome assignment and schedule the completion
callback fires at most once (the `completed` CAS). -/
theorem at_most_once (cfg : Cfg) : AtMostOnce cfg := by
  intro root s hr
  have h := invOnce_reachable hr
  cases hc : s.sh.completed with
  | false => rw [h.1 hc]; exact Nat.zero_le _
  | true => exact Nat.le_of_eq (h.2 hc)

/-- `LeafExecuteContext.SendResponse`'s own CAS: however often and with whatever arguments it is
called, at most one response is sent, and it is the one of the first call. -/
theorem sendResponse_at_most_once (errs : List Bool) :
    (errs.foldl Leaf.sendResponse Leaf.init).sent = errs.take 1 := by
  have key : ∀ (l : Leaf) (es : List Bool), l.completed = true →
      (es.foldl Leaf.sendResponse l) = l := by
    intro l es hl
    induction es with
    | nil => rfl
    | cons e es ih => simp only [List.foldl_cons, Leaf.sendResponse, hl, if_true]; exact ih
  cases errs with
  | nil => rfl
  | cons e es =>
    simp only [List.foldl_cons]
    rw [key _ es (by simp [Leaf.sendResponse, Leaf.init])]
    simp [Leaf.sendResponse, Leaf.init]

/-- one request, at most one response, for every tree and schedule -/
theorem response_at_most_once (cfg : Cfg) (root : Stage) (s : State)
    (_hr : Reachable cfg (init root) s) : (responses s.sh.fired).length ≤ 1 := by
  have h : responses s.sh.fired = (s.sh.fired.map Fired.arg).take 1 := by
    rw [← sendResponse_at_most_once, List.foldl_map]; rfl
  rw [h]; simp only [List.length_take]; omega

/-! ## exactly once, after every started stage has finished, when no stage panics -/

/-- **exactly_once_clean** (the general form). If nothing in the tree loses a completion under
`cfg` (`Stage.clean`: a panic only if `executeStage` recovers and completes the stage, a rejected
task only if the pool notifies the handler) then, for every schedule, at the end of the run the
callback has fired exactly once, and when it fired every stage that was ever started had finished. -/
theorem exactly_once_clean (cfg : Cfg) (root : Stage) (hc : root.clean cfg = true) (s : State)
    (hr : Reachable cfg (init root) s) (ht : Terminal s) :
    ∃ f, s.sh.fired = [f] ∧ f.finished = s.sh.registered ∧ f.registered = s.sh.registered
      ∧ s.sh.finished = s.sh.registered ∧ s.sh.pending = 0 := by
  rcases invNP_reachable hc hr with hi | hm
  · exact absurd ht (initPhase_not_terminal hi)
  · obtain ⟨f, h1, h2, h3, h4, h5, _⟩ := mainNP_terminal hm (invOnce_reachable hr) ht
    exact ⟨f, h1, h2, h3, h4, h5⟩

/-- **exactly_once_no_panic.** If no stage of the tree panics (and no task is rejected) then, for
every variant and every schedule, at the end of the run the callback has fired exactly once, and
when it fired every stage that was ever started had finished. -/
theorem exactly_once_no_panic (cfg : Cfg) (root : Stage) (hnp : root.noPanic = true) (s : State)
    (hr : Reachable cfg (init root) s) (ht : Terminal s) :
    ∃ f, s.sh.fired = [f] ∧ f.finished = s.sh.registered ∧ f.registered = s.sh.registered
      ∧ s.sh.finished = s.sh.registered ∧ s.sh.pending = 0 :=
  exactly_once_clean cfg root (Stage.clean_of_noPanic cfg root hnp) s hr ht

/-- … and the request produces exactly one response. -/
theorem one_response_no_panic (cfg : Cfg) (root : Stage) (hnp : root.noPanic = true) (s : State)
    (hr : Reachable cfg (init root) s) (ht : Terminal s) : (responses s.sh.fired).length = 1 := by
  obtain ⟨f, hf, _⟩ := exactly_once_no_panic cfg root hnp s hr ht
  rw [hf]; rfl

/-- maximal runs exist and all runs are finite: a schedule that is executable from the start has at
most `root.weight + 3` steps, and every reachable state can be run to the end. -/
theorem runs_terminate (cfg : Cfg) (root : Stage) :
    (∀ sched s, runSched cfg (init root) sched = some s → sched.length ≤ root.weight + 3) ∧
    (∀ s, Reachable cfg (init root) s → ∃ sched s', runSched cfg s sched = some s' ∧ Terminal s') := by
  refine ⟨fun sched s h => ?_, fun s _ => exists_terminal cfg (Pipeline.measure s) s (Nat.le_refl _)⟩
  have := runSched_measure sched (init root) s h
  have h0 : Pipeline.measure (init root) = root.weight + 3 := by simp [Pipeline.measure, init, Instr.weight]
  omega

/-! ## the error is carried -/

/-- **error_carried** (full strength; the repaired step order `complete(sm.firstError())`, with or
without the stage-level recover).  For every tree, outcome assignment and schedule: if some stage
had returned an error or panicked when the callback fired, the callback's argument is an error. -/
theorem error_carried (sr rn : Bool) : ErrorCarried ⟨.first, sr, rn⟩ := by
  intro root s hr f hf
  rcases invEC_reachable (cfg := ⟨.first, sr, rn⟩) rfl hr with hi | hm
  · rw [hi.1] at hf; simp [init] at hf
  · exact hm.res f hf

/-- **error_carried_partial** (both variants, in particular the source as it is): the callback's
argument is an error whenever the `completeStage` call that brought `pending` to zero carried an
error itself — i.e. when the failing stage is the last one to complete — and whenever the
pipeline is completed by `Execute`'s recover. -/
theorem error_carried_partial (cfg : Cfg) (root : Stage) (s : State)
    (hr : Reachable cfg (init root) s) : ∀ f ∈ s.sh.fired, f.own = true → f.arg = true :=
  (invOwn_reachable hr).2

/-! ## completion when stages panic -/

/-- **completion_under_panic_partial** (both variants). If every panicking stage sits where the
code recovers and completes it — it is a pooled stage (its own task panics: `execTask` →
`errHandle` → `completeStage`) or it runs inline on the goroutine that called `pipeline.Execute`
(`Execute`'s recover → `complete(err)`) — then every maximal run fires the callback exactly once. -/
theorem completion_under_panic_partial (cfg : Cfg) (root : Stage)
    (hrec : root.recoverable true = true) : CompletesOnce cfg root := by
  intro s hr ht
  cases hsr : cfg.stageRecover with
  | false =>
    rcases invRec_reachable hsr hrec hr with hi | hab
    · exact absurd ht (initPhase_not_terminal hi)
    · exact (invOnce_reachable hr).2 (rec_terminal_completed hab ht)
  | true =>
    have hc := Stage.clean_of_noReject (cfg := cfg) hsr root (Stage.noReject_of_recoverable true root hrec)
    obtain ⟨f, hf, _⟩ := exactly_once_clean cfg root hc s hr ht
    rw [hf]; rfl

/-- **completion_under_panic** (full strength; `executeStage` recovers a panic of the stage it
started and completes that stage — the source since fix b04bf84).  For every tree whose pools accept
every task, every outcome assignment *including panics anywhere* — in `Plan()`, in the execution,
in `NextStages()`; inline or pooled; root or not — and every schedule: at the end of the run the
callback has fired exactly once, and when it fired every stage ever started had finished. -/
theorem completion_under_panic (arg : CompleteArg) (rn : Bool) (root : Stage) (hrej : root.noReject = true)
    (s : State) (hr : Reachable ⟨arg, true, rn⟩ (init root) s) (ht : Terminal s) :
    ∃ f, s.sh.fired = [f] ∧ f.finished = s.sh.registered ∧ f.registered = s.sh.registered
      ∧ s.sh.finished = s.sh.registered ∧ s.sh.pending = 0 :=
  exactly_once_clean _ root (Stage.clean_of_noReject (cfg := ⟨arg, true, rn⟩) rfl root hrej) s hr ht

theorem completion_under_panic_stmt (arg : CompleteArg) (rn : Bool) : CompletionUnderPanic ⟨arg, true, rn⟩ := by
  intro root hrej s hr ht
  obtain ⟨f, hf, _⟩ := completion_under_panic arg rn root hrej s hr ht
  rw [hf]; rfl

/-- **completion_under_rejection** (full strength; additionally `workerPool.Submit` calls the
task's handler when it rejects a task — fixes/C19-reject-notify.patch).  For EVERY tree — panics
anywhere, tasks rejected by a stopped pool or a cancelled context — and every schedule: exactly one
callback, fired after every started stage has finished. -/
theorem completion_under_rejection (arg : CompleteArg) (root : Stage)
    (s : State) (hr : Reachable ⟨arg, true, true⟩ (init root) s) (ht : Terminal s) :
    ∃ f, s.sh.fired = [f] ∧ f.finished = s.sh.registered ∧ f.registered = s.sh.registered
      ∧ s.sh.finished = s.sh.registered ∧ s.sh.pending = 0 :=
  exactly_once_clean _ root (Stage.clean_of_repaired (cfg := ⟨arg, true, true⟩) rfl rfl root) s hr ht

theorem completion_under_rejection_stmt (arg : CompleteArg) : CompletionUnderRejection ⟨arg, true, true⟩ := by
  intro root s hr ht
  obtain ⟨f, hf, _⟩ := completion_under_rejection arg root s hr ht
  rw [hf]; rfl

/-! ## one request, one response (the leaf request as a whole) -/

/-- **response_exactly_once.** A task request whose pipeline loses no completion under `cfg` gets
exactly one response for every stage tree and schedule — whether or not the group-by tag value
collect fails and answers first: every responder (the collect, the completion callback) goes through
`SendResponse`'s CAS, and `Process` returns `nil`, so `TaskHandler.process` does not answer again.
A request that is refused before a pipeline exists gets exactly one (from `TaskHandler.process`). -/
theorem response_exactly_once (cfg : Cfg) (rn tolerated collectFails : Bool) (root : Stage)
    (hc : root.clean cfg = true) (s : State) (hr : Reachable cfg (init root) s) (ht : Terminal s) :
    (runResponses ⟨false, rn, false⟩ tolerated collectFails s).length = 1 ∧
      (noPipelineResponses ⟨false, rn, false⟩ .refused).length = 1 := by
  obtain ⟨f, hf, _⟩ := exactly_once_clean cfg root hc s hr ht
  refine ⟨?_, rfl⟩
  cases tolerated <;> cases collectFails <;>
    simp [runResponses, sendResponseCalls, hf, Leaf.sendResponse, Leaf.init]

/-- … and it carries an error whenever a stage failed or panicked in the run or the collect failed
(unless the failure is the not-found error the metadata callback answers as an empty result) -/
theorem response_error_carried (sr rn collectFails : Bool) (root : Stage) (hc : root.clean ⟨.first, sr, rn⟩ = true)
    (s : State) (hr : Reachable ⟨.first, sr, rn⟩ (init root) s) (ht : Terminal s)
    (hf : s.sh.failed = true ∨ collectFails = true) :
    runResponses ⟨false, rn, false⟩ false collectFails s = [true] := by
  rcases invNP_reachable hc hr with hi | hm
  · exact absurd ht (initPhase_not_terminal hi)
  · obtain ⟨f, hfd, _, _, _, _, hfb⟩ := mainNP_terminal hm (invOnce_reachable hr) ht
    cases hcf : collectFails with
    | true => simp [runResponses, sendResponseCalls, hfd, Leaf.sendResponse, Leaf.init]
    | false =>
      have hfl : s.sh.failed = true := by
        rcases hf with h | h
        · exact h
        · rw [hcf] at h; cases h
      have harg : f.arg = true := error_carried sr rn root s hr f (by rw [hfd]; simp) (by rw [hfb]; exact hfl)
      simp [runResponses, sendResponseCalls, hfd, Leaf.sendResponse, Leaf.init, harg]

/-! ## the plan node hands the operator's outcome on -/

/-- **plan_node_preserves_outcome.** `planNode.ExecuteWithStats` as it is hands the operator's
outcome to the stage unchanged — ok, error or panic — whether or not the operator has statistics of
its own: a failing trackable operator (seriesFiltering, metricAllSeries, dataLoad) fails its stage. -/
theorem plan_node_preserves_outcome (trackable : Bool) (r : OpResult) :
    planNodeExec true trackable r = r := by
  cases r <;> cases trackable <;> rfl

/-! ## Submit racing Stop (internal/concurrent/pool.go) -/

/-- **reject_xor_execute.** `workerPool.Submit` as it is (no re-check of `Stopped()` after the send):
whatever the interleaving of the Submit call — including a send that stays blocked on the full queue
for any time — with `Pool.Stop()`, a cancellation of the context and the consumers of the queue, the
task is never both rejected and executed, it is executed at most once and rejected at most once.
(Rejecting calls the stage's `errHandle`, executing completes the stage too: both would complete the
stage twice and take `pending` below zero.) -/
theorem reject_xor_execute (es : List PoolSubmit.Ev) (s : PoolSubmit.St)
    (h : PoolSubmit.run false PoolSubmit.init es = some s) :
    ¬ (s.rejected ≥ 1 ∧ s.executed ≥ 1) ∧ s.executed ≤ 1 ∧ s.rejected ≤ 1 := by
  have hc := PoolSubmit.count_le_one (PoolSubmit.inv_run es _ s PoolSubmit.inv_init h)
  simp only [PoolSubmit.count] at hc
  refine ⟨fun ⟨h1, h2⟩ => ?_, ?_, ?_⟩ <;> omega

/-! ## the broker side of a metadata query: no successful partial answer -/

/-- **broker_meta_error_iff.** A metadata (suggest) query over `n ≥ 1` target nodes, for every
multiset of answers and EVERY arrival order (`rs` is any list of `n` answers): the query completes
exactly once; it reports an error iff some node answered with a real error (`ErrMsg`, no payload) or
an undecodable payload — a failure in one node is never turned into the healthy nodes' values —
and without such an answer it returns all nodes' values (not-found nodes contribute none). -/
theorem broker_meta_error_iff (n : Nat) (rs : List BrokerMeta.Resp) (hl : rs.length = n) (hn : 0 < n) :
    (BrokerMeta.run false n false rs).completed = true ∧ (BrokerMeta.run false n false rs).closes = 1 ∧
    ((BrokerMeta.run false n false rs).err = true ↔ ∃ r ∈ rs, r.isErr = true) ∧
    ((∀ r ∈ rs, r.isErr = false) →
      (BrokerMeta.run false n false rs).results = (rs.map BrokerMeta.Resp.vals).flatten) := by
  have hw : BrokerMeta.Waiting (BrokerMeta.complete (BrokerMeta.init n) false) n := by
    have hne : n ≠ 0 := by omega
    refine ⟨?_, ?_, ?_, ?_⟩ <;> simp [BrokerMeta.complete, BrokerMeta.tryClose, BrokerMeta.init, hne]
  have h := BrokerMeta.run_waiting rs _ n hw hl hn
  have hres : (BrokerMeta.complete (BrokerMeta.init n) false).results = [] := by
    simp [BrokerMeta.complete, BrokerMeta.tryClose, BrokerMeta.init]; split <;> rfl
  simp only [hres, List.nil_append] at h
  exact h

/-- a request that cannot be sent fails the query (the pipeline carries the TaskSend stage's error to
`Complete`), whatever the other nodes answer -/
theorem broker_meta_send_failure (n : Nat) (rs : List BrokerMeta.Resp) :
    (BrokerMeta.run false n true rs).completed = true ∧ (BrokerMeta.run false n true rs).closes = 1 ∧
      (BrokerMeta.run false n true rs).err = true := by
  have hc : (BrokerMeta.complete (BrokerMeta.init n) true).completed = true ∧
      (BrokerMeta.complete (BrokerMeta.init n) true).closes = 1 ∧
      (BrokerMeta.complete (BrokerMeta.init n) true).err = true := by
    simp [BrokerMeta.complete, BrokerMeta.tryClose, BrokerMeta.init]
  unfold BrokerMeta.run
  rw [BrokerMeta.foldl_completed false rs _ hc.1]
  exact hc

/-! ## non-vacuity -/

/-! ### the lock discipline of completeStage when a stage's Complete() hook panics
(Model/CompleteLock.lean; lindb's shard-scan / grouping stages read tag values from the metadata
database inside that hook) -/

/-- the callback never fires twice, whatever the hooks do and however the hook is called -/
theorem complete_hook_at_most_once (g : Bool) (n m : Nat) (h : 0 < n + m) (s : CompleteLock.St)
    (hr : CompleteLock.Reachable g (CompleteLock.init n m) s) : s.fired ≤ 1 := by
  have hi := CompleteLock.inv_reachable h hr
  by_cases hp : s.pending = 0
  · have := hi.fire1 hp; omega
  · have := (hi.fire0 hp).2; omega

/-- FULL STRENGTH for the repaired shape (the hook runs inside a recover): for every number of stages
whose hook returns (`n`) or panics (`m`), in every interleaving of Lock / hook / Unlock / Dec / CAS,
a state in which no goroutine can move is the regular end: the mutex is free, every stage has
decremented `pending`, the callback fired exactly once, and it carries an error if some hook panicked -/
theorem complete_hook_guarded_completes (n m : Nat) (h : 0 < n + m) (s : CompleteLock.St)
    (hr : CompleteLock.Reachable true (CompleteLock.init n m) s) (hs : CompleteLock.Stuck true s) :
    s.holder = .free ∧ s.pending = 0 ∧ s.fired = 1 ∧ s.completed = true ∧ (0 < m → s.firstErr = true) :=
  CompleteLock.stuck_guarded (CompleteLock.inv_reachable h hr) hs

/-- every run of the lock model is finite (both shapes): each step decreases `measure` -/
theorem complete_hook_runs_terminate (g : Bool) (r : CompleteLock.Rule) (s s' : CompleteLock.St)
    (h : CompleteLock.step g r s = some s') : CompleteLock.measure s' < CompleteLock.measure s :=
  CompleteLock.step_measure r h


/-- fan-out 2 under a synchronous root, one pooled child failing: a complete run -/
def treeA : Stage := .mk .inline false .ok [.mk .pooled false .error [], .mk .pooled false .ok []]
/-- all-synchronous: the root succeeds, its only child fails -/
def treeS : Stage := .mk .inline false .ok [.mk .inline false .error []]
/-- a synchronous stage panics inside a pooled parent's completion handler -/
def treeB : Stage := .mk .inline false .ok [.mk .pooled false .ok [.mk .inline false .panic []]]
/-- the pooled child's own task panics: recovered and completed -/
def treeR : Stage := .mk .inline false .ok [.mk .pooled false .panic [], .mk .pooled false .ok []]
/-- a pooled, non-root stage whose `Plan()` panics (inline, before it is submitted), a sibling after it -/
def treeP : Stage := .mk .inline false .ok [.mk .pooled true .ok [], .mk .pooled false .ok []]
/-- `NextStages()` of a pooled stage panics -/
def treeN : Stage := .mk .inline false .ok [.mk .pooled false .nextPanic [.mk .inline false .ok []]]
/-- the pool rejects the task of the only child -/
def treeX : Stage := .mk .inline false .ok [.mk .rejected false .ok []]

/-- child 1 (fails) finishes first, child 2 (succeeds) last -/
def schedFailFirst : List Nat := List.replicate 12 0 ++ [1, 1, 1] ++ [2, 2, 2, 2]
/-- child 2 finishes first, child 1 last -/
def schedFailLast : List Nat := List.replicate 12 0 ++ [2, 2, 2] ++ [1, 1, 1, 1]

example : treeA.noPanic = true := by decide
example : treeR.recoverable true = true := by decide
example : treeB.recoverable true = false := by decide

/-- the hypotheses of `exactly_once_no_panic` are met by a run with concurrency and a failure -/
example : ∃ s, Reachable ⟨.own, false, false⟩ (init treeA) s ∧ Terminal s ∧ s.sh.registered = 3 :=
  match h : runSched ⟨.own, false, false⟩ (init treeA) schedFailLast with
  | some s => ⟨s, runSched_reachable _ _ _ Reachable.refl h,
      terminal_of_terminalB (by
        have : (runSched ⟨.own, false, false⟩ (init treeA) schedFailLast).map terminalB = some true := by decide
        rw [h] at this; simpa using this),
      by
        have : (runSched ⟨.own, false, false⟩ (init treeA) schedFailLast).map (·.sh.registered) = some 3 := by decide
        rw [h] at this; simpa using this⟩
  | none => by
    have : (runSched ⟨.own, false, false⟩ (init treeA) schedFailLast).isSome = true := by decide
    rw [h] at this; cases this

/-! ## where the source as it is violates the property -/

namespace Neg

/-- (a) the source as it is: pooled sibling 1 fails and completes first, pooled sibling 2 succeeds
and completes last ⇒ exactly one callback, with `err = nil`, although a stage had failed -/
theorem error_lost_fail_first_ok_last :
    outcome ⟨.own, false, false⟩ treeA schedFailFirst = some ([⟨false, false, true, 3, 3⟩], 0, true) := by decide

/-- the reverse completion order reports the error (so the outcome depends on the schedule) -/
theorem error_kept_fail_last :
    outcome ⟨.own, false, false⟩ treeA schedFailLast = some ([⟨true, true, true, 3, 3⟩], 0, true) := by decide

/-- (a), no concurrency needed: a synchronous child fails, its synchronous parent completes last
with `nil` ⇒ the only possible run reports success -/
theorem error_lost_sync_child :
    outcome ⟨.own, false, false⟩ treeS (List.replicate 13 0) = some ([⟨false, false, true, 2, 2⟩], 0, true) := by decide

/-- the full-strength statement is false for the source as it is -/
theorem error_carried_fails_own : ¬ ErrorCarried ⟨.own, false, false⟩ := by
  intro h
  obtain ⟨s, hr, _, hf, _⟩ := outcome_elim error_lost_fail_first_ok_last
  have := h treeA s hr ⟨false, false, true, 3, 3⟩ (by rw [hf]; simp) rfl
  cases this

/-- with the repaired step order the same schedule reports the error -/
theorem repaired_fail_first_ok_last :
    outcome ⟨.first, false, false⟩ treeA (schedFailFirst ++ [2]) = some ([⟨true, false, true, 3, 3⟩], 0, true) := by decide

/-- (b) a synchronous stage panics inside a pooled parent's completion handler: it was registered
(`pending++`) but only the parent is completed by `execTask`'s recover ⇒ the run ends with
`pending = 1` and NO callback — in both variants -/
theorem no_completion_sync_panic_under_async (arg : CompleteArg) (rn : Bool) :
    outcome ⟨arg, false, rn⟩ treeB (List.replicate 9 0 ++ List.replicate 7 1) = some ([], 1, true) := by
  cases arg <;> cases rn <;> decide

/-- the full-strength completion statement is false without the stage-level recover, whichever
value `completeStage` hands to `complete` -/
theorem completion_under_panic_fails (arg : CompleteArg) (rn : Bool) : ¬ CompletionUnderPanic ⟨arg, false, rn⟩ := by
  intro h
  obtain ⟨s, hr, ht, hf, _⟩ := outcome_elim (no_completion_sync_panic_under_async arg rn)
  have := h treeB (by decide) s hr ht
  rw [hf] at this
  cases this

/-- with the stage-level recover the same tree completes once, with an error (given `first`) -/
theorem repaired_sync_panic_under_async :
    outcome ⟨.first, true, false⟩ treeB (List.replicate 9 0 ++ List.replicate 11 1)
      = some ([⟨true, false, true, 3, 3⟩], 0, true) := by decide

/-- (c) the pool rejects the task of a registered stage (stopped pool, cancelled query context) and
`Submit` returns without telling anybody: the stage never runs and is never completed ⇒ the run
ends with `pending = 1` and NO callback — whatever the other two switches are -/
theorem no_completion_rejected_task (arg : CompleteArg) (sr : Bool) :
    outcome ⟨arg, sr, false⟩ treeX (List.replicate 9 0) = some ([], 1, true) := by
  cases arg <;> cases sr <;> decide

theorem completion_under_rejection_fails (arg : CompleteArg) (sr : Bool) :
    ¬ CompletionUnderRejection ⟨arg, sr, false⟩ := by
  intro h
  obtain ⟨s, hr, ht, hf, _⟩ := outcome_elim (no_completion_rejected_task arg sr)
  have := h treeX s hr ht
  rw [hf] at this
  cases this

/-- with the notifying `Submit` the same tree completes once, with an error -/
theorem repaired_rejected_task :
    outcome ⟨.first, true, true⟩ treeX (List.replicate 13 0) = some ([⟨true, false, true, 2, 2⟩], 0, true) := by
  decide

/-- a pooled non-root stage whose `Plan()` panics is completed by `executeStage`'s recover; its
sibling still runs; one callback, with the error -/
theorem plan_panic_pooled_nonroot :
    outcome ⟨.first, true, false⟩ treeP (List.replicate 14 0 ++ List.replicate 5 1)
      = some ([⟨true, false, true, 3, 3⟩], 0, true) := by decide

/-- if `Process` handed the pipeline's error back to `TaskHandler.process` as well, a failing request
would be answered twice (the seeded change c19-6): the callback's response and the handler's -/
theorem two_responses_if_process_returns_error :
    (runSched ⟨.first, true, true⟩ (init treeS) (List.replicate 14 0)).map
      (fun s => (terminalB s, runResponses ⟨true, true, false⟩ false false s, runResponses ⟨false, true, false⟩ false false s))
      = some (true, [true, true], [true]) := by decide

/-- with an `ErrMsg` branch that spends `tolerantNotFounds` (the seeded change c19-14) a query over two
nodes, one healthy and one failing with a real error, completes WITHOUT error with the healthy
node's values: a successful partial answer -/
theorem partial_answer_when_errmsg_is_tolerated :
    BrokerMeta.run true 2 false [.ok ["a"], .err] = ⟨0, 1, false, ["a"], true, 1⟩ ∧
    BrokerMeta.run true 2 false [.err, .ok ["a"]] = ⟨0, 1, false, ["a"], true, 1⟩ := by decide

/-- a plan node whose trackable branch returns `nil` (the seeded change c19-11) turns the error of a
trackable operator into success — the stage, and with it the pipeline, reports no failure -/
theorem trackable_error_dropped : planNodeExec false true .error = .ok := rfl

/-- with a re-check of `Stopped()` after the send (the seeded change c19-7) a task whose Submit was
past the first check when `Stop()` came is rejected by the re-check AND executed by the drain -/
theorem rejected_and_executed_with_recheck :
    PoolSubmit.run true PoolSubmit.init [.submitCheck, .stop, .submitSend, .submitRecheck, .consume]
      = some ⟨.done, true, false, false, 1, 1⟩ := by decide

/-- if the failing group-by collect answered through the unguarded `sendResponse` (the seeded change
c19-8), the CAS would not be taken and the completion callback would answer the same request again:
every stage succeeds, two responses -/
theorem two_responses_if_collect_is_unguarded :
    (runSched ⟨.first, true, true⟩ (init (Stage.mk .inline false .ok [])) (List.replicate 8 0)).map
      (fun s => (terminalB s, runResponses ⟨false, true, true⟩ false true s, runResponses ⟨false, true, false⟩ false true s))
      = some (true, [true, false], [true]) := by decide

/-- the same panic in the pooled child's own task is recovered and completed -/
theorem recovered_pooled_panic :
    outcome ⟨.own, false, false⟩ treeR (List.replicate 12 0 ++ [2, 2, 2] ++ [1, 1, 1, 1]) = some ([⟨true, true, true, 3, 3⟩], 0, true) := by
  decide

/-- the source as it is (the hook is called directly between Lock and the non-deferred Unlock):
whenever at least one stage's Complete() hook panics there is a run that ends in a DEADLOCK — the
mutex is leaked, the panicking task's own retry (`execTask` → `errHandle` → `completeStage` → `Lock()`)
and every other stage's `completeStage` block forever, `pending` stays > 0 and the completion callback
never fires: no response. For every `n`, every `m ≥ 1`. -/
theorem complete_hook_panic_deadlocks (n m : Nat) (hm : 0 < m) :
    ∃ s, CompleteLock.Reachable false (CompleteLock.init n m) s ∧ CompleteLock.Stuck false s ∧
      s.holder = .leaked ∧ s.fired = 0 ∧ 0 < s.pending := by
  refine ⟨⟨n, m - 1, 1, .leaked, 0, 0, (n + m : Nat), false, 0, false⟩, ?_, ?_, rfl, rfl, ?_⟩
  · refine CompleteLock.Reachable.step .hook
      (CompleteLock.Reachable.step (s' := ⟨n, m - 1, 0, .hook true, 0, 0, (n + m : Nat), false, 0, false⟩)
        .lockPanic CompleteLock.Reachable.refl ?_) ?_
    · simp [CompleteLock.step, CompleteLock.init, hm]
    · simp [CompleteLock.step]
  · intro r; cases r <;> simp [CompleteLock.step]
  · simp only; omega

/-- the harness' witness: one pooled stage whose hook panics -/
theorem complete_hook_witness :
    (CompleteLock.runOrder false [true]).fired = 0 ∧ (CompleteLock.runOrder false [true]).pending = 1 ∧
    (CompleteLock.runOrder false [true]).holder = .leaked ∧
    (CompleteLock.runOrder false [false, true, false]).pending = 2 ∧
    (CompleteLock.runOrder true [false, true, false]).fired = 1 ∧
    (CompleteLock.runOrder true [false, true, false]).firstErr = true ∧
    (CompleteLock.runOrder true [false, true, false]).holder = .free := by decide

end Neg

/-! ## tie to the source (regenerated facts) -/

/-- the variant of the model the current source selects -/
def currentCfg : Cfg :=
  cfgOf Generated.C19.completePassesFirstError Generated.C19.stageRecoversPanic Generated.C19.submitRejectNotifies

theorem tie_completeStage :
    Generated.C19.completeStageSteps = completeStageOrder currentCfg.arg Generated.C19.completeHookGuarded := by decide
theorem tie_safeComplete :
    Generated.C19.safeCompleteSteps = CompleteLock.safeCompleteOrder Generated.C19.completeHookGuarded := by decide
theorem tie_responseSendSites : Generated.C19.responseSendSites = responseSendSitesExpected := by decide
theorem tie_firstError : Generated.C19.firstErrorSteps = firstErrorOrder currentCfg.arg := by decide
theorem tie_complete : Generated.C19.completeSteps = completeOrder := by decide
theorem tie_isCompleted : Generated.C19.isCompletedSteps = isCompletedOrder := by decide
theorem tie_register : Generated.C19.registerSteps = registerOrder := by decide
theorem tie_pipelineExecute : Generated.C19.pipelineExecuteSteps = pipelineExecuteOrder := by decide
theorem tie_pipelineExecuteStage :
    Generated.C19.pipelineExecuteStageSteps = pipelineExecuteStageOrder currentCfg.stageRecover := by decide
theorem tie_baseStageExecute : Generated.C19.baseStageExecuteSteps = baseStageExecuteOrder := by decide
theorem tie_baseStageIsAsync : Generated.C19.baseStageIsAsyncSteps = baseStageIsAsyncOrder := by decide
theorem tie_execTask : Generated.C19.execTaskSteps = execTaskOrder := by decide
theorem tie_planNodeExecuteWithStats :
    Generated.C19.planNodeExecuteWithStatsSteps = planNodeExecuteWithStatsOrder := by decide
/-- every return site of `ExecuteWithStats` returns the operator's error (hypothesis
`returnsOperatorError = true` of `plan_node_preserves_outcome`) -/
theorem tie_planNodeReturnsOperatorError : Generated.C19.planNodeReturnsOperatorError = true := by decide
theorem tie_submit : Generated.C19.submitSteps = submitOrder currentCfg.rejectNotifies := by decide
theorem tie_reject : Generated.C19.rejectSteps = rejectOrder currentCfg.rejectNotifies := by decide
/-- `Submit` does nothing after `p.tasks <- task` (hypothesis `recheck = false` of `reject_xor_execute`) -/
theorem tie_submitNoRecheck : Generated.C19.submitRechecksStopped = false := by decide
theorem tie_sendResponse : Generated.C19.sendResponseSteps = sendResponseOrder := by decide
theorem tie_metadataHandleResponse :
    Generated.C19.metadataHandleResponseSteps = BrokerMeta.handleResponseOrder := by decide
/-- `MetadataContext.handleResponse` has no `ErrMsg` / `tolerantNotFounds` branch (hypothesis
`toleratesErrMsg = false` of `broker_meta_error_iff`) -/
theorem tie_metadataNoErrMsgTolerance : Generated.C19.metadataToleratesErrMsg = false := by decide
theorem tie_taskTryClose : Generated.C19.taskTryCloseSteps = BrokerMeta.tryCloseOrder := by decide
theorem tie_leafProcess : Generated.C19.leafProcessSteps = leafProcessOrder := by decide
theorem tie_leafProcessDataSearch : Generated.C19.leafProcessDataSearchSteps = leafProcessDataSearchOrder := by decide
theorem tie_leafProcessMetadataSuggest :
    Generated.C19.leafProcessMetadataSuggestSteps = leafProcessMetadataSuggestOrder := by decide
theorem tie_taskHandlerProcess : Generated.C19.taskHandlerProcessSteps = taskHandlerProcessOrder := by decide
/-- after the pipeline was executed `processDataSearch` / `processMetadataSuggest` return `nil`: only the
completion callback answers (hypothesis of `response_exactly_once`) -/
theorem tie_processReturnsNil : Generated.C19.processReturnsPipelineErr = false := by decide
/-- nobody but `SendResponse` calls the unguarded `sendResponse`: every responder goes through the CAS
(hypothesis `collectUnguarded = false` of `response_exactly_once`) -/
theorem tie_noUnguardedResponder : Generated.C19.unguardedSendResponseCallers = [] := by decide
theorem tie_collectGroupByTagValues :
    Generated.C19.collectGroupByTagValuesSteps = collectGroupByTagValuesOrder := by decide

/-- what the model decides about error propagation for the source as it is *now*: with the
repaired step order the full-strength theorem applies, with the original one its negation -/
theorem error_carried_current :
    (currentCfg.arg = .first ∧ ErrorCarried currentCfg) ∨
    (currentCfg = ⟨.own, false, false⟩ ∧ ¬ ErrorCarried currentCfg) ∨
    (currentCfg.arg = .own ∧ currentCfg ≠ ⟨.own, false, false⟩) := by
  cases h : Generated.C19.completePassesFirstError with
  | true =>
    have : currentCfg = ⟨.first, Generated.C19.stageRecoversPanic, Generated.C19.submitRejectNotifies⟩ := by
      simp [currentCfg, cfgOf, h]
    rw [this]; exact Or.inl ⟨rfl, error_carried _ _⟩
  | false =>
    have harg : currentCfg.arg = .own := by simp [currentCfg, cfgOf, h]
    by_cases hc : currentCfg = ⟨.own, false, false⟩
    · rw [hc]; exact Or.inr (Or.inl ⟨rfl, Neg.error_carried_fails_own⟩)
    · exact Or.inr (Or.inr ⟨harg, hc⟩)

/-- … about completion when stages panic -/
theorem completion_under_panic_current :
    (currentCfg.stageRecover = true ∧ CompletionUnderPanic currentCfg) ∨
    (currentCfg.stageRecover = false ∧ ¬ CompletionUnderPanic currentCfg) := by
  cases h : Generated.C19.stageRecoversPanic with
  | true =>
    have : currentCfg = ⟨currentCfg.arg, true, currentCfg.rejectNotifies⟩ := by simp [currentCfg, cfgOf, h]
    rw [this]; exact Or.inl ⟨rfl, completion_under_panic_stmt _ _⟩
  | false =>
    have : currentCfg = ⟨currentCfg.arg, false, currentCfg.rejectNotifies⟩ := by simp [currentCfg, cfgOf, h]
    rw [this]; exact Or.inr ⟨rfl, Neg.completion_under_panic_fails _ _⟩

/-- … and about completion when a pool rejects a task -/
theorem completion_under_rejection_current :
    (currentCfg.stageRecover = true ∧ currentCfg.rejectNotifies = true ∧ CompletionUnderRejection currentCfg) ∨
    (currentCfg.rejectNotifies = false ∧ ¬ CompletionUnderRejection currentCfg) ∨
    (currentCfg.stageRecover = false ∧ currentCfg.rejectNotifies = true) := by
  cases h : Generated.C19.submitRejectNotifies with
  | false =>
    have : currentCfg = ⟨currentCfg.arg, currentCfg.stageRecover, false⟩ := by simp [currentCfg, cfgOf, h]
    rw [this]; exact Or.inr (Or.inl ⟨rfl, Neg.completion_under_rejection_fails _ _⟩)
  | true =>
    cases h2 : Generated.C19.stageRecoversPanic with
    | true =>
      have : currentCfg = ⟨currentCfg.arg, true, true⟩ := by simp [currentCfg, cfgOf, h, h2]
      rw [this]; exact Or.inl ⟨rfl, rfl, completion_under_rejection_stmt _⟩
    | false =>
      have : currentCfg = ⟨currentCfg.arg, false, true⟩ := by simp [currentCfg, cfgOf, h, h2]
      rw [this]; exact Or.inr (Or.inr ⟨rfl, rfl⟩)

/-- … and about completion when a stage's Complete() hook panics (lock discipline of completeStage) -/
theorem complete_hook_current :
    (Generated.C19.completeHookGuarded = true ∧
      ∀ n m, 0 < n + m → ∀ s, CompleteLock.Reachable true (CompleteLock.init n m) s → CompleteLock.Stuck true s →
        s.holder = .free ∧ s.pending = 0 ∧ s.fired = 1 ∧ s.completed = true ∧ (0 < m → s.firstErr = true)) ∨
    (Generated.C19.completeHookGuarded = false ∧
      ∀ n m, 0 < m → ∃ s, CompleteLock.Reachable false (CompleteLock.init n m) s ∧ CompleteLock.Stuck false s ∧
        s.holder = .leaked ∧ s.fired = 0 ∧ 0 < s.pending) := by
  cases h : Generated.C19.completeHookGuarded with
  | true => exact Or.inl ⟨rfl, fun n m hnm s hr hs => complete_hook_guarded_completes n m hnm s hr hs⟩
  | false => exact Or.inr ⟨rfl, fun n m hm => Neg.complete_hook_panic_deadlocks n m hm⟩

end LinVerif.Props.C19
