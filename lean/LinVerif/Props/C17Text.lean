/-
C17, round 12 — the number text layer, checked against the codec ACTUALLY used by every
declaration of sql/stmt.

Regenerated on every run: every use of a codec-like import in sql/stmt/*.go and
pkg/timeutil/interval.go (function by function, package variables and types included, so a new
helper or a package-level codec variable is a new row), lindb/common's encoding package (codec
variable + what JSONMarshal / JSONUnmarshal call), jsoniter's configuration literals, the guard
that installs the 6-digit float encoder, its package-level entry points, the constants of
`WriteFloat64Lossy` — all at the versions /repo/go.mod requires.

Proved: every use resolves to a jsoniter configuration (or is the `json.RawMessage` type), and
every one of them prints floats with the SHORTEST writer; for EVERY number text layer a finite
number literal survives a writer iff that writer is the shortest one (so the `TextCodec`
hypothesis of `wire_*_roundtrip_partial` is asked of the right writer, and a path moved to a
6-digit configuration is a named broken obligation AND has no decoder).
-/
import LinVerif.Generated.C17
import LinVerif.Model.C17Text
import LinVerif.Lemmas.C17

namespace LinVerif.Props.C17
open LinVerif.Json LinVerif.C17Text

/-! ## ties -/

theorem tie_stmtCodecImports : Generated.C17.stmtCodecImports = codecImportTable := by decide
theorem tie_stmtCodecUse : Generated.C17.stmtCodecUse = codecUseTable := by decide
theorem tie_commonEncoding : Generated.C17.commonEncoding = commonEncodingTable := by decide
theorem tie_jsoniterConfigs : Generated.C17.jsoniterConfigs = jsoniterConfigTable := by decide
theorem tie_jsoniterEntryPoints : Generated.C17.jsoniterEntryPoints = jsoniterEntryTable := by decide
theorem tie_jsoniterLossyGuard : Generated.C17.jsoniterLossyGuard = lossyGuardText := by decide
theorem tie_jsoniterLossyWriter : Generated.C17.jsoniterLossyWriter = lossyWriterTable := by decide

/-! ## resolution of the regenerated table -/

/-- no use of a codec import in sql/stmt is left unexplained -/
theorem stmt_codec_uses_resolved :
    ∀ u ∈ Generated.C17.stmtCodecUse,
      resolve Generated.C17.commonEncoding Generated.C17.jsoniterEntryPoints u.2 ≠ .unknown := by
  decide

/-- every use — encoders, decoders, the Interval's own MarshalJSON — sits on a configuration whose
float writer is the shortest one -/
theorem stmt_float_writers_shortest :
    ∀ u ∈ Generated.C17.stmtCodecUse,
      writerOfUse Generated.C17.commonEncoding Generated.C17.jsoniterEntryPoints
        Generated.C17.jsoniterConfigs u.2 = some .shortest := by
  decide

/-! ## general facts (any tables, any text layer) -/

/-- `Froze()`: the 6-digit writer is installed exactly by the flag in the configuration literal -/
theorem floatWriterOf_sixDigits_iff (cfgs : List (String × List String)) (n : String) :
    floatWriterOf cfgs n = some .sixDigits ↔
      ∃ flags, lookup n cfgs = some flags ∧ flags.contains "MarshalFloatWith6Digits=true" = true := by
  unfold floatWriterOf
  cases h : lookup n cfgs with
  | none => simp
  | some flags =>
    by_cases hc : flags.contains "MarshalFloatWith6Digits=true" = true
    · simp
    · simp

/-- for EVERY number text layer: all finite number literals survive a writer iff it is the
shortest one -/
theorem number_survives_iff_shortest (T : NumText) (w : FloatWriter) :
    (∀ v : F64, v.isFinite = true → T.parse (T.write w v) = some v) ↔ w = .shortest := by
  constructor
  · intro h
    cases w with
    | shortest => rfl
    | sixDigits =>
      have ha := h T.a T.a_finite
      have hb := h T.b T.b_finite
      simp only [NumText.write] at ha hb
      rw [T.six_collapse, hb] at ha
      exact absurd (Option.some.inj ha).symm T.a_ne_b
  · intro h v hv
    subst h
    exact T.parse_shortest v hv

/-- the property's number clause for the code as it is: whatever declaration of sql/stmt writes
the literal, with ANY text layer satisfying strconv's contract, the text parses back to the same
bits -/
theorem stmt_number_text_survives (T : NumText) :
    ∀ u ∈ Generated.C17.stmtCodecUse, ∀ w,
      writerOfUse Generated.C17.commonEncoding Generated.C17.jsoniterEntryPoints
        Generated.C17.jsoniterConfigs u.2 = some w →
      ∀ v : F64, v.isFinite = true → T.parse (T.write w v) = some v := by
  intro u hu w hw v hv
  have hs := stmt_float_writers_shortest u hu
  rw [hs] at hw
  have : w = .shortest := (Option.some.inj hw).symm
  exact (number_survives_iff_shortest T w).mpr this v hv

/-- non-vacuity: a text layer (bit pattern as a decimal digit string; a "writer" that prints
everything as 0) -/
def demoNumText : NumText where
  shortest v := LinVerif.Stmt.fmtInt (v.bits : Int)
  six _ := ['0']
  parse s := match LinVerif.Stmt.parseInt s with
    | some i => if 0 ≤ i then some ⟨i.toNat⟩ else none
    | none => none
  parse_shortest v _ := by
    simp [LinVerif.Stmt.parseInt_fmtInt]
  a := ⟨0⟩
  b := ⟨1⟩
  a_finite := by decide
  b_finite := by decide
  a_ne_b := by decide
  six_collapse := rfl

example : demoNumText.parse (demoNumText.write .shortest ⟨0x3FEFFFFFCA501ACB⟩) = some ⟨0x3FEFFFFFCA501ACB⟩ :=
  (number_survives_iff_shortest demoNumText .shortest).mpr rfl _ (by decide)

example : writerOfUse Generated.C17.commonEncoding Generated.C17.jsoniterEntryPoints
    Generated.C17.jsoniterConfigs "encoding.JSONMarshal" = some .shortest := by decide

namespace Neg

/-- a path on `jsoniter.ConfigFastest` (directly or through a package variable initialised with
it) gets the 6-digit writer … -/
theorem fastest_config_is_sixDigits :
    writerOfUse Generated.C17.commonEncoding Generated.C17.jsoniterEntryPoints
      Generated.C17.jsoniterConfigs "jsoniter.ConfigFastest" = some .sixDigits := by decide

/-- … and then, for EVERY text layer, some finite number literal does not reach the leaf -/
theorem sixDigits_path_loses_a_literal (T : NumText) :
    ∃ v : F64, v.isFinite = true ∧ T.parse (T.write .sixDigits v) ≠ some v := by
  by_cases ha : T.parse (T.write .sixDigits T.a) = some T.a
  · refine ⟨T.b, T.b_finite, ?_⟩
    simp only [NumText.write] at ha ⊢
    rw [← T.six_collapse, ha]
    intro h
    exact T.a_ne_b (Option.some.inj h)
  · exact ⟨T.a, T.a_finite, ha⟩

end Neg

end LinVerif.Props.C17
