/-
C05 — WAL queue: an appended message keeps its sequence and its bytes.

Model: LinVerif/Model/Queue.lean (pkg/queue/queue.go over pkg/queue/page). Helper lemmas:
LinVerif/Lemmas/C05*.lean. This file: the ties to the regenerated source facts and the
property theorems.

  sequential histories (put / get / ack / gc / close-reopen / crash after ANY prefix of the
  store trace of an in-flight Put), any length, any message sizes incl. page roll-over:
    get_after_put (histories with SetAppendedSeq resets, each satisfying ResetOK), get_after_put_noreset,
    reset_discards, reopen_preserves_cursor, reopen_cursor_from_last_item,
    failed_index_put_keeps_sequences, later_append_preserves, later_op_preserves, seq_dense, put_returns_next,
    failed_put_preserves (a Put that returns an error — too large, or AcquirePage failed at a
    roll-over — leaves the queue untouched; histories may contain such Puts anywhere)
  interleavings of appender threads over the atomic steps alloc / write / persist:
    ConcurrentPut shape allowed — the full-strength statement is
        concurrent_put_statement := ConcurrentPut currentShape (fun _ => True)
    with currentShape computed from the regenerated lock structure of queue.Put.
    GC is NOT one step there: it is split into acknowledged-sequence read / index-item read /
    data truncation / index truncation, none under the queue lock, interleavable with Puts, acks,
    gets (events gcSnap gcRead gcTruncData gcTruncIndex).
    Proved: concurrent_put_partial_atomic   (Put = one critical section: every schedule,
                                              GC steps interleaved anywhere)
            concurrent_put_partial_noRestart (current three-step Put: schedules without
                                              reopen / crash / gc)
            concurrent_put_generated         (the strongest of the two that applies to the
                                              structure found in /repo's source now)
            concurrent_put_full_if_atomic    (the full statement as soon as the source has
                                              the one-critical-section structure)
    Refuted for the three-step structure (namespace Neg): two overlapping Puts persisting in
    the reverse of their alloc order followed by reopen (or crash) + one more Put; and the
    same overlap across a page roll-over followed by ack + GC.
-/
import LinVerif.Lemmas.C05Mutants
import LinVerif.Generated.C05

namespace LinVerif.Props.C05
open LinVerif LinVerif.Queue
open LinVerif.Generated

/-! ## ties to /repo's source (regenerated on every run) -/

theorem consts_tie :
    C05.indexItemLength = Queue.indexItemLength ∧
    C05.indexItemsPerPage = Queue.indexItemsPerPage ∧
    C05.dataPageSize = Queue.dataPageSize ∧
    C05.indexPageSize = Queue.indexItemsPerPage * Queue.indexItemLength ∧
    C05.queueAppendedSeqOffset = Queue.queueAppendedSeqOffset ∧
    C05.queueAcknowledgedSeqOffset = Queue.queueAcknowledgedSeqOffset ∧
    C05.queueDataPageIndexOffset = Queue.queueDataPageIndexOffset ∧
    C05.messageOffsetOffset = Queue.messageOffsetOffset ∧
    C05.messageLengthOffset = Queue.messageLengthOffset ∧
    C05.metaPageIndex = 0 ∧ C05.seqNoNewMessageAvailable = -1 := by decide

/-- offsets and lengths are stored as uint32: they must fit -/
theorem u32_fits : C05.dataPageSize < Queue.u32 ∧ C05.queueAcknowledgedSeqOffset + 8 ≤ C05.metaPageSize := by decide

/-- the lock/step structure of `queue.Put` is one of the two the model knows -/
theorem shape_known : (shapeOf C05.putCalls).isSome = true := by decide

/-- the structure of `Put` in /repo's source right now -/
def currentShape : Shape := (shapeOf C05.putCalls).get shape_known

theorem guards_tie :
    (∀ len : Nat, C05.putTooLargeCond len = decide (len > Queue.dataPageSize)) ∧
    (∀ mo len : Nat, C05.allocRollCond mo len = decide (mo + len > Queue.dataPageSize)) ∧
    (∀ s app ak : Int, C05.getRangeCond s app ak = decide (s > app ∨ s ≤ ak)) ∧
    (∀ s ak app : Int, C05.ackCond s ak app = decide (s > ak ∧ s ≤ app)) ∧
    (∀ app : Int, C05.initEmptyCond app = decide (app = -1)) := by
  refine ⟨?_, ?_, fun _ _ _ => rfl, fun _ _ _ => rfl, fun _ => rfl⟩
  · intro len; simp [C05.putTooLargeCond, Queue.dataPageSize]; omega
  · intro mo len; simp [C05.allocRollCond, Queue.dataPageSize]; omega

theorem index_arith_tie (n : Nat) :
    C05.persistSeq ((n : Int) - 1) = n ∧
    C05.persistIndexPage n = ((n / Queue.indexItemsPerPage : Nat) : Int) ∧
    C05.persistIndexOffset n = (((n % Queue.indexItemsPerPage) * Queue.indexItemLength : Nat) : Int) ∧
    C05.getIndexPage n = C05.persistIndexPage n ∧ C05.getIndexOffset n = C05.persistIndexOffset n ∧
    C05.gcIndexPage n = C05.persistIndexPage n ∧ C05.gcIndexOffset n = C05.persistIndexOffset n ∧
    C05.initIndexOffset n = C05.persistIndexOffset n := by
  refine ⟨by simp [C05.persistSeq], rfl, ?_, rfl, rfl, rfl, rfl, rfl⟩
  show (((n % 262144 : Nat) : Int)) * 16 = _
  simp only [Queue.indexItemsPerPage, Queue.indexItemLength]; omega

/-- the page stores and loads (with their arguments, in program order) of the functions the
model mirrors are the ones it was written against -/
theorem accesses_tie :
    C05.persistAccesses = expectedPersistAccesses ∧ C05.initAccesses = expectedInitAccesses ∧
    C05.getAccesses = expectedGetAccesses ∧ C05.gcAccesses = expectedGcAccesses ∧
    C05.allocAccesses = expectedAllocAccesses ∧ C05.initSequenceAccesses = expectedInitSequenceAccesses ∧
    C05.ackAccesses = expectedAckAccesses ∧ C05.writeBytesBody = expectedWriteBytesBody := by decide

/-- GC's branch conditions, the origin of every local (in particular of the truncation bound
`dataPageID`) and its call sequence; alloc's conditions and assignments (no queue field is
assigned before AcquirePage succeeded) -/
theorem gc_alloc_structure_tie :
    C05.gcConds = expectedGcConds ∧ C05.gcAssigns = expectedGcAssigns ∧ C05.gcCallSeq = expectedGcCallSeq ∧
    C05.allocConds = expectedAllocConds ∧ C05.allocAssigns = expectedAllocAssigns := by decide

/-- `SetAppendedSeq` stores the two sequences and the two meta words and nothing else (no page
lookup / acquisition, no index page bookkeeping); `ReadBytes` returns a slice of the mapping -/
theorem reset_readbytes_tie :
    C05.setAppendedAccesses = expectedSetAppendedAccesses ∧ C05.setAppendedConds = expectedSetAppendedConds ∧
    C05.setAppendedAssigns = expectedSetAppendedAssigns ∧ C05.readBytesBody = expectedReadBytesBody := by decide

/-- Put touches no queue field before it holds rwMutex (in particular the sequence is read
inside persistMetaOfMessage, which takes no sequence parameter), and every guard / formula
the model mirrors could be re-extracted -/
theorem put_lock_discipline_tie :
    C05.putUnlockedQueueAccesses = [] ∧ C05.persistParams = ["dataPageIndex", "dataLen", "messageOffset"] ∧
    C05.extractionProblems = [] := by decide

/-- `page.Factory.TruncatePages` removes a page iff its ID (the map key) is below the bound -/
theorem truncate_pages_tie :
    C05.truncatePagesConds = expectedTruncatePagesConds ∧ C05.truncatePagesLoops = expectedTruncatePagesLoops ∧
    C05.truncatePagesCallSeq = expectedTruncatePagesCallSeq := by decide

/-! ## sequential histories -/

/-- Every message whose Put returned success is read back byte for byte under its own
sequence for as long as it lies above the acknowledged position — after any history `post`
of puts, failed puts, gets, acks, GCs, close/reopens, crashes at any store prefix of a later
Put and explicit resets (`SetAppendedSeq`), whatever history `pre` (resets included) came
before. `OpsOK`: every reset in the history satisfies `ResetOK` in the state it is applied to.
`Stays`: the sequence is readable (ack < s ≤ appended) in every state along `post` — a reset
acknowledges everything at or below its target and discards everything above it by definition,
so no message survives a reset; appends after a reset continue at target+1 and are covered
(they are Puts of a later `pre`). -/
theorem get_after_put (pre post : List Op) (m : Msg) (st2 : St) (s : Int)
    (hpre : OpsOK St.init pre)
    (hput : put (run St.init pre) m = (st2, .ok s))
    (hpost : OpsOK st2 post) (hstay : Stays st2 s.toNat post) :
    get (run st2 post) s = .ok m.bytes := by
  have I1 := run_inv_ok init_inv pre hpre
  by_cases hl : m.len ≤ dataPageSize
  · obtain ⟨I2, r2, r3, r4, _, cn⟩ := put_inv I1 m hl
    rw [hput] at I2 r2 r3 r4 cn
    dsimp only at I2 r2 r3 r4 cn
    have hs : s = (run St.init pre).q.appended + 1 := by injection r2
    have hap : -1 ≤ (run St.init pre).q.appended := Int.le_trans I1.core.ackLo I1.core.ackHi
    have hns := nextSeq_cast hap
    have hsn : s.toNat = nextSeq (run St.init pre).q := by omega
    rw [hsn] at hstay
    obtain ⟨hr3, c3⟩ := run_content I2 post _ hpost hstay
    have I3 := run_inv_ok I2 post hpost
    have := get_readable I3.core hr3
    rw [hns, ← hs] at this
    rw [this, c3, cn]
  · unfold put at hput
    rw [if_pos (by omega)] at hput
    cases hput

/-- the same for histories without resets, where "readable all along" is just "above the
acknowledged position at the end" (both positions only move up) -/
theorem get_after_put_noreset (pre post : List Op) (m : Msg) (st2 : St) (s : Int)
    (hpre : ∀ op ∈ pre, op.noReset) (hpost : ∀ op ∈ post, op.noReset)
    (hput : put (run St.init pre) m = (st2, .ok s))
    (hack : (run st2 post).q.acked < s) :
    get (run st2 post) s = .ok m.bytes := by
  have I1 := (run_inv init_inv pre hpre).1
  by_cases hl : m.len ≤ dataPageSize
  · obtain ⟨I2, r2, r3, r4, _, cn⟩ := put_inv I1 m hl
    rw [hput] at I2 r2 r3 r4 cn
    dsimp only at I2 r2 r3 r4 cn
    have hs : s = (run St.init pre).q.appended + 1 := by injection r2
    have hap : -1 ≤ (run St.init pre).q.appended := Int.le_trans I1.core.ackLo I1.core.ackHi
    have hns := nextSeq_cast hap
    obtain ⟨I3, p1, p2, p3⟩ := run_inv I2 post hpost
    have hr2 : Readable st2.q (nextSeq (run St.init pre).q) := by
      unfold Readable; have := I1.core.ackHi; omega
    have hr3 : Readable (run st2 post).q (nextSeq (run St.init pre).q) := by
      unfold Readable; omega
    have := get_readable I3.core hr3
    rw [hns, ← hs] at this
    rw [this, p3 _ hr2 hr3, cn]
  · unfold put at hput
    rw [if_pos (by omega)] at hput
    cases hput

/-- No operation (other than a reset) alters a message that stays above the acknowledged position. -/
theorem later_op_preserves (pre : List Op) (op : Op) (s : Int) (b : List Nat)
    (hpre : OpsOK St.init pre) (hop : op.noReset)
    (hg : get (run St.init pre) s = .ok b)
    (hack : (step (run St.init pre) op).q.acked < s) :
    get (step (run St.init pre) op) s = .ok b := by
  have I1 := run_inv_ok init_inv pre hpre
  obtain ⟨I2, p1, p2, p3⟩ := step_inv I1 op hop
  have hrange : ¬ (s > (run St.init pre).q.appended ∨ s ≤ (run St.init pre).q.acked) := by
    intro h
    simp only [Queue.get, Queue.getLoc] at hg
    rw [if_pos h] at hg
    cases hg
  have hn : ((s.toNat : Nat) : Int) = s := by have := I1.core.ackLo; omega
  have hr1 : Readable (run St.init pre).q s.toNat := by unfold Readable; omega
  have hr2 : Readable (step (run St.init pre) op).q s.toNat := by unfold Readable; omega
  have g1 := get_readable I1.core hr1
  have g2 := get_readable I2.core hr2
  rw [hn] at g1 g2
  rw [g1] at hg
  rw [g2, p3 _ hr1 hr2]
  exact hg

/-- A later append never alters an earlier message. -/
theorem later_append_preserves (pre : List Op) (m' : Msg) (s : Int) (b : List Nat)
    (hpre : OpsOK St.init pre)
    (hg : get (run St.init pre) s = .ok b) :
    get (put (run St.init pre) m').1 s = .ok b := by
  have I1 := run_inv_ok init_inv pre hpre
  have hrange : ¬ (s > (run St.init pre).q.appended ∨ s ≤ (run St.init pre).q.acked) := by
    intro h
    simp only [Queue.get, Queue.getLoc] at hg
    rw [if_pos h] at hg
    cases hg
  apply later_op_preserves pre (.put m') s b hpre trivial hg
  show (put (run St.init pre) m').1.q.acked < s
  by_cases hl : m'.len ≤ dataPageSize
  · obtain ⟨_, _, _, r4, _⟩ := put_inv I1 m' hl
    omega
  · unfold put; rw [if_pos (by omega)]; dsimp only; omega

/-- NewQueue recomputes the write cursor from the LAST sequence's index item — data page id,
offset + length — after every covered history (resets and failed appends included), whether
or not that sequence is acknowledged; an empty queue starts at page 0 / offset 0; the index
page is the one of the last sequence. -/
theorem reopen_cursor_from_last_item (ops : List Op) (h : OpsOK St.init ops) :
    Synced (reopen (run St.init ops)) :=
  reopen_cursor (run_inv_ok init_inv ops h)

/-- Close/reopen does not move the write cursor: after every history of puts, failed
roll-overs, gets, acks, GCs, reopens and crashes — fully acknowledged ones included — NewQueue
computes exactly the cursor (data page, offset) and index page the queue object had. (After
`SetAppendedSeq` or a failed index-page switch the volatile cursor is ahead of the last item
until the next Put; NewQueue then falls back to the last item, `reopen_cursor_from_last_item`.) -/
theorem reopen_preserves_cursor (ops : List Op) (hp : ∀ op ∈ ops, op.plain) :
    (reopen (run St.init ops)).q.dataPageIndex = (run St.init ops).q.dataPageIndex ∧
    (reopen (run St.init ops)).q.messageOffset = (run St.init ops).q.messageOffset ∧
    (reopen (run St.init ops)).q.indexPageIndex = (run St.init ops).q.indexPageIndex ∧
    (reopen (run St.init ops)).q.appended = (run St.init ops).q.appended ∧
    (reopen (run St.init ops)).q.acked = (run St.init ops).q.acked := by
  have I := (run_inv init_inv ops (fun o ho => Op.plain_noReset (hp o ho))).1
  have S := run_synced init_inv init_synced ops hp
  have S' := reopen_cursor I
  obtain ⟨_, _, ha, hk⟩ := reopen_inv I
  have hap : -1 ≤ (run St.init ops).q.appended := Int.le_trans I.core.ackLo I.core.ackHi
  show (openQ (run St.init ops).mem).q.dataPageIndex = _ ∧ (openQ (run St.init ops).mem).q.messageOffset = _ ∧
    (openQ (run St.init ops).mem).q.indexPageIndex = _ ∧ _ ∧ _
  refine ⟨?_, ?_, ?_, ha, hk⟩
  · by_cases h : (run St.init ops).q.appended = -1
    · rw [(S'.cur0 (by rw [ha]; exact h)).1, (S.cur0 h).1]
    · have h1 := S'.cur (run St.init ops).q.appended.toNat (by rw [ha]; omega)
      have h2 := S.cur (run St.init ops).q.appended.toNat (by omega)
      rw [h1.1, h2.1, openQ_entry I]
  · by_cases h : (run St.init ops).q.appended = -1
    · rw [(S'.cur0 (by rw [ha]; exact h)).2, (S.cur0 h).2]
    · have h1 := S'.cur (run St.init ops).q.appended.toNat (by rw [ha]; omega)
      have h2 := S.cur (run St.init ops).q.appended.toNat (by omega)
      rw [h1.2, h2.2, openQ_entry I]
  · rw [S'.ipi, S.ipi, ha]

/-- A Put that failed because the index-page switch failed consumes no sequence (it only skips
the space it had allocated); by `later_op_preserves` (it is an operation of the alphabet) every
readable message keeps its bytes, and later appends are covered by `get_after_put`. -/
theorem failed_index_put_keeps_sequences (st st' : St) (m : Msg) (h : putFI st m = (st', .acquireFailed)) :
    st'.q.appended = st.q.appended ∧ st'.q.acked = st.q.acked := by
  unfold putFI at h
  split at h
  · cases h
  · dsimp only at h
    split at h
    · injection h with h1 _
      subst h1
      exact ⟨by simp, by simp⟩
    · exfalso
      unfold put at h
      split at h
      · cases h
      · injection h with _ h2; cases h2

/-- `SetAppendedSeq(s)`: both sequences become `s` (the next successful Put returns `s+1` by
`put_returns_next`), and nothing is readable any more — everything at or below `s` is
acknowledged, everything above `s` is discarded by definition of the reset. -/
theorem reset_discards (st : St) (s n : Int) :
    (setAppended st s).q.appended = s ∧ (setAppended st s).q.acked = s ∧
    get (setAppended st s) n = .outOfRange := by
  refine ⟨rfl, rfl, ?_⟩
  have h : n > (setAppended st s).q.appended ∨ n ≤ (setAppended st s).q.acked := by
    show n > s ∨ n ≤ s
    omega
  simp only [Queue.get, Queue.getLoc, if_pos h]

/-- A successful Put returns the previous appended sequence plus one and publishes it. -/
theorem put_returns_next (st st' : St) (m : Msg) (s : Int) (h : put st m = (st', .ok s)) :
    s = st.q.appended + 1 ∧ st'.q.appended = s := by
  unfold put at h
  split at h
  · cases h
  · simp only [Prod.mk.injEq, PutRes.ok.injEq] at h
    obtain ⟨rfl, rfl⟩ := h
    simp [publish]

/-- Sequence numbers are dense: after any history (including reopens, crashes and failed
appends) the appended sequence is the number of messages that were completely appended, minus
one — so the i-th completed append has sequence i, and every successful Put returns the next one. -/
theorem seq_dense (ops : List Op) (hnr : ∀ op ∈ ops, op.noReset) :
    (run St.init ops).q.appended = (appendCount St.init ops : Int) - 1 := by
  have := run_appended init_inv ops hnr
  have h0 : St.init.q.appended = -1 := by
    simp [St.init, openQ, Mem.empty, initDataPageIndex]
  omega

/-- An append that FAILED (message larger than a page, or the roll-over's AcquirePage returned
an error) leaves the queue exactly as it was — cursor, sequences, every page — so it disturbs
neither earlier messages nor later appends (which are then covered by `get_after_put`, whose
histories may contain failed appends anywhere). -/
theorem failed_put_preserves (pre : List Op) (m : Msg) (st' : St) (r : PutRes)
    (h : putF (run St.init pre) m = (st', r)) (hr : ∀ s, r ≠ .ok s) :
    st' = run St.init pre ∧ ∀ s, get st' s = get (run St.init pre) s := by
  have : st' = run St.init pre := by
    unfold putF allocF at h
    split at h
    · injection h with h1 _; exact h1.symm
    · split at h
      · injection h with h1 _; exact h1.symm
      · rename_i hs
        exfalso
        unfold put at h
        split at h
        · rename_i h1 _ ; omega
        · injection h with _ h2
          exact hr _ h2.symm
  exact ⟨this, fun s => by rw [this]⟩

/-- the same for a plain Put that is rejected -/
theorem rejected_put_preserves (st st' : St) (m : Msg) (h : put st m = (st', .tooLarge)) : st' = st := by
  unfold put at h
  split at h
  · injection h with h1 _; exact h1.symm
  · injection h with _ h2; cases h2

/-! ## interleavings -/

/-- THE FULL-STRENGTH CONCURRENT STATEMENT: under every interleaving of the atomic steps of
concurrent appenders, with close/reopen, crashes, acks and GC anywhere, every returned Put
stays readable byte for byte while above the acknowledged position. It is what the property
asks of the structure `Put` has in /repo now (`currentShape`). It does NOT hold for the
three-step structure (see `Neg`); it is proved for the one-critical-section structure. -/
def concurrent_put_statement : Prop := ConcurrentPut currentShape (fun _ => True)

/-- Put as one critical section: the property holds under every schedule. -/
theorem concurrent_put_partial_atomic : ConcurrentPut .atomic (fun _ => True) :=
  concurrentPut_of_inv .atomic _ JA cinit_inv
    (fun _ _ J h => get_readable J.1.core h)
    (fun σ e σ' out J _ h => cstep_atomic_inv σ e σ' out J h)

/-- The current three-step Put (alloc under the lock, copy outside, persist under the lock):
the property holds under every interleaving of any number of appenders as long as the
schedule contains no close/reopen, crash or GC. -/
theorem concurrent_put_partial_noRestart : ConcurrentPut .threeStep Ev.noRestart :=
  concurrentPut_of_inv .threeStep _ (fun σ => InvC σ.mem σ.q σ.ths) cinit_invC
    (fun _ _ I h => get_readable I h)
    (fun σ e σ' out I ha h => cstep_three_inv σ e σ' out I ha h)

/-- which schedules the proof covers for a given structure of Put -/
def allowedFor : Shape → Ev → Prop
  | .atomic => fun _ => True
  | .threeStep => Ev.noRestart

/-- What is proved of the structure found in /repo's source on this run. -/
theorem concurrent_put_generated : ConcurrentPut currentShape (allowedFor currentShape) := by
  cases h : currentShape with
  | atomic => exact concurrent_put_partial_atomic
  | threeStep => exact concurrent_put_partial_noRestart

/-- As soon as the source has the one-critical-section structure the full statement holds. -/
theorem concurrent_put_full_if_atomic (h : currentShape = .atomic) : concurrent_put_statement := by
  unfold concurrent_put_statement; rw [h]; exact concurrent_put_partial_atomic

/-! ## non-vacuity -/

/-- a sequential history with a roll-over, an ack, a GC, a crash inside the copy, a crash
inside the index stores and a reopen, after which a Put returns and is read back -/
example :
    let pre : List Op := [.put (Msg.gen 0 134217000), .put msgA, .ack 0, .put (Msg.gen 7 1000), .gc,
      .crashPut msgB 5, .crashPut msgB 14, .reopen]
    ∃ st2, put (run St.init pre) msgC = (st2, .ok 3) ∧ (run st2 [.put msgA, .reopen]).q.acked < 3 ∧
      get (run st2 [.put msgA, .reopen]) 3 = .ok msgC.bytes := by
  refine ⟨_, rfl, by decide, by decide⟩

/-- a three-step schedule in which two Puts overlap and persist in reverse order: both are
read back (no restart in the schedule) -/
example : ∃ σ, crun .threeStep CSt.init
      [.alloc 0 msgA, .alloc 1 msgB, .write 1, .persist 1, .write 0, .persist 0] = some σ ∧
    get σ.st 0 = .ok msgB.bytes ∧ get σ.st 1 = .ok msgA.bytes := ⟨_, rfl, by decide, by decide⟩

/-- GC split into its steps and overlapped by two Puts, the second rolling the data page,
with everything acknowledged when GC read the acknowledged sequence (the shape in which a
bound taken from the live write cursor would delete page 0): both messages are read back. -/
example : ∃ σ, crun .atomic CSt.init (oPre ++ [oEv] ++ oPost) = some σ ∧
    get σ.st 1 = .ok msgA.bytes ∧ get σ.st 2 = .ok msgB64.bytes ∧ violates .atomic oPre oEv oPost = false :=
  ⟨_, rfl, by decide, by decide, by decide⟩

/-- a failed roll-over (AcquirePage error) followed by a smaller append that still fits the
old page and by the retried roll-over: the failed Put changes nothing, the later ones are read back -/
example :
    let pre : List Op := [.put (Msg.gen 0 134217708)]
    (putF (run St.init pre) msgB64).2 = .acquireFailed ∧
    get (run St.init (pre ++ [.putFail msgB64, .put msgA, .put msgB64])) 1 = .ok msgA.bytes ∧
    get (run St.init (pre ++ [.putFail msgB64, .put msgA, .put msgB64])) 2 = .ok msgB64.bytes := by
  refine ⟨by decide, by decide, by decide⟩

/-- repeated ack + GC rounds on factories whose smallest page id is already above 0 (three
data pages; second and third GC; reopen of a truncated queue, then GC again) -/
example :
    let ops : List Op := [.put (Msg.gen 0 134217000), .put (Msg.gen 1 134217000), .put (Msg.gen 2 134217000),
      .ack 0, .gc, .gc, .put msgA, .ack 1, .gc, .reopen, .gc, .put msgB]
    (run St.init ops).mem.dataLive = [2, 1] ∧ get (run St.init ops) 3 = .ok msgA.bytes ∧
      get (run St.init ops) 4 = .ok msgB.bytes ∧ getLoc (run St.init ops) 2 = .loc ⟨2, 0, 134217000⟩ := by
  refine ⟨by decide, by decide, by decide, by decide⟩

/-- resets: forward onto the last slot of an index page two pages ahead (k·262144−1), an append
(it lands in a third index page), reopen, a backward reset onto that append, another append:
`ResetOK` holds at both resets, sequences continue at target+1, everything is read back. -/
example :
    let st1 := run St.init [.put msgA]
    let st2 := (put (setAppended st1 524287) msgB).1
    let st3 := reopen st2
    let st4 := (put (setAppended st3 524288) msgC).1
    ResetOK st1 524287 ∧ (put (setAppended st1 524287) msgB).2 = .ok 524288 ∧
    get st3 524288 = .ok msgB.bytes ∧ ResetOK st3 524288 ∧
    (put (setAppended st3 524288) msgC).2 = .ok 524289 ∧ get (reopen st4) 524289 = .ok msgC.bytes := by
  refine ⟨⟨by decide, ?_, Or.inl (by decide)⟩, by decide, by decide, ⟨by decide, ?_, Or.inl (by decide)⟩,
    by decide, by decide⟩
  · intro n hn
    have : n = 524287 := by omega
    subst this; decide
  · intro n hn
    have : n = 524288 := by omega
    subst this; decide

/-! ## the property does not hold for the three-step structure -/

namespace Neg

/-- overlap + reverse persist order + close/reopen + one more Put: sequence 0 (message B,
whose Put had returned) is overwritten by C. -/
theorem reopen_witness : violates .threeStep wPre wEv wPost = true := by decide

/-- the same with a process crash instead of close/reopen -/
theorem crash_witness : violates .threeStep wPre wEv wPostCrash = true := by decide

/-- overlap across a page roll-over + reverse persist order + ack + GC: the page holding the
unacknowledged sequence 2 is truncated; Get answers not-found. -/
theorem gc_witness : violates .threeStep gPre gEv gPost = true := by decide

/-- what `Get 0` returns after the reopen witness: C's first 12 bytes, not B -/
theorem reopen_witness_bytes :
    (crun .threeStep CSt.init (wPre ++ [wEv] ++ wPost)).map (fun σ => get σ.st 0) =
      some (.ok [67, 67, 67, 67, 67, 67, 67, 67, 67, 67, 67, 67]) := by decide

theorem concurrent_put_threeStep_fails : ¬ ConcurrentPut .threeStep (fun _ => True) :=
  violates_sound reopen_witness

/-- on a tree whose Put has the three-step structure the full statement is false -/
theorem concurrent_put_statement_fails (h : currentShape = .threeStep) : ¬ concurrent_put_statement := by
  unfold concurrent_put_statement; rw [h]; exact concurrent_put_threeStep_fails

/-- the same witnesses are NOT violations when Put is one critical section -/
theorem atomic_passes_witnesses :
    violates .atomic wPre wEv wPost = false ∧ violates .atomic gPre gEv gPost = false := by decide

/-! ### three rewrites of the code that break the property (seeded as changes c05-13/14/15) -/

/-- the sequence is read before the lock: two overlapping Puts read sequence 0; both return
success under sequence 0, the appended sequence is 0 after two appends, and `Get 0` returns the
second message — the first returned append is unreadable -/
theorem seq_read_outside_lock_witness :
    let r1 := Mutant.putWithSeq St.init msgA 0
    let r2 := Mutant.putWithSeq r1.1 msgB 0
    r1.2 = .ok 0 ∧ r2.2 = .ok 0 ∧ r2.1.q.appended = 0 ∧ get r2.1 0 = .ok msgB.bytes ∧
      get r2.1 0 ≠ .ok msgA.bytes := by decide

/-- the index-page switch fails silently on the append that starts index page 1: the Put
reports success with sequence 262144, but `Get 262144` finds no index page -/
theorem index_switch_lost_witness :
    let st := setAppended (run St.init [.put msgA]) 262143
    let r := Mutant.putIdxSwitchLost st msgB
    r.2 = .ok 262144 ∧ get r.1 262144 = .notFound ∧ (put st msgB).2 = .ok 262144 ∧
      get (put st msgB).1 262144 = .ok msgB.bytes := by decide

/-- NewQueue rewinds a fully acknowledged queue to data page 0: with the last message on data
page 1, the next append lands on page 0, and GC (bound = page of the acknowledged sequence = 1)
deletes it — with the real `openQ` the same history reads the message back -/
theorem drained_rewind_witness :
    let st := run St.init [.put (Msg.gen 0 134217000), .put (Msg.gen 1 134217000), .ack 1]
    let bad := gc (put (Mutant.openQDrained st.mem) msgA).1
    let good := gc (put (openQ st.mem) msgA).1
    (put (Mutant.openQDrained st.mem) msgA).2 = .ok 2 ∧ get bad 2 = .notFound ∧
      get good 2 = .ok msgA.bytes ∧ (openQ st.mem).q.dataPageIndex = 1 := by decide

end Neg

end LinVerif.Props.C05
