/-
C05 — WAL queue: an appended message keeps its sequence and its bytes.

Model: LinVerif/Model/Queue.lean (pkg/queue/queue.go over pkg/queue/page). Helper lemmas:
LinVerif/Lemmas/C05*.lean. This file: the ties to the regenerated source facts and the
property theorems.

  sequential histories (put / get / ack / gc / close-reopen / crash after ANY prefix of the
  store trace of an in-flight Put), any length, any message sizes incl. page roll-over:
    get_after_put (histories with SetAppendedSeq resets, each satisfying ResetOK), get_after_put_noreset,
    reset_discards, reopen_preserves_cursor, reopen_cursor_from_last_item,
    failed_index_put_keeps_sequences, later_append_preserves, later_op_preserves, seq_dense, put_returns_next,
    failed_put_preserves (a Put that returns an error — too large, or AcquirePage failed at a
    roll-over — leaves the queue untouched; histories may contain such Puts anywhere)
  interleavings of appender threads over the atomic steps alloc / write / persist:
    ConcurrentPut shape allowed — the full-strength statement is
        concurrent_put_statement := ConcurrentPut currentShape (fun _ => True)
    with currentShape computed from the regenerated lock structure of queue.Put.
    GC is NOT one step there: it is split into acknowledged-sequence read / index-item read /
    data truncation / index truncation, none under the queue lock, interleavable with Puts, acks,
    gets (events gcSnap gcRead gcTruncData gcTruncIndex).
    Proved: concurrent_put_partial_atomic   (Put = one critical section: every schedule,
                                              GC steps interleaved anywhere)
            concurrent_put_partial_noRestart (current three-step Put: schedules without
                                              reopen / crash / gc)
            concurrent_put_generated         (the strongest of the two that applies to the
                                              structure found in /repo's source now)
            concurrent_put_full_if_atomic    (the full statement as soon as the source has
                                              the one-critical-section structure)
    Refuted for the three-step structure (namespace Neg): two overlapping Puts persisting in
    the reverse of their alloc order followed by reopen (or crash) + one more Put; and the
    same overlap across a page roll-over followed by ack + GC.
-/
import LinVerif.Lemmas.C05Live
import LinVerif.Lemmas.C05Meta
import LinVerif.Lemmas.C05MetaBridge
import LinVerif.Lemmas.C05IndexPos
import LinVerif.Generated.C05
import LinVerif.Generated.C05Meta

namespace LinVerif.Props.C05
open LinVerif LinVerif.Queue
open LinVerif.Generated

/-! ## ties to /repo's source (regenerated on every run) -/

theorem consts_tie :
    C05.indexItemLength = Queue.indexItemLength ∧
    C05.indexItemsPerPage = Queue.indexItemsPerPage ∧
    C05.dataPageSize = Queue.dataPageSize ∧
    C05.indexPageSize = Queue.indexItemsPerPage * Queue.indexItemLength ∧
    C05.queueAppendedSeqOffset = Queue.queueAppendedSeqOffset ∧
    C05.queueAcknowledgedSeqOffset = Queue.queueAcknowledgedSeqOffset ∧
    C05.queueDataPageIndexOffset = Queue.queueDataPageIndexOffset ∧
    C05.messageOffsetOffset = Queue.messageOffsetOffset ∧
    C05.messageLengthOffset = Queue.messageLengthOffset ∧
    C05.metaPageIndex = 0 ∧ C05.seqNoNewMessageAvailable = -1 := by decide

/-- offsets and lengths are stored as uint32: they must fit -/
theorem u32_fits : C05.dataPageSize < Queue.u32 ∧ C05.queueAcknowledgedSeqOffset + 8 ≤ C05.metaPageSize := by decide

/-- the lock/step structure of `queue.Put` is one of the two the model knows -/
theorem shape_known : (shapeOf C05.putCalls).isSome = true := by decide

/-- the structure of `Put` in /repo's source right now -/
def currentShape : Shape := (shapeOf C05.putCalls).get shape_known

theorem guards_tie :
    (∀ len : Nat, C05.putTooLargeCond len = decide (len > Queue.dataPageSize)) ∧
    (∀ mo len : Nat, C05.allocRollCond mo len = decide (mo + len > Queue.dataPageSize)) ∧
    (∀ s app ak : Int, C05.getRangeCond s app ak = decide (s > app ∨ s ≤ ak)) ∧
    (∀ s ak app : Int, C05.ackCond s ak app = decide (s > ak ∧ s ≤ app)) ∧
    (∀ app : Int, C05.initEmptyCond app = decide (app = -1)) := by
  refine ⟨?_, ?_, fun _ _ _ => rfl, fun _ _ _ => rfl, fun _ => rfl⟩
  · intro len; simp [C05.putTooLargeCond, Queue.dataPageSize]; omega
  · intro mo len; simp [C05.allocRollCond, Queue.dataPageSize]; omega

theorem index_arith_tie (n : Nat) :
    C05.persistSeq ((n : Int) - 1) = n ∧
    C05.persistIndexPage n = ((n / Queue.indexItemsPerPage : Nat) : Int) ∧
    C05.persistIndexOffset n = (((n % Queue.indexItemsPerPage) * Queue.indexItemLength : Nat) : Int) ∧
    C05.getIndexPage n = C05.persistIndexPage n ∧ C05.getIndexOffset n = C05.persistIndexOffset n ∧
    C05.gcIndexPage n = C05.persistIndexPage n ∧ C05.gcIndexOffset n = C05.persistIndexOffset n ∧
    C05.initIndexOffset n = C05.persistIndexOffset n := by
  refine ⟨by simp [C05.persistSeq], rfl, ?_, rfl, rfl, rfl, rfl, rfl⟩
  show (((n % 262144 : Nat) : Int)) * 16 = _
  simp only [Queue.indexItemsPerPage, Queue.indexItemLength]; omega

/-- the page stores and loads (with their arguments, in program order) of the functions the
model mirrors are the ones it was written against -/
theorem accesses_tie :
    C05.persistAccesses = expectedPersistAccesses ∧ C05.initAccesses = expectedInitAccesses ∧
    C05.getAccesses = expectedGetAccesses ∧ C05.gcAccesses = expectedGcAccesses ∧
    C05.allocAccesses = expectedAllocAccesses ∧ C05.initSequenceAccesses = expectedInitSequenceAccesses ∧
    C05.ackAccesses = expectedAckAccesses ∧ C05.writeBytesBody = expectedWriteBytesBody := by decide

/-- GC's branch conditions, the origin of every local (in particular of the truncation bound
`dataPageID`) and its call sequence; alloc's conditions and assignments (no queue field is
assigned before AcquirePage succeeded) -/
theorem gc_alloc_structure_tie :
    C05.gcConds = expectedGcConds ∧ C05.gcAssigns = expectedGcAssigns ∧ C05.gcCallSeq = expectedGcCallSeq ∧
    C05.allocConds = expectedAllocConds ∧ C05.allocAssigns = expectedAllocAssigns := by decide

/-- `SetAppendedSeq` stores the two sequences and the two meta words and nothing else (no page
lookup / acquisition, no index page bookkeeping); `ReadBytes` returns a slice of the mapping -/
theorem reset_readbytes_tie :
    C05.setAppendedAccesses = expectedSetAppendedAccesses ∧ C05.setAppendedConds = expectedSetAppendedConds ∧
    C05.setAppendedAssigns = expectedSetAppendedAssigns ∧ C05.readBytesBody = expectedReadBytesBody := by decide

/-- Put touches no queue field before it holds rwMutex (in particular the sequence is read
inside persistMetaOfMessage, which takes no sequence parameter), and every guard / formula
the model mirrors could be re-extracted -/
theorem put_lock_discipline_tie :
    C05.putUnlockedQueueAccesses = [] ∧ C05.persistParams = ["dataPageIndex", "dataLen", "messageOffset"] ∧
    C05.extractionProblems = [] := by decide

/-- `page.Factory.TruncatePages` removes a page iff its ID (the map key) is below the bound -/
theorem truncate_pages_tie :
    C05.truncatePagesConds = expectedTruncatePagesConds ∧ C05.truncatePagesLoops = expectedTruncatePagesLoops ∧
    C05.truncatePagesCallSeq = expectedTruncatePagesCallSeq := by decide

/-! ## sequential histories -/

/-- Every message whose Put returned success is read back byte for byte under its own
sequence for as long as it lies above the acknowledged position — after any history `post`
of puts, failed puts, gets, acks, GCs, close/reopens, crashes at any store prefix of a later
Put and explicit resets (`SetAppendedSeq`), whatever history `pre` (resets included) came
before. `OpsOK`: every reset in the history satisfies `ResetOK` in the state it is applied to.
`Stays`: the sequence is readable (ack < s ≤ appended) in every state along `post` — a reset
acknowledges everything at or below its target and discards everything above it by definition,
so no message survives a reset; appends after a reset continue at target+1 and are covered
(they are Puts of a later `pre`). -/
theorem get_after_put (pre post : List Op) (m : Msg) (st2 : St) (s : Int)
    (hpre : OpsOK St.init pre)
    (hput : put (run St.init pre) m = (st2, .ok s))
    (hpost : OpsOK st2 post) (hstay : Stays st2 s.toNat post) :
    get (run st2 post) s = .ok m.bytes := by
  have I1 := run_inv_ok init_inv pre hpre
  by_cases hl : m.len ≤ dataPageSize
  · obtain ⟨I2, r2, r3, r4, _, cn⟩ := put_inv I1 m hl
    rw [hput] at I2 r2 r3 r4 cn
    dsimp only at I2 r2 r3 r4 cn
    have hs : s = (run St.init pre).q.appended + 1 := by injection r2
    have hap : -1 ≤ (run St.init pre).q.appended := Int.le_trans I1.core.ackLo I1.core.ackHi
    have hns := nextSeq_cast hap
    have hsn : s.toNat = nextSeq (run St.init pre).q := by omega
    rw [hsn] at hstay
    obtain ⟨hr3, c3⟩ := run_content I2 post _ hpost hstay
    have I3 := run_inv_ok I2 post hpost
    have := get_readable I3.core hr3
    rw [hns, ← hs] at this
    rw [this, c3, cn]
  · unfold put at hput
    rw [if_pos (by omega)] at hput
    cases hput

/-- the same for histories without resets, where "readable all along" is just "above the
acknowledged position at the end" (both positions only move up) -/
theorem get_after_put_noreset (pre post : List Op) (m : Msg) (st2 : St) (s : Int)
    (hpre : ∀ op ∈ pre, op.noReset) (hpost : ∀ op ∈ post, op.noReset)
    (hput : put (run St.init pre) m = (st2, .ok s))
    (hack : (run st2 post).q.acked < s) :
    get (run st2 post) s = .ok m.bytes := by
  have I1 := (run_inv init_inv pre hpre).1
  by_cases hl : m.len ≤ dataPageSize
  · obtain ⟨I2, r2, r3, r4, _, cn⟩ := put_inv I1 m hl
    rw [hput] at I2 r2 r3 r4 cn
    dsimp only at I2 r2 r3 r4 cn
    have hs : s = (run St.init pre).q.appended + 1 := by injection r2
    have hap : -1 ≤ (run St.init pre).q.appended := Int.le_trans I1.core.ackLo I1.core.ackHi
    have hns := nextSeq_cast hap
    obtain ⟨I3, p1, p2, p3⟩ := run_inv I2 post hpost
    have hr2 : Readable st2.q (nextSeq (run St.init pre).q) := by
      unfold Readable; have := I1.core.ackHi; omega
    have hr3 : Readable (run st2 post).q (nextSeq (run St.init pre).q) := by
      unfold Readable; omega
    have := get_readable I3.core hr3
    rw [hns, ← hs] at this
    rw [this, p3 _ hr2 hr3, cn]
  · unfold put at hput
    rw [if_pos (by omega)] at hput
    cases hput

/-- No operation (other than a reset) alters a message that stays above the acknowledged position. -/
theorem later_op_preserves (pre : List Op) (op : Op) (s : Int) (b : List Nat)
    (hpre : OpsOK St.init pre) (hop : op.noReset)
    (hg : get (run St.init pre) s = .ok b)
    (hack : (step (run St.init pre) op).q.acked < s) :
    get (step (run St.init pre) op) s = .ok b := by
  have I1 := run_inv_ok init_inv pre hpre
  obtain ⟨I2, p1, p2, p3⟩ := step_inv I1 op hop
  have hrange : ¬ (s > (run St.init pre).q.appended ∨ s ≤ (run St.init pre).q.acked) := by
    intro h
    simp only [Queue.get, Queue.getLoc] at hg
    rw [if_pos h] at hg
    cases hg
  have hn : ((s.toNat : Nat) : Int) = s := by have := I1.core.ackLo; omega
  have hr1 : Readable (run St.init pre).q s.toNat := by unfold Readable; omega
  have hr2 : Readable (step (run St.init pre) op).q s.toNat := by unfold Readable; omega
  have g1 := get_readable I1.core hr1
  have g2 := get_readable I2.core hr2
  rw [hn] at g1 g2
  rw [g1] at hg
  rw [g2, p3 _ hr1 hr2]
  exact hg

/-- A later append never alters an earlier message. -/
theorem later_append_preserves (pre : List Op) (m' : Msg) (s : Int) (b : List Nat)
    (hpre : OpsOK St.init pre)
    (hg : get (run St.init pre) s = .ok b) :
    get (put (run St.init pre) m').1 s = .ok b := by
  have I1 := run_inv_ok init_inv pre hpre
  have hrange : ¬ (s > (run St.init pre).q.appended ∨ s ≤ (run St.init pre).q.acked) := by
    intro h
    simp only [Queue.get, Queue.getLoc] at hg
    rw [if_pos h] at hg
    cases hg
  apply later_op_preserves pre (.put m') s b hpre trivial hg
  show (put (run St.init pre) m').1.q.acked < s
  by_cases hl : m'.len ≤ dataPageSize
  · obtain ⟨_, _, _, r4, _⟩ := put_inv I1 m' hl
    omega
  · unfold put; rw [if_pos (by omega)]; dsimp only; omega

/-- NewQueue recomputes the write cursor from the LAST sequence's index item — data page id,
offset + length — after every covered history (resets and failed appends included), whether
or not that sequence is acknowledged; an empty queue starts at page 0 / offset 0; the index
page is the one of the last sequence. -/
theorem reopen_cursor_from_last_item (ops : List Op) (h : OpsOK St.init ops) :
    Synced (reopen (run St.init ops)) :=
  reopen_cursor (run_inv_ok init_inv ops h)

/-- Close/reopen does not move the write cursor: after every history of puts, failed
roll-overs, gets, acks, GCs, reopens and crashes — fully acknowledged ones included — NewQueue
computes exactly the cursor (data page, offset) and index page the queue object had. (After
`SetAppendedSeq` or a failed index-page switch the volatile cursor is ahead of the last item
until the next Put; NewQueue then falls back to the last item, `reopen_cursor_from_last_item`.) -/
theorem reopen_preserves_cursor (ops : List Op) (hp : ∀ op ∈ ops, op.plain) :
    (reopen (run St.init ops)).q.dataPageIndex = (run St.init ops).q.dataPageIndex ∧
    (reopen (run St.init ops)).q.messageOffset = (run St.init ops).q.messageOffset ∧
    (reopen (run St.init ops)).q.indexPageIndex = (run St.init ops).q.indexPageIndex ∧
    (reopen (run St.init ops)).q.appended = (run St.init ops).q.appended ∧
    (reopen (run St.init ops)).q.acked = (run St.init ops).q.acked := by
  have I := (run_inv init_inv ops (fun o ho => Op.plain_noReset (hp o ho))).1
  have S := run_synced init_inv init_synced ops hp
  have S' := reopen_cursor I
  obtain ⟨_, _, ha, hk⟩ := reopen_inv I
  have hap : -1 ≤ (run St.init ops).q.appended := Int.le_trans I.core.ackLo I.core.ackHi
  show (openQ (run St.init ops).mem).q.dataPageIndex = _ ∧ (openQ (run St.init ops).mem).q.messageOffset = _ ∧
    (openQ (run St.init ops).mem).q.indexPageIndex = _ ∧ _ ∧ _
  refine ⟨?_, ?_, ?_, ha, hk⟩
  · by_cases h : (run St.init ops).q.appended = -1
    · rw [(S'.cur0 (by rw [ha]; exact h)).1, (S.cur0 h).1]
    · have h1 := S'.cur (run St.init ops).q.appended.toNat (by rw [ha]; omega)
      have h2 := S.cur (run St.init ops).q.appended.toNat (by omega)
      rw [h1.1, h2.1, openQ_entry I]
  · by_cases h : (run St.init ops).q.appended = -1
    · rw [(S'.cur0 (by rw [ha]; exact h)).2, (S.cur0 h).2]
    · have h1 := S'.cur (run St.init ops).q.appended.toNat (by rw [ha]; omega)
      have h2 := S.cur (run St.init ops).q.appended.toNat (by omega)
      rw [h1.2, h2.2, openQ_entry I]
  · rw [S'.ipi, S.ipi, ha]

/-- A Put that failed because the index-page switch failed consumes no sequence (it only skips
the space it had allocated); by `later_op_preserves` (it is an operation of the alphabet) every
readable message keeps its bytes, and later appends are covered by `get_after_put`. -/
theorem failed_index_put_keeps_sequences (st st' : St) (m : Msg) (h : putFI st m = (st', .acquireFailed)) :
    st'.q.appended = st.q.appended ∧ st'.q.acked = st.q.acked := by
  unfold putFI at h
  split at h
  · cases h
  · dsimp only at h
    split at h
    · injection h with h1 _
      subst h1
      exact ⟨by simp, by simp⟩
    · exfalso
      unfold put at h
      split at h
      · cases h
      · injection h with _ h2; cases h2

/-- `SetAppendedSeq(s)`: both sequences become `s` (the next successful Put returns `s+1` by
`put_returns_next`), and nothing is readable any more — everything at or below `s` is
acknowledged, everything above `s` is discarded by definition of the reset. -/
theorem reset_discards (st : St) (s n : Int) :
    (setAppended st s).q.appended = s ∧ (setAppended st s).q.acked = s ∧
    get (setAppended st s) n = .outOfRange := by
  refine ⟨rfl, rfl, ?_⟩
  have h : n > (setAppended st s).q.appended ∨ n ≤ (setAppended st s).q.acked := by
    show n > s ∨ n ≤ s
    omega
  simp only [Queue.get, Queue.getLoc, if_pos h]

/-- A successful Put returns the previous appended sequence plus one and publishes it. -/
theorem put_returns_next (st st' : St) (m : Msg) (s : Int) (h : put st m = (st', .ok s)) :
    s = st.q.appended + 1 ∧ st'.q.appended = s := by
  unfold put at h
  split at h
  · cases h
  · simp only [Prod.mk.injEq, PutRes.ok.injEq] at h
    obtain ⟨rfl, rfl⟩ := h
    simp [publish]

/-- Sequence numbers are dense: after any history (including reopens, crashes and failed
appends) the appended sequence is the number of messages that were completely appended, minus
one — so the i-th completed append has sequence i, and every successful Put returns the next one. -/
theorem seq_dense (ops : List Op) (hnr : ∀ op ∈ ops, op.noReset) :
    (run St.init ops).q.appended = (appendCount St.init ops : Int) - 1 := by
  have := run_appended init_inv ops hnr
  have h0 : St.init.q.appended = -1 := by
    simp [St.init, openQ, Mem.empty, initDataPageIndex]
  omega

/-- An append that FAILED (message larger than a page, or the roll-over's AcquirePage returned
an error) leaves the queue exactly as it was — cursor, sequences, every page — so it disturbs
neither earlier messages nor later appends (which are then covered by `get_after_put`, whose
histories may contain failed appends anywhere). -/
theorem failed_put_preserves (pre : List Op) (m : Msg) (st' : St) (r : PutRes)
    (h : putF (run St.init pre) m = (st', r)) (hr : ∀ s, r ≠ .ok s) :
    st' = run St.init pre ∧ ∀ s, get st' s = get (run St.init pre) s := by
  have : st' = run St.init pre := by
    unfold putF allocF at h
    split at h
    · injection h with h1 _; exact h1.symm
    · split at h
      · injection h with h1 _; exact h1.symm
      · rename_i hs
        exfalso
        unfold put at h
        split at h
        · rename_i h1 _ ; omega
        · injection h with _ h2
          exact hr _ h2.symm
  exact ⟨this, fun s => by rw [this]⟩

/-- the same for a plain Put that is rejected -/
theorem rejected_put_preserves (st st' : St) (m : Msg) (h : put st m = (st', .tooLarge)) : st' = st := by
  unfold put at h
  split at h
  · injection h with h1 _; exact h1.symm
  · injection h with _ h2; cases h2

/-! ## interleavings -/

/-- THE FULL-STRENGTH CONCURRENT STATEMENT: under every interleaving of the atomic steps of
concurrent appenders, with close/reopen, crashes, acks and GC anywhere, every returned Put
stays readable byte for byte while above the acknowledged position. It is what the property
asks of the structure `Put` has in /repo now (`currentShape`). It does NOT hold for the
three-step structure (see `Neg`); it is proved for the one-critical-section structure. -/
def concurrent_put_statement : Prop := ConcurrentPut currentShape (fun _ => True)

/-- Put as one critical section: the property holds under every schedule. -/
theorem concurrent_put_partial_atomic : ConcurrentPut .atomic (fun _ => True) :=
  concurrentPut_of_inv .atomic _ JA cinit_inv
    (fun _ _ J h => get_readable J.1.core h)
    (fun σ e σ' out J _ h => cstep_atomic_inv σ e σ' out J h)

/-- The current three-step Put (alloc under the lock, copy outside, persist under the lock):
the property holds under every interleaving of any number of appenders as long as the
schedule contains no close/reopen, crash or GC. -/
theorem concurrent_put_partial_noRestart : ConcurrentPut .threeStep Ev.noRestart :=
  concurrentPut_of_inv .threeStep _ (fun σ => InvC σ.mem σ.q σ.ths) cinit_invC
    (fun _ _ I h => get_readable I h)
    (fun σ e σ' out I ha h => cstep_three_inv σ e σ' out I ha h)

/-- which schedules the proof covers for a given structure of Put -/
def allowedFor : Shape → Ev → Prop
  | .atomic => fun _ => True
  | .threeStep => Ev.noRestart

/-- What is proved of the structure found in /repo's source on this run. -/
theorem concurrent_put_generated : ConcurrentPut currentShape (allowedFor currentShape) := by
  cases h : currentShape with
  | atomic => exact concurrent_put_partial_atomic
  | threeStep => exact concurrent_put_partial_noRestart

/-- As soon as the source has the one-critical-section structure the full statement holds. -/
theorem concurrent_put_full_if_atomic (h : currentShape = .atomic) : concurrent_put_statement := by
  unfold concurrent_put_statement; rw [h]; exact concurrent_put_partial_atomic

/-! ## round 8: page factory, page geometry, Get bounds, failed appends, partition glue -/

/-- ties for the page factory, NewQueue and the meta page layout: the branch structure the
factory model mirrors; which factories NewQueue creates with which page sizes; the two meta
words do not overlap and fit the meta page; the fresh-directory branch stores both sequences. -/
theorem factory_structure_tie :
    C05.fctAcquireConds = expectedFctAcquireConds ∧ C05.fctAcquireStmts = expectedFctAcquireStmts ∧
    C05.fctAcquireCalls = expectedFctAcquireCalls ∧
    C05.fctGetPageConds = [] ∧ C05.fctGetPageStmts = expectedFctGetPageStmts ∧ C05.fctGetPageCalls = expectedFctGetPageCalls ∧
    C05.fctCloseConds = expectedFctCloseConds ∧ C05.fctCloseStmts = expectedFctCloseStmts ∧
    C05.fctCloseCalls = expectedFctCloseCalls ∧
    C05.fctLoadPagesConds = expectedFctLoadPagesConds ∧ C05.fctLoadPagesStmts = expectedFctLoadPagesStmts ∧
    C05.fctLoadPagesCalls = expectedFctLoadPagesCalls ∧
    C05.fctFileNameStmts = expectedFctFileNameStmts ∧ C05.fctNewCalls = expectedFctNewCalls ∧
    C05.fctPageSuffix = "bat" := by decide

theorem meta_layout_tie :
    C05.queueAppendedSeqOffset + 8 ≤ C05.queueAcknowledgedSeqOffset ∧
    C05.queueAcknowledgedSeqOffset + 8 ≤ C05.metaPageSize ∧
    C05.newQueueConds = expectedNewQueueConds ∧ C05.newQueueAccesses = expectedNewQueueAccesses ∧
    C05.newQueueCalls = expectedNewQueueCalls ∧ C05.newQueueFactoryArgs = expectedNewQueueFactoryArgs := by decide

/-- ties for replica/partition.go: WriteLog / ReplicaLog / ReplicaAckIndex / ResetReplicaIndex /
Close / the head of IsExpire have the branches and calls `writeLog`, `replicaLog`,
`replicaAckIndex`, `resetReplicaIndex` mirror; the FanOutQueue hands the reset to the queue unchanged -/
theorem partition_glue_tie :
    C05.writeLogConds = expectedWriteLogConds ∧ C05.writeLogStmts = expectedWriteLogStmts ∧
    C05.writeLogCalls = expectedWriteLogCalls ∧
    C05.replicaLogConds = expectedReplicaLogConds ∧ C05.replicaLogStmts = expectedReplicaLogStmts ∧
    C05.replicaLogCalls = expectedReplicaLogCalls ∧
    C05.replicaAckIndexStmts = expectedReplicaAckIndexStmts ∧
    C05.resetReplicaIndexCalls = expectedResetReplicaIndexCalls ∧ C05.resetReplicaIndexArgs = expectedResetReplicaIndexArgs ∧
    C05.partitionCloseConds = expectedPartitionCloseConds ∧ C05.partitionCloseCalls = expectedPartitionCloseCalls ∧
    C05.isExpireHead = expectedIsExpireHead ∧
    C05.fanoutSetAppendedCalls = expectedFanoutSetAppendedCalls ∧ C05.fanoutSetAppendedArgs = expectedFanoutSetAppendedArgs ∧
    C05.fanoutQueueStmts = expectedFanoutQueueStmts := by decide

/-- THE FACTORY INVARIANT, for every history of AcquirePage / TruncatePages / Close / Close+NewFactory
on a factory opened on any set of page files: no page id twice, and the size counter is
pageSize × number of pages. -/
theorem factory_invariant (files : List Nat) (ps : Nat) (ops : List FOp) :
    FInv ((Fct.new files ps).run ops) :=
  run_inv_fct ops (new_spec files ps).1

/-- TruncatePages removes a page iff its ID is below the bound — after any history, in
particular on a factory that was truncated before (the smallest id is no longer 0) or reloaded. -/
theorem factory_truncate_exact (files : List Nat) (ps : Nat) (ops : List FOp) (b j : Nat)
    (hopen : ((Fct.new files ps).run ops).closed = false) :
    j ∈ (((Fct.new files ps).run ops).truncate b).pages ↔ (j ∈ ((Fct.new files ps).run ops).pages ∧ b ≤ j) :=
  truncate_mem (factory_invariant files ps ops) hopen b j

/-- AcquirePage is exact and idempotent on an open factory: afterwards the page is there, every
other page is as before; a second AcquirePage of the same id changes nothing. -/
theorem factory_acquire_exact (f : Fct) (hopen : f.closed = false) (i j : Nat) :
    (j ∈ (f.acquire i).1.pages ↔ (j = i ∨ j ∈ f.pages)) ∧
    ((f.acquire i).1.acquire i).1 = (f.acquire i).1 := by
  refine ⟨acquire_mem hopen i j, ?_⟩
  have hi : i ∈ (f.acquire i).1.pages := (acquire_mem hopen i i).mpr (Or.inl rfl)
  have hc : (f.acquire i).1.closed = false := by rw [acquire_closed]; exact hopen
  rw [acquire_of_mem hc hi]

/-- A page that was acquired stays (map and file) through every later history whose truncation
bounds are at or below its id — repeated truncations, Close and reload included. -/
theorem factory_page_survives (files : List Nat) (ps : Nat) (pre post : List FOp) (i : Nat)
    (hi : i ∈ ((Fct.new files ps).run pre).pages) (hk : ∀ op ∈ post, op.keeps i) :
    i ∈ (((Fct.new files ps).run pre).run post).pages :=
  run_keeps post (factory_invariant files ps pre) i hi hk

/-- a closed factory is inert: AcquirePage fails, TruncatePages and Close do nothing -/
theorem factory_closed_inert (f : Fct) (hc : f.closed = true) (i b : Nat) :
    f.acquire i = (f, .closedErr) ∧ f.truncate b = f ∧ f.close = f := by
  refine ⟨?_, ?_, ?_⟩
  · unfold Fct.acquire; rw [if_pos hc]
  · unfold Fct.truncate; rw [if_pos hc]
  · unfold Fct.close; rw [if_pos hc]

/-- Close + NewFactory on the directory yields an open factory with exactly the same pages -/
theorem factory_reload (f : Fct) (j : Nat) :
    (j ∈ (Fct.new f.pages f.pageSize).pages ↔ j ∈ f.pages) ∧ (Fct.new f.pages f.pageSize).closed = false ∧
    FInv (Fct.new f.pages f.pageSize) :=
  ⟨(new_spec f.pages f.pageSize).2.2.2 j, (new_spec f.pages f.pageSize).2.1, (new_spec f.pages f.pageSize).1⟩

/-- the queue model's view of a factory (`dataLive` / `indexLive` with `acquireData`,
`truncateData`, …) is what the factory model computes -/
theorem factory_refines_queue_model (mem : Mem) (pg b ps j : Nat) :
    (acquireData mem pg).dataLive = ((Fct.ofLive mem.dataLive ps).acquire pg).1.pages ∧
    (acquireIndex mem pg).indexLive = ((Fct.ofLive mem.indexLive ps).acquire pg).1.pages ∧
    (mem.dataLive.Nodup → (j ∈ (truncateData mem b).dataLive ↔ j ∈ ((Fct.ofLive mem.dataLive ps).truncate b).pages)) ∧
    (mem.indexLive.Nodup → (j ∈ (truncateIndex mem b).indexLive ↔ j ∈ ((Fct.ofLive mem.indexLive ps).truncate b).pages)) :=
  ⟨acquireData_refines mem pg ps, acquireIndex_refines mem pg ps,
   fun h => truncateData_refines mem h b ps j, fun h => truncateIndex_refines mem h b ps j⟩

/-- In EVERY state reachable by the sequential alphabet (no side condition) the live-page lists
are key sets — no page id twice — so the factory model opened on them satisfies its invariant
and the queue model's GC truncation is exactly `TruncatePages` of the factory, on both families. -/
theorem factory_refines_reachable (ops : List Op) (b ps j : Nat) :
    FInv (Fct.ofLive (run St.init ops).mem.dataLive ps) ∧ FInv (Fct.ofLive (run St.init ops).mem.indexLive ps) ∧
    (j ∈ (truncateData (run St.init ops).mem b).dataLive ↔
       j ∈ ((Fct.ofLive (run St.init ops).mem.dataLive ps).truncate b).pages) ∧
    (j ∈ (truncateIndex (run St.init ops).mem b).indexLive ↔
       j ∈ ((Fct.ofLive (run St.init ops).mem.indexLive ps).truncate b).pages) := by
  have h := liveOK_run liveOK_init ops
  exact ⟨ofLive_inv h.1 ps, ofLive_inv h.2 ps, truncateData_refines _ h.1 b ps j, truncateIndex_refines _ h.2 b ps j⟩

/-- INDEX PAGE GEOMETRY at the constants found in /repo now: the three fields lie inside an
item without overlapping, an index page holds exactly `indexItemsPerPage` items, every item lies
inside its page, and two different sequences never share a byte of any index page. The
arithmetic behind it (`slot_inj`, `slot_fits`) is proved for ANY items-per-page and item length. -/
theorem index_layout_generated :
    (C05.queueDataPageIndexOffset + 8 ≤ C05.messageOffsetOffset ∧ C05.messageOffsetOffset + 4 ≤ C05.messageLengthOffset ∧
      C05.messageLengthOffset + 4 ≤ C05.indexItemLength) ∧
    C05.indexPageSize = C05.indexItemsPerPage * C05.indexItemLength ∧
    (∀ n, slotOff C05.indexItemsPerPage C05.indexItemLength n + C05.indexItemLength ≤ C05.indexPageSize) ∧
    (∀ n n' a b, n ≠ n' → a < C05.indexItemLength → b < C05.indexItemLength →
      ¬ (slotPage C05.indexItemsPerPage n = slotPage C05.indexItemsPerPage n' ∧
         slotOff C05.indexItemsPerPage C05.indexItemLength n + a = slotOff C05.indexItemsPerPage C05.indexItemLength n' + b)) := by
  refine ⟨by decide, by decide, ?_, ?_⟩
  · intro n
    have h := slot_fits C05.indexItemsPerPage C05.indexItemLength (by decide) n
    have e : C05.indexPageSize = C05.indexItemsPerPage * C05.indexItemLength := by decide
    rw [e]; exact h
  · intro n n' a b h ha hb
    exact slot_inj _ _ h a b ha hb

/-- INDEX PAGE BOUNDARY, for any items-per-page `P > 0` and item length `L`: sequence `k·P` is the
first slot (offset 0) of index page `k`; `k·P + P − 1` is the last slot of page `k`; the
successor of a sequence is in the next slot of the same page or — exactly when it was the last
slot — in slot 0 of the next page. `entry` uses this arithmetic at the package constants. -/
theorem index_boundary (P L : Nat) (hP : 0 < P) (k n : Nat) :
    (slotPage P (k * P) = k ∧ slotOff P L (k * P) = 0) ∧
    (slotPage P (k * P + (P - 1)) = k ∧ slotOff P L (k * P + (P - 1)) = (P - 1) * L) ∧
    ((slotPage P (n + 1) = slotPage P n ∧ slotOff P L (n + 1) = slotOff P L n + L ∧ n % P + 1 < P) ∨
     (slotPage P (n + 1) = slotPage P n + 1 ∧ slotOff P L (n + 1) = 0 ∧ n % P + 1 = P)) :=
  ⟨slot_first P L hP k, slot_last P L hP k, slot_succ P L hP n⟩

/-- DATA PAGE ROLL-OVER, for any page size `S`: the space `alloc` hands out lies inside one page
(a message is never split), at the old cursor when it fits and at offset 0 of the next page
exactly when it does not; the cursor ends right behind it; no sequence is touched. The model's
`alloc` is the instance `S = dataPageSize` (by `rfl`). -/
theorem rollover_symbolic (S : Nat) (mem : Mem) (q : Q) (len : Nat) (hl : len ≤ S) :
    alloc = allocS dataPageSize ∧
    (allocS S mem q len).off + len ≤ S ∧
    (allocS S mem q len).q.messageOffset = (allocS S mem q len).off + len ∧
    (allocS S mem q len).q.dataPageIndex = (allocS S mem q len).pg ∧
    (allocS S mem q len).q.appended = q.appended ∧ (allocS S mem q len).q.acked = q.acked ∧
    ((q.messageOffset + len ≤ S ∧ (allocS S mem q len).pg = q.dataPageIndex ∧ (allocS S mem q len).off = q.messageOffset) ∨
     (q.messageOffset + len > S ∧ (allocS S mem q len).pg = q.dataPageIndex + 1 ∧ (allocS S mem q len).off = 0)) := by
  obtain ⟨h1, h2, h3, h4, h5, _, h7⟩ := allocS_spec S mem q len hl
  refine ⟨alloc_eq_allocS, h1, h2, h3, h4, h5, ?_⟩
  rcases h7 with ⟨a, b, c, _⟩ | ⟨a, b, c, _⟩
  · exact Or.inl ⟨a, b, c⟩
  · exact Or.inr ⟨a, b, c⟩

/-- exact fit at the page end (any page size): the message stays in the page, the cursor is the
page size; then every non-empty message rolls to offset 0 of the next page, an empty one stays -/
theorem rollover_exact_fit (S : Nat) (mem : Mem) (q : Q) (len : Nat) (h : q.messageOffset + len = S) :
    (allocS S mem q len).pg = q.dataPageIndex ∧ (allocS S mem q len).q.messageOffset = S ∧
    (∀ mem' len', 0 < len' →
      (allocS S mem' (allocS S mem q len).q len').pg = q.dataPageIndex + 1 ∧
      (allocS S mem' (allocS S mem q len).q len').off = 0) ∧
    (∀ mem', (allocS S mem' (allocS S mem q len).q 0).pg = q.dataPageIndex ∧
      (allocS S mem' (allocS S mem q len).q 0).off = S) :=
  allocS_exact_fit S mem q len h

/-- After every covered history, the item of every readable sequence describes a region inside
ONE existing data page, and its index page exists. -/
theorem message_within_one_page (ops : List Op) (h : OpsOK St.init ops) (n : Nat)
    (hr : Readable (run St.init ops).q n) :
    (entry (run St.init ops).mem n).off + (entry (run St.init ops).mem n).len ≤ dataPageSize ∧
    (entry (run St.init ops).mem n).pg ∈ (run St.init ops).mem.dataLive ∧
    n / indexItemsPerPage ∈ (run St.init ops).mem.indexLive := by
  obtain ⟨⟨_, h2, h3⟩, h4⟩ := (run_inv_ok init_inv ops h).core.ent n hr
  exact ⟨h2, h3, h4⟩

/-- GET BOUNDS after every covered history (GCs, reopens, crashes, failed appends, resets
included): `Get s` answers out-of-range exactly when `s > appended ∨ s ≤ acknowledged`; for
every `acknowledged < s ≤ appended` it returns the message; it never answers "not found". -/
theorem get_range_exact (ops : List Op) (h : OpsOK St.init ops) (s : Int) :
    (get (run St.init ops) s = .outOfRange ↔
      (s > (run St.init ops).q.appended ∨ s ≤ (run St.init ops).q.acked)) ∧
    ((run St.init ops).q.acked < s ∧ s ≤ (run St.init ops).q.appended → ∃ b, get (run St.init ops) s = .ok b) ∧
    get (run St.init ops) s ≠ .notFound := by
  obtain ⟨h1, h2, h3⟩ := get_total (run_inv_ok init_inv ops h) s
  exact ⟨h1, fun hr => ⟨_, h2 hr⟩, h3⟩

/-- A FAILED APPEND CHANGES NOTHING OBSERVABLE, index-page variant: after a Put that failed
because the index-page switch failed (the cursor has moved over the abandoned space), `Get` of
EVERY sequence — readable, acknowledged, beyond the end — answers exactly as before, and both
positions are unchanged. (For the other two failures the whole state is unchanged:
`failed_put_preserves`, `rejected_put_preserves`.) -/
theorem failed_index_put_unobservable (pre : List Op) (hpre : OpsOK St.init pre) (m : Msg)
    (hf : (putFI (run St.init pre) m).2 = .acquireFailed) (s : Int) :
    get (putFI (run St.init pre) m).1 s = get (run St.init pre) s ∧
    (putFI (run St.init pre) m).1.q.appended = (run St.init pre).q.appended ∧
    (putFI (run St.init pre) m).1.q.acked = (run St.init pre).q.acked := by
  have I1 := run_inv_ok init_inv pre hpre
  obtain ⟨I2, _, _, p3⟩ := putFI_inv I1 m
  obtain ⟨ha, hk⟩ := failed_index_put_keeps_sequences (run St.init pre) (putFI (run St.init pre) m).1 m
    (Prod.ext rfl hf)
  refine ⟨?_, ha, hk⟩
  obtain ⟨a1, a2, _⟩ := get_total I1 s
  obtain ⟨b1, b2, _⟩ := get_total I2 s
  by_cases h : s > (run St.init pre).q.appended ∨ s ≤ (run St.init pre).q.acked
  · rw [a1.mpr h, b1.mpr (by rw [ha, hk]; exact h)]
  · have hr : (run St.init pre).q.acked < s ∧ s ≤ (run St.init pre).q.appended := by omega
    rw [a2 hr, b2 (by rw [ha, hk]; exact hr)]
    have hlo := I1.core.ackLo
    have r1 : Readable (run St.init pre).q s.toNat := by unfold Readable; omega
    have r2 : Readable (putFI (run St.init pre) m).1.q s.toNat := by unfold Readable; rw [ha, hk]; omega
    rw [p3 _ r1 r2]

/-- `partition.WriteLog`: a write that returned success under sequence `s` is a `Put` that
returned `s`, so it is read back byte for byte while above the acknowledged position, whatever
history follows (`get_after_put`). -/
theorem writeLog_readable (pre post : List Op) (m : Msg) (st2 : St) (s : Int) (closed : Bool)
    (hpre : OpsOK St.init pre)
    (hw : writeLog closed (run St.init pre) m = (st2, .put (.ok s)))
    (hpost : OpsOK st2 post) (hstay : Stays st2 s.toNat post) :
    closed = false ∧ 0 < m.len ∧ get (run st2 post) s = .ok m.bytes := by
  unfold writeLog at hw
  split at hw
  · cases hw
  · rename_i hc
    split at hw
    · cases hw
    · rename_i hl
      have hput : put (run St.init pre) m = (st2, .ok s) := by
        injection hw with h1 h2
        injection h2 with h2
        exact Prod.ext h1 h2
      exact ⟨by simpa using hc, by omega, get_after_put pre post m st2 s hpre hput hpost hstay⟩

/-- `WriteLog` on a closed partition, of an empty message, or rejected by the queue: the queue
is exactly as it was (no sequence is consumed by the empty message). -/
theorem writeLog_not_appended (closed : Bool) (st st' : St) (m : Msg) (r : WlRes)
    (h : writeLog closed st m = (st', r)) (hr : ∀ s, r ≠ .put (.ok s)) (hnf : r ≠ .put .acquireFailed) : st' = st := by
  unfold writeLog at h
  split at h
  · injection h with h1 _; exact h1.symm
  · split at h
    · injection h with h1 _; exact h1.symm
    · injection h with h1 h2
      subst h2
      cases hp : (put st m).2 with
      | ok s => exact absurd (by rw [hp]) (hr s)
      | acquireFailed => exact absurd (by rw [hp]) hnf
      | tooLarge =>
        rw [← h1]
        exact rejected_put_preserves st (put st m).1 m (Prod.ext rfl hp)

/-- `partition.ReplicaLog` answering "appended under `i`": then `i` is the index the leader sent,
it is the queue's next sequence, and the message is a `Put` that returned `i` — read back under
`i` while above the acknowledged position after any later history. -/
theorem replicaLog_ok_readable (pre post : List Op) (m : Msg) (st2 : St) (idx i : Int) (closed : Bool)
    (hpre : OpsOK St.init pre)
    (hrl : replicaLog closed (run St.init pre) idx m = (st2, .ok i))
    (hpost : OpsOK st2 post) (hstay : Stays st2 i.toNat post) :
    closed = false ∧ i = idx ∧ i = (run St.init pre).q.appended + 1 ∧ st2.q.appended = i ∧
    get (run st2 post) i = .ok m.bytes := by
  unfold replicaLog at hrl
  split at hrl
  · cases hrl
  · rename_i hc
    dsimp only at hrl
    split at hrl
    · cases hrl
    · rename_i hidx
      split at hrl
      · rename_i st' s hp
        injection hrl with h1 h2
        injection h2 with h2
        subst h1
        obtain ⟨e1, e2⟩ := put_returns_next _ _ _ _ hp
        have hs : s = i := by omega
        subst hs
        exact ⟨by simpa using hc, by omega, e1, e2, get_after_put pre post m st' s hpre hp hpost hstay⟩
      · injection hrl with _ h2; cases h2

/-- `ReplicaLog` with an index other than the next sequence (or on a closed partition): nothing
is appended; the answer is the index the follower expects next. -/
theorem replicaLog_skip_unchanged (closed : Bool) (st st' : St) (idx : Int) (m : Msg) (r : RlRes)
    (h : replicaLog closed st idx m = (st', r)) (hne : closed = true ∨ idx ≠ st.q.appended + 1) :
    st' = st ∧ (closed = false → r = .skip (st.q.appended + 1)) := by
  unfold replicaLog at h
  split at h
  · injection h with h1 _; exact ⟨h1.symm, fun hc => by simp_all⟩
  · rename_i hc
    dsimp only at h
    split at h
    · injection h with h1 h2; exact ⟨h1.symm, fun _ => h2.symm⟩
    · rename_i hidx
      rcases hne with h' | h'
      · exact absurd h' hc
      · exact absurd h' (by simpa using hidx)

/-- `ResetReplicaIndex(idx)` is `SetAppendedSeq(idx − 1)`: the next append gets index `idx` -/
theorem resetReplicaIndex_next (st : St) (idx : Int) (m : Msg) (st' : St) (s : Int)
    (h : put (resetReplicaIndex st idx) m = (st', .ok s)) : s = idx ∧ replicaAckIndex st' = idx := by
  obtain ⟨e1, e2⟩ := put_returns_next _ _ _ _ h
  have : (resetReplicaIndex st idx).q.appended = idx - 1 := rfl
  exact ⟨by omega, by unfold replicaAckIndex; omega⟩

/-! ## non-vacuity -/

/-- a factory history with page ids that do not start at 0, two truncations, a closed phase and a
reload: the invariant's hypotheses are met by a non-trivial state -/
example :
    let f := (Fct.new [3, 1, 2] 64).run [.acquire 5, .truncate 2, .truncate 3, .acquire 3, .close, .acquire 9,
      .truncate 9, .reopen, .acquire 7]
    f.pages = [7, 3, 5] ∧ f.size = 192 ∧ f.closed = false ∧ FInv f := by
  refine ⟨by decide, by decide, by decide, ?_⟩
  exact factory_invariant [3, 1, 2] 64 _

/-- the partition glue on a concrete history: write, replica with the expected index, replica
with a stale index (skipped), empty write (no sequence), reset, replica at the reset index -/
example :
    let s1 := (writeLog false St.init msgA).1
    let r2 := replicaLog false s1 1 msgB
    let r3 := replicaLog false r2.1 1 msgC
    let r4 := writeLog false r3.1 (Msg.ofList [])
    let s5 := resetReplicaIndex r4.1 10
    let r6 := replicaLog false s5 10 msgC
    (writeLog false St.init msgA).2 = .put (.ok 0) ∧ r2.2 = .ok 1 ∧ r3.2 = .skip 2 ∧ r4.2 = .noop ∧
    r6.2 = .ok 10 ∧ get r3.1 0 = .ok msgA.bytes ∧ get r3.1 1 = .ok msgB.bytes ∧ get r6.1 10 = .ok msgC.bytes ∧
    (writeLog true r6.1 msgA).2 = .closed := by
  refine ⟨by decide, by decide, by decide, by decide, by decide, by decide, by decide, by decide, by decide⟩

/-- a sequential history with a roll-over, an ack, a GC, a crash inside the copy, a crash
inside the index stores and a reopen, after which a Put returns and is read back -/
example :
    let pre : List Op := [.put (Msg.gen 0 134217000), .put msgA, .ack 0, .put (Msg.gen 7 1000), .gc,
      .crashPut msgB 5, .crashPut msgB 14, .reopen]
    ∃ st2, put (run St.init pre) msgC = (st2, .ok 3) ∧ (run st2 [.put msgA, .reopen]).q.acked < 3 ∧
      get (run st2 [.put msgA, .reopen]) 3 = .ok msgC.bytes := by
  refine ⟨_, rfl, by decide, by decide⟩

/-- a three-step schedule in which two Puts overlap and persist in reverse order: both are
read back (no restart in the schedule) -/
example : ∃ σ, crun .threeStep CSt.init
      [.alloc 0 msgA, .alloc 1 msgB, .write 1, .persist 1, .write 0, .persist 0] = some σ ∧
    get σ.st 0 = .ok msgB.bytes ∧ get σ.st 1 = .ok msgA.bytes := ⟨_, rfl, by decide, by decide⟩

/-- GC split into its steps and overlapped by two Puts, the second rolling the data page,
with everything acknowledged when GC read the acknowledged sequence (the shape in which a
bound taken from the live write cursor would delete page 0): both messages are read back. -/
example : ∃ σ, crun .atomic CSt.init (oPre ++ [oEv] ++ oPost) = some σ ∧
    get σ.st 1 = .ok msgA.bytes ∧ get σ.st 2 = .ok msgB64.bytes ∧ violates .atomic oPre oEv oPost = false :=
  ⟨_, rfl, by decide, by decide, by decide⟩

/-- a failed roll-over (AcquirePage error) followed by a smaller append that still fits the
old page and by the retried roll-over: the failed Put changes nothing, the later ones are read back -/
example :
    let pre : List Op := [.put (Msg.gen 0 134217708)]
    (putF (run St.init pre) msgB64).2 = .acquireFailed ∧
    get (run St.init (pre ++ [.putFail msgB64, .put msgA, .put msgB64])) 1 = .ok msgA.bytes ∧
    get (run St.init (pre ++ [.putFail msgB64, .put msgA, .put msgB64])) 2 = .ok msgB64.bytes := by
  refine ⟨by decide, by decide, by decide⟩

/-- repeated ack + GC rounds on factories whose smallest page id is already above 0 (three
data pages; second and third GC; reopen of a truncated queue, then GC again) -/
example :
    let ops : List Op := [.put (Msg.gen 0 134217000), .put (Msg.gen 1 134217000), .put (Msg.gen 2 134217000),
      .ack 0, .gc, .gc, .put msgA, .ack 1, .gc, .reopen, .gc, .put msgB]
    (run St.init ops).mem.dataLive = [2, 1] ∧ get (run St.init ops) 3 = .ok msgA.bytes ∧
      get (run St.init ops) 4 = .ok msgB.bytes ∧ getLoc (run St.init ops) 2 = .loc ⟨2, 0, 134217000⟩ := by
  refine ⟨by decide, by decide, by decide, by decide⟩

/-- resets: forward onto the last slot of an index page two pages ahead (k·262144−1), an append
(it lands in a third index page), reopen, a backward reset onto that append, another append:
`ResetOK` holds at both resets, sequences continue at target+1, everything is read back. -/
example :
    let st1 := run St.init [.put msgA]
    let st2 := (put (setAppended st1 524287) msgB).1
    let st3 := reopen st2
    let st4 := (put (setAppended st3 524288) msgC).1
    ResetOK st1 524287 ∧ (put (setAppended st1 524287) msgB).2 = .ok 524288 ∧
    get st3 524288 = .ok msgB.bytes ∧ ResetOK st3 524288 ∧
    (put (setAppended st3 524288) msgC).2 = .ok 524289 ∧ get (reopen st4) 524289 = .ok msgC.bytes := by
  refine ⟨⟨by decide, ?_, Or.inl (by decide)⟩, by decide, by decide, ⟨by decide, ?_, Or.inl (by decide)⟩,
    by decide, by decide⟩
  · intro n hn
    have : n = 524287 := by omega
    subst this; decide
  · intro n hn
    have : n = 524288 := by omega
    subst this; decide

/-! ## round 9: the writers of the meta page as threads (Model/C05QueueMeta.lean)

Put (persistMetaOfMessage), SetAppendedSeq, SetAcknowledgedSeq and initSequence are instruction
lists with their `lock` / `unlock` calls, regenerated from queue.go. Interleavings are at the
granularity of ONE instruction of any number of callers; `crash` anywhere. -/

section MetaWriters
open LinVerif.QueueMeta

/-- the regenerated programs decode to the ones the invariant was proved for: every store into
the meta page and into the in-memory sequences, its value source, and the lock region it is in -/
theorem meta_writers_tie : decodeProgs C05Meta.metaWriters = some currentProgs := by decide

/-- THE STATEMENT: whatever the interleaving of the instructions of concurrent Put /
SetAppendedSeq / SetAcknowledgedSeq callers and wherever the process crashes, the appended
sequence in the meta page (what NewQueue will read) is at least every sequence a successful Put
has handed out (and no later reset has discarded). Over the programs found in the source NOW. -/
theorem meta_persisted_covers_returned (P : Progs) (hP : decodeProgs C05Meta.metaWriters = some P)
    (a k : Int) (evs : List MEv) (σ : MSt) (h : mrun P (MSt.start a k) evs = some σ) :
    ∀ s ∈ σ.rets, s ≤ σ.diskApp := by
  rw [meta_writers_tie] at hP
  cases hP
  intro s hs
  exact ((run_inv evs _ σ (minv_start a k) h).rets s hs).1

/-- between critical sections the meta page and memory agree: close/reopen changes neither sequence -/
theorem meta_quiescent_synced (a k : Int) (evs : List MEv) (σ : MSt)
    (h : mrun currentProgs (MSt.start a k) evs = some σ) (hq : σ.holder = none) :
    σ.diskApp = σ.memApp ∧ σ.diskAck = σ.memAck :=
  (run_inv evs _ σ (minv_start a k) h).free hq

/-- a crash at ANY point (inside a critical section included) keeps every returned sequence in range:
after NewQueue the appended sequence is the persisted one, which covers them -/
theorem meta_crash_keeps_returned (a k : Int) (evs : List MEv) (σ : MSt)
    (h : mrun currentProgs (MSt.start a k) evs = some σ) :
    (crash currentProgs σ).rets = σ.rets ∧ (crash currentProgs σ).memApp = σ.diskApp ∧
      ∀ s ∈ σ.rets, s ≤ (crash currentProgs σ).memApp := by
  have hi := run_inv evs _ σ (minv_start a k) h
  refine ⟨by simp [crash, currentProgs, execInstr], by simp [crash, currentProgs, execInstr, Src.eval], ?_⟩
  intro s hs
  have := (hi.rets s hs).1
  simpa [crash, currentProgs, execInstr, Src.eval] using this

/-- mutual exclusion as the code has it: a caller that does not hold rwMutex has executed nothing -/
theorem meta_lock_excludes (a k : Int) (evs : List MEv) (σ : MSt)
    (h : mrun currentProgs (MSt.start a k) evs = some σ) (t : Nat) (ht : σ.holder ≠ some t) :
    σ.ths t = .idle ∨ ∃ kd arg, σ.ths t = .run kd 0 0 arg :=
  (run_inv evs _ σ (minv_start a k) h).others t ht

/-- non-vacuity: three appends, a backward reset to 1 between them, an ack; callers started
while another one is inside its critical section -/
example :
    (mrun currentProgs (MSt.start (-1) (-1))
      ([.call 0 .put 0, .call 1 .put 0, .step 0, .step 0, .call 2 .reset 1, .step 0, .step 0, .step 0] ++
       [.step 1, .step 1, .step 1, .step 1, .step 1] ++
       [.step 2, .step 2, .step 2, .step 2, .step 2, .step 2, .step 2] ++
       [.call 0 .put 0, .step 0, .step 0, .step 0, .step 0, .step 0, .call 3 .ack 2] ++
       [.step 3, .step 3, .step 3, .step 3, .step 3, .step 3])).map
      (fun σ => (σ.rets, σ.memApp, σ.memAck, σ.diskApp, σ.diskAck)) = some ([2, 1, 0], 2, 2, 2, 2) := by
  decide

/-- the thread programs refine the sequential queue model: one caller running Put / SetAppendedSeq /
SetAcknowledgedSeq alone to its return leaves exactly the four sequence words (memory and meta page)
that `put` / `setAppended` / `ack` of Model/Queue.lean leave, a Put hands out the sequence `put`
answers, and `crash` reads back what `openQ` reads back -/
theorem meta_threads_refine_sequential (st : St) :
    (∀ m : Msg, m.len ≤ dataPageSize →
      (mrun currentProgs (MSt.ofSt st) (alone .put 0 5)).map (fun σ => (σ.words, σ.rets, σ.holder)) =
        some (wordsOf (put st m).1, [st.q.appended + 1], none) ∧ (put st m).2 = .ok (st.q.appended + 1)) ∧
    (∀ s : Int,
      (mrun currentProgs (MSt.ofSt st) (alone .reset s 7)).map (fun σ => (σ.words, σ.rets, σ.holder)) =
        some (wordsOf (setAppended st s), [], none)) ∧
    (∀ s : Int,
      (mrun currentProgs (MSt.ofSt st)
          (alone .ack s (if s > st.q.acked ∧ s ≤ st.q.appended then 6 else 3))).map
          (fun σ => (σ.words, σ.rets, σ.holder)) = some (wordsOf (ack st s), [], none)) ∧
    (st.mem.hasMeta = true → (crash currentProgs (MSt.ofSt st)).words = wordsOf (openQ st.mem)) :=
  ⟨fun m hm => ⟨put_alone st m hm, (put_words st m hm).2⟩, reset_alone st, ack_alone st, crash_is_openQ st⟩

end MetaWriters

/-! ## round 12: WHICH index page object an append stores its item through

`persistMetaOfMessage` stores the item through the object `q.indexPage`; Get / GC / NewQueue look
the item up in the page computed from the sequence. Model/C05IndexPos.lean keeps the object apart
from `q.indexPageIndex`, takes the switch test as a parameter and has SetAppendedSeq (replica
ResetReplicaIndex / ResetAppendIndex) and Close+NewQueue as operations. -/

section IndexPosition
open LinVerif.Queue.IndexPos

/-- the switch test found in /repo's source now (first if-condition of persistMetaOfMessage) -/
def generatedSw : Option Sw := decodeSw C05.persistSwitchCond

/-- every assignment of initDataPageIndex, in source order -/
def expectedInitDataPageIndexAssigns : List String :=
  ["q.dataPageIndex = 0", "q.messageOffset = 0", "q.dataPage, err = q.dataPageFct.AcquirePage(0)", "q.indexPage, err = q.indexPageFct.AcquirePage(0)", "previousSeq := q.appendedSeq.Load()", "q.indexPageIndex = previousSeq / indexItemsPerPage", "q.indexPage, err = q.indexPageFct.AcquirePage(q.indexPageIndex)", "indexOffset := int((previousSeq % indexItemsPerPage) * indexItemLength)", "q.dataPageIndex = int64(q.indexPage.ReadUint64(indexOffset + queueDataPageIndexOffset))", "previousMessageOffset := q.indexPage.ReadUint32(indexOffset + messageOffsetOffset)", "previousMessageLength := q.indexPage.ReadUint32(indexOffset + messageLengthOffset)", "q.messageOffset = int(previousMessageOffset + previousMessageLength)", "q.dataPage, err = q.dataPageFct.AcquirePage(q.dataPageIndex)"]

/-- the regenerated positioning code: the switch test, every condition and assignment of
persistMetaOfMessage (object and number are assigned together, after AcquirePage succeeded), the
assignments of the object / the number in initDataPageIndex, the complete list of functions of
queue.go that assign either of them, and the second caller of SetAppendedSeq
(replica/replicator.go ResetAppendIndex, `idx - 1`) -/
theorem index_switch_tie :
    generatedSw = some currentSw ∧
    C05.persistConds = ["indexPageIndex != q.indexPageIndex", "err != nil", "err != nil"] ∧
    C05.persistAssigns = ["seq := q.appendedSeq.Load() + 1", "indexPageIndex := seq / indexItemsPerPage",
      "err := q.indexPage.Sync()", "indexPage, err := q.indexPageFct.AcquirePage(indexPageIndex)",
      "q.indexPage = indexPage", "q.indexPageIndex = indexPageIndex",
      "indexOffset := int((seq % indexItemsPerPage) * indexItemLength)"] ∧
    C05.initDataPageIndexConds.head? = some "q.appendedSeq.Load() == SeqNoNewMessageAvailable" ∧
    C05.initDataPageIndexAssigns = expectedInitDataPageIndexAssigns ∧
    C05.indexPageWriters = ["persistMetaOfMessage", "initDataPageIndex"] ∧
    C05.resetAppendIndexCalls = ["r.channel.ConsumerGroup.Queue", "r.channel.ConsumerGroup.Queue().SetAppendedSeq"] ∧
    C05.resetAppendIndexArgs = ["idx - 1"] := by
  refine ⟨by simp [generatedSw, decodeSw, C05.persistSwitchCond], ?_⟩
  decide

/-- the configured page size (`wal.page-size`, NewQueue's argument) is looked at by NewQueue only (it
creates the data factory with it, `meta_layout_tie`): Put's size limit and alloc's roll-over use the
constant (`guards_tie`), so the model has no page-size parameter. The harness opens and reopens
with different sizes. -/
theorem page_size_config_tie : C05.pageSizeUsers = ["NewQueue"] := by decide

theorem currentSw_ok (P : Nat) : SwOK P currentSw := by
  intro ipg idx slot _ hne
  simp [currentSw, hne]

/-- CHARACTERISATION of the switch test, for any number `P > 0` of items per index page: every
history of appends, resets onto any target ≥ -1 and close/reopen stores every item in the page
(and slot) computed from its sequence IF AND ONLY IF the test fires whenever the page of the new
sequence differs from `q.indexPageIndex`. (⇐ by the invariant "held object = indexPageIndex";
⇒ by an explicit history for every (page, held page, slot) on which the test stays silent.) -/
theorem index_switch_exact (P : Nat) (hP : 0 < P) (sw : Sw) :
    (∀ ops : List POp, (∀ op ∈ ops, op.wf) →
        LandsRight P (runPos P sw (initPos P (-1)) ops).2) ↔ SwOK P sw := by
  constructor
  · intro h ipg idx slot hslot hne
    cases hsw : sw ipg idx slot with
    | true => rfl
    | false =>
      exact absurd (h _ (witness_wf P ipg idx slot)) (bad_switch_witness P hP sw ipg idx slot hslot hne hsw)
  · intro h ops hw
    exact (run_lands P hP sw h ops _ (init_inv P (-1) (by omega)) hw).2

/-- the current source: after EVERY history (resets across any number of index pages, forwards and
backwards, reopen anywhere) the held object is the page of `q.indexPageIndex`, and every append
stored its item at (seq / 262144, seq % 262144) — where Get, GC and NewQueue read it -/
theorem index_store_page_follows_seq (ops : List POp) (hw : ∀ op ∈ ops, op.wf) :
    let r := runPos indexItemsPerPage currentSw (initPos indexItemsPerPage (-1)) ops
    r.1.held = r.1.idx ∧ LandsRight indexItemsPerPage r.2 := by
  have := run_lands indexItemsPerPage (by decide) currentSw (currentSw_ok _) ops _
    (init_inv indexItemsPerPage (-1) (by omega)) hw
  exact ⟨this.1.1, this.2⟩

/-- the same for whatever switch test decodes from the regenerated condition text: fails by name on
a tree whose test is another one -/
theorem index_switch_generated :
    ∀ sw, generatedSw = some sw →
      ∀ ops : List POp, (∀ op ∈ ops, op.wf) →
        LandsRight indexItemsPerPage (runPos indexItemsPerPage sw (initPos indexItemsPerPage (-1)) ops).2 := by
  intro sw hsw
  have h : some sw = some currentSw := hsw ▸ index_switch_tie.1
  cases h
  exact fun ops hw => (index_store_page_follows_seq ops hw).2

/-- bridge to Model/Queue.lean (whose `persistStores` stores into the computed page): Put,
SetAppendedSeq and initDataPageIndex move (`indexPageIndex`, appended) exactly as the position model
does under the current test, and the page/slot the position model's object receives the item in is
the page/slot `persistStores` writes -/
theorem index_pos_refines_queue_model (st : St) :
    (∀ m : Msg, ¬ m.len > dataPageSize →
      posOf (put st m).1.q = (persistPos indexItemsPerPage currentSw (posOf st.q)).1) ∧
    (persistPos indexItemsPerPage currentSw (posOf st.q)).2 =
      ⟨nextSeq st.q, nextSeq st.q / indexItemsPerPage, nextSeq st.q % indexItemsPerPage⟩ ∧
    (∀ s : Int, posOf (setAppended st s).q =
      (stepPos indexItemsPerPage currentSw (posOf st.q) (.reset s)).1) ∧
    (∀ app ack : Int, posOf (initDataPageIndex st.mem app ack).q = initPos indexItemsPerPage app) :=
  ⟨put_pos st, persist_store st.q, setAppended_pos st, init_pos st.mem⟩

/-- non-vacuity: three appends, forward reset into index page 1 (not onto a page boundary), append,
backward reset into page 0, append, reopen, append, reset exactly before a boundary, append -/
example :
    (runPos indexItemsPerPage currentSw (initPos indexItemsPerPage (-1))
      [.put, .put, .put, .reset 300000, .put, .reset 5, .put, .reopen, .put, .reset 524287, .put]).2 =
      [⟨0, 0, 0⟩, ⟨1, 0, 1⟩, ⟨2, 0, 2⟩, ⟨300001, 1, 37857⟩, ⟨6, 0, 6⟩, ⟨7, 0, 7⟩, ⟨524288, 2, 0⟩] := by
  decide

end IndexPosition

/-! ## the property does not hold for the three-step structure -/

namespace Neg

/-- overlap + reverse persist order + close/reopen + one more Put: sequence 0 (message B,
whose Put had returned) is overwritten by C. -/
theorem reopen_witness : violates .threeStep wPre wEv wPost = true := by decide

/-- the same with a process crash instead of close/reopen -/
theorem crash_witness : violates .threeStep wPre wEv wPostCrash = true := by decide

/-- overlap across a page roll-over + reverse persist order + ack + GC: the page holding the
unacknowledged sequence 2 is truncated; Get answers not-found. -/
theorem gc_witness : violates .threeStep gPre gEv gPost = true := by decide

/-- what `Get 0` returns after the reopen witness: C's first 12 bytes, not B -/
theorem reopen_witness_bytes :
    (crun .threeStep CSt.init (wPre ++ [wEv] ++ wPost)).map (fun σ => get σ.st 0) =
      some (.ok [67, 67, 67, 67, 67, 67, 67, 67, 67, 67, 67, 67]) := by decide

theorem concurrent_put_threeStep_fails : ¬ ConcurrentPut .threeStep (fun _ => True) :=
  violates_sound reopen_witness

/-- on a tree whose Put has the three-step structure the full statement is false -/
theorem concurrent_put_statement_fails (h : currentShape = .threeStep) : ¬ concurrent_put_statement := by
  unfold concurrent_put_statement; rw [h]; exact concurrent_put_threeStep_fails

/-- the same witnesses are NOT violations when Put is one critical section -/
theorem atomic_passes_witnesses :
    violates .atomic wPre wEv wPost = false ∧ violates .atomic gPre gEv gPost = false := by decide

/-! ### three rewrites of the code that break the property (seeded as changes c05-13/14/15) -/

/-- the sequence is read before the lock: two overlapping Puts read sequence 0; both return
success under sequence 0, the appended sequence is 0 after two appends, and `Get 0` returns the
second message — the first returned append is unreadable -/
theorem seq_read_outside_lock_witness :
    let r1 := Mutant.putWithSeq St.init msgA 0
    let r2 := Mutant.putWithSeq r1.1 msgB 0
    r1.2 = .ok 0 ∧ r2.2 = .ok 0 ∧ r2.1.q.appended = 0 ∧ get r2.1 0 = .ok msgB.bytes ∧
      get r2.1 0 ≠ .ok msgA.bytes := by decide

/-- the index-page switch fails silently on the append that starts index page 1: the Put
reports success with sequence 262144, but `Get 262144` finds no index page -/
theorem index_switch_lost_witness :
    let st := setAppended (run St.init [.put msgA]) 262143
    let r := Mutant.putIdxSwitchLost st msgB
    r.2 = .ok 262144 ∧ get r.1 262144 = .notFound ∧ (put st msgB).2 = .ok 262144 ∧
      get (put st msgB).1 262144 = .ok msgB.bytes := by decide

/-- NewQueue rewinds a fully acknowledged queue to data page 0: with the last message on data
page 1, the next append lands on page 0, and GC (bound = page of the acknowledged sequence = 1)
deletes it — with the real `openQ` the same history reads the message back -/
theorem drained_rewind_witness :
    let st := run St.init [.put (Msg.gen 0 134217000), .put (Msg.gen 1 134217000), .ack 1]
    let bad := gc (put (Mutant.openQDrained st.mem) msgA).1
    let good := gc (put (openQ st.mem) msgA).1
    (put (Mutant.openQDrained st.mem) msgA).2 = .ok 2 ∧ get bad 2 = .notFound ∧
      get good 2 = .ok msgA.bytes ∧ (openQ st.mem).q.dataPageIndex = 1 := by decide

/-! ### SetAppendedSeq storing the meta page after its unlock (seeded as change c05-22) -/

/-- reset to 10 releases the lock after the in-memory stores; a Put runs completely in the window
(sequence 11, returned); the reset then stores the stale 10 over it: memory says 11, the meta page
says 10, and after a crash / reopen the appended sequence is 10 — the returned 11 is out of range -/
theorem unlocked_meta_store_witness :
    (QueueMeta.mrun QueueMeta.splitResetProgs (QueueMeta.MSt.start 2 (-1))
      ([.call 0 .reset 10, .step 0, .step 0, .step 0, .step 0] ++
       [.call 1 .put 0, .step 1, .step 1, .step 1, .step 1, .step 1] ++
       [.step 0, .step 0, .step 0])).map
      (fun σ => (σ.rets, σ.memApp, σ.diskApp, (QueueMeta.crash QueueMeta.splitResetProgs σ).memApp)) =
      some ([11], 11, 10, 10) := by decide

/-- hence the statement is false for that program -/
theorem meta_statement_fails_for_split :
    ¬ (∀ (evs : List QueueMeta.MEv) (σ : QueueMeta.MSt),
        QueueMeta.mrun QueueMeta.splitResetProgs (QueueMeta.MSt.start 2 (-1)) evs = some σ →
        ∀ s ∈ σ.rets, s ≤ σ.diskApp) := by
  intro h
  have hw := unlocked_meta_store_witness
  simp only [Option.map_eq_some_iff, Prod.mk.injEq] at hw
  obtain ⟨σ, hr, h1, _, h3, _⟩ := hw
  have := h _ σ hr 11 (by simp [h1])
  omega

/-- with the current programs the window does not exist: the Put's `lock` is not enabled while the
reset is inside its critical section -/
theorem current_has_no_window :
    (QueueMeta.mrun QueueMeta.currentProgs (QueueMeta.MSt.start 2 (-1))
      [.call 0 .reset 10, .step 0, .step 0, .step 0, .step 0, .call 1 .put 0, .step 1]).isNone = true := by
  decide

/-- c05-25's shape — switch only when the slot wraps to 0 ("sequences grow by one"): three appends,
`SetAppendedSeq(300000)`, one append: the item of sequence 300001 goes into page 0 (held object),
Get looks in page 1 -/
theorem wrap_only_switch_witness :
    (IndexPos.runPos indexItemsPerPage IndexPos.wrapSw (IndexPos.initPos indexItemsPerPage (-1))
      [.put, .put, .put, .reset 300000, .put]).2.getLast? = some ⟨300001, 0, 37857⟩ := by decide

/-- hence "every item lands in its own page" is false for that test, and likewise for the
forward-only test (c05-23's shape): both are instances of the characterisation -/
theorem wrap_only_switch_fails :
    ¬ (∀ ops : List IndexPos.POp, (∀ op ∈ ops, op.wf) →
        IndexPos.LandsRight indexItemsPerPage
          (IndexPos.runPos indexItemsPerPage IndexPos.wrapSw (IndexPos.initPos indexItemsPerPage (-1)) ops).2) := by
  intro h
  have := (index_switch_exact indexItemsPerPage (by decide) IndexPos.wrapSw).mp h 1 0 1 (by decide) (by decide)
  simp [IndexPos.wrapSw] at this

theorem forward_only_switch_fails :
    ¬ (∀ ops : List IndexPos.POp, (∀ op ∈ ops, op.wf) →
        IndexPos.LandsRight indexItemsPerPage
          (IndexPos.runPos indexItemsPerPage IndexPos.greaterSw (IndexPos.initPos indexItemsPerPage (-1)) ops).2) := by
  intro h
  have := (index_switch_exact indexItemsPerPage (by decide) IndexPos.greaterSw).mp h 0 1 5 (by decide) (by decide)
  simp [IndexPos.greaterSw] at this

end Neg

end LinVerif.Props.C05
