/-
C04 — which target segment / family a source family rolls into (the locating lines of
`family.rollup()`, `locate`), as a function of the source DAY and hour: sibling families, different
days, month and year boundaries. (That the timestamps of the source family lie inside the located
family is `slot_placement_*`; here: which source families share a target family.)
-/
import LinVerif.Lemmas.C04Arith
import LinVerif.Lemmas.C04Calendar

set_option linter.unusedSimpArgs false
namespace LinVerif.Props.C04
open LinVerif.Rollup LinVerif.Lemmas.C04

/-- month-type target: all 24 hour families of one source day roll into ONE target family of one
target segment (so their rollup jobs share one `referenceFiles` table and one set of sst files) … -/
theorem target_family_month_same_day (c : Cal) (src tgt D h h' : Int) (hc : c.OkAt D)
    (hs : itype src = .day) (ht : itype tgt = .month) (hh : 0 ≤ h ∧ h < 24) (hh' : 0 ≤ h' ∧ h' < 24) :
    (locate c src tgt (D * oneDay) h).tSegTime = (locate c src tgt (D * oneDay) h').tSegTime ∧
    (locate c src tgt (D * oneDay) h).tFamily = (locate c src tgt (D * oneDay) h').tFamily ∧
    (locate c src tgt (D * oneDay) h).tFamStart = (locate c src tgt (D * oneDay) h').tFamStart := by
  rw [locate_month c src tgt D h hc hs ht hh, locate_month c src tgt D h' hc hs ht hh']
  exact ⟨rfl, rfl, rfl⟩

/-- … and source families of different days never share a month-type target family: not by name
(segment, family) and not by family start. -/
theorem target_family_month_distinct_days (c : Cal) (src tgt D D' h h' : Int) (hc : c.OkAt D) (hc' : c.OkAt D')
    (hs : itype src = .day) (ht : itype tgt = .month) (hh : 0 ≤ h ∧ h < 24) (hh' : 0 ≤ h' ∧ h' < 24)
    (hne : D ≠ D') :
    ¬ ((locate c src tgt (D * oneDay) h).tSegTime = (locate c src tgt (D' * oneDay) h').tSegTime ∧
       (locate c src tgt (D * oneDay) h).tFamily = (locate c src tgt (D' * oneDay) h').tFamily) ∧
    (locate c src tgt (D * oneDay) h).tFamStart ≠ (locate c src tgt (D' * oneDay) h').tFamStart := by
  rw [locate_month c src tgt D h hc hs ht hh, locate_month c src tgt D' h' hc' hs ht hh']
  dsimp only
  unfold oneDay
  constructor
  · rintro ⟨h1, h2⟩
    apply hne
    omega
  · omega

/-- year-type target: source families of days with the same (year, month) roll into the same target
family, whatever the day and hour … -/
theorem target_family_year_same_month (c : Cal) (src tgt D D' h h' : Int) (hc : c.OkAt D) (hc' : c.OkAt D')
    (hs : itype src = .day) (ht : itype tgt = .year) (hh : 0 ≤ h ∧ h < 24) (hh' : 0 ≤ h' ∧ h' < 24)
    (hy : c.yearStart D = c.yearStart D') (hn : c.monthNo D = c.monthNo D') :
    (locate c src tgt (D * oneDay) h).tSegTime = (locate c src tgt (D' * oneDay) h').tSegTime ∧
    (locate c src tgt (D * oneDay) h).tFamily = (locate c src tgt (D' * oneDay) h').tFamily ∧
    (locate c src tgt (D * oneDay) h).tFamStart = (locate c src tgt (D' * oneDay) h').tFamStart := by
  rw [locate_year c src tgt D h hc hs ht hh, locate_year c src tgt D' h' hc' hs ht hh']
  have hm : c.monthStart D = c.monthStart D' := by
    rw [← hc.inYear, ← hc'.inYear, hy, hn]
  dsimp only
  rw [hy, hn, hm]
  exact ⟨rfl, rfl, rfl⟩

/-- … and the name (segment, family) determines the family start the rollup object is built with: two
source families that write into the target family of the same name use the same base time. -/
theorem target_family_year_named_consistently (c : Cal) (src tgt D D' h h' : Int) (hc : c.OkAt D) (hc' : c.OkAt D')
    (hs : itype src = .day) (ht : itype tgt = .year) (hh : 0 ≤ h ∧ h < 24) (hh' : 0 ≤ h' ∧ h' < 24)
    (hseg : (locate c src tgt (D * oneDay) h).tSegTime = (locate c src tgt (D' * oneDay) h').tSegTime)
    (hfam : (locate c src tgt (D * oneDay) h).tFamily = (locate c src tgt (D' * oneDay) h').tFamily) :
    (locate c src tgt (D * oneDay) h).tFamStart = (locate c src tgt (D' * oneDay) h').tFamStart := by
  rw [locate_year c src tgt D h hc hs ht hh, locate_year c src tgt D' h' hc' hs ht hh'] at hseg hfam ⊢
  dsimp only at hseg hfam ⊢
  have hy : c.yearStart D = c.yearStart D' := by unfold oneDay at hseg; omega
  have hm : c.monthStart D = c.monthStart D' := by
    rw [← hc.inYear, ← hc'.inYear, hy, hfam]
  rw [hm]

/-- the real calendar: the hypotheses hold for every day -/
theorem target_family_month_distinct_days_greg (src tgt D D' h h' : Int)
    (hs : itype src = .day) (ht : itype tgt = .month) (hh : 0 ≤ h ∧ h < 24) (hh' : 0 ≤ h' ∧ h' < 24)
    (hne : D ≠ D') :
    (locate stdCal src tgt (D * oneDay) h).tFamStart ≠ (locate stdCal src tgt (D' * oneDay) h').tFamStart :=
  (target_family_month_distinct_days stdCal src tgt D D' h h' (stdCal_okAt D) (stdCal_okAt D') hs ht hh hh' hne).2

/-! ### boundaries (day numbers: 18261 = 2019-12-31, 18262 = 2020-01-01, 18321 = 2020-02-29,
18322 = 2020-03-01; 17897 = 2019-01-01, 18231 = 2019-12-01, 18293 = 2020-02-01) -/

/-- the last hour of a year rolls into family 12 of that year's segment, the first hour of the next
year into family 1 of the next segment -/
example :
    locate stdCal 10000 3600000 (18261 * oneDay) 23 =
      { srcFamStart := 18261 * 86400000 + 23 * 3600000, tSegTime := 17897 * 86400000, tFamily := 12,
        tFamStart := 18231 * 86400000 } ∧
    locate stdCal 10000 3600000 (18262 * oneDay) 0 =
      { srcFamStart := 18262 * 86400000, tSegTime := 18262 * 86400000, tFamily := 1,
        tFamStart := 18262 * 86400000 } := by
  decide

/-- Feb 29 of a leap year is family 29 of the February segment, Mar 1 family 1 of the March segment -/
example :
    locate stdCal 10000 300000 (18321 * oneDay) 23 =
      { srcFamStart := 18321 * 86400000 + 23 * 3600000, tSegTime := 18293 * 86400000, tFamily := 29,
        tFamStart := 18321 * 86400000 } ∧
    locate stdCal 10000 300000 (18322 * oneDay) 0 =
      { srcFamStart := 18322 * 86400000, tSegTime := 18322 * 86400000, tFamily := 1,
        tFamStart := 18322 * 86400000 } := by
  decide

end LinVerif.Props.C04
