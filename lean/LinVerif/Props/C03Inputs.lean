/-
C03 — a compaction whose input files cannot all be opened (third Props module of the check).

`Model/C03Inputs.lean`: `openLoop` = `compactJob.makeInputIterator`, `compactF` = `compactJob.Run` under a
fault placement `pl : position of the picked input ↦ ok | notExist | ioError`, the policy of the error
branch (`abort`) a parameter; the install step deletes ALL picked inputs whatever was opened.

For the policy of the current source (every failed open aborts — regenerated fact `openErrorAborts`, tie
`tie_open_inputs`) and for EVERY fault placement: the job either is the fault-free compaction or fails and
leaves the version as it was (`compaction_open_fault_cases`); hence the reader's view of every cell, presence,
membership and the invariant are preserved (`compaction_open_fault_preserves_view`, `…_presence`, `…_member`,
`…_invariant`), a fault on a picked input of a merge job fails the job (`open_fault_fails_job`), and any
history of flushes and (faulty) compactions shows the aggregate of everything flushed
(`history_open_faults_view`). `Neg.skipped_input_is_lost`: the "warn and continue" policy loses the skipped
file's values (the job reports success, the file is deleted with the other inputs).
-/
import LinVerif.Props.C03
import LinVerif.Model.C03Inputs

set_option linter.unusedSectionVars false
set_option linter.unusedSimpArgs false
set_option linter.unusedVariables false
namespace LinVerif.Props.C03
open LinVerif LinVerif.Map LinVerif.MetricBlock LinVerif.Merge LinVerif.Compact LinVerif.C03 LinVerif.C03Inputs

variable {V : Type}

/-- policy that aborts on every failed open -/
def AbortsEvery (abort : OpenRes → Bool) : Prop := ∀ r, r ≠ OpenRes.ok → abort r = true

theorem abortAll_abortsEvery : AbortsEvery abortAll := fun _ _ => rfl

/-- `makeInputIterator` with the aborting error branch returns an iterator only over ALL picked files, and
only if every open succeeded -/
theorem open_inputs_all_or_nothing (abort : OpenRes → Bool) (habort : AbortsEvery abort) (pl : Nat → OpenRes) :
    ∀ (l : List (File V)) (i : Nat) (o : List (File V)), openLoop abort pl i l = some o →
      o = l ∧ ∀ j, j < l.length → pl (i + j) = .ok := by
  intro l
  induction l with
  | nil =>
    intro i o h
    simp only [openLoop, Option.some.injEq] at h
    exact ⟨h.symm, fun j hj => absurd hj (Nat.not_lt_zero _)⟩
  | cons f rest ih =>
    intro i o h
    unfold openLoop at h
    cases hp : pl i with
    | ok =>
      rw [hp] at h
      simp only [] at h
      cases hr : openLoop abort pl (i + 1) rest with
      | none => rw [hr] at h; simp at h
      | some o' =>
        rw [hr] at h
        simp only [Option.map_some, Option.some.injEq] at h
        obtain ⟨h1, h2⟩ := ih (i + 1) o' hr
        refine ⟨by rw [← h, h1], ?_⟩
        intro j hj
        cases j with
        | zero => simpa using hp
        | succ j =>
          have := h2 j (by simpa using hj)
          rw [show i + (j + 1) = i + 1 + j by omega]
          exact this
    | notExist =>
      rw [hp] at h
      simp only [habort .notExist (by decide), if_true] at h
      cases h
    | ioError =>
      rw [hp] at h
      simp only [habort .ioError (by decide), if_true] at h
      cases h

/-- without a fault every picked file is opened, whatever the policy -/
theorem open_inputs_no_fault (abort : OpenRes → Bool) (l : List (File V)) (i : Nat) :
    openLoop abort noFault i l = some l := by
  induction l generalizing i with
  | nil => rfl
  | cons f rest ih =>
    have h := ih (i + 1)
    unfold openLoop
    have hp : noFault i = OpenRes.ok := rfl
    rw [hp]
    simp only []
    rw [h]
    rfl

/-- a failed open anywhere makes the aborting `makeInputIterator` return the error -/
theorem open_inputs_fault_aborts (abort : OpenRes → Bool) (habort : AbortsEvery abort) (pl : Nat → OpenRes)
    (l : List (File V)) (i j : Nat) (hj : j < l.length) (hf : pl (i + j) ≠ .ok) :
    openLoop abort pl i l = none := by
  cases h : openLoop abort pl i l with
  | none => rfl
  | some o => exact absurd ((open_inputs_all_or_nothing abort habort pl l i o h).2 j hj) hf

/-- **compaction_open_fault_cases.** With the aborting policy, for EVERY fault placement, a compaction job is
either exactly the fault-free job or it fails and leaves the version untouched. -/
theorem compaction_open_fault_cases (agg : FieldType → V → V → V) (abort : OpenRes → Bool)
    (habort : AbortsEvery abort) (pl : Nat → OpenRes) (p : Params V) (st : Family V) :
    compactF agg abort pl p st = compact agg p st ∨ compactF agg abort pl p st = (st, .crashed) := by
  unfold compactF compact
  by_cases h1 : st.l0.length < p.threshold
  · left; rw [if_pos h1, if_pos h1]
  · rw [if_neg h1, if_neg h1]
    simp only []
    by_cases h2 : st.l0.length = 1 ∧ (pickUp st.l0 st.l1).isEmpty
    · left; rw [if_pos h2, if_pos h2]
    · rw [if_neg h2, if_neg h2]
      by_cases h0 : p.failAt = some 0
      · right; rw [if_pos h0]
      · rw [if_neg h0]
        cases hO : openLoop abort pl 0 (st.l0 ++ pickUp st.l0 st.l1) with
        | none => right; rfl
        | some opened =>
          have := (open_inputs_all_or_nothing abort habort pl _ 0 opened hO).1
          subst this
          left; rfl

/-- the fault-free placement is the compaction of `Model/Compact.lean` (any policy) -/
theorem compactF_no_fault (agg : FieldType → V → V → V) (abort : OpenRes → Bool) (p : Params V) (st : Family V) :
    compactF agg abort noFault p st = compact agg p st := by
  unfold compactF compact
  by_cases h1 : st.l0.length < p.threshold
  · rw [if_pos h1, if_pos h1]
  · rw [if_neg h1, if_neg h1]
    simp only []
    by_cases h2 : st.l0.length = 1 ∧ (pickUp st.l0 st.l1).isEmpty
    · rw [if_pos h2, if_pos h2]
    · rw [if_neg h2, if_neg h2, open_inputs_no_fault]
      by_cases h0 : p.failAt = some 0
      · rw [if_pos h0]
        have : jobFails agg p (st.l0 ++ pickUp st.l0 st.l1) = true := by
          unfold jobFails; simp [h0]
        rw [if_pos this]
      · rw [if_neg h0]

/-- **open_fault_fails_job.** A merge job (not skipped, not a trivial move) with a failed open on one of its
picked inputs fails and installs nothing. -/
theorem open_fault_fails_job (agg : FieldType → V → V → V) (abort : OpenRes → Bool)
    (habort : AbortsEvery abort) (pl : Nat → OpenRes) (p : Params V) (st : Family V)
    (h1 : ¬ st.l0.length < p.threshold) (h2 : ¬ (st.l0.length = 1 ∧ (pickUp st.l0 st.l1).isEmpty))
    (j : Nat) (hj : j < (st.l0 ++ pickUp st.l0 st.l1).length) (hf : pl j ≠ .ok) :
    compactF agg abort pl p st = (st, .crashed) := by
  unfold compactF
  rw [if_neg h1]
  simp only []
  rw [if_neg h2]
  by_cases h0 : p.failAt = some 0
  · rw [if_pos h0]
  · rw [if_neg h0, open_inputs_fault_aborts abort habort pl _ 0 j hj (by simpa using hf)]

/-- **compaction_open_fault_preserves_view** (sum, min, max, histogram): whatever opens fail, the reader's
value of every cell is the same after the job — the outputs together with the surviving inputs carry every
input value. -/
theorem compaction_open_fault_preserves_view (agg : FieldType → V → V → V) (sch : Nat → Nat → FieldType)
    (abort : OpenRes → Bool) (habort : AbortsEvery abort) (pl : Nat → OpenRes)
    (p : Params V) (st : Family V) (hwf : StateWF sch p.tolerant st) (hsh : ∀ l, (p.shuffle l).Perm l)
    (m s f t : Nat) (hca : CommAssoc (agg (sch m f))) :
    view (agg (sch m f)) (compactF agg abort pl p st).1 m s f t = view (agg (sch m f)) st m s f t := by
  rcases compaction_open_fault_cases agg abort habort pl p st with h | h
  · rw [h]; exact compaction_preserves_view agg sch p st hwf hsh m s f t hca
  · rw [h]

/-- nothing appears or disappears (every aggregate, also first/last), for every fault placement -/
theorem compaction_open_fault_presence (agg : FieldType → V → V → V) (sch : Nat → Nat → FieldType)
    (abort : OpenRes → Bool) (habort : AbortsEvery abort) (pl : Nat → OpenRes)
    (p : Params V) (st : Family V) (hwf : StateWF sch p.tolerant st) (hsh : ∀ l, (p.shuffle l).Perm l)
    (m s f t : Nat) :
    contrib (compactF agg abort pl p st).1 m s f t = [] ↔ contrib st m s f t = [] := by
  rcases compaction_open_fault_cases agg abort habort pl p st with h | h
  · rw [h]; exact compaction_preserves_presence agg sch p st hwf hsh m s f t
  · rw [h]

/-- first/last/min/max: every value held afterwards was held before, for every fault placement -/
theorem compaction_open_fault_member (agg : FieldType → V → V → V) (sch : Nat → Nat → FieldType)
    (abort : OpenRes → Bool) (habort : AbortsEvery abort) (pl : Nat → OpenRes)
    (p : Params V) (st : Family V) (hwf : StateWF sch p.tolerant st) (hsh : ∀ l, (p.shuffle l).Perm l)
    (m s f t : Nat) (hsel : Selective (agg (sch m f))) (v : V)
    (hv : v ∈ contrib (compactF agg abort pl p st).1 m s f t) : v ∈ contrib st m s f t := by
  rcases compaction_open_fault_cases agg abort habort pl p st with h | h
  · rw [h] at hv; exact compaction_member agg sch p st hwf hsh m s f t hsel v hv
  · rw [h] at hv; exact hv

theorem compaction_open_fault_invariant (agg : FieldType → V → V → V) (sch : Nat → Nat → FieldType)
    (abort : OpenRes → Bool) (habort : AbortsEvery abort) (pl : Nat → OpenRes)
    (p : Params V) (st : Family V) (hwf : StateWF sch p.tolerant st) (hsh : ∀ l, (p.shuffle l).Perm l) :
    StateWF sch p.tolerant (compactF agg abort pl p st).1 := by
  rcases compaction_open_fault_cases agg abort habort pl p st with h | h
  · rw [h]; exact stateWF_compact agg sch p st hwf hsh
  · rw [h]; exact hwf

/-! ### histories: any sequence of flushes and compactions, each compaction under its own fault placement -/

/-- a history with faults is a fault-free history over a sub-list of its operations (the failed compactions
dropped) with the same flushes -/
theorem faulty_history_is_a_plain_history (agg : FieldType → V → V → V) (abort : OpenRes → Bool)
    (habort : AbortsEvery abort) (ops : List (OpF V)) :
    ∀ (st : Family V), ∃ ops' : List (Op V), runF agg abort st ops = run agg st ops' ∧
      (∀ o ∈ ops', o ∈ ops.map OpF.plain) ∧
      (∀ m s f t, flushed ops' m s f t = flushed (ops.map OpF.plain) m s f t) := by
  induction ops with
  | nil => intro st; exact ⟨[], rfl, fun _ h => h, fun _ _ _ _ => rfl⟩
  | cons o r ih =>
    intro st
    cases o with
    | flush es =>
      obtain ⟨ops', h1, h2, h3⟩ := ih (flush st es)
      refine ⟨Op.flush es :: ops', ?_, ?_, ?_⟩
      · simp only [runF, run, List.foldl_cons, stepF, step] at h1 ⊢; exact h1
      · intro o ho
        rcases List.mem_cons.mp ho with e | e
        · subst e; simp [OpF.plain]
        · simp only [List.map_cons, List.mem_cons]; exact Or.inr (h2 o e)
      · intro m s f t
        have := h3 m s f t
        simp only [flushed, List.map_cons, List.flatMap_cons, OpF.plain] at this ⊢
        rw [this]
    | compact p pl =>
      rcases compaction_open_fault_cases agg abort habort pl p st with h | h
      · obtain ⟨ops', h1, h2, h3⟩ := ih (compact agg p st).1
        refine ⟨Op.compact p :: ops', ?_, ?_, ?_⟩
        · simp only [runF, run, List.foldl_cons, stepF, step, h] at h1 ⊢; exact h1
        · intro o ho
          rcases List.mem_cons.mp ho with e | e
          · subst e; simp [OpF.plain]
          · simp only [List.map_cons, List.mem_cons]; exact Or.inr (h2 o e)
        · intro m s f t
          have := h3 m s f t
          simp only [flushed, List.map_cons, List.flatMap_cons, OpF.plain, List.nil_append] at this ⊢
          exact this
      · obtain ⟨ops', h1, h2, h3⟩ := ih st
        refine ⟨ops', ?_, ?_, ?_⟩
        · simp only [runF, run, List.foldl_cons, stepF, h] at h1 ⊢; exact h1
        · intro o ho
          simp only [List.map_cons, List.mem_cons]; exact Or.inr (h2 o ho)
        · intro m s f t
          have := h3 m s f t
          simp only [flushed, List.map_cons, List.flatMap_cons, OpF.plain, List.nil_append] at this ⊢
          exact this

/-- **history_open_faults_view** (sum/min/max/histogram): after ANY sequence of flushes and compactions, each
compaction under ANY placement of failed input opens, a reader observes for every cell the aggregate of what
the initial files held and everything flushed since. -/
theorem history_open_faults_view (agg : FieldType → V → V → V) (sch : Nat → Nat → FieldType) (tol : Bool)
    (abort : OpenRes → Bool) (habort : AbortsEvery abort)
    (m s f t : Nat) (hca : CommAssoc (agg (sch m f))) (ops : List (OpF V))
    (st : Family V) (hwf : StateWF sch tol st) (hok : ∀ o ∈ ops, OpOK sch tol o.plain) :
    view (agg (sch m f)) (runF agg abort st ops) m s f t =
      foldAgg (agg (sch m f)) (contrib st m s f t ++ flushed (ops.map OpF.plain) m s f t) := by
  obtain ⟨ops', h1, h2, h3⟩ := faulty_history_is_a_plain_history agg abort habort ops st
  have hok' : ∀ o ∈ ops', OpOK sch tol o := by
    intro o ho
    obtain ⟨o', ho', e⟩ := List.mem_map.mp (h2 o ho)
    rw [← e]; exact hok o' ho'
  rw [h1, history_view agg sch tol m s f t hca ops' st hwf hok', h3]

/-- no cell appears or disappears over such a history (every aggregate) -/
theorem history_open_faults_presence (agg : FieldType → V → V → V) (sch : Nat → Nat → FieldType) (tol : Bool)
    (abort : OpenRes → Bool) (habort : AbortsEvery abort)
    (m s f t : Nat) (ops : List (OpF V))
    (st : Family V) (hwf : StateWF sch tol st) (hok : ∀ o ∈ ops, OpOK sch tol o.plain) :
    contrib (runF agg abort st ops) m s f t = [] ↔
      contrib st m s f t ++ flushed (ops.map OpF.plain) m s f t = [] := by
  obtain ⟨ops', h1, h2, h3⟩ := faulty_history_is_a_plain_history agg abort habort ops st
  have hok' : ∀ o ∈ ops', OpOK sch tol o := by
    intro o ho
    obtain ⟨o', ho', e⟩ := List.mem_map.mp (h2 o ho)
    rw [← e]; exact hok o' ho'
  rw [h1, ← h3]
  exact history_presence agg sch tol m s f t ops' st hwf hok'

/-! ### the current source -/

theorem current_policy_aborts : AbortsEvery (policyOf Generated.C03.openErrorAborts) := by
  have : Generated.C03.openErrorAborts = true := by decide
  rw [this]; exact abortAll_abortsEvery

/-- C03 under input-open faults for the source as it is now -/
theorem compaction_open_fault_preserves_view_current (agg : FieldType → V → V → V) (sch : Nat → Nat → FieldType)
    (pl : Nat → OpenRes) (p : Params V) (st : Family V) (hwf : StateWF sch p.tolerant st)
    (hsh : ∀ l, (p.shuffle l).Perm l) (m s f t : Nat) (hca : CommAssoc (agg (sch m f))) :
    view (agg (sch m f)) (compactF agg (policyOf Generated.C03.openErrorAborts) pl p st).1 m s f t =
      view (agg (sch m f)) st m s f t :=
  compaction_open_fault_preserves_view agg sch _ current_policy_aborts pl p st hwf hsh m s f t hca

/-- `makeInputIterator`: the only statement that leaves its loops early is `return nil, err` in the error branch
of `GetReader` (no `continue`/`break`: no input is skipped); `doMerge` returns every error it sees (the merger
cannot be created, an input cannot be opened, `Merge` fails, the output cannot be finished) -/
theorem tie_open_inputs :
    Generated.C03.makeInputIteratorIfTree =
      ["0:len(files) > 0 -> for _, fileMeta := range files { reader, err := c.state.snap", "1:err != nil -> return nil, err"] ∧
    Generated.C03.makeInputIteratorLoopExits = ["return"] ∧
    Generated.C03.makeInputIteratorCalls = ["compaction.GetInputs", "len", "fileMeta.GetFileNumber",
      "snapshot.GetReader", "reader.Iterator", "append", "table.NewMergedIterator"] ∧
    Generated.C03.openErrorAborts = true ∧
    Generated.C03.doMergeIfTree = ["0:err != nil -> return err", "0:err != nil -> return err",
      "0:c.rollup != nil -> merger.Init(map[string]interface{}{RollupContext: c.rollup})",
      "0:err := merger.Merge(previousKey, needMerge); err != nil -> return err",
      "0:len(needMerge) > 0 -> if",
      "1:err := merger.Merge(previousKey, needMerge); err != nil -> return err",
      "0:c.state.builder != nil -> if",
      "1:err := c.finishCompactionOutputFile(); err != nil -> return err"] := by
  refine ⟨rfl, rfl, rfl, rfl, rfl⟩

namespace Neg

def iBlock (sid : Nat) (v : Int) : Block Int :=
  { fields := [(1, .sum)], start := 0, stop := 0, series := [(sid, [(1, [(0, v)])])] }

def iFile (sid : Nat) (v : Int) : File Int :=
  { minKey := 5, maxKey := 5, entries := [(5, iBlock sid v)] }

def iBlock2 : Block Int :=
  { fields := [(1, .sum)], start := 0, stop := 0, series := [(7, [(1, [(0, 10)])]), (8, [(1, [(0, 50)])])] }

/-- three level-0 files for metric 5: series 7 holds 1, 10, 100 (files 1, 2, 3); series 8 = 50 only in file 2 -/
def iState : Family Int :=
  { l0 := [iFile 7 1, { minKey := 5, maxKey := 5, entries := [(5, iBlock2)] }, iFile 7 100], l1 := [] }

def iParams : Params Int :=
  { threshold := 0, maxFileSize := 100000, size := fun _ _ => 1, shuffle := id, rebind := true, tolerant := true,
    failAt := none }

/-- **the "warn and continue" policy loses the skipped input**: the second input cannot be opened (ENOENT), the
job reports success, all three inputs are deleted: series 7 reads 101 instead of 111 and series 8 is gone.
With the aborting policy the job fails and everything stays. -/
theorem skipped_input_is_lost :
    view (aggInt .sum) iState 5 7 1 0 = some 111 ∧ view (aggInt .sum) iState 5 8 1 0 = some 50 ∧
    (compactF aggInt skipNotExist (faultAt 1 .notExist) iParams iState).2 = .merged ∧
    view (aggInt .sum) (compactF aggInt skipNotExist (faultAt 1 .notExist) iParams iState).1 5 7 1 0 = some 101 ∧
    view (aggInt .sum) (compactF aggInt skipNotExist (faultAt 1 .notExist) iParams iState).1 5 8 1 0 = none ∧
    (compactF aggInt skipNotExist (faultAt 1 .ioError) iParams iState).2 = .crashed ∧
    (compactF aggInt abortAll (faultAt 1 .notExist) iParams iState).2 = .crashed ∧
    view (aggInt .sum) (compactF aggInt abortAll (faultAt 1 .notExist) iParams iState).1 5 8 1 0 = some 50 := by
  decide

end Neg

/-- non-vacuity: a three-file state (well-formed like `Neg.wState`, see the example in `Props/C03.lean`), a merge
job, a fault on its second input: the job fails; without the fault it merges -/
example :
    (compactF aggInt abortAll (faultAt 1 .ioError) Neg.iParams Neg.iState) = (Neg.iState, .crashed) ∧
    (compactF aggInt abortAll noFault Neg.iParams Neg.iState).2 = .merged :=
  ⟨open_fault_fails_job aggInt abortAll abortAll_abortsEvery _ _ _ (by decide) (by decide) 1 (by decide) (by decide),
   by decide⟩

end LinVerif.Props.C03
