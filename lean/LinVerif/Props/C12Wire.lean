/-
C12 — partial results cross the wire unchanged (property theorems).

`wire_roundtrip`: for EVERY field (any number of aggregate types = primitive series, any gaps, any
start slot) what `BinaryFieldIterator` reads from `fieldIterator.MarshalBinary`'s bytes is what
was marshalled — each primitive series with ITS slots. `emit_crosses_wire_unchanged`: in particular
everything the model's aggregator emits (leaf -> intermediate -> root). This is why the merge
theorems of Props/C12.lean may ignore the encoding. `Neg.hoisted_idx_shifts_later_primitives`: with
the running slot index declared before the loop over the primitive series, the second aggregate
type of a sparse partial result arrives packed into the leading slots.
-/
import LinVerif.Model.C12FieldWire
import LinVerif.Generated.C12

namespace LinVerif.Props.C12Wire
open LinVerif.RootMerge LinVerif.C12FieldWire

theorem asc_mono {a b : Nat} (h : a ≤ b) : ∀ l, Asc b l → Asc a l
  | [], _ => trivial
  | (_, _) :: _, ⟨h1, h2⟩ => ⟨Nat.le_trans h h1, h2⟩

theorem decodeGo_zeros (z slot : Nat) (ms : List Bool) (vs : List Int) :
    decodeGo slot (List.replicate z false ++ ms) vs = decodeGo (slot + z) ms vs := by
  induction z generalizing slot with
  | zero => simp
  | succ k ih =>
    simp only [List.replicate_succ, List.cons_append, decodeGo]
    rw [ih]; congr 1; omega

/-- one primitive series: decode ∘ encode = id, for every running index at or below its first slot -/
theorem decode_encode (idx : Nat) (pts : List (Nat × Int)) (h : Asc idx pts) :
    decodeGo idx (encodeGo idx pts).1 (encodeGo idx pts).2.1 = pts := by
  induction pts generalizing idx with
  | nil => simp [encodeGo, decodeGo]
  | cons p rest ih =>
    obtain ⟨s, v⟩ := p
    obtain ⟨h1, h2⟩ := h
    have e : idx + (s - idx) = s := by omega
    simp only [encodeGo]
    rw [decodeGo_zeros, e]
    simp only [decodeGo]
    rw [ih (s + 1) h2]

theorem marshalGo_reset (start idx : Nat) (prims : List Prim) (h : ∀ p ∈ prims, Asc start p.pts) :
    unmarshal (marshalGo true start idx prims) = prims := by
  induction prims generalizing idx with
  | nil => rfl
  | cons p rest ih =>
    have hp := h p (List.mem_cons_self)
    simp only [marshalGo, unmarshal, List.map_cons, if_true]
    have := ih (encodeGo start p.pts).2.2 (fun q hq => h q (List.mem_cons_of_mem _ hq))
    simp only [unmarshal] at this
    rw [this]
    simp [decode, decode_encode start p.pts hp]

/-- **Round trip (full strength)**: every field, any number of primitive series, any gaps. -/
theorem wire_roundtrip (start : Nat) (prims : List Prim) (h : ∀ p ∈ prims, Asc start p.pts) :
    unmarshal (marshal true start prims) = prims :=
  marshalGo_reset start start prims h

/-- what the aggregator emits for a cell range is ascending from slot 0 -/
theorem asc_points (a : Agg) (t : Tag) (f : FName) (k : Kind) (cap : Nat) :
    Asc 0 (a.points t f k cap) := by
  unfold Agg.points
  rw [List.range_eq_range']
  generalize (0 : Nat) = lo
  induction cap generalizing lo with
  | zero => trivial
  | succ n ih =>
    simp only [List.range'_succ, List.filterMap_cons]
    cases hc : a.cells t f k lo with
    | none => simpa [hc] using asc_mono (Nat.le_succ lo) _ (ih (lo + 1))
    | some v => simpa [hc, Asc] using ih (lo + 1)

/-- **Everything the aggregator emits crosses the wire unchanged** (leaf response, intermediate
response): the receiver decodes exactly the emitted groups. -/
theorem emitTS_crosses_wire_unchanged (a : Agg) (t : Tag) : wireTS true (a.emitTS t) = a.emitTS t := by
  simp only [wireTS, Agg.emitTS, List.map_map]
  congr 1
  apply List.map_congr_left
  intro sp _
  simp only [Function.comp, wireField]
  congr 1
  apply wire_roundtrip
  intro p hp
  split at hp
  · obtain ⟨k, _, rfl⟩ := List.mem_map.mp hp
    exact asc_points a t sp.name k a.cap
  · cases hp

theorem emit_crosses_wire_unchanged (a : Agg) : a.emit.map (wireTS true) = a.emit := by
  unfold Agg.emit
  split
  · rfl
  · rw [List.map_map]
    exact List.map_congr_left (fun t _ => emitTS_crosses_wire_unchanged a t)

/-! ### the tie to the source -/

/-- `fieldIterator.MarshalBinary` is the function `marshalGo true` mirrors: the running slot index
is declared inside the loop over the primitive series. -/
theorem generated_field_marshal :
    Generated.C12.fieldMarshalIdxDepth = 1 ∧
    Generated.C12.fieldMarshalSteps =
      ["if it.length == 0", "  return nil, nil", "it.idx = 0",
       "writer := stream.NewBufferWriter(nil)", "var encoder *encoding.TSDEncoder",
       "defer encoding.ReleaseTSDEncoder(encoder)",
       "for it.HasNext()",
       "  primitiveIt := it.Next()",
       "  if encoder == nil", "    encoder = encoding.TSDEncodeFunc(uint16(it.startSlot))",
       "  else", "    encoder.RestWithStartTime(uint16(it.startSlot))",
       "  idx := it.startSlot",
       "  for primitiveIt.HasNext()",
       "    slot, value := primitiveIt.Next()",
       "    for slot > idx", "      encoder.AppendTime(bit.Zero)", "      idx++",
       "    encoder.AppendTime(bit.One)", "    encoder.AppendValue(math.Float64bits(value))", "    idx++",
       "  data, err := toBytesFn(encoder)", "  if err != nil", "    return nil, err",
       "  writer.PutByte(byte(primitiveIt.AggType()))", "  writer.PutVarint32(int32(len(data)))",
       "  writer.PutBytes(data)",
       "return writer.Bytes()"] := ⟨rfl, rfl⟩

/-- the variant the driver sends every `leaf` / `emit` payload through -/
def currentResetIdx : Bool := decide (Generated.C12.fieldMarshalIdxDepth = 1)

theorem current_emit_crosses_wire_unchanged (a : Agg) :
    a.emit.map (wireTS currentResetIdx) = a.emit := by
  have : currentResetIdx = true := by decide
  rw [this]; exact emit_crosses_wire_unchanged a

namespace Neg

/-- max and min of one field, values in slots 1 and 3 only (the node's partial result has gaps) -/
def sparse : List Prim := [⟨3, [(1, 5), (3, 7)]⟩, ⟨2, [(1, 5), (3, 7)]⟩]

/-- **The hoisted index shifts every later primitive series** (seeded change c12-22's mechanism):
the first aggregate type arrives in its slots, the second one packed into slots 0 and 1; a dense
partial result is unaffected (which is why one node answers correctly). -/
theorem hoisted_idx_shifts_later_primitives :
    unmarshal (marshal false 0 sparse) = [⟨3, [(1, 5), (3, 7)]⟩, ⟨2, [(0, 5), (1, 7)]⟩] ∧
    unmarshal (marshal true 0 sparse) = sparse ∧
    unmarshal (marshal false 0 [⟨3, [(0, 5), (1, 7)]⟩, ⟨2, [(0, 5), (1, 7)]⟩]) =
      [⟨3, [(0, 5), (1, 7)]⟩, ⟨2, [(0, 5), (1, 7)]⟩] := by decide

end Neg

end LinVerif.Props.C12Wire
