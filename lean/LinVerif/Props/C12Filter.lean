/-
C12 — the leaf's where-clause path is layout invariant (property theorems).

`filter_layout_invariant`: for EVERY condition tree (atoms of any pattern kind, AND / OR / NOT /
parentheses, values known on some nodes only or nowhere), every number of nodes and shards and
every placement of the written series, the set of series the layout's nodes match is the set the
condition's per-series meaning selects from the written series — so any two placements of the same
series match the same series. Hypotheses: a node that HOLDS series knows the tag keys the
condition names (a node without series may know anything or nothing: it is an error answer the
root ignores, or an empty one), and series ids identify series.
`Neg.fail_fast_lookup_is_placement_dependent`: with "no tag value matches this atom on this node ⇒
tag value not found" the same series on two nodes match fewer series than on one node.
Ties: the lookup / filtering functions statement by statement, and the switch `lookupFailFast`
the driver runs the model with.
-/
import LinVerif.Lemmas.C12LeafFilter
import LinVerif.Generated.C12

namespace LinVerif.Props.C12Filter
open LinVerif.C12LeafFilter

set_option linter.unusedSectionVars false
set_option linter.unusedSimpArgs false
set_option linter.unnecessarySimpa false

variable {V P : Type} [DecidableEq V] [DecidableEq P]

/-- **Outcome of a node's tag value lookup (the code, no fail-fast)**: it fails iff the node's
schema lacks a tag key the condition names, and then with "tag key not found" — which tag VALUES
the node knows never decides between an answer and an error. -/
theorem lookup_outcome (acc : P → V → Bool) (keys : List Key) (n : Node V) (c : Cond P) :
    (∀ k ∈ condKeys c, k ∈ keys) ∧ (∃ res, lookup false acc keys n c = .ok res) ∨
    (∃ k ∈ condKeys c, k ∉ keys) ∧ lookup false acc keys n c = .error .tagKeyNotFound := by
  by_cases hk : ∀ k ∈ condKeys c, k ∈ keys
  · obtain ⟨res, h, _⟩ := lookupGo_ok acc keys n c hk []
    exact Or.inl ⟨hk, res, h⟩
  · have hk' : ∃ k ∈ condKeys c, k ∉ keys := by simpa using hk
    exact Or.inr ⟨hk', lookupGo_missing_key acc keys n c hk' []⟩

/-- **One node**: when its schema has the condition's tag keys, the node answers (no error), and
the series its shards match are exactly its series that satisfy the condition. -/
theorem node_matches (acc : P → V → Bool) (keys : List Key) (n : Node V) (c : Cond P)
    (hk : ∀ k ∈ condKeys c, k ∈ keys)
    (hinj : ∀ s ∈ n.flatten, ∀ t ∈ n.flatten, s.id = t.id → s = t) :
    ∃ perShard, nodeFilter false acc keys n c = .ok perShard ∧
      ∀ i, i ∈ perShard.flatten ↔ ∃ s ∈ n.flatten, s.id = i ∧ sem acc c s = true := by
  obtain ⟨res, h, hg, _, ha⟩ := lookupGo_ok acc keys n c hk []
  have hg' : Good acc n res := hg (by intro p hp; cases hp)
  refine ⟨n.map (fun sh => filterShard res sh c), by simp [nodeFilter, lookup, h], ?_⟩
  intro i
  simp only [List.mem_flatten, List.mem_map]
  constructor
  · rintro ⟨l, ⟨sh, hsh, rfl⟩, hi⟩
    have hsub : ∀ s ∈ sh, s ∈ n.flatten := fun s hs => List.mem_flatten.mpr ⟨sh, hsh, hs⟩
    obtain ⟨ids, h1, h2⟩ := findSeries_spec acc n res hg' sh hsub
      (fun s hs t ht => hinj s (hsub s hs) t (hsub t ht)) c ha
    have : filterShard res sh c = ids := by simp [filterShard, h1]
    rw [this, h2] at hi
    obtain ⟨s, hs, hid, hsem⟩ := hi
    exact ⟨s, ⟨sh, hsh, hs⟩, hid, hsem⟩
  · rintro ⟨s, ⟨sh, hsh, hs⟩, hid, hsem⟩
    have hsub : ∀ s ∈ sh, s ∈ n.flatten := fun s hs => List.mem_flatten.mpr ⟨sh, hsh, hs⟩
    obtain ⟨ids, h1, h2⟩ := findSeries_spec acc n res hg' sh hsub
      (fun s hs t ht => hinj s (hsub s hs) t (hsub t ht)) c ha
    have : filterShard res sh c = ids := by simp [filterShard, h1]
    exact ⟨_, ⟨sh, hsh, rfl⟩, by rw [this, h2]; exact ⟨s, hs, hid, hsem⟩⟩

/-- **What a layout matches** = the written series that satisfy the condition, whatever the
placement. -/
theorem layout_matches (acc : P → V → Bool) (nodes : List (List Key × Node V)) (c : Cond P)
    (hkeys : ∀ kn ∈ nodes, kn.2.flatten ≠ [] → ∀ k ∈ condKeys c, k ∈ kn.1)
    (hinj : ∀ s ∈ allSeries nodes, ∀ t ∈ allSeries nodes, s.id = t.id → s = t) :
    ∀ i, i ∈ layoutMatched false acc nodes c ↔
      ∃ s ∈ allSeries nodes, s.id = i ∧ sem acc c s = true := by
  intro i
  simp only [layoutMatched, allSeries, List.mem_flatMap]
  constructor
  · rintro ⟨kn, hkn, hi⟩
    by_cases hk : ∀ k ∈ condKeys c, k ∈ kn.1
    · obtain ⟨ps, h1, h2⟩ := node_matches acc kn.1 kn.2 c hk
        (fun s hs t ht => hinj s (List.mem_flatMap.mpr ⟨kn, hkn, hs⟩) t (List.mem_flatMap.mpr ⟨kn, hkn, ht⟩))
      rw [h1] at hi
      obtain ⟨s, hs, hid, hsem⟩ := (h2 i).mp hi
      exact ⟨s, ⟨kn, hkn, hs⟩, hid, hsem⟩
    · have hk' : ∃ k ∈ condKeys c, k ∉ kn.1 := by simpa using hk
      have : nodeFilter false acc kn.1 kn.2 c = .error .tagKeyNotFound := by
        simp [nodeFilter, lookup, lookupGo_missing_key acc kn.1 kn.2 c hk' []]
      rw [this] at hi
      cases hi
  · rintro ⟨s, ⟨kn, hkn, hs⟩, hid, hsem⟩
    have hne : kn.2.flatten ≠ [] := by intro h; rw [h] at hs; cases hs
    obtain ⟨ps, h1, h2⟩ := node_matches acc kn.1 kn.2 c (hkeys kn hkn hne)
      (fun s hs t ht => hinj s (List.mem_flatMap.mpr ⟨kn, hkn, hs⟩) t (List.mem_flatMap.mpr ⟨kn, hkn, ht⟩))
    refine ⟨kn, hkn, ?_⟩
    rw [h1]
    exact (h2 i).mpr ⟨s, hs, hid, hsem⟩

/-- **C12 for the where-clause (full strength)**: two placements of the same written series —
any numbers of nodes and shards, node-local dictionaries, any condition tree — match the same
series. -/
theorem filter_layout_invariant (acc : P → V → Bool) (l1 l2 : List (List Key × Node V)) (c : Cond P)
    (hk1 : ∀ kn ∈ l1, kn.2.flatten ≠ [] → ∀ k ∈ condKeys c, k ∈ kn.1)
    (hk2 : ∀ kn ∈ l2, kn.2.flatten ≠ [] → ∀ k ∈ condKeys c, k ∈ kn.1)
    (hinj1 : ∀ s ∈ allSeries l1, ∀ t ∈ allSeries l1, s.id = t.id → s = t)
    (hinj2 : ∀ s ∈ allSeries l2, ∀ t ∈ allSeries l2, s.id = t.id → s = t)
    (hsame : ∀ s, s ∈ allSeries l1 ↔ s ∈ allSeries l2) :
    ∀ i, i ∈ layoutMatched false acc l1 c ↔ i ∈ layoutMatched false acc l2 c := by
  intro i
  rw [layout_matches acc l1 c hk1 hinj1, layout_matches acc l2 c hk2 hinj2]
  constructor
  · rintro ⟨s, hs, h⟩; exact ⟨s, (hsame s).mp hs, h⟩
  · rintro ⟨s, hs, h⟩; exact ⟨s, (hsame s).mpr hs, h⟩

/-- **A node that holds no series never changes what is matched** — whether it knows the metric's
tag keys (empty answer) or not (error answer, ignored by the root). -/
theorem seriesless_node_harmless (acc : P → V → Bool) (nodes : List (List Key × Node V))
    (keys : List Key) (emptyShards : Nat) (c : Cond P)
    (hkeys : ∀ kn ∈ nodes, kn.2.flatten ≠ [] → ∀ k ∈ condKeys c, k ∈ kn.1)
    (hinj : ∀ s ∈ allSeries nodes, ∀ t ∈ allSeries nodes, s.id = t.id → s = t) :
    ∀ i, i ∈ layoutMatched false acc ((keys, List.replicate emptyShards []) :: nodes) c ↔
      i ∈ layoutMatched false acc nodes c := by
  have hflat : (List.replicate emptyShards ([] : Shard V)).flatten = [] := by
    induction emptyShards with
    | zero => rfl
    | succ k ih => simpa [List.replicate_succ] using ih
  apply filter_layout_invariant
  · intro kn hkn hne
    rcases List.mem_cons.mp hkn with rfl | hkn
    · exact absurd hflat hne
    · exact hkeys kn hkn hne
  · exact hkeys
  · simpa [allSeries, hflat] using hinj
  · exact hinj
  · intro s; simp [allSeries, hflat]

/-! ### the tie to the source -/

/-- `tagValuesLookup.findTagValueIDsByExpr` is the function `lookupGo` mirrors: an atom whose lookup
comes back nil gets an empty id set (no error), NOT / parentheses descend, AND / OR descend left
then right. -/
theorem generated_tag_values_lookup :
    Generated.C12.tagValuesLookupSteps =
      ["if expr == nil", "  return", "if op.err != nil", "  return",
       "switch expr := expr.(type)",
       "  case stmt.TagFilter",
       "    tagKeyID, err := op.getTagKeyID(expr.TagKey())",
       "    if err != nil", "      op.err = err", "      return",
       "    tagValueIDs, err := op.metaDB.FindTagValueDsByExpr(tagKeyID, expr)",
       "    if err != nil", "      op.err = err", "      return",
       "    if tagValueIDs == nil", "      tagValueIDs = roaring.New()",
       "    op.executeCtx.TagFilterResult[string(stmt.Marshal(expr))] = &flow.TagFilterResult{ TagKeyID: tagKeyID, TagValueIDs: tagValueIDs, }",
       "  case *stmt.ParenExpr", "    op.findTagValueIDsByExpr(expr.Expr)",
       "  case *stmt.NotExpr", "    op.findTagValueIDsByExpr(expr.Expr)",
       "  case *stmt.BinaryExpr",
       "    if expr.Operator != stmt.AND && expr.Operator != stmt.OR",
       "      op.err = fmt.Errorf(\"wrong binary operator in tag filter: %s\", stmt.BinaryOPString(expr.Operator))",
       "      return",
       "    op.findTagValueIDsByExpr(expr.Left)", "    op.findTagValueIDsByExpr(expr.Right)"] ∧
    Generated.C12.tagValuesLookupExecuteSteps =
      ["op.executeCtx.TagFilterResult = make(map[string]*flow.TagFilterResult)",
       "op.findTagValueIDsByExpr(op.executeCtx.Query.Condition)", "return op.err"] ∧
    Generated.C12.lookupTagKeySteps =
      ["tagMeta, ok := op.executeCtx.Schema.TagKeys.Find(tagKey)", "if !ok",
       "  return 0, fmt.Errorf(\"%w, tag key: %s\", constants.ErrTagKeyIDNotFound, tagKey)",
       "return tagMeta.ID, nil"] := by
  refine ⟨?_, ?_, ?_⟩ <;> rfl

/-- the model variant the driver runs (`lookupFailFast`, read from the source) is the code's:
no value on this node ⇒ empty set, never an error -/
theorem generated_lookup_no_fail_fast : Generated.C12.lookupFailFast = false := rfl

/-- `seriesFiltering.findSeriesIDsByExpr / getSeriesIDsByExpr / Execute` are the functions
`findSeries` / `filterShard` mirror (NOT = series of the operand's tag key minus the operand's
matches, key 0 for composites; AND / OR on the bitmaps). -/
theorem generated_series_filtering :
    Generated.C12.seriesFilteringSteps =
      ["if condition == nil", "  return 0, roaring.New()", "if op.err != nil", "  return 0, roaring.New()",
       "switch expr := condition.(type)",
       "  case stmt.TagFilter",
       "    tagKey, seriesIDs, err := op.getSeriesIDsByExpr(expr)",
       "    if err != nil", "      op.err = err", "      return tagKey, roaring.New()",
       "    return tagKey, seriesIDs",
       "  case *stmt.ParenExpr", "    return op.findSeriesIDsByExpr(expr.Expr)",
       "  case *stmt.NotExpr",
       "    tagKey, matchResult := op.findSeriesIDsByExpr(expr.Expr)",
       "    all, err := op.indexDB.GetSeriesIDsForTag(tagKey)",
       "    if err != nil", "      op.err = err", "      return tagKey, roaring.New()",
       "    all.AndNot(matchResult)", "    return 0, all",
       "  case *stmt.BinaryExpr",
       "    _, left := op.findSeriesIDsByExpr(expr.Left)",
       "    _, right := op.findSeriesIDsByExpr(expr.Right)",
       "    if expr.Operator == stmt.AND", "      left.And(right)", "    else", "      left.Or(right)",
       "    return 0, left",
       "return 0, roaring.New()"] ∧
    Generated.C12.seriesByExprSteps =
      ["tagValues, ok := op.executeCtx.StorageExecuteCtx.TagFilterResult[string(stmt.Marshal(expr))]",
       "if !ok",
       "  return 0, nil, fmt.Errorf(\"%w, expr: %s\", constants.ErrTagValueFilterResultNotFound, expr.Rewrite())",
       "seriesIDs, err := op.indexDB.GetSeriesIDsByTagValueIDs(tagValues.TagKeyID, tagValues.TagValueIDs)",
       "if err != nil", "  return 0, nil, err",
       "return tagValues.TagKeyID, seriesIDs, nil"] ∧
    Generated.C12.seriesFilteringExecuteSteps =
      ["queryStmt := op.executeCtx.StorageExecuteCtx.Query",
       "_, seriesIDs := op.findSeriesIDsByExpr(queryStmt.Condition)",
       "if op.err != nil", "  return op.err",
       "op.executeCtx.SeriesIDsAfterFiltering.Or(seriesIDs)", "return nil"] := by
  refine ⟨?_, ?_, ?_⟩ <;> rfl

/-- the invariance theorem at the variant read from the source -/
theorem current_filter_layout_invariant (acc : P → V → Bool) (l1 l2 : List (List Key × Node V))
    (c : Cond P)
    (hk1 : ∀ kn ∈ l1, kn.2.flatten ≠ [] → ∀ k ∈ condKeys c, k ∈ kn.1)
    (hk2 : ∀ kn ∈ l2, kn.2.flatten ≠ [] → ∀ k ∈ condKeys c, k ∈ kn.1)
    (hinj1 : ∀ s ∈ allSeries l1, ∀ t ∈ allSeries l1, s.id = t.id → s = t)
    (hinj2 : ∀ s ∈ allSeries l2, ∀ t ∈ allSeries l2, s.id = t.id → s = t)
    (hsame : ∀ s, s ∈ allSeries l1 ↔ s ∈ allSeries l2) :
    ∀ i, i ∈ layoutMatched Generated.C12.lookupFailFast acc l1 c ↔
         i ∈ layoutMatched Generated.C12.lookupFailFast acc l2 c := by
  rw [generated_lookup_no_fail_fast]
  exact filter_layout_invariant acc l1 l2 c hk1 hk2 hinj1 hinj2 hsame

/-! ### non-vacuity and the fail-fast variant -/

namespace Example

/-- tag key 1 = host; values 10 = web, 20 = db, 30 = a value nobody wrote -/
def web : Series Nat := ⟨0, [(1, 10)]⟩
def db1 : Series Nat := ⟨1, [(1, 20)]⟩
def db2 : Series Nat := ⟨2, [(1, 20)]⟩
def accEq : Nat → Nat → Bool := fun p v => p == v
/-- `host = 'web' or host = 'db'` -/
def webOrDb : Cond Nat := .or (.atom ⟨1, 10⟩) (.atom ⟨1, 20⟩)
/-- `not host = 'web'` and `host = 'db' and not (host = 'nobody')` -/
def notWeb : Cond Nat := .not (.atom ⟨1, 10⟩)
def dbNotNobody : Cond Nat := .and (.atom ⟨1, 20⟩) (.not (.paren (.atom ⟨1, 30⟩)))
def oneNode : List (List Key × Node Nat) := [([1], [[web, db1, db2]])]
def twoShards : List (List Key × Node Nat) := [([1], [[web, db1], [db2]])]
/-- node 2 holds `db2` only: it never saw the value `web` -/
def twoNodes : List (List Key × Node Nat) := [([1], [[web, db1]]), ([1], [[db2]])]

/-- the code: the three layouts match the same series for the three conditions (the hypotheses of
`filter_layout_invariant` hold of them: every node knows key 1, ids are distinct) -/
example : layoutMatched false accEq oneNode webOrDb = [0, 1, 2] ∧
    layoutMatched false accEq twoShards webOrDb = [0, 1, 2] ∧
    layoutMatched false accEq twoNodes webOrDb = [0, 1, 2] ∧
    layoutMatched false accEq oneNode notWeb = [1, 2] ∧
    layoutMatched false accEq twoNodes notWeb = [1, 2] ∧
    layoutMatched false accEq oneNode dbNotNobody = [1, 2] ∧
    layoutMatched false accEq twoNodes dbNotNobody = [1, 2] := by decide

end Example

namespace Neg
open Example

/-- **The fail-fast lookup is placement dependent** (seeded change c12-21's mechanism): the same
three series; on one node (one or two shards) `host='web' or host='db'` matches all three, on two
nodes the node that never saw `web` answers "tag value not found", the root ignores it, and `db2`
is gone. `not host='web'` loses it the same way; and a filter naming a value NOBODY wrote turns a
non-empty answer into nothing at all. -/
theorem fail_fast_lookup_is_placement_dependent :
    layoutMatched true accEq oneNode webOrDb = [0, 1, 2] ∧
    layoutMatched true accEq twoShards webOrDb = [0, 1, 2] ∧
    layoutMatched true accEq twoNodes webOrDb = [0, 1] ∧
    layoutMatched true accEq oneNode notWeb = [1, 2] ∧
    layoutMatched true accEq twoNodes notWeb = [1] ∧
    layoutMatched false accEq oneNode dbNotNobody = [1, 2] ∧
    layoutMatched true accEq oneNode dbNotNobody = [] := by decide

/-- the node's answer itself: the node holding `db2` alone fails the lookup -/
theorem fail_fast_node_answers_not_found :
    nodeFilter true accEq [1] [[db2]] webOrDb = .error .tagValueNotFound ∧
    nodeFilter false accEq [1] [[db2]] webOrDb = .ok [[2]] := ⟨rfl, rfl⟩

/-! #### finding (g): NOT over a composite ranges over the node's first-ever tag key

Tag key ids are node-local (a node-wide sequence from 0, in arrival order). The model's `Key` is
that id. Series a `{host=a}` and b `{dc=x, host=b}`; `not (host='zz' or host='yy')` (values nobody
wrote: both series satisfy it). -/

/-- rows arrived a, b: host = 0, dc = 1 -/
def arrivedAB : List (List Key × Node Nat) := [([0, 1], [[⟨0, [(0, 1)]⟩, ⟨1, [(1, 9), (0, 2)]⟩]])]
/-- rows arrived b, a: dc = 0, host = 1 -/
def arrivedBA : List (List Key × Node Nat) := [([0, 1], [[⟨0, [(1, 1)]⟩, ⟨1, [(0, 9), (1, 2)]⟩]])]
/-- `not (host=77 or host=88)` with `host` numbered `h` -/
def notComposite (h : Key) : Cond Nat := .not (.paren (.or (.atom ⟨h, 77⟩) (.atom ⟨h, 88⟩)))
def notAtom (h : Key) : Cond Nat := .not (.atom ⟨h, 77⟩)

/-- **The same written series on ONE node, the same condition: which series NOT-over-a-composite
matches depends on which tag key reached the node first** (series a is lost when `dc` arrived
first); NOT over an atomic filter does not. `filter_layout_invariant` is not contradicted: it takes
the key numbering as part of the series (`hsame`), i.e. it assumes what the harness's layouts
guarantee — every node numbers the keys alike. -/
theorem not_over_composite_depends_on_key_numbering :
    layoutMatched false accEq arrivedAB (notComposite 0) = [0, 1] ∧
    layoutMatched false accEq arrivedBA (notComposite 1) = [1] ∧
    layoutMatched false accEq arrivedAB (notAtom 0) = [0, 1] ∧
    layoutMatched false accEq arrivedBA (notAtom 1) = [0, 1] := by decide

end Neg

end LinVerif.Props.C12Filter
