/-
C04 — flushes committed WHILE a rollup job runs. The histories of `once` are sequences of whole
operations; here a run of `family.rollup()` is interleaved, record by record (the model's atomic
steps: one committed edit-log record each), with any number of flushes of the same or other source
families, cut by a crash anywhere. Lemmas: Lemmas/C04Weave.lean.

What the theorems say about the code: `rollup()` reads `GetLiveRollupFiles()` once; `doRollupWork`
reads the target's references and looks the snapshot's files up in level 0; the DeleteRollupFile logs
name (file, interval) pairs of the snapshot. A flush adds a NEW file number. Hence (1) the job commits
the same records whatever flushes are committed between its steps, (2) any interleaving is equivalent
to "job, then flushes", (3) the invariant behind `once` holds at every commit boundary of every
interleaving, and the flushed files stay marked for the next run. NOT covered: steps finer than a
committed record (a flush between `GetLiveRollupFiles()` and the first read of the version is the same
as a flush before/after the snapshot at this granularity), and memory-level races (concurrent region
of the harness).
-/
import LinVerif.Lemmas.C04Weave
import Mathlib.Data.List.Count

set_option linter.unusedSimpArgs false
set_option linter.unusedVariables false
namespace LinVerif.Props.C04
open LinVerif.Rollup LinVerif.Lemmas.C04

/-- every record of a rollup run is a job record (target merge, source delete, reference delete) -/
theorem rollupRecs_isJob (σ : St) (fam : Nat) (ivs : List Iv) (avail : Iv → Bool) (dvs : List Iv) :
    ∀ r ∈ rollupRecs σ fam ivs avail dvs, IsJobRec r := by
  have hkp : ∀ r : Rec, keepsPending r = true → IsJobRec r := by
    intro r hr
    cases r <;> simp [keepsPending] at hr <;> trivial
  intro r hr
  unfold rollupRecs at hr
  have hkeep := tPhase_keeps σ.pending fam avail ivs σ
  generalize tPhase σ.pending fam avail σ ivs = tp at hr hkeep
  obtain ⟨ts, ds⟩ := tp
  simp only at hr hkeep
  rcases List.mem_append.1 hr with hr | hr
  · rcases List.mem_append.1 hr with hr | hr
    · exact hkp r (hkeep r hr)
    · by_cases hds : ds = []
      · simp [hds] at hr
      · simp only [hds, if_false, List.mem_singleton] at hr
        subst hr; trivial
  · exact hkp r (dPhase_keeps σ.pending fam _ dvs r hr)

/-- … and none of them mentions a file no flush registered yet -/
theorem rollupRecs_indep (σ : St) (h : Inv σ) (fam : Nat) (ivs : List Iv) (avail : Iv → Bool) (dvs : List Iv)
    (k : Key) (hk : ∀ p ∈ σ.registered, p.1 ≠ k) :
    ∀ r ∈ rollupRecs σ fam ivs avail dvs, Indep k r := by
  have hkp : ∀ r : Rec, keepsPending r = true → Indep k r := by
    intro r hr
    cases r <;> simp [keepsPending] at hr <;> trivial
  intro r hr
  unfold rollupRecs at hr
  have hsub := tPhase_ds_sub σ.pending fam avail ivs σ
  have hkeep := tPhase_keeps σ.pending fam avail ivs σ
  generalize tPhase σ.pending fam avail σ ivs = tp at hr hsub hkeep
  obtain ⟨ts, ds⟩ := tp
  simp only at hr hsub hkeep
  rcases List.mem_append.1 hr with hr | hr
  · rcases List.mem_append.1 hr with hr | hr
    · exact hkp r (hkeep r hr)
    · by_cases hds : ds = []
      · simp [hds] at hr
      · simp only [hds, if_false, List.mem_singleton] at hr
        subst hr
        intro p hp
        obtain ⟨_, _, h3⟩ := hsub p hp
        have hpend : (p.1, p.2) ∈ σ.pending := ((mem_filesOf σ.pending fam p.2 p.1).1 h3).1
        exact hk p (h.preg p hpend)
  · exact hkp r (dPhase_keeps σ.pending fam _ dvs r hr)

/-- **The job does not see the flush.** From ANY state of the current version (`σ`) the first loop of
`rollup()` over the snapshot `pending0` commits the same target records and collects the same
DeleteRollupFile logs whether or not a flush of a file outside the snapshot was committed before it
(by induction: before any of its iterations). -/
theorem rollup_job_ignores_flush (pending0 : List (Key × Iv)) (fam : Nat) (avail : Iv → Bool)
    (k : Key) (ne : Bool) (fivs : List Iv) (hk : ∀ p ∈ pending0, p.1 ≠ k) (ivs : List Iv) (σ : St) :
    tPhase pending0 fam avail (σ.apply (.flush k ne fivs)) ivs = tPhase pending0 fam avail σ ivs :=
  tPhase_flush_insensitive pending0 fam avail k ne fivs hk ivs σ

/-- **Serialisation.** Every interleaving `out` of the records of a rollup run with flushes of fresh
file numbers ends in exactly the state of "the run, then the flushes". -/
theorem flush_during_rollup_serializes (ops : List Op) (fam : Nat) (ivs avail dvs : List Iv)
    (fs out : List Rec) :
    let σ := St.init.run ops
    let rs := rollupRecs σ fam ivs (fun i => decide (i ∈ avail)) dvs
    FreshFlushes σ fs → Weave rs fs out → σ.applyAll out = (σ.applyAll rs).applyAll fs := by
  intro σ rs hf w
  have h : Inv σ := Inv.init.run ops
  apply weave_serializes w
  intro f hfm
  obtain ⟨k, ne, fivs, e, hk⟩ := hf.key_fresh f hfm
  exact ⟨k, ne, fivs, e, fun r hr => rollupRecs_indep σ h fam ivs _ dvs k hk r hr⟩

/-- **Once, with flushes inside the run and a crash anywhere.** After ANY history `ops`, for any
interleaving of a rollup run's records with fresh flushes, cut after ANY number `n` of committed
records (`n ≥ length` = no crash), then continued by ANY history `more`: nothing is merged twice,
every registered pair with data is pending or merged exactly once — and every pair a committed flush
registered is still pending right after the interleaved run (the job did not delete marks it never
processed). -/
theorem once_with_flush_during_rollup (ops more : List Op) (fam : Nat) (ivs avail dvs : List Iv)
    (fs out : List Rec) (n : Nat) :
    let σ := St.init.run ops
    let rs := rollupRecs σ fam ivs (fun i => decide (i ∈ avail)) dvs
    FreshFlushes σ fs → Weave rs fs out →
    let σ' := σ.applyAll (out.take n)
    let σ'' := σ'.run more
    (σ''.merged.Nodup ∧ (∀ p, σ''.merged.count p ≤ 1)
      ∧ (∀ p ∈ σ''.registered, p.1 ∈ σ''.l0 → p ∈ σ''.pending ∨ σ''.merged.count p = 1))
    ∧ (∃ a b, σ' = (σ.applyAll (rs.take a)).applyAll (fs.take b)
        ∧ ∀ k ne fivs, Rec.flush k ne fivs ∈ fs.take b → ∀ i ∈ fivs, ((k, i) : Key × Iv) ∈ σ'.pending) := by
  intro σ rs hf w σ' σ''
  have h : Inv σ := Inv.init.run ops
  obtain ⟨a, b, wt⟩ := w.take n
  have hjs : JustSeq σ (rs.take a) := (rollupRecs_just σ h fam ivs _ dvs).take a
  have hjob : ∀ r ∈ rs.take a, IsJobRec r := fun r hr =>
    rollupRecs_isJob σ fam ivs _ dvs r (List.mem_of_mem_take hr)
  have hfb : FreshFlushes σ (fs.take b) := hf.take b
  have hser : σ' = (σ.applyAll (rs.take a)).applyAll (fs.take b) := by
    apply weave_serializes wt
    intro f hfm
    obtain ⟨k, ne, fivs, e, hk⟩ := hfb.key_fresh f hfm
    exact ⟨k, ne, fivs, e, fun r hr =>
      rollupRecs_indep σ h fam ivs _ dvs k hk r (List.mem_of_mem_take hr)⟩
  have hInvA : Inv (σ.applyAll (rs.take a)) := h.applyAll hjs
  have hjf : JustSeq (σ.applyAll (rs.take a)) (fs.take b) :=
    hfb.just (applyAll_registered_job (rs.take a) hjob σ)
  have hInv' : Inv σ' := by rw [hser]; exact hInvA.applyAll hjf
  have hInv'' : Inv σ'' := hInv'.run more
  refine ⟨⟨hInv''.nodup, fun p => List.nodup_iff_count_le_one.1 hInv''.nodup p, ?_⟩, a, b, hser, ?_⟩
  · intro p hp hl
    rcases hInv''.live p hp hl with h1 | h1
    · exact Or.inl h1
    · exact Or.inr (List.count_eq_one_of_mem hInv''.nodup h1)
  · intro k ne fivs hmem i hi
    rw [hser]
    have hall : AllFlush (fs.take b) := fun f hfm => by
      obtain ⟨k, ne, fivs, e, _⟩ := hfb.key_fresh f hfm
      exact ⟨k, ne, fivs, e⟩
    exact flushes_pending_mem (fs.take b) hall k ne fivs i hi _ hmem

/-! ### non-vacuity: a flush of file 2 lands between the target record and the source record of the
rollup of file 1 (10s family 1 → interval 300000) -/

/-- state after `flush (1,1)` -/
def exS : St := St.init.run [.flush 1 1 true [300000]]
/-- the run's records: T, S, D -/
example : rollupRecs exS 1 [300000] (fun _ => true) [300000] =
    [.merge 300000 [(1, 1)], .delRollup [((1, 1), 300000)], .delRef 300000 [(1, 1)]] := by decide
example : FreshFlushes exS [.flush (1, 2) true [300000]] := by
  refine ⟨⟨(1, 2), true, [300000], rfl, ?_⟩, trivial⟩
  decide
example : Weave [.merge 300000 [(1, 1)], .delRollup [((1, 1), 300000)], .delRef 300000 [(1, 1)]]
    [.flush (1, 2) true [300000]]
    [.merge 300000 [(1, 1)], .flush (1, 2) true [300000], .delRollup [((1, 1), 300000)], .delRef 300000 [(1, 1)]] :=
  .job _ (.flush _ (.job _ (.job _ .nil)))
/-- the interleaved run: file 1 merged once, file 2 still marked, nothing else -/
example : (exS.applyAll [.merge 300000 [(1, 1)], .flush (1, 2) true [300000], .delRollup [((1, 1), 300000)],
      .delRef 300000 [(1, 1)]]).pending = [((1, 2), 300000)] ∧
    (exS.applyAll [.merge 300000 [(1, 1)], .flush (1, 2) true [300000], .delRollup [((1, 1), 300000)],
      .delRef 300000 [(1, 1)]]).merged = [((1, 1), 300000)] := by decide

namespace Neg
/-- what the snapshot protects against: a job that deleted every CURRENT rollup entry of the family for
the interval (instead of the entries of its snapshot) would drop the mark of the file flushed during
the run — file (1,2) has data, is not pending and was never merged. -/
theorem delete_by_current_version_loses_flushed_file :
    let σ := (exS.apply (.merge 300000 [(1, 1)])).apply (.flush (1, 2) true [300000])
    let ds := (filesOf σ.pending 1 300000).map (fun k => (k, 300000))
    let σ' := σ.apply (.delRollup ds)
    ((1, 2), 300000) ∈ σ'.registered ∧ (1, 2) ∈ σ'.l0 ∧ ((1, 2), 300000) ∉ σ'.pending ∧
      ((1, 2), 300000) ∉ σ'.merged ∧ ¬ Just σ (.delRollup ds) := by
  refine ⟨by decide, by decide, by decide, by decide, ?_⟩
  intro h
  have := h ((1, 2), 300000) (by decide) (by decide)
  revert this
  decide
end Neg

end LinVerif.Props.C04
