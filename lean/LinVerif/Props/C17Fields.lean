/-
C17 — the field list of sql/stmt as named obligations.

`Generated.C17.fieldObligations` (regenerated from /repo on every run) lists every field of every
statement type of sql/stmt that has an `UnmarshalJSON` method and every expression node type
(types with a `Rewrite()` method), each with the name of the theorem `Props/C17.lean` must contain
for it. The command below fails the build with
    "<Type>.<Field> : <Go type> has no round-trip theorem (expected theorem ...)"
for every entry without one: a new struct field or node type cannot go unnoticed.
-/
import Lean
import LinVerif.Props.C17

namespace LinVerif.Props.C17
open Lean Elab Command

/-- the string literals of a term, left to right -/
def strLits : Lean.Expr → Array String → Array String
  | .app f a, acc => strLits a (strLits f acc)
  | .lit (.strVal s), acc => acc.push s
  | .mdata _ e, acc => strLits e acc
  | .letE _ _ v b _, acc => strLits b (strLits v acc)
  | _, acc => acc

elab "#check_field_obligations" : command => do
  let env ← getEnv
  let some ci := env.find? ``LinVerif.Generated.C17.fieldObligations
    | throwError "Generated.C17.fieldObligations is missing (extraction failed?)"
  let some v := ci.value? | throwError "Generated.C17.fieldObligations has no value"
  let lits := strLits v #[]
  if lits.size == 0 || lits.size % 2 != 0 then
    throwError "Generated.C17.fieldObligations: unexpected shape ({lits.size} string literals)"
  let mut missing : Array String := #[]
  for i in [0:lits.size / 2] do
    let what := lits[2 * i]!
    let thm := lits[2 * i + 1]!
    match env.find? (Name.str `LinVerif.Props.C17 thm) with
    | some (.thmInfo _) => pure ()
    | _ => missing := missing.push s!"{what} has no round-trip theorem (expected theorem LinVerif.Props.C17.{thm})"
  unless missing.isEmpty do
    throwError "sql/stmt has struct fields / node types the statement model does not cover:\n{"\n".intercalate missing.toList}"
  logInfo m!"{lits.size / 2} field / node-type obligations of sql/stmt have their theorem"

#check_field_obligations

/-- the list is not empty (an extraction that silently found nothing would pass the check above) -/
theorem fieldObligations_found :
    Generated.C17.fieldObligations.length = 34 ∧ Generated.C17.wireStatements.length = 2 := by decide

end LinVerif.Props.C17
