/-
C04 — the target slot range of a rollup job (`merger.prepare`, rollup branch) for arbitrary source
range ends and interval pairs inside the guard: both ends and the length exactly, every source slot
of the merged range lands inside the range, both ends are hit; the exact condition under which the
"simplified" end `Start + (sourceEnd-sourceStart)/ratio` loses the last target slot; the field-type
aggregate as the regenerated decision tables give it.
-/
import LinVerif.Generated.C03
import LinVerif.Generated.C04
import LinVerif.Lemmas.C04Range
import LinVerif.Lemmas.C04Calendar

set_option linter.unusedSimpArgs false
namespace LinVerif.Props.C04
open LinVerif.Rollup LinVerif.Lemmas.C04

/-! ## ties -/

/-- both ends of the target range are the slot of the timestamp of the corresponding END OF THE SOURCE
RANGE (`prepare` / `prepEnd true`), and the source range is the hull of the blocks' ranges -/
theorem tie_prepare_range :
    Generated.C04.prepareStartExpr = "m.rollup.CalcSlot(m.rollup.GetTimestamp(ctx.sourceRange.Start))" ∧
    Generated.C04.prepareEndExpr = "m.rollup.CalcSlot(m.rollup.GetTimestamp(ctx.sourceRange.End))" ∧
    Generated.C04.prepareEndIsMapped = true ∧
    Generated.C04.prepareHullUpdates =
      ["ctx.sourceRange.Start > timeRange.Start => ctx.sourceRange.Start = timeRange.Start",
       "ctx.sourceRange.End < timeRange.End => ctx.sourceRange.End = timeRange.End"] := by
  decide

/-- the model's `prepare` has the end of the code's shape -/
theorem prepare_end_is_mapped (r : R) (blocks : List MBlock) (p : Prep) (hp : prepare r blocks = some p) :
    p.tEnd = prepEnd Generated.C04.prepareEndIsMapped r p.srcStart p.srcEnd := by
  obtain ⟨_, f2, _, _⟩ := prepare_fields r blocks p hp
  rw [f2]; rfl

/-- The model's field-type aggregate `agg` is what the two regenerated decision tables
(`field.Type.AggType()`: field type → aggregate kind; `AggType.Aggregate(a, b)`: kind → expression) give,
for every field type that exists (1 sum, 2 min, 3 max, 4 last, 5 histogram, 6 first). -/
theorem tie_agg_table (ft : Nat) (hft : ft ∈ [1, 2, 3, 4, 5, 6]) (a b : Int) :
    aggByTable Generated.C03.fieldAggTable Generated.C03.aggregateTable ft a b = some (agg ft a b) := by
  simp only [List.mem_cons, List.not_mem_nil, or_false] at hft
  rcases hft with rfl | rfl | rfl | rfl | rfl | rfl <;>
    simp [aggByTable, agg, Generated.C03.fieldAggTable, Generated.C03.aggregateTable]

/-- a field type outside the table is the `panic("need impl")` default, not a silent sum -/
theorem agg_table_unknown_type (a b : Int) :
    aggByTable Generated.C03.fieldAggTable Generated.C03.aggregateTable 0 a b = none ∧
    aggByTable Generated.C03.fieldAggTable Generated.C03.aggregateTable 7 a b = none := by
  constructor <;> simp [aggByTable, Generated.C03.fieldAggTable]

/-! ## the target range, exactly -/

/-- the conclusion: ends, distance, length, no slot outside, both ends hit (`b` base slot, `ρ` ratio) -/
def RangeExact (p : Prep) (b ρ : Nat) : Prop :=
  p.tStart = ((b + p.srcStart / ρ : Nat) : Int)
  ∧ p.tEnd = ((b + p.srcEnd / ρ : Nat) : Int)
  ∧ p.tEnd - p.tStart = (((p.srcStart % ρ + (p.srcEnd - p.srcStart)) / ρ : Nat) : Int)
  ∧ p.length = p.srcEnd / ρ - p.srcStart / ρ + 1
  ∧ (∀ t : Nat, p.srcStart ≤ t → t ≤ p.srcEnd →
      0 ≤ targetPos p.ratio p.baseSlot p.tStart t ∧ targetPos p.ratio p.baseSlot p.tStart t < p.length)
  ∧ targetPos p.ratio p.baseSlot p.tStart p.srcStart = 0
  ∧ targetPos p.ratio p.baseSlot p.tStart p.srcEnd = (p.length : Int) - 1

/-- day-type source, month-type target, any blocks whose merged range `srcStart..srcEnd` lies inside the
source family: base slot `h·1h / tgt`, ratio `tgt / src`. -/
theorem prepare_range_month (c : Cal) (D h src tgt : Nat) (hc : c.OkAt D) (hh : h < 24)
    (hst : itype (src : Int) = .day) (htt : itype (tgt : Int) = .month) (g : Guard src tgt 3600000)
    (blocks : List MBlock) (p : Prep) (hp : prepare (mkR c src tgt ((D : Int) * oneDay) h) blocks = some p)
    (hse : p.srcStart ≤ p.srcEnd) (hend : p.srcEnd * src < 3600000) :
    RangeExact p (h * 3600000 / tgt) (tgt / src) := by
  obtain ⟨hr, _, _, hsmall⟩ := month_setup c D h src tgt hc hh hst htt p.srcEnd hend
  rw [hr] at hp
  have hm := (itype_month_iff tgt).1 htt
  have htgt : 0 < tgt := by omega
  have hρ : 0 < tgt / src := Nat.div_pos (Nat.le_of_dvd htgt g.dvd) g.src_pos
  have hF : (3600000 : Nat) ∣ h * 3600000 := Dvd.intro_left h rfl
  have hlt : ∀ t, t ≤ p.srcEnd → t * src < 3600000 := fun t ht =>
    Nat.lt_of_le_of_lt (Nat.mul_le_mul_right src ht) hend
  have hpl := fun t (ht : t ≤ p.srcEnd) =>
    place_month_nat ((D : Int) * oneDay) (h * 3600000) t src tgt 3600000 g htt hF (hlt t ht)
      (by have := hlt t ht; omega)
  have h0 := hpl p.srcEnd (Nat.le_refl _)
  refine prepare_range_of_placement _ (h * 3600000 / tgt) (tgt / src) hρ h0.2.1 blocks p hp hse ?_ ?_
  · intro t ht
    have := hpl t ht
    rw [this.2.2.1, this.2.2.2]
  · rw [h0.2.2.2]; exact hsmall

/-- day-type source, year-type target: base slot `o / tgt` where `o` = offset of the source family in
its month (a multiple of 1h), ratio `tgt / src`. -/
theorem prepare_range_year (c : Cal) (D h src tgt : Nat) (hc : c.OkAt D) (hh : h < 24)
    (hst : itype (src : Int) = .day) (htt : itype (tgt : Int) = .year) (g : Guard src tgt 3600000)
    (blocks : List MBlock) (p : Prep) (hp : prepare (mkR c src tgt ((D : Int) * oneDay) h) blocks = some p)
    (hse : p.srcStart ≤ p.srcEnd) (hend : p.srcEnd * src < 3600000) :
    ∃ o : Nat, (3600000 : Nat) ∣ o ∧ RangeExact p (o / tgt) (tgt / src) := by
  obtain ⟨o, hF, hr, _, _, hb⟩ := year_setup c D h src tgt hc hh hst htt p.srcEnd hend
  refine ⟨o, hF, ?_⟩
  rw [hr] at hp
  have hm := (itype_year_iff tgt).1 htt
  have htgt : 0 < tgt := by omega
  have hρ : 0 < tgt / src := Nat.div_pos (Nat.le_of_dvd htgt g.dvd) g.src_pos
  have hlt : ∀ t, t ≤ p.srcEnd → t * src < 3600000 := fun t ht =>
    Nat.lt_of_le_of_lt (Nat.mul_le_mul_right src ht) hend
  have hpl := fun t (ht : t ≤ p.srcEnd) =>
    place_year_nat (c.monthStart D * oneDay) o t src tgt 3600000 g htt hF (hlt t ht) (hb t ht)
  have h0 := hpl p.srcEnd (Nat.le_refl _)
  refine prepare_range_of_placement _ (o / tgt) (tgt / src) hρ h0.2.1 blocks p hp hse ?_ ?_
  · intro t ht
    have := hpl t ht
    rw [this.2.2.1, this.2.2.2]
  · rw [h0.2.2.2]; exact hb p.srcEnd (Nat.le_refl _)

/-- the real calendar: no calendar hypothesis -/
theorem prepare_range_month_greg (D h src tgt : Nat) (hh : h < 24)
    (hst : itype (src : Int) = .day) (htt : itype (tgt : Int) = .month) (g : Guard src tgt 3600000)
    (blocks : List MBlock) (p : Prep) (hp : prepare (mkR stdCal src tgt ((D : Int) * oneDay) h) blocks = some p)
    (hse : p.srcStart ≤ p.srcEnd) (hend : p.srcEnd * src < 3600000) :
    RangeExact p (h * 3600000 / tgt) (tgt / src) :=
  prepare_range_month stdCal D h src tgt (stdCal_okAt D) hh hst htt g blocks p hp hse hend

/-- the merged source range of non-empty blocks is not empty (the hypothesis `srcStart ≤ srcEnd`) -/
theorem prepare_source_range_nonempty (r : R) (b : MBlock) (rest : List MBlock) (p : Prep)
    (hb : b.start ≤ b.stop) (hp : prepare r (b :: rest) = some p) : p.srcStart ≤ p.srcEnd :=
  prepare_src_le r b rest p hb hp

/-! ## the "simplified" end -/

/-- For every source range and every ratio: `Start + (End-Start)/ratio` equals the mapped end iff the
offset of the range start inside its target slot plus the remainder of the distance stays below the
ratio; otherwise it is exactly one slot short. (Full strength: all `s ≤ e`, all `ρ > 0`.) -/
theorem shortcut_end_exact_iff (r : R) (b ρ : Nat) (hρ : 0 < ρ) (hr : r.intervalRatio = (ρ : Int))
    (s e : Nat) (hse : s ≤ e)
    (hplace : ∀ t : Nat, t ≤ e → r.calcSlot (r.getTimestamp t) = ((b + t / ρ : Nat) : Int)) :
    (prepEnd false r s e = prepEnd true r s e ↔ s % ρ + (e - s) % ρ < ρ)
    ∧ (prepEnd false r s e ≠ prepEnd true r s e → prepEnd false r s e = prepEnd true r s e - 1) := by
  have h1 := shortcut_short_iff s e ρ hρ hse
  have h2 := shortcut_bounds s e ρ hρ hse
  have hf : prepEnd false r s e = ((b + s / ρ + (e - s) / ρ : Nat) : Int) := by
    simp only [prepEnd, Bool.false_eq_true, if_false, hplace s hse, hr]
    have : ((e : Int) - (s : Int)) = ((e - s : Nat) : Int) := by omega
    rw [this]
    push_cast
    rfl
  have ht : prepEnd true r s e = ((b + e / ρ : Nat) : Int) := by
    simp only [prepEnd, if_true, hplace e (Nat.le_refl _)]
  rw [hf, ht]
  constructor
  · constructor
    · intro h; have : b + s / ρ + (e - s) / ρ = b + e / ρ := by exact_mod_cast h
      omega
    · intro h; have : b + s / ρ + (e - s) / ρ = b + e / ρ := by omega
      rw [this]
  · intro h
    have hne : b + s / ρ + (e - s) / ρ ≠ b + e / ρ := fun hh => h (by rw [hh])
    have : b + s / ρ + (e - s) / ρ + 1 = b + e / ρ := by omega
    rw [← this]; push_cast; omega

namespace Neg

/-- (seeded c04-19's shape) 10s → 5m, family 01:00 of 2019-07-02, one series with values in source
slots 29 and 30 (range 29..30 starts inside target slot 12): the mapped end is slot 13, the simplified
end is 12, the target array has length 1 instead of 2 and the value of slot 30 hits the `break` —
target slot 13 stays empty although a source value falls into it. -/
theorem shortcut_end_drops_last_slot :
    let r := mkR stdCal 10000 300000 (18079 * oneDay) 1
    prepEnd true r 29 30 = 13 ∧ prepEnd false r 29 30 = 12
    ∧ downSample 1 (targetPos r.intervalRatio r.baseSlot 12) 2 [[(29, 5), (30, 7)]] 1 = some 7
    ∧ downSample 1 (targetPos r.intervalRatio r.baseSlot 12) 1 [[(29, 5), (30, 7)]] 1 = none := by
  decide

end Neg

end LinVerif.Props.C04
