/-
C13 (round 12) — the broker's family iterator is a REUSED object: a field of the pooled
`BrokerBatchRows` (one `sync.Pool` for the writes of all databases), reset once per shard group and
once per request, by databases of different interval types.  `Model/C13Broker.lean` mirrors the object
(`FamIter`: six fields, `reset`, `isSameFamily`, `HasNextFamily`, `NextFamily`, the caller's loop).

Proved here, for EVERY left-over iterator state `s` (any field values — whatever earlier requests of
any interval type left behind), every calculator and every list of rows with timestamps ≥ 0:
* `broker_iterator_stateless` — `reset` + the `HasNextFamily`/`NextFamily` loop hands out exactly the
  stateless `groupFamilies` of THIS request (so `broker_groups_sound` / `broker_groups_complete` apply),
  and any further `HasNextFamily` call adds nothing (the loop ended by itself, not by the fuel);
* `broker_pooled_sequence` / `broker_pooled_sound` — any sequence of requests (interval type, rows) served
  by one iterator object: request `i` is grouped by ITS interval type only;
* `broker_reiterate` — the same batch iterated once per calculator of a list (rows left sorted in place by
  the previous iteration): every iteration is the stateless grouping of a permutation of the batch;
* `broker_shards` — the shard groups of one batch through the one family iterator.
Lemmas: `Lemmas/C13Broker.lean`.
-/
import LinVerif.Lemmas.C13Broker
import LinVerif.Props.C13
import LinVerif.Generated.C13

namespace LinVerif.Props.C13
open LinVerif.Interval

/-- whatever the pooled iterator held before: `reset(rows, interval)` and the caller's loop hand out the
stateless family grouping of this request's rows under this request's calculator; calling
`HasNextFamily` more often (`fuel` > `len(rows) + 1`) hands out nothing more -/
theorem broker_iterator_stateless (s : FamIter) (c : Calc) (rows : List Int) (hts : ∀ t ∈ rows, 0 ≤ t)
    (fuel : Nat) (hf : rows.length + 1 ≤ fuel) :
    (FamIter.drain fuel (s.reset rows c)).1 = groupFamilies c rows :=
  Lemmas.C13.drain_reset s c rows hts fuel hf

theorem broker_serve (s : FamIter) (c : Calc) (rows : List Int) (hts : ∀ t ∈ rows, 0 ≤ t) :
    (s.serve c rows).1 = groupFamilies c rows :=
  Lemmas.C13.drain_reset s c rows hts _ (Nat.le_refl _)

/-- a pooled iterator serving any sequence of requests of any interval types: every request gets the
grouping of its own rows under its own calculator, from any initial iterator state -/
theorem broker_pooled_sequence (reqs : List (Calc × List Int)) (hts : ∀ r ∈ reqs, ∀ t ∈ r.2, 0 ≤ t) :
    ∀ s : FamIter, FamIter.serveAll s reqs = reqs.map (fun r => groupFamilies r.1 r.2) := by
  induction reqs with
  | nil => intro s; rfl
  | cons r reqs ih =>
    intro s
    obtain ⟨c, rows⟩ := r
    have h1 := broker_serve s c rows (hts (c, rows) (by simp))
    simp only [FamIter.serveAll, List.map_cons]
    rw [ih (fun r hr => hts r (List.mem_cons_of_mem _ hr))]
    rw [h1]

/-- C13 for the pooled iterator: in request `i` of any sequence every row is handed out under the family
of request `i`'s interval type that contains it, and only rows of request `i` are handed out -/
theorem broker_pooled_sound (s : FamIter) (reqs : List (Calc × List Int))
    (hts : ∀ r ∈ reqs, ∀ t ∈ r.2, 0 ≤ t) (i : Nat) (r : Calc × List Int) (out : List (Int × List Int))
    (hr : reqs[i]? = some r) (ho : (FamIter.serveAll s reqs)[i]? = some out) :
    (∀ g ∈ out, ∀ t ∈ g.2, calcFamilyTime r.1 t = g.1 ∧ t ∈ r.2) ∧ (out.flatMap (·.2)).Perm r.2 := by
  rw [broker_pooled_sequence reqs hts s, List.getElem?_map, hr] at ho
  simp only [Option.map_some, Option.some.injEq] at ho
  subst ho
  have hmem : r ∈ reqs := List.mem_of_getElem? hr
  exact ⟨broker_groups_sound r.1 r.2 (hts r hmem), broker_groups_complete r.1 r.2 (hts r hmem)⟩

private theorem forall2_imp {α β : Type} {R S : α → β → Prop} (h : ∀ a b, R a b → S a b) :
    ∀ {l₁ : List α} {l₂ : List β}, List.Forall₂ R l₁ l₂ → List.Forall₂ S l₁ l₂
  | _, _, .nil => .nil
  | _, _, .cons hab t => .cons (h _ _ hab) (forall2_imp h t)

/-- the same batch iterated again and again with different calculators (no release in between; rows stay
in the order the previous in-place sort left): iteration `k` is the stateless grouping, under calculator
`k`, of a permutation of the batch -/
theorem broker_reiterate (cs : List Calc) : ∀ (s : FamIter) (rows : List Int), (∀ t ∈ rows, 0 ≤ t) →
    List.Forall₂ (fun c out => ∃ rows' : List Int, rows'.Perm rows ∧ out = groupFamilies c rows')
      cs (FamIter.reiterate s rows cs) := by
  induction cs with
  | nil => intro s rows _; exact List.Forall₂.nil
  | cons c cs ih =>
    intro s rows hts
    simp only [FamIter.reiterate]
    have hrows : (s.serve c rows).2.rows.Perm rows := by
      simp only [FamIter.serve, Lemmas.C13.drain_rows]
      exact Lemmas.C13.reset_rows_perm s c rows
    refine List.Forall₂.cons ⟨rows, List.Perm.refl _, broker_serve s c rows hts⟩ ?_
    have := ih (s.serve c rows).2 (s.serve c rows).2.rows (fun t ht => hts t (hrows.subset ht))
    exact forall2_imp (fun _ _ ⟨r', hp, he⟩ => ⟨r', hp.trans hrows, he⟩) this

/-- the shard groups of one batch through the batch's ONE family iterator: each group is grouped by
itself, whatever the previous group left in the iterator -/
theorem broker_shards (c : Calc) (gs : List (Nat × List Int)) (hts : ∀ g ∈ gs, ∀ t ∈ g.2, 0 ≤ t) :
    ∀ s : FamIter, FamIter.serveShards s c gs = gs.map (fun g => (g.1, groupFamilies c g.2)) := by
  induction gs with
  | nil => intro s; rfl
  | cons g gs ih =>
    intro s
    obtain ⟨i, rows⟩ := g
    simp only [FamIter.serveShards, List.map_cons]
    rw [ih (fun g hg => hts g (List.mem_cons_of_mem _ hg)), broker_serve s c rows (hts (i, rows) (by simp))]

/-- every row of a batch is in the group of its shard index, and nowhere else -/
theorem shard_groups_exact (rows : List (Nat × Int)) (g : Nat × List Int) (hg : g ∈ shardGroups rows) :
    g.2 = (rows.filter (·.1 == g.1)).map (·.2) := by
  simp only [shardGroups, List.mem_map] at hg
  obtain ⟨i, _, rfl⟩ := hg
  rfl

namespace Tie
open LinVerif.Generated

/-- the Go struct's fields (regenerated from `series/metric/row_broker.go`) are exactly the fields of the
model's `FamIter`, in order: a new field (a memo, a cached calculator, …) re-opens this obligation -/
theorem broker_iterator_fields :
    C13.brokerFamilyIteratorFields = FamIter.fieldDecls := by
  decide

end Tie

/-! ### non-vacuity -/

/-- an iterator left behind by a 10 s (day-type) request whose rows were in the 13:00 hour family … -/
def dirtyIter : FamIter := (FamIter.zero.serve .day [1709125500007, 1709128740999, 1709132400000]).2

example : dirtyIter.groupEnd = 3 ∧ dirtyIter.groupFamilyTime = 1709132400000 ∧ dirtyIter.sameFamily = false := by
  decide

/-- … serves a 5 m (month-type) request with rows inside that hour: one daily family, not the hour -/
example : (dirtyIter.serve .month [1709125500007, 1709128740999]).1
    = [(1709078400000, [1709125500007, 1709128740999])] := by decide

example : FamIter.serveAll FamIter.zero
    [(.day, [1709125500007, 1709132400000]), (.month, [1709125500007]), (.year, [1709125500007])]
    = [[(1709125200000, [1709125500007]), (1709132400000, [1709132400000])],
       [(1709078400000, [1709125500007])], [(1706745600000, [1709125500007])]] := by decide

example : shardGroups [(2, 5), (0, 7), (2, 9), (1, 11)] = [(0, [7]), (1, [11]), (2, [5, 9])] := by decide

end LinVerif.Props.C13
