/-
C02 (round 13): a scan of a table file through the cached (shared) reader yields exactly the file's content, whatever
other scans of the same reader do in between (all schedules). Model: Model/TableScan.lean.
-/
import LinVerif.Model.TableScan
import LinVerif.Generated.C02

namespace LinVerif.Props.C02Scan
open LinVerif LinVerif.TableScan

/-- the code as it is: `Iterator()` builds a new object per call (regenerated fact) -/
def codeCfg : Cfg := { shared := !Generated.C02.iteratorFreshPerCall }

/-- regenerated from kv/table/reader.go: `Iterator()` is `return newMMapIterator(r)`, `newMMapIterator` returns a
composite literal, `storeMMapReader` has no iterator-typed field -/
theorem source_iterator_fresh : Generated.C02.iteratorFreshPerCall = true := rfl

theorem tie_readerIterator :
    Generated.C02.readerIteratorStmts = ["return:newMMapIterator"]
    ∧ Generated.C02.newMMapIteratorReturnsLiteral = true
    ∧ Generated.C02.readerIteratorFields = [] := by decide

theorem tie_iteratorMoves :
    Generated.C02.iteratorKeyMoves = ["it.keyIt.Next"]
    ∧ Generated.C02.iteratorValueMoves = ["it.reader.getBlock", "it.idx++"]
    ∧ Generated.C02.iteratorHasNextMoves = ["it.keyIt.HasNext"] := by decide

/-- who scans: the only `.Iterator()` call of package kv is the compaction's (also the rollup job's: same compactJob)
`makeInputIterator`, which opens every input through the job's snapshot (`GetReader`, i.e. the cached reader) and then
calls `Iterator()` on it — a model `openScan` per input table, the merged iterator only consumes those objects -/
theorem tie_scanCallSites :
    Generated.C02.kvScanSites = ["compact_job.go:makeInputIterator:reader"]
    ∧ Generated.C02.makeInputIteratorCalls = ["snapshot.GetReader", "reader.Iterator", "table.NewMergedIterator"] := by decide

theorem code_private : codeCfg.shared = false := rfl

/-- every scan's handle points to its own object, positioned on the file it opened, and what it was handed so far is
the prefix of that file's keys / values of the length of its positions -/
def Inv (s : St) : Prop := ∀ i o, s.h i = some o →
  o = .own i ∧ (s.it o).file = s.opened i ∧
  s.keys i = (tableKeys s (s.opened i)).take (s.it o).kpos ∧
  s.vals i = (tableVals s (s.opened i)).take (s.it o).vidx

theorem step_content {cfg : Cfg} {s s' : St} {a : Act} (h : step cfg s a = some s') : s'.content = s.content := by
  cases a with
  | openScan i f => simp [step] at h; subst h; rfl
  | key i =>
    simp only [step] at h
    split at h
    · cases h
    · split at h
      · cases h
      · cases h; rfl
  | value i =>
    simp only [step] at h
    split at h
    · cases h
    · split at h
      · cases h
      · cases h; rfl

theorem take_snoc {α} (l : List α) (n : Nat) (x : α) (h : l[n]? = some x) : l.take n ++ [x] = l.take (n + 1) := by
  rw [List.take_add_one, h]; rfl

theorem inv_init (content : Nat → Table) : Inv (St.init content) := by
  intro i o h; simp [St.init] at h

theorem inv_step {cfg : Cfg} (hc : cfg.shared = false) {s s' : St} {a : Act}
    (hi : Inv s) (h : step cfg s a = some s') : Inv s' := by
  cases a with
  | openScan i f =>
    simp only [step, objFor, hc] at h
    cases h
    intro j o hj
    by_cases hji : j = i
    · subst hji
      simp at hj
      subst hj
      simp [tableKeys, tableVals]
    · simp [hji] at hj
      obtain ⟨h1, h2, h3, h4⟩ := hi j o hj
      subst h1
      simp [hji, tableKeys, tableVals] at *
      exact ⟨h2, h3, h4⟩
  | key i =>
    simp only [step] at h
    split at h
    · cases h
    · rename_i o ho
      split at h
      · cases h
      · rename_i k hk
        cases h
        intro j o' hj
        simp only at hj
        obtain ⟨h1, h2, h3, h4⟩ := hi j o' hj
        by_cases hji : j = i
        · subst hji
          have : o' = o := by rw [ho] at hj; cases hj; rfl
          subst this
          simp only [tableKeys, tableVals] at *
          simp only [if_true, h2] at *
          refine ⟨h1, trivial, ?_, h4⟩
          rw [h3]; exact take_snoc _ _ _ hk
        · obtain ⟨g1, _, _, _⟩ := hi i o ho
          have hne : o' ≠ o := by subst h1; subst g1; intro e; cases e; exact hji rfl
          simp only [tableKeys, tableVals, hne, hji, if_false] at *
          exact ⟨h1, h2, h3, h4⟩
  | value i =>
    simp only [step] at h
    split at h
    · cases h
    · rename_i o ho
      split at h
      · cases h
      · rename_i k hk
        cases h
        intro j o' hj
        simp only at hj
        obtain ⟨h1, h2, h3, h4⟩ := hi j o' hj
        by_cases hji : j = i
        · subst hji
          have : o' = o := by rw [ho] at hj; cases hj; rfl
          subst this
          simp only [tableKeys, tableVals] at *
          simp only [if_true, h2] at *
          refine ⟨h1, trivial, h3, ?_⟩
          rw [h4]; exact take_snoc _ _ _ hk
        · obtain ⟨g1, _, _, _⟩ := hi i o ho
          have hne : o' ≠ o := by subst h1; subst g1; intro e; cases e; exact hji rfl
          simp only [tableKeys, tableVals, hne, hji, if_false] at *
          exact ⟨h1, h2, h3, h4⟩

/-- over ALL schedules of any number of scans over any tables -/
theorem scan_invariant {cfg : Cfg} (hc : cfg.shared = false) {content : Nat → Table} {s : St}
    (hr : Reachable cfg content s) : Inv s ∧ s.content = content := by
  induction hr with
  | init => exact ⟨inv_init _, rfl⟩
  | step a _ hs ih => exact ⟨inv_step hc ih.1 hs, (step_content hs).trans ih.2⟩

/-- every state a schedule (`run`) leads to is reachable: the theorems below hold along every executed schedule,
the compaction's input scans (`makeInputIterator` = one `openScan` per input, ids of its own) included -/
theorem run_reachable {cfg : Cfg} {content : Nat → Table} {s s' : St} (hr : Reachable cfg content s) (acts : List Act)
    (h : run cfg s acts = some s') : Reachable cfg content s' := by
  induction acts generalizing s with
  | nil => simp [run] at h; subst h; exact hr
  | cons a rest ih =>
    simp only [run] at h
    split at h
    · cases h
    · rename_i s1 hs1
      exact ih (Reachable.step a hr hs1) h

/-- what a scan was handed so far is a prefix of the content of the table it opened — no matter how many other
scans of the same cached reader started, advanced or finished in between -/
theorem scan_yields_prefix_of_table {cfg : Cfg} (hc : cfg.shared = false) {content : Nat → Table} {s : St}
    (hr : Reachable cfg content s) {i : Nat} {o : Obj} (ho : s.h i = some o) :
    s.keys i = ((content (s.opened i)).map (·.1)).take (s.it o).kpos
    ∧ s.vals i = ((content (s.opened i)).map (·.2)).take (s.it o).vidx := by
  obtain ⟨hi, hcnt⟩ := scan_invariant hc hr
  obtain ⟨_, _, h3, h4⟩ := hi i o ho
  simp only [tableKeys, tableVals, hcnt] at h3 h4
  exact ⟨h3, h4⟩

/-- a scan that ran until `HasNext()` answered false and took a value per key was handed exactly the table's entries -/
theorem complete_scan_is_table {cfg : Cfg} (hc : cfg.shared = false) {content : Nat → Table} {s : St}
    (hr : Reachable cfg content s) {i : Nat} {o : Obj} (ho : s.h i = some o)
    (hend : hasNext s i = false) (hv : (s.it o).vidx = (s.it o).kpos) :
    (s.keys i).zip (s.vals i) = content (s.opened i) := by
  obtain ⟨hi, hcnt⟩ := scan_invariant hc hr
  obtain ⟨_, h2, _, _⟩ := hi i o ho
  obtain ⟨h3, h4⟩ := scan_yields_prefix_of_table hc hr ho
  simp only [hasNext, ho, h2, hcnt, decide_eq_false_iff_not, Nat.not_lt] at hend
  rw [h3, h4, hv, List.take_of_length_le (by simpa using hend), List.take_of_length_le (by simpa using hend)]
  generalize content (s.opened i) = l
  induction l with
  | nil => rfl
  | cons x xs ih => simp [ih]

/-- frame: a step of another scan leaves this scan's object, handle and observations alone -/
theorem other_scan_step_keeps_scan {cfg : Cfg} (hc : cfg.shared = false) {content : Nat → Table} {s s' : St}
    (hr : Reachable cfg content s) {a : Act} (h : step cfg s a = some s') {i : Nat} (hne : a.scan ≠ i) :
    s'.h i = s.h i ∧ s'.it (.own i) = s.it (.own i) ∧ s'.keys i = s.keys i ∧ s'.vals i = s.vals i
    ∧ s'.opened i = s.opened i := by
  obtain ⟨hi, _⟩ := scan_invariant hc hr
  cases a with
  | openScan j f =>
    simp only [Act.scan] at hne
    simp only [step, objFor, hc] at h
    cases h
    have : i ≠ j := fun e => hne e.symm
    simp [this]
  | key j =>
    simp only [Act.scan] at hne
    simp only [step] at h
    split at h
    · cases h
    · rename_i o ho
      split at h
      · cases h
      · cases h
        obtain ⟨g1, _⟩ := hi j o ho
        subst g1
        have : i ≠ j := fun e => hne e.symm
        simp [this]
  | value j =>
    simp only [Act.scan] at hne
    simp only [step] at h
    split at h
    · cases h
    · rename_i o ho
      split at h
      · cases h
      · cases h
        obtain ⟨g1, _⟩ := hi j o ho
        subst g1
        have : i ≠ j := fun e => hne e.symm
        simp [this]

/-- `compactJob.makeInputIterator`: one `Iterator()` call per input table, in order (scan ids base, base+1, …) -/
def inputActs : Nat → List Nat → List Act
  | _, [] => []
  | base, f :: fs => .openScan base f :: inputActs (base + 1) fs

/-- the compaction's `makeInputIterator` in the middle of ANY state (readers in the middle of scans of the same
tables): it is always enabled, every input scan starts on its own object at the first entry of its table, and no scan
with a smaller id (the readers') has its handle, object or observations touched -/
theorem input_scans_opened {cfg : Cfg} (hc : cfg.shared = false) (files : List Nat) :
    ∀ (base : Nat) (s : St), ∃ s', run cfg s (inputActs base files) = some s'
      ∧ (∀ j (hj : j < files.length), s'.h (base + j) = some (.own (base + j)) ∧ s'.opened (base + j) = files[j]
            ∧ s'.keys (base + j) = [] ∧ s'.vals (base + j) = [] ∧ s'.it (.own (base + j)) = ⟨files[j], 0, 0⟩)
      ∧ (∀ i, i < base → s'.h i = s.h i ∧ s'.keys i = s.keys i ∧ s'.vals i = s.vals i
            ∧ s'.it (.own i) = s.it (.own i) ∧ s'.opened i = s.opened i) := by
  induction files with
  | nil => intro base s; exact ⟨s, rfl, fun j hj => absurd hj (Nat.not_lt_zero _), fun i _ => ⟨rfl, rfl, rfl, rfl, rfl⟩⟩
  | cons f fs ih =>
    intro base s
    obtain ⟨s1, hs1⟩ : ∃ s1, step cfg s (.openScan base f) = some s1 := ⟨_, rfl⟩
    obtain ⟨s', hrun, hnew, hold⟩ := ih (base + 1) s1
    refine ⟨s', by simp only [inputActs, run, hs1]; exact hrun, ?_, ?_⟩
    · intro j hj
      cases j with
      | zero =>
        obtain ⟨g1, g2, g3, g4, g5⟩ := hold base (Nat.lt_succ_self _)
        simp only [step, objFor, hc] at hs1
        cases hs1
        simp only [Nat.add_zero, List.getElem_cons_zero]
        simp at g1 g2 g3 g4 g5
        exact ⟨g1, g5, g2, g3, g4⟩
      | succ j =>
        have hj' : j < fs.length := by simpa using hj
        have e : base + (j + 1) = base + 1 + j := by omega
        obtain ⟨g1, g2, g3, g4, g5⟩ := hnew j hj'
        simp only [e, List.getElem_cons_succ]
        exact ⟨g1, g2, g3, g4, g5⟩
    · intro i hi
      obtain ⟨g1, g2, g3, g4, g5⟩ := hold i (Nat.lt_succ_of_lt hi)
      have hne : i ≠ base := Nat.ne_of_lt hi
      simp only [step, objFor, hc] at hs1
      cases hs1
      simp [hne] at g1 g2 g3 g4 g5
      exact ⟨g1, g2, g3, g4, g5⟩


theorem scan_current_source {content : Nat → Table} {s : St} (hr : Reachable codeCfg content s)
    {i : Nat} {o : Obj} (ho : s.h i = some o) (hend : hasNext s i = false) (hv : (s.it o).vidx = (s.it o).kpos) :
    (s.keys i).zip (s.vals i) = content (s.opened i) :=
  complete_scan_is_table code_private hr ho hend hv

/-! non-vacuity: table 7 with three entries; scan 0 reads one entry, scan 1 (same reader) reads the whole table,
scan 0 goes on to the end -/
def demoContent : Nat → Table := fun f => if f = 7 then [(1, [10]), (2, [20]), (3, [30])] else []

def demoTrace : List Act :=
  [.openScan 0 7, .key 0, .value 0, .openScan 1 7, .key 1, .value 1, .key 1, .value 1, .key 1, .value 1,
   .key 0, .value 0, .key 0, .value 0]

example : ((run {} (St.init demoContent) demoTrace).map
    (fun s => ((s.keys 0).zip (s.vals 0), (s.keys 1).zip (s.vals 1), hasNext s 0))) =
    some ([(1, [10]), (2, [20]), (3, [30])], [(1, [10]), (2, [20]), (3, [30])], false) := by decide

/-- a compaction opening its inputs (7 and 8) while reader scan 0 is inside table 7; both go on -/
example : ((run {} (St.init demoContent)
    ([.openScan 0 7, .key 0, .value 0] ++ inputActs 10 [7, 8] ++ [.key 10, .value 10, .key 0, .value 0])).map
    (fun s => (s.keys 0, s.keys 10, hasNext s 11))) = some ([1, 2], [1], false) := by decide

namespace Neg
/-- one iterator object per reader (rewound by every `Iterator()` call): the same schedule stops scan 0 after ONE of
the table's three entries (its `HasNext()` is false: the other scan drained the shared object) -/
theorem shared_iterator_loses_entries :
    (run { shared := true } (St.init demoContent) (demoTrace.take 10)).map
      (fun s => ((s.keys 0).zip (s.vals 0), hasNext s 0)) = some ([(1, [10])], false) := by decide

/-- and in the other order a scan that starts inside another one makes that one repeat entries -/
theorem shared_iterator_repeats_entries :
    (run { shared := true } (St.init demoContent)
      [.openScan 0 7, .key 0, .value 0, .key 0, .value 0, .openScan 1 7, .key 0, .value 0]).map
      (fun s => (s.keys 0).zip (s.vals 0)) = some [(1, [10]), (2, [20]), (1, [10])] := by decide
end Neg

end LinVerif.Props.C02Scan
