/-
C13 (round 9) — "every timestamp belongs to exactly one segment and one family" at the level of the
live objects when the lifecycle task's `Shard.EvictSegment()` runs between the writers' atomic steps.

Model: `Model/C13Evict.lean` (three critical sections per writer — get-or-create segment, the
rollup-target loop that get-or-creates the writable segment once more, get-or-create family on the
segment object of the FIRST step — and one critical section per evict). Lemmas: `Lemmas/C13Evict.lean`.

What holds for every schedule: writers that hold an OPEN segment object agree on one registered
family object (`evict_open_holders_unique`); when every evict step happens while no writer stands
between its first step and its return, every writer holds an open segment object and all writers of
one family agree (`evict_quiescent_unique`). What does not hold (`Neg.*`): an evict step while a writer
stands between its levels — the code hands that writer a family object of a closed, unregistered
segment object: two live family objects for one timestamp, or a family object no query / later writer
resolves, or (fresh family) a family directory the registered store does not know, after which every
later `GetOrCrateDataFamily` of that family fails.
-/
import LinVerif.Lemmas.C13Evict
import LinVerif.Generated.C13

namespace LinVerif.Props.C13
open LinVerif.Interval

/-- EVERY schedule of writer steps and evict steps, any writers, any families already on disk: the
threads still are the writers of the given timestamps, and two writers whose timestamps (`≥ 0`) lie
in one family, that have returned a family object and whose segment object is still OPEN, hold the
same family object — the registered one. -/
theorem evict_open_holders_unique (c : Calc) (ts pre : List Int) (sched : List EStep) :
    (eRun (eInit c ts pre) sched).threads.map (·.ts) = ts ∧
    ∀ t1 ∈ (eRun (eInit c ts pre) sched).threads, ∀ t2 ∈ (eRun (eInit c ts pre) sched).threads,
      0 ≤ t1.ts → 0 ≤ t2.ts → calcFamilyTime c t1.ts = calcFamilyTime c t2.ts →
      ∀ so1 so2 a b, t1.segObj = some so1 → so1 ∉ (eRun (eInit c ts pre) sched).sh.closed →
        t2.segObj = some so2 → so2 ∉ (eRun (eInit c ts pre) sched).sh.closed →
        t1.famObj = some a → t2.famObj = some b →
        a = b ∧ eRegistered (eRun (eInit c ts pre) sched) t1 = some a := by
  obtain ⟨inv, hts⟩ := Lemmas.C13.eRun_inv c sched _ (Lemmas.C13.eInit_inv c ts pre).1
  refine ⟨hts.trans (Lemmas.C13.eInit_ts c ts pre), ?_⟩
  intro t1 m1 t2 m2 h1 h2 hfam so1 so2 a b e1 c1 e2 c2 ha hb
  obtain ⟨s1, f1⟩ := inv.keys t1 m1
  obtain ⟨s2, f2⟩ := inv.keys t2 m2
  have k2 := Lemmas.C13.family_contains c h2
  rw [← hfam] at k2
  have eseg : t2.seg = t1.seg := by
    rw [s1, s2]; exact Lemmas.C13.segment_const_on_family c h1 k2.1 k2.2
  have efam : t2.fam = t1.fam := by
    rw [f1, f2]; exact Lemmas.C13.family_index_const_on_family c h1 k2.1 k2.2
  have r1 := inv.segReg t1 m1 so1 e1 c1
  have r2 := inv.segReg t2 m2 so2 e2 c2
  rw [eseg, r1] at r2
  have eso : so1 = so2 := Option.some.inj r2
  subst eso
  obtain ⟨x1, ex1, l1⟩ := inv.famReg t1 m1 a ha
  obtain ⟨x2, ex2, l2⟩ := inv.famReg t2 m2 b hb
  rw [e1] at ex1; cases ex1
  rw [e2] at ex2; cases ex2
  rw [efam, l1] at l2
  refine ⟨Option.some.inj l2, ?_⟩
  simp only [eRegistered, r1, l1]

/-- When every evict step of the schedule happens in a quiescent state (no writer between its first
get-or-create and its return): no writer ever holds a closed segment object, so ALL writers of one
family that returned hold the one registered family object — the statement of
`family_object_unique` with `EvictSegment` in the schedule. -/
theorem evict_quiescent_unique (c : Calc) (ts pre : List Int) (sched : List EStep)
    (hq : evictsQuiescent (eInit c ts pre) sched = true) :
    ∀ t1 ∈ (eRun (eInit c ts pre) sched).threads, ∀ t2 ∈ (eRun (eInit c ts pre) sched).threads,
      0 ≤ t1.ts → 0 ≤ t2.ts → calcFamilyTime c t1.ts = calcFamilyTime c t2.ts →
      ∀ a b, t1.famObj = some a → t2.famObj = some b →
        a = b ∧ eRegistered (eRun (eInit c ts pre) sched) t1 = some a := by
  obtain ⟨i0, h0⟩ := Lemmas.C13.eInit_inv c ts pre
  obtain ⟨inv, _⟩ := Lemmas.C13.eRun_inv c sched _ i0
  have ho := Lemmas.C13.eRun_heldOpen c sched _ i0 h0 hq
  intro t1 m1 t2 m2 h1 h2 hfam a b ha hb
  obtain ⟨so1, e1, _⟩ := inv.famReg t1 m1 a ha
  obtain ⟨so2, e2, _⟩ := inv.famReg t2 m2 b hb
  have c1 := ho t1 m1 (Or.inr (Or.inr (by simp [ha]))) so1 e1
  have c2 := ho t2 m2 (Or.inr (Or.inr (by simp [hb]))) so2 e2
  exact (evict_open_holders_unique c ts pre sched).2 t1 m1 t2 m2 h1 h2 hfam so1 so2 a b e1 c1 e2 c2 ha hb

/-- non-vacuity: the empty schedule and a schedule whose evict runs before any writer are quiescent;
two writers then share object 1 (object 0 is the segment) -/
example :
    evictsQuiescent (eInit .day [1715851800000, 1715851800001] []) [.evict, .w 0, .w 0, .w 0, .evict, .w 1, .w 1, .w 1] = true ∧
    (eRun (eInit .day [1715851800000, 1715851800001] [])
      [.evict, .w 0, .w 0, .w 0, .evict, .w 1, .w 1, .w 1]).threads.map (·.famObj) = [some 1, some 1] := by
  decide

namespace Tie
open LinVerif.Generated

/-- the steps the evict model rests on, re-read from the source: `intervalSegment.EvictSegment` is one
critical section that asks `NeedEvict`, closes and deletes; `NeedEvict` looks at `len(families)` under
the segment's lock; `segment.Close` closes the kv store and replaces the family map but marks nothing
on the Segment object; `shard.EvictSegment` only forwards; `shard.GetOrCrateDataFamily` get-or-creates
the segment, yields, get-or-creates segments once more in the rollup-target loop and then asks the
segment object of the FIRST call for the family. -/
theorem evict_steps :
    C13.evictSegmentEvents = ["Lock", "defer:Unlock", "read:segments", "call:NeedEvict", "call:Close",
      "call:delete", "call:String", "call:String", "call:Info"] ∧
    C13.needEvictEvents = ["Lock", "defer:Unlock", "call:len"] ∧
    C13.segmentCloseEvents = ["Lock", "defer:Unlock", "call:Close", "call:Indicator", "call:String",
      "call:Error", "call:GetStoreManager", "call:Name", "call:CloseStore", "call:Error", "call:Error",
      "call:make"] ∧
    C13.shardEvictSegmentEvents = ["call:EvictSegment"] ∧
    C13.shardGetOrCrateDataFamilyEvents = ["call:Calculator", "call:GetSegment", "call:GetOrCreateSegment",
      "call:Yield", "call:Calculator", "call:GetSegment", "call:GetOrCreateSegment",
      "call:GetOrCreateDataFamily"] := by decide

end Tie

namespace Neg

/-- **Two live family objects for one timestamp** (family already on disk): writer 0 gets the segment
object (0), `EvictSegment` closes and unregisters it (no family object registered in it yet), writer 1
opens a new segment object (1) and gets family object 2, writer 0 continues on the closed object 0,
whose kv store still knows the family, and is handed family object 3 — no error. Registered: 2. -/
theorem evict_between_levels_two_family_objects :
    let s := eDrain (eRun (eInit .day [1715851800000, 1715851800000] [1715851800000])
      [.w 0, .evict, .w 1, .w 1, .w 1, .w 0, .w 0])
    s.threads.map (·.famObj) = [some 3, some 2] ∧ s.threads.map (·.err) = [false, false] ∧
      s.threads.map (eRegistered s) = [some 2, some 2] ∧ s.sh.closed = [0] ∧ s.sh.opened = 2 := by decide

/-- **A family object nobody resolves** (family on disk, one writer): the writer returns family
object 2 of the closed segment object 0; the rollup-target loop of the same call has registered a new
segment object (1) in which no family object is registered. -/
theorem evict_between_levels_unregistered_family_object :
    let s := eDrain (eRun (eInit .day [1715851800000] [1715851800000]) [.w 0, .evict])
    s.threads.map (·.famObj) = [some 2] ∧ s.threads.map (eRegistered s) = [none] ∧ s.sh.closed = [0] := by
  decide

/-- **The family can no longer be created** (fresh family): the exposed writer creates the family
directory through the closed store (object 0) AFTER its own rollup-target loop opened the new
registered store (object 1), which therefore does not know the family; a later writer of the same
family gets an error from `CreateFamily` (directory exists, option unknown), and so does every writer
after it. -/
theorem evict_between_levels_family_creation_fails_afterwards :
    let s := eDrain (eRun (eInit .day [1715851800000, 1715851800000, 1715851800000] []) [.w 0, .evict, .w 0, .w 0])
    s.threads.map (·.famObj) = [some 2, none, none] ∧ s.threads.map (·.err) = [false, true, true] ∧
      s.threads.map (eRegistered s) = [none, none, none] := by decide

/-- the same three writers without the evict step: one family object, registered -/
theorem no_evict_one_family_object :
    let s := eDrain (eRun (eInit .day [1715851800000, 1715851800000, 1715851800000] []) [.w 0, .w 0, .w 0])
    s.threads.map (·.famObj) = [some 1, some 1, some 1] ∧ s.threads.map (eRegistered s) = [some 1, some 1, some 1] := by
  decide

end Neg

end LinVerif.Props.C13
