/-
C12 (fourth module) — the task manager does not lose a response of a registered request, and a
response that arrives before the registration is lost for good: the order `AddTask` before
`pipeline.Execute` in query/search.go exec is what makes "any arrival order of the leaf responses"
harmless. Model `LinVerif.TaskMgr` over `RootMerge.Ctx`.
-/
import LinVerif.Model.TaskMgr
import LinVerif.Props.C12
import LinVerif.Generated.C12

namespace LinVerif.Props.C12
open LinVerif.RootMerge LinVerif.TaskMgr

theorem tm_run_registered (keep : Bool) (v : Variant) :
    ∀ (evs : List Ev) (s : S), s.registered = true → (∀ e ∈ evs, isAddRemove e = false) →
      (s.run keep v evs).registered = true ∧
      (s.run keep v evs).dropped = s.dropped ∧
      (s.run keep v evs).ctx = s.ctx.run keep v (evs.filterMap toEvent) := by
  intro evs
  induction evs with
  | nil => intro s hs _; exact ⟨hs, rfl, rfl⟩
  | cons e es ih =>
    intro s hs hall
    have he := hall e List.mem_cons_self
    have hes : ∀ e' ∈ es, isAddRemove e' = false := fun e' h => hall e' (List.mem_cons_of_mem _ h)
    cases e with
    | add => simp [isAddRemove] at he
    | remove => simp [isAddRemove] at he
    | recv r =>
      have h := ih (s.step keep v (.recv r)) (by simp [S.step, hs]) hes
      refine ⟨h.1, ?_, ?_⟩
      · rw [show (s.run keep v (Ev.recv r :: es)) = (s.step keep v (.recv r)).run keep v es from rfl, h.2.1]
        simp [S.step, hs]
      · rw [show (s.run keep v (Ev.recv r :: es)) = (s.step keep v (.recv r)).run keep v es from rfl, h.2.2]
        simp [S.step, hs, toEvent, Ctx.run, Ctx.step]
    | planDone e =>
      have h := ih (s.step keep v (.planDone e)) (by simp [S.step, hs]) hes
      refine ⟨h.1, ?_, ?_⟩
      · rw [show (s.run keep v (Ev.planDone e :: es)) = (s.step keep v (.planDone e)).run keep v es from rfl, h.2.1]
        simp [S.step]
      · rw [show (s.run keep v (Ev.planDone e :: es)) = (s.step keep v (.planDone e)).run keep v es from rfl, h.2.2]
        simp [S.step, toEvent, Ctx.run, Ctx.step]

/-- exec's order: the context is registered BEFORE the pipeline sends anything and removed after
WaitResponse. Then whatever arrives in between — any responses, in any order, interleaved with the
completion callback in any way — reaches the context: nothing is dropped, and the context is exactly
`Ctx.run` over those events (so every theorem about `Ctx.run` / `handleAll` is about the real search). -/
theorem registered_first_delivers_all (keep : Bool) (v : Variant) (n : Nat) (evs : List Ev)
    (h : ∀ e ∈ evs, isAddRemove e = false) :
    ((S.new n).run keep v (.add :: evs)).dropped = 0 ∧
    ((S.new n).run keep v (.add :: evs)).ctx = (Ctx.new n).run keep v (evs.filterMap toEvent) := by
  have := tm_run_registered keep v evs ((S.new n).step keep v .add) (by simp [S.step]) h
  exact ⟨this.2.1, this.2.2⟩

/-- `k` successful data responses into a context that expects more than `k`: not done, no error -/
theorem handleAll_ok_pending (v : Variant) : ∀ (ps : List Payload) (c : Ctx),
    c.err = none → c.done = false → (ps.length : Int) < c.expect →
    (c.handleAll v (ps.map Resp.ok)).err = none ∧ (c.handleAll v (ps.map Resp.ok)).done = false ∧
    (c.handleAll v (ps.map Resp.ok)).expect = c.expect - ps.length := by
  intro ps
  induction ps with
  | nil => intro c he hd _; simp [Ctx.handleAll, he, hd]
  | cons p ps ih =>
    intro c he hd hl
    have hl' : (ps.length : Int) + 1 < c.expect := by simpa using hl
    have hstep : (c.handle v (.ok p)).err = none ∧ (c.handle v (.ok p)).done = false ∧
        (c.handle v (.ok p)).expect = c.expect - 1 := by
      simp only [Ctx.handle, Ctx.absorb]
      split
      · refine ⟨he, ?_, rfl⟩
        simp [he, hd]; omega
      · refine ⟨he, ?_, rfl⟩
        simp [he, hd]; omega
    have := ih (c.handle v (.ok p)) hstep.1 hstep.2.1 (by rw [hstep.2.2]; omega)
    refine ⟨this.1, this.2.1, ?_⟩
    show ((c.handle v (.ok p)).handleAll v (ps.map Resp.ok)).expect = _
    rw [this.2.2, hstep.2.2]
    simp only [List.length_cons]; omega

theorem tm_run_unregistered_recvs (keep : Bool) (v : Variant) : ∀ (rs : List Resp) (s : S),
    s.registered = false →
    (s.run keep v (rs.map Ev.recv)).registered = false ∧
    (s.run keep v (rs.map Ev.recv)).ctx = s.ctx ∧
    (s.run keep v (rs.map Ev.recv)).dropped = s.dropped + rs.length := by
  intro rs
  induction rs with
  | nil => intro s hs; exact ⟨hs, rfl, rfl⟩
  | cons r rs ih =>
    intro s hs
    have h := ih (s.step keep v (.recv r)) (by simp [S.step, hs])
    refine ⟨h.1, ?_, ?_⟩
    · show ((s.step keep v (.recv r)).run keep v (rs.map Ev.recv)).ctx = _
      rw [h.2.1]; simp [S.step, hs]
    · show ((s.step keep v (.recv r)).run keep v (rs.map Ev.recv)).dropped = _
      rw [h.2.2]; simp [S.step, hs]; omega

theorem filterMap_toEvent_recvs : ∀ (ps : List Payload),
    ((ps.map Resp.ok).map Ev.recv).filterMap toEvent = (ps.map Resp.ok).map Event.resp := by
  intro ps
  induction ps with
  | nil => rfl
  | cons p ps ih =>
    simp only [List.map_cons, List.filterMap_cons, toEvent]
    rw [ih]

theorem complete_none_pending (keep : Bool) (c : Ctx) (he : c.err = none) (hd : c.done = false)
    (hx : 0 < c.expect) : (c.complete keep none).done = false ∧ (c.complete keep none).err = none := by
  constructor
  · cases keep <;> simp [Ctx.complete, he, hd] <;> omega
  · cases keep <;> simp [Ctx.complete, he]

namespace Neg

/-- Registration AFTER the first responses (e.g. `AddTask` moved into the pipeline's completion
callback): every target answers successfully, exactly once — but the responses that arrived before
the registration are dropped ("request may be evicted"), the context keeps waiting for them and the
query ends with its deadline. For every number of targets, every split into early and late
responses with at least one early one, every payload. -/
theorem late_registration_never_completes (keep : Bool) (v : Variant)
    (early late : List Payload) (hearly : early ≠ []) :
    let n := early.length + late.length
    let s := (S.new n).run keep v
      ((early.map (fun p => Ev.recv (.ok p))) ++ [.add] ++ (late.map (fun p => Ev.recv (.ok p))) ++ [.planDone none])
    s.dropped = early.length ∧ s.ctx.done = false ∧ s.ctx.err = none := by
  intro n s
  have hlen : 0 < early.length := by
    cases early with
    | nil => exact absurd rfl hearly
    | cons _ _ => simp
  -- phase 1: unregistered
  have h1 := tm_run_unregistered_recvs keep v (early.map Resp.ok) (S.new n) rfl
  have hmap1 : (early.map (fun p => Ev.recv (.ok p))) = (early.map Resp.ok).map Ev.recv := by simp
  have hmap2 : (late.map (fun p => Ev.recv (.ok p))) = (late.map Resp.ok).map Ev.recv := by simp
  -- phase 2: registered, late responses
  have hreg : ∀ e ∈ (late.map Resp.ok).map Ev.recv, isAddRemove e = false := by
    intro e he
    obtain ⟨r, _, rfl⟩ := List.mem_map.mp he
    rfl
  let s1 := (S.new n).run keep v ((early.map Resp.ok).map Ev.recv)
  have h2 := tm_run_registered keep v ((late.map Resp.ok).map Ev.recv) (s1.step keep v .add) (by simp [S.step]) hreg
  have hs : s = (((s1.step keep v .add).run keep v ((late.map Resp.ok).map Ev.recv)).step keep v (.planDone none)) := by
    show (S.new n).run keep v _ = _
    rw [hmap1, hmap2]
    simp only [S.run, List.foldl_append, List.foldl_cons, List.foldl_nil]
    rfl
  have hctx1 : (s1.step keep v .add).ctx = Ctx.new n := by
    show s1.ctx = _
    exact h1.2.1
  have hfm := filterMap_toEvent_recvs late
  have hrunAll : ∀ (rs : List Resp) (c : Ctx), c.run keep v (rs.map Event.resp) = c.handleAll v rs := by
    intro rs
    induction rs with
    | nil => intro c; rfl
    | cons r rs ih => intro c; simp only [List.map_cons, Ctx.run, List.foldl_cons, Ctx.handleAll, Ctx.step]; exact ih _
  have hok := handleAll_ok_pending v late (Ctx.new n) rfl rfl (by simp [Ctx.new, n]; omega)
  have hc2 : ((s1.step keep v .add).run keep v ((late.map Resp.ok).map Ev.recv)).ctx = (Ctx.new n).handleAll v (late.map Resp.ok) := by
    rw [h2.2.2, hctx1, hfm, hrunAll]
  have hpos : 0 < ((Ctx.new n).handleAll v (late.map Resp.ok)).expect := by
    rw [hok.2.2]
    have : (Ctx.new n).expect = ((early.length + late.length : Nat) : Int) := rfl
    rw [this]; omega
  rw [hs]
  refine ⟨?_, ?_, ?_⟩
  · show ((s1.step keep v .add).run keep v ((late.map Resp.ok).map Ev.recv)).dropped = _
    rw [h2.2.1]
    show s1.dropped = _
    rw [h1.2.2]; simp [S.new]
  · show (((s1.step keep v .add).run keep v ((late.map Resp.ok).map Ev.recv)).ctx.complete keep none).done = false
    rw [hc2]
    exact (complete_none_pending keep _ hok.1 hok.2.1 hpos).1
  · show (((s1.step keep v .add).run keep v ((late.map Resp.ok).map Ev.recv)).ctx.complete keep none).err = none
    rw [hc2]
    exact (complete_none_pending keep _ hok.1 hok.2.1 hpos).2

end Neg

/-- fewer non-failing responses (data, empty, tolerated not-found) than planned targets: the
context is not done and has no error — for every number of targets and every such list -/
theorem handleAll_nonfailing_pending (v : Variant) : ∀ (rs : List Resp) (c : Ctx),
    c.err = none → c.done = false → (∀ r ∈ rs, isFailure r = false) →
    (rs.length : Int) < c.expect → (rs.length : Int) < c.tolerant →
    (c.handleAll v rs).err = none ∧ (c.handleAll v rs).done = false := by
  intro rs
  induction rs with
  | nil => intro c he hd _ _ _; exact ⟨he, hd⟩
  | cons r rs ih =>
    intro c he hd hall hx ht
    have hr := hall r List.mem_cons_self
    have hrest : ∀ r' ∈ rs, isFailure r' = false := fun r' h => hall r' (List.mem_cons_of_mem _ h)
    have hx' : (rs.length : Int) + 1 < c.expect := by simpa using hx
    have ht' : (rs.length : Int) + 1 < c.tolerant := by simpa using ht
    have hstep : (c.handle v r).err = none ∧ (c.handle v r).done = false ∧
        (rs.length : Int) < (c.handle v r).expect ∧ (rs.length : Int) < (c.handle v r).tolerant := by
      cases r with
      | error => simp [isFailure] at hr
      | bad => simp [isFailure] at hr
      | ok p =>
        simp only [Ctx.handle, Ctx.absorb]
        split
        · refine ⟨he, ?_, ?_, ?_⟩
          · simp [he, hd]; omega
          · show (rs.length : Int) < c.expect - 1; omega
          · show (rs.length : Int) < c.tolerant; omega
        · refine ⟨he, ?_, ?_, ?_⟩
          · simp [he, hd]; omega
          · show (rs.length : Int) < c.expect - 1; omega
          · show (rs.length : Int) < c.tolerant; omega
      | notFound =>
        have hpos : c.tolerant - 1 > 0 := by omega
        simp only [Ctx.handle, Ctx.absorb, hpos, if_true]
        refine ⟨he, ?_, ?_, ?_⟩
        · simp [he, hd]; omega
        · show (rs.length : Int) < c.expect - 1; omega
        · show (rs.length : Int) < c.tolerant - 1; omega
    exact ih (c.handle v r) hstep.1 hstep.2.1 hrest hstep.2.2.1 hstep.2.2.2

namespace Neg

/-- Finding (e) for EVERY configuration: whenever the plan of a group-by query has two or more
targets (two or more live brokers and compute nodes), exactly one of them executes
(`plan_has_one_executor`), the receive-only ones answer nothing
(`intermediateTaskProcessor.Process` returns without a response), so the root — which expects one
response per target — is not complete after the only response it will ever get. -/
theorem receive_only_targets_never_answer (v : Variant) (live : List Nat) (hl : live ≠ []) (n : Nat)
    (perm : List Nat) (hp : perm.Perm (List.range live.length)) (h2 : 2 ≤ min n live.length)
    (r : Resp) (hr : isFailure r = false) :
    let plan := buildPlan live n perm
    (executors plan).length = 1 ∧ ((Ctx.new plan.length).handleAll v [r]).done = false := by
  intro plan
  have hn : 1 ≤ n := by omega
  have hplan := plan_has_one_executor live hl n hn perm hp
  refine ⟨hplan.1, ?_⟩
  have hlen : plan.length = min n live.length := hplan.2.1
  refine (handleAll_nonfailing_pending v [r] (Ctx.new plan.length) rfl rfl ?_ ?_ ?_).2
  · intro r' hr'; simp at hr'; subst hr'; exact hr
  · show ((1 : Nat) : Int) < ((plan.length : Nat) : Int); omega
  · show ((1 : Nat) : Int) < ((plan.length : Nat) : Int); omega

end Neg

open LinVerif.Generated.C12 in
/-- query/search.go exec registers the context before it executes the pipeline and removes it in a
deferred function (after WaitResponse); task_manager.go Receive drops unregistered request ids -/
theorem generated_exec_order :
    execSteps = ["if strings.TrimSpace(req.DB) == \"\"", "  return nil, constants.ErrDatabaseNameRequired", "if mgr.RequestID != \"\"", "  req.RequestID = mgr.RequestID", "GetRequestManager().NewRequest(req)", "tracker := trackerpkg.NewStageTracker(flow.NewTaskContextWithTimeout(ctx.Context(), mgr.Timeout))", "ctx.SetTracker(tracker)", "mgr.TaskMgr.AddTask(req.RequestID, ctx)", "defer …()", "pipeline := newExecutePipelineFn(tracker, …)", "GetPipelineManager().AddPipeline(req.RequestID, pipeline)", "pipeline.Execute(stage.NewPhysicalPlanStage(ctx))", "return ctx.WaitResponse()"] ∧
    execDeferred = ["mgr.TaskMgr.RemoveTask(req.RequestID)", "GetRequestManager().CompleteRequest(req.RequestID)"] ∧
    receiveSteps = ["taskCtx := mgr.get(resp.RequestID)", "if taskCtx == nil", "  mgr.statistics.OmitResponse.Incr()", "  return fmt.Errorf(\"request may be evicted\")", "mgr.statistics.EmitResponse.Incr()", "mgr.workerPool.Submit(taskCtx.Context(), concurrent.NewTask(…, nil))", "return nil"] := by decide

end LinVerif.Props.C12
