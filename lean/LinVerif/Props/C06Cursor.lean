/-
C06, round 13: the write cursor of the queue (dataPageIndex / messageOffset) across reopen, and the
barrier `Queue.GC` computes from the index item of the acknowledged sequence.

GC removes every data page below the page of the ACKNOWLEDGED message. That is safe only because
data page ids never decrease with the sequence — and the cursor is assigned in exactly three
functions: `alloc` (stay or +1), `persistMetaOfMessage` (index page only) and `initDataPageIndex`
(reopen: page / offset+length of the LAST appended message). The theorems below state that silent
invariant over every reset-free history (reopen is one of the operations), tie the three writers
and GC's barrier to the regenerated source shape, and show on a concrete queue that a reopen
restarting the cursor at page 0 of a drained queue loses un-acked messages at the next GC.
-/
import LinVerif.Props.C06

namespace LinVerif.Props.C06
open LinVerif LinVerif.FanOut LinVerif.Map

/-- In every state of a reset-free history (appends, acks, syncs, GCs, reopens, ...) every message
from the queue ack upwards has its index item, its data page exists and is NOT ABOVE the write
cursor: nothing that is still needed lives behind where the next message goes. -/
theorem cursor_ge_live_pages (v : Variant) (ops : List Op) (h : NoReset v ops) (m : Int)
    (h0 : 0 ≤ m) (h1 : (run v State.init ops).q.ack ≤ m) (h2 : m ≤ (run v State.init ops).q.appended) :
    ∃ e, lookup (run v State.init ops).q.entries m = some e ∧
      e.page ≤ (run v State.init ops).q.curData ∧ e.page ∈ (run v State.init ops).q.dataPages := by
  obtain ⟨e, he, hp, hin, _⟩ := (base_of_noReset h).q.ent m h0 h1 h2
  exact ⟨e, he, hp, hin⟩

/-- The silent invariant GC relies on: from the queue ack upwards data page ids never decrease with
the sequence — in every reset-free history, reopen included. -/
theorem data_pages_never_decrease (v : Variant) (ops : List Op) (h : NoReset v ops) (m m' : Int) (e e' : Entry)
    (h0 : 0 ≤ m) (h1 : (run v State.init ops).q.ack ≤ m) (h2 : m ≤ m')
    (h3 : m' ≤ (run v State.init ops).q.appended)
    (he : lookup (run v State.init ops).q.entries m = some e)
    (he' : lookup (run v State.init ops).q.entries m' = some e') : e.page ≤ e'.page :=
  (base_of_noReset h).q.mono m m' e e' h0 h1 h2 h3 he he'

/-- Whatever the history (in particular: directly after a reopen, drained or not), the page the
NEXT message is written to is never below the barrier GC would use now — so a GC that runs before
the queue ack moves again cannot remove it. -/
theorem next_append_not_below_gc_barrier (v : Variant) (ops : List Op) (h : NoReset v ops) (len : Nat)
    (h0 : 0 ≤ (run v State.init ops).q.ack) :
    ((run v State.init ops).q.entryOf (run v State.init ops).q.ack).page ≤
      (run v State.init ops).q.allocPage len := by
  obtain ⟨e, _, heq, hp⟩ := (base_of_noReset h).q.entryOf_ack h0
  rw [heq]
  exact Nat.le_trans hp (allocPage_ge _ len)

/-- The reopen path itself, on any queue satisfying the invariant: the restored cursor sits on the
page of the last appended message, behind it (offset + length), and not below GC's barrier. -/
theorem reopen_cursor_at_tail (q : Queue) (hq : QInv q) (h0 : 0 ≤ q.appended) :
    q.reopen.curData = (q.entryOf q.appended).page ∧
    q.reopen.offset = (q.entryOf q.appended).off + (q.entryOf q.appended).len ∧
    (0 ≤ q.ack → (q.entryOf q.ack).page ≤ q.reopen.curData) := by
  have hne : q.mAppended ≠ noSeq := by rw [hq.mApp]; simp [noSeq]; omega
  have hc : q.reopen.curData = (q.entryOf q.appended).page := by
    simp [Queue.reopen, hne]; rw [hq.mApp]
  refine ⟨hc, by simp [Queue.reopen, hne]; rw [hq.mApp], ?_⟩
  intro ha
  obtain ⟨e, he, heq, _⟩ := hq.entryOf_ack ha
  obtain ⟨ea, hea, _, _, _⟩ := hq.ent q.appended h0 hq.ackLe (Int.le_refl _)
  rw [hc, heq]
  have : q.entryOf q.appended = ea := by simp [Queue.entryOf, hea]
  rw [this]
  exact hq.mono q.ack q.appended e ea ha (Int.le_refl _) hq.ackLe (Int.le_refl _) he hea

/-- non-vacuity: a WAL whose last message lives in data page 1, drained, GCed, reopened, one new
message, GC again: the new message is in page 1 and readable. -/
def drainedOps : List Op :=
  [.create 0, .append 200, .append (dataPageSize - 100), .consume 0, .consume 0, .ack 0 1, .sync, .gc, .reopen, .append 7, .sync, .gc]

example : NoReset Variant.fixed drainedOps := valid_of_noResetB _ _ _ (by decide)
example : NoReset Variant.current drainedOps := valid_of_noResetB _ _ _ (by decide)

example :
    (run Variant.fixed State.init drainedOps).q.ack = 1 ∧
    (run Variant.fixed State.init drainedOps).q.appended = 2 ∧
    (run Variant.fixed State.init drainedOps).q.dataPages = [1] ∧
    (run Variant.fixed State.init drainedOps).q.get 2 = .ok 7 := by decide

/-- the writers of the cursor and GC's barrier, as regenerated from pkg/queue/queue.go: which
functions assign `dataPageIndex` / `messageOffset` / `indexPageIndex` at all, under which guards and
from what. `Queue.reopen`, `Queue.allocPage` / `allocOff`, `Queue.persistPages` and `Queue.gc` mirror
exactly these; a new branch around a cursor assignment (or a new writer) breaks this obligation. -/
theorem cursor_tie :
    Generated.C06.cursorWriters = ["alloc", "persistMetaOfMessage", "initDataPageIndex"] ∧
    Generated.C06.initCursor =
      ["q.appendedSeq.Load() == SeqNoNewMessageAvailable => q.dataPageIndex = 0",
       "q.appendedSeq.Load() == SeqNoNewMessageAvailable => q.messageOffset = 0",
       " => q.indexPageIndex = previousSeq / indexItemsPerPage",
       " => q.dataPageIndex = int64(q.indexPage.ReadUint64(indexOffset + queueDataPageIndexOffset))",
       " => q.messageOffset = int(previousMessageOffset + previousMessageLength)"] ∧
    Generated.C06.allocCursor =
      ["q.messageOffset+dataLen > dataPageSize => q.dataPageIndex = nextDataPageIndex",
       "q.messageOffset+dataLen > dataPageSize => q.messageOffset = 0",
       " => q.messageOffset += dataLen"] ∧
    Generated.C06.persistCursor = ["indexPageIndex != q.indexPageIndex => q.indexPageIndex = indexPageIndex"] ∧
    Generated.C06.gcBarrier =
      [" => ackSeq := q.AcknowledgedSeq()",
       " => indexPageID := ackSeq / indexItemsPerPage",
       " => indexOffset := int((ackSeq % indexItemsPerPage) * indexItemLength)",
       " => dataPageID := int64(indexPage.ReadUint64(indexOffset + queueDataPageIndexOffset))"] ∧
    -- the model's side of the same five lines of `initDataPageIndex`
    (∀ q : Queue, q.mAppended = noSeq → q.reopen.curData = 0 ∧ q.reopen.offset = 0) ∧
    (∀ q : Queue, q.mAppended ≠ noSeq →
      q.reopen.curIndex = ipOf q.mAppended ∧ q.reopen.curData = (q.entryOf q.mAppended).page ∧
      q.reopen.offset = (q.entryOf q.mAppended).off + (q.entryOf q.mAppended).len) := by
  refine ⟨by decide, by decide, by decide, by decide, by decide, ?_, ?_⟩
  · intro q h; simp [Queue.reopen, h]
  · intro q h; simp [Queue.reopen, h]

namespace Neg

/-- `initDataPageIndex` with a "recycle" branch: a queue found drained at reopen restarts its cursor
at data page 0 / offset 0 (NOT what the code does; the variant the invariant excludes). -/
def reopenRecycle (q : Queue) : Queue :=
  if q.mAppended ≠ noSeq ∧ q.mAppended = q.mAck then
    { q.reopen with curData := 0, offset := 0, dataPages := acquire q.dataPages 0 }
  else q.reopen

/-- a drained queue whose acknowledged message 1 lives in data page 1 -/
def drainedQ : Queue := (run Variant.fixed State.init
  [.create 0, .append 200, .append (dataPageSize - 100), .consume 0, .consume 0, .ack 0 1, .sync, .gc]).q

/-- Each site looks fine alone; together: after the recycling reopen the new message 2 goes to page
0, GC's barrier is still page 1 (queue ack 1), page 0 is removed and message 2 — acknowledged by
nobody — cannot be read; with the real reopen it can. -/
theorem recycled_cursor_drops_unacked :
    (((reopenRecycle drainedQ).put 7).gc.get 2 = .notFound) ∧
    (((reopenRecycle drainedQ).put 7).gc.ack = 1) ∧
    ((drainedQ.reopen.put 7).gc.get 2 = .ok 7) := by decide

end Neg

end LinVerif.Props.C06
