/-
C12 — query results do not depend on sharding, node placement or response order.

Property theorems over the model `LinVerif/Model/RootMerge.lean` (helper lemmas in
`LinVerif/Lemmas/C12*.lean`). `Variant.code` is lindb as it is (aggregator built from the first
response's specs; `fieldAggregator.Aggregate` feeds every incoming primitive series into every kind).

The full-strength statement of the property is `partition_invariance_partial` WITHOUT the hypotheses
`Simple sp0` ("every selected field has one aggregate kind, and it is sum/count/min/max") and
`LeafIn.OK` ("every answering leaf reports the same field specs"). It is false of the code; the
four regions those hypotheses exclude each have a proved negation in `namespace Neg`, replayed on
the real code by the harness (deterministic witness cases 0–3).
-/
import LinVerif.Lemmas.C12Layout
import LinVerif.Lemmas.C12TopN
import Mathlib.Data.List.Sort
import LinVerif.Lemmas.C12Inter
import LinVerif.Lemmas.C12Variant
import LinVerif.Generated.C12

namespace LinVerif.Props.C12
open LinVerif.RootMerge

/-! ## 1. the merge algebra -/

/-- `AggType.Aggregate` is associative for all six kinds … -/
theorem agg_assoc (k : Kind) (a b c : Int) : k.agg (k.agg a b) c = k.agg a (k.agg b c) :=
  Kind.agg_assoc k a b c

/-- … and commutative for sum / count / min / max. -/
theorem agg_comm (k : Kind) (h : k.comm = true) (a b : Int) : k.agg a b = k.agg b a :=
  Kind.agg_comm k h a b

/-- First/last carry nothing but the value: `Aggregate(Last)` keeps the incoming value,
`Aggregate(First)` the accumulated one — the result of a merge is decided by ARRIVAL order. -/
theorem last_first_are_projections (a b : Int) : Kind.last.agg a b = b ∧ Kind.first.agg a b = a :=
  ⟨rfl, rfl⟩

/-- what every array cell of the aggregator holds after any list of incoming groups: the fold of
its kind over the values delivered to that position, in delivery order (started from the old
content). The aggregator is an action of the free monoid of value lists on cells. -/
theorem merge_cell (a : Agg) (tss : List TS) (t f : Nat) (k : Kind) (s : Nat) :
    (a.aggregateAll .code tss).cells t f k s =
      if hasKind a.specs f k = true
      then combOpt k (a.cells t f k s) (foldVals k (valsAt a.cap (tss.flatMap TS.atoms) t f s))
      else a.cells t f k s := by
  rw [aggregateAll_cells, foldl_addAtom_apply .code rfl, foldl_comb_eq]

/-- `merge_comm_assoc`, commutative part: when every aggregate kind of the aggregator's specs is
sum/count/min/max, the merge is invariant under every permutation of the incoming groups —
arrays, group set and touched flags. (Associativity is `merge_cell` + `foldVals_append`:
merging `l1 ++ l2` = merging `l1` then `l2`, for all six kinds.) -/
theorem merge_comm_assoc (a : Agg)
    (hc : ∀ f ks, kindsOf a.specs f = some ks → ∀ k ∈ ks, k.comm = true)
    (l1 l2 : List TS) (hp : l1.Perm l2) :
    (a.aggregateAll .code l1).cells = (a.aggregateAll .code l2).cells ∧
    (∀ t, t ∈ (a.aggregateAll .code l1).keys ↔ t ∈ (a.aggregateAll .code l2).keys) ∧
    (a.aggregateAll .code l1).touched = (a.aggregateAll .code l2).touched := by
  refine ⟨?_, ?_, ?_⟩
  · funext t f k s
    rw [merge_cell, merge_cell]
    by_cases hk : hasKind a.specs f k = true
    · rw [if_pos hk, if_pos hk]
      have hcomm : k.comm = true := by
        unfold hasKind at hk
        cases hq : kindsOf a.specs f with
        | none => rw [hq] at hk; cases hk
        | some ks => rw [hq] at hk; exact hc f ks hq k (by simpa using hk)
      rw [foldVals_perm k hcomm (valsAt_perm a.cap (hp.flatMap_right _) t f s)]
    · rw [if_neg hk, if_neg hk]
  · intro t
    rw [mem_keys_aggregateAll, mem_keys_aggregateAll]
    constructor
    · rintro (h | ⟨x, hx, h2⟩)
      · exact Or.inl h
      · exact Or.inr ⟨x, hp.mem_iff.mp hx, h2⟩
    · rintro (h | ⟨x, hx, h2⟩)
      · exact Or.inl h
      · exact Or.inr ⟨x, hp.mem_iff.mpr hx, h2⟩
  · funext t f
    rw [Bool.eq_iff_iff, touched_iff, touched_iff, naiveTouched_perm a.specs hp]

/-- associativity of the merge (all six kinds): two batches one after the other = one batch -/
theorem merge_assoc (v : Variant) (a : Agg) (l1 l2 : List TS) :
    a.aggregateAll v (l1 ++ l2) = (a.aggregateAll v l1).aggregateAll v l2 :=
  aggregateAll_append v a l1 l2

/-- for first/last what holds is: values for DIFFERENT array positions commute (any kinds) -/
theorem merge_comm_disjoint (specs : List Spec) (cap : Nat) (c : Cells) (x y : Atom)
    (h : ¬ (x.t = y.t ∧ x.f = y.f ∧ x.s = y.s)) :
    addAtom .code specs cap (addAtom .code specs cap c x) y =
      addAtom .code specs cap (addAtom .code specs cap c y) x := by
  funext t f k s
  simp only [addAtom_apply .code rfl]
  by_cases hx : x.t = t ∧ x.f = f ∧ x.s = s ∧ x.s < cap ∧ hasKind specs f k = true
  · have hy : ¬ (y.t = t ∧ y.f = f ∧ y.s = s ∧ y.s < cap ∧ hasKind specs f k = true) := by
      rintro ⟨h1, h2, h3, -⟩
      exact h ⟨hx.1.trans h1.symm, hx.2.1.trans h2.symm, hx.2.2.1.trans h3.symm⟩
    rw [if_neg hy, if_pos hx, if_neg hy, if_pos hx]
  · rw [if_neg hx]
    by_cases hy : y.t = t ∧ y.f = f ∧ y.s = s ∧ y.s < cap ∧ hasKind specs f k = true
    · rw [if_pos hy, if_neg hx]
    · rw [if_neg hy, if_neg hx]

/-! ## 2. partition invariance -/

/-- **partition_invariance**, the part that holds (leaves answer the root directly).
`its` = the per-series grouped results of the whole cluster (what C11 delivers). Take ANY
placement of them on leaf nodes (`leavesOf ns`, each leaf reducing its share in any order
`L.its`), ANY number of additional nodes that answer not-found, and ANY delivery order (`ns` is
the list of nodes in the order their responses are handled — it is universally quantified).
Under the hypothesis the first-response rule forces — all answering leaves report the same field
specs (up to order) — and for selected fields with one commutative aggregate kind, the root
completes without error and its aggregator holds exactly the naive aggregate of all data. -/
theorem partition_invariance_partial (sp0 : List Spec) (cap : Nat) (hs : Simple sp0) (its : List TS)
    (ns : List Node) (hOK : ∀ L ∈ leavesOf ns, L.OK sp0) (hne : leavesOf ns ≠ [])
    (hpart : ((leavesOf ns).flatMap (·.its)).Perm its) :
    let c := (Ctx.new ns.length).handleAll .code (ns.map (Node.resp cap))
    c.done = true ∧ c.err = none ∧ c.hdrCap = cap ∧ ∃ A, c.agg = some A ∧ IsNaive sp0 cap its A := by
  intro c
  have hlen : (ns.map (Node.resp cap)).length = ns.length := List.length_map _
  have hns : ns ≠ [] := by rintro rfl; exact hne rfl
  have hgood := goodPayloads_nodes sp0 cap ns hOK
  refine ⟨?_, ?_, ?_, ?_⟩
  · apply handleAll_done
    · intro h; exact hns (List.map_eq_nil_iff.mp h)
    · simp [Ctx.new, hlen]
  · refine (handleAll_err_none .code _ _ (noFailure_nodes cap ns) rfl ?_).1
    have := countNF_nodes cap ns
    have hpos : 0 < (leavesOf ns).length := List.length_pos_of_ne_nil hne
    simp only [Ctx.new]; omega
  · apply handleAll_hdrCap
    · intro p hp
      rw [hgood] at hp
      obtain ⟨L, -, rfl⟩ := List.mem_map.mp hp
      rfl
    · right; rw [hgood]; intro h; exact hne (List.map_eq_nil_iff.mp h)
  · have hagg : c.agg = aggAfter .code none (goodPayloads (ns.map (Node.resp cap))) :=
      handleAll_agg .code rfl _ _
    rw [hgood] at hagg
    cases hL : leavesOf ns with
    | nil => exact absurd hL hne
    | cons L Ls =>
      rw [hL, List.map_cons, aggAfter_none_cons] at hagg
      refine ⟨_, hagg, ?_⟩
      have hOK' : ∀ L' ∈ L :: Ls, L'.OK sp0 := by rw [← hL]; exact hOK
      have hp' : ((L :: Ls).flatMap (·.its)).Perm its := by rw [← hL]; exact hpart
      have hflat : ((leafPayload .code L.specs cap L.its) ::
            Ls.map (fun L => leafPayload .code L.specs cap L.its)).flatMap (·.series) =
          (L :: Ls).flatMap (fun L => (leafPayload .code L.specs cap L.its).series) := by
        simp [List.flatMap_cons, List.flatMap_map]
      rw [hflat]
      have he : SpecEquiv (leafPayload .code L.specs cap L.its).specs sp0 := (hOK' L List.mem_cons_self).equiv
      rw [← srcsOf_emit sp0 cap (L :: Ls) hOK']
      have hn := isNaive_of_sources sp0 _ hs he cap (srcsOf sp0 cap (L :: Ls) hOK')
      rw [srcsOf_its] at hn
      have hcap : (leafPayload .code L.specs cap L.its).cap = cap := rfl
      rw [hcap]
      exact ⟨hn.cap_eq, hn.specs_equiv, by rw [hn.cells_eq, naiveCells_perm sp0 hs cap hp'],
        fun t => by rw [hn.keys_iff, naiveGroup_perm hp'],
        fun t f => by rw [hn.touched_iff, naiveTouched_perm sp0 hp']⟩

/-- the data of a node that goes to receiver `j`, over all nodes = the data whose tags hash to `j` -/
theorem itsFor_nodes (h : Tag → Nat) (r j : Nat) (ns : List Node) :
    ns.flatMap (Node.itsFor h r j) =
      ((leavesOf ns).flatMap (·.its)).filter (fun ts => h ts.tags % r == j) := by
  induction ns with
  | nil => rfl
  | cons n ns ih =>
    cases n with
    | absent =>
      have hl : leavesOf (Node.absent :: ns) = leavesOf ns := rfl
      rw [List.flatMap_cons, ih, hl]; rfl
    | leaf L =>
      have hl : leavesOf (Node.leaf L :: ns) = L :: leavesOf ns := rfl
      rw [List.flatMap_cons, ih, hl, List.flatMap_cons, List.filter_append]; rfl

/-- **partition_invariance**, the part that holds (with intermediate nodes). As `partition_invariance_partial`, but the
leaves split their groups by `hash(tags) % r` over `r ≥ 1` intermediates (`BuildResultSet`), every
intermediate `j` handles the shares of all nodes in its OWN order `sched j` (any permutation of
the nodes) with the same `MetricContext` and sends `makeTaskResponse`; the root handles the `r`
intermediate responses in ANY order `τ`. The root's aggregator is again the naive aggregate of
all data — hence equal to the answer without intermediates. -/
theorem partition_invariance_intermediate_partial (sp0 : List Spec) (cap : Nat) (hs : Simple sp0) (its : List TS)
    (h : Tag → Nat) (r : Nat) (hr : 0 < r)
    (ns : List Node) (hOK : ∀ L ∈ leavesOf ns, L.OK sp0) (hne : leavesOf ns ≠ [])
    (hpart : ((leavesOf ns).flatMap (·.its)).Perm its)
    (sched : Nat → List Node) (hsched : ∀ j, j < r → (sched j).Perm ns)
    (τ : List Nat) (hτ : τ.Perm (List.range r)) :
    let c := (Ctx.new τ.length).handleAll .code
      (τ.map (fun j => (interCtx h r cap j (sched j)).taskResponse))
    c.done = true ∧ c.err = none ∧ c.hdrCap = cap ∧ ∃ A, c.agg = some A ∧ IsNaive sp0 cap its A := by
  intro c
  have hjr : ∀ j ∈ τ, j < r := fun j hj => List.mem_range.mp (hτ.mem_iff.mp hj)
  -- every intermediate is a sender for its share
  obtain ⟨xs, hxs⟩ := exists_list_of_forall_exists τ
    (fun j (x : Sender sp0 cap) => (interCtx h r cap j (sched j)).taskResponse = respOf (some x) ∧
      x.S.its = (sched j).flatMap (Node.itsFor h r j))
    (fun j hj => by
      have hp := hsched j (hjr j hj)
      have hl := leavesOf_perm hp
      exact inter_naive sp0 cap hs h r j (sched j) (fun L hL => hOK L (hl.mem_iff.mp hL))
        (by intro e; rw [e] at hl; exact hne (List.perm_nil.mp hl.symm)))
  have hmap : τ.map (fun j => (interCtx h r cap j (sched j)).taskResponse) = (xs.map some).map respOf := by
    rw [List.map_map]
    exact forall2_map_eq _ _ τ xs (hxs.imp (fun _ _ hab => hab.1))
  have hlen : τ.length = (xs.map some).length := by rw [List.length_map]; exact hxs.length_eq
  have hfm : (xs.map some).filterMap id = xs := by
    induction xs with
    | nil => rfl
    | cons x xs ih => simp
  have hτne : τ ≠ [] := by
    intro e; rw [e] at hτ
    have := hτ.length_eq; simp at this; omega
  have hxne : (xs.map some).filterMap id ≠ [] := by
    rw [hfm]; intro e; rw [e] at hxs; cases hxs; exact hτne rfl
  obtain ⟨hdone, herr, hcap, -, A, hA, -, -, -, hnaive⟩ := ctx_of_senders sp0 cap hs (xs.map some) hxne
  rw [← hlen, ← hmap] at hdone herr hcap hA
  refine ⟨hdone, herr, hcap, A, hA, ?_⟩
  rw [hfm] at hnaive
  -- the shares, over all receivers, are the data
  have hdata : (xs.flatMap (fun x => x.S.its)).Perm its := by
    have e1 : xs.flatMap (fun x => x.S.its) = τ.flatMap (fun j => (sched j).flatMap (Node.itsFor h r j)) :=
      flatMap_of_forall2 _ _ τ xs (hxs.imp (fun _ _ hab => hab.2))
    rw [e1]
    have e2 : (τ.flatMap (fun j => (sched j).flatMap (Node.itsFor h r j))).Perm
        (τ.flatMap (fun j => its.filter (fun ts => h ts.tags % r == j))) := by
      apply List.Perm.flatMap_left
      intro j hj
      refine ((hsched j (hjr j hj)).flatMap_right _).trans ?_
      rw [itsFor_nodes]
      exact hpart.filter _
    exact e2.trans ((hτ.flatMap_right _).trans (split_perm r hr (fun ts => h ts.tags) its))
  exact hnaive.perm hs hdata

/-! ### the same for every variant of the code (in particular the repaired one) -/

/-- a node's answer under variant `v` -/
def respV (v : Variant) (cap : Nat) : Node → Resp
  | .leaf L => .ok (leafPayload v L.specs cap L.its)
  | .absent => .notFound

theorem wellKinded_of_perm {sp0 : List Spec} {a b : List TS} (h : a.Perm b) (hw : WellKinded sp0 b) :
    WellKinded sp0 a := fun ts hts => hw ts (h.mem_iff.mp hts)

theorem wellKinded_leaf (sp0 : List Spec) (ns : List Node) (its : List TS)
    (hpart : ((leavesOf ns).flatMap (·.its)).Perm its) (hw : WellKinded sp0 its)
    (L : LeafIn) (hL : L ∈ leavesOf ns) : WellKinded sp0 L.its :=
  fun ts hts => hw ts (hpart.mem_iff.mp (List.mem_flatMap.mpr ⟨L, hL, hts⟩))

/-- in the covered region the two switches of `Variant` are irrelevant: the answers of the nodes
and the root's whole context are the same under every variant as under `Variant.code`.
Additional hypothesis: the per-series results are marshalled with their field's kind byte (what
the down-sampling aggregators produce). -/
theorem variant_irrelevant (v : Variant) (sp0 : List Spec) (cap : Nat) (hs : Simple sp0) (its : List TS)
    (ns : List Node) (hOK : ∀ L ∈ leavesOf ns, L.OK sp0)
    (hpart : ((leavesOf ns).flatMap (·.its)).Perm its) (hw : WellKinded sp0 its) :
    (Ctx.new ns.length).handleAll v (ns.map (respV v cap)) =
      (Ctx.new ns.length).handleAll .code (ns.map (Node.resp cap)) := by
  have hmap : ns.map (respV v cap) = ns.map (Node.resp cap) := by
    apply List.map_congr_left
    intro n hn
    cases n with
    | absent => rfl
    | leaf L =>
      have hL : L ∈ leavesOf ns := List.mem_filterMap.mpr ⟨_, hn, rfl⟩
      simp only [respV, Node.resp, LeafIn.resp]
      rw [leafPayload_variant v sp0 L.specs hs (hOK L hL).equiv cap L.its (wellKinded_leaf sp0 ns its hpart hw L hL)]
  rw [hmap]
  apply handleAll_variant v sp0 hs
  · intro a ha; cases ha
  · intro r hr
    obtain ⟨n, hn, rfl⟩ := List.mem_map.mp hr
    cases n with
    | absent => trivial
    | leaf L =>
      have hL : L ∈ leavesOf ns := List.mem_filterMap.mpr ⟨_, hn, rfl⟩
      refine ⟨(hOK L hL).equiv, ?_⟩
      show WellKinded sp0 (leafPayload .code L.specs cap L.its).series
      rw [leafPayload_series]
      exact wellKinded_emit sp0 _ (by rw [aggregateAll_specs]; exact (hOK L hL).equiv)
        (by rw [aggregateAll_specs]; exact (hOK L hL).nodup)

/-- `partition_invariance_partial` for every variant of the code -/
theorem partition_invariance_partial_any_variant (v : Variant) (sp0 : List Spec) (cap : Nat) (hs : Simple sp0)
    (its : List TS) (ns : List Node) (hOK : ∀ L ∈ leavesOf ns, L.OK sp0) (hne : leavesOf ns ≠ [])
    (hpart : ((leavesOf ns).flatMap (·.its)).Perm its) (hw : WellKinded sp0 its) :
    let c := (Ctx.new ns.length).handleAll v (ns.map (respV v cap))
    c.done = true ∧ c.err = none ∧ c.hdrCap = cap ∧ ∃ A, c.agg = some A ∧ IsNaive sp0 cap its A := by
  intro c
  have : c = (Ctx.new ns.length).handleAll .code (ns.map (Node.resp cap)) :=
    variant_irrelevant v sp0 cap hs its ns hOK hpart hw
  rw [this]
  exact partition_invariance_partial sp0 cap hs its ns hOK hne hpart

/-- what node `n` sends to receiver `j` under variant `v` -/
def respToV (v : Variant) (h : Tag → Nat) (r cap j : Nat) : Node → Resp
  | .leaf L => .ok (share h r j (leafPayload v L.specs cap L.its))
  | .absent => .notFound

def interCtxV (v : Variant) (h : Tag → Nat) (r cap j : Nat) (nsj : List Node) : Ctx :=
  (Ctx.new nsj.length).handleAll v (nsj.map (respToV v h r cap j))

theorem interCtx_variant (v : Variant) (sp0 : List Spec) (cap : Nat) (hs : Simple sp0) (h : Tag → Nat) (r j : Nat)
    (nsj : List Node) (hOK : ∀ L ∈ leavesOf nsj, L.OK sp0)
    (hw : ∀ L ∈ leavesOf nsj, WellKinded sp0 L.its) :
    interCtxV v h r cap j nsj = interCtx h r cap j nsj := by
  unfold interCtxV interCtx
  have hmap : nsj.map (respToV v h r cap j) = nsj.map (Node.respTo h r cap j) := by
    apply List.map_congr_left
    intro n hn
    cases n with
    | absent => rfl
    | leaf L =>
      have hL : L ∈ leavesOf nsj := List.mem_filterMap.mpr ⟨_, hn, rfl⟩
      simp only [respToV, Node.respTo]
      rw [leafPayload_variant v sp0 L.specs hs (hOK L hL).equiv cap L.its (hw L hL)]
  rw [hmap]
  apply handleAll_variant v sp0 hs
  · intro a ha; cases ha
  · intro x hx
    obtain ⟨n, hn, rfl⟩ := List.mem_map.mp hx
    cases n with
    | absent => trivial
    | leaf L =>
      have hL : L ∈ leavesOf nsj := List.mem_filterMap.mpr ⟨_, hn, rfl⟩
      refine ⟨(hOK L hL).equiv, ?_⟩
      show WellKinded sp0 ((leafPayload .code L.specs cap L.its).series.filter _)
      rw [leafPayload_series]
      intro ts hts
      exact wellKinded_emit sp0 _ (by rw [aggregateAll_specs]; exact (hOK L hL).equiv)
        (by rw [aggregateAll_specs]; exact (hOK L hL).nodup) ts (List.mem_filter.mp hts).1

/-- `partition_invariance_intermediate_partial` for every variant of the code -/
theorem partition_invariance_intermediate_partial_any_variant (v : Variant) (sp0 : List Spec) (cap : Nat)
    (hs : Simple sp0) (its : List TS) (h : Tag → Nat) (r : Nat) (hr : 0 < r)
    (ns : List Node) (hOK : ∀ L ∈ leavesOf ns, L.OK sp0) (hne : leavesOf ns ≠ [])
    (hpart : ((leavesOf ns).flatMap (·.its)).Perm its) (hw : WellKinded sp0 its)
    (sched : Nat → List Node) (hsched : ∀ j, j < r → (sched j).Perm ns)
    (τ : List Nat) (hτ : τ.Perm (List.range r)) :
    let c := (Ctx.new τ.length).handleAll v (τ.map (fun j => (interCtxV v h r cap j (sched j)).taskResponse))
    c.done = true ∧ c.err = none ∧ c.hdrCap = cap ∧ ∃ A, c.agg = some A ∧ IsNaive sp0 cap its A := by
  intro c
  have hjr : ∀ j ∈ τ, j < r := fun j hj => List.mem_range.mp (hτ.mem_iff.mp hj)
  have hOKj : ∀ j ∈ τ, ∀ L ∈ leavesOf (sched j), L.OK sp0 := fun j hj L hL =>
    hOK L ((leavesOf_perm (hsched j (hjr j hj))).mem_iff.mp hL)
  have hwj : ∀ j ∈ τ, ∀ L ∈ leavesOf (sched j), WellKinded sp0 L.its := fun j hj L hL =>
    wellKinded_leaf sp0 ns its hpart hw L ((leavesOf_perm (hsched j (hjr j hj))).mem_iff.mp hL)
  have hmap : τ.map (fun j => (interCtxV v h r cap j (sched j)).taskResponse) =
      τ.map (fun j => (interCtx h r cap j (sched j)).taskResponse) := by
    apply List.map_congr_left
    intro j hj
    rw [interCtx_variant v sp0 cap hs h r j (sched j) (hOKj j hj) (hwj j hj)]
  have hc : c = (Ctx.new τ.length).handleAll .code (τ.map (fun j => (interCtx h r cap j (sched j)).taskResponse)) := by
    show (Ctx.new τ.length).handleAll v _ = _
    rw [hmap]
    apply handleAll_variant v sp0 hs
    · intro a ha; cases ha
    · intro x hx
      obtain ⟨j, hj, rfl⟩ := List.mem_map.mp hx
      obtain ⟨s, hs1, -⟩ := inter_naive sp0 cap hs h r j (sched j) (hOKj j hj) (by
        intro e
        have := leavesOf_perm (hsched j (hjr j hj))
        rw [e] at this
        exact hne (List.perm_nil.mp this.symm))
      rw [hs1]
      exact ⟨s.equiv, wellKinded_emit sp0 _ s.S.naive.specs_equiv s.S.nodup⟩
  rw [hc]
  exact partition_invariance_intermediate_partial sp0 cap hs its h r hr ns hOK hne hpart sched hsched τ hτ

/-! ### concurrent delivery: every interleaving of atomic `handleResponse` steps -/

/-- `k` pool workers, worker `i` hands over response `rs[i]`; `handleResponse` is ONE critical
section under `ctx.mutex` (regenerated fact `handleResponseAtomic`), so an execution is the order
`sched` in which the workers get the mutex -/
def runSchedule (v : Variant) (c : Ctx) (rs : List Resp) (sched : List Nat) : Ctx :=
  sched.foldl (fun c i => match rs[i]? with | some r => c.handle v r | none => c) c

theorem filterMap_getElem_range {α : Type} (l : List α) :
    (List.range l.length).filterMap (fun i => l[i]?) = l := by
  induction l with
  | nil => rfl
  | cons x xs ih =>
    rw [List.length_cons, List.range_succ_eq_map, List.filterMap_cons]
    have : ((fun i => (x :: xs)[i]?) ∘ Nat.succ) = fun i => xs[i]? := by
      funext i; simp
    simp only [List.getElem?_cons_zero, List.filterMap_map, this, ih]

theorem runSchedule_eq (v : Variant) (c : Ctx) (rs : List Resp) (sched : List Nat) :
    runSchedule v c rs sched = c.handleAll v (sched.filterMap (fun i => rs[i]?)) := by
  induction sched generalizing c with
  | nil => rfl
  | cons i sched ih =>
    simp only [runSchedule, List.foldl_cons, List.filterMap_cons]
    cases h : rs[i]? with
    | none => exact ih c
    | some r => simp only [Ctx.handleAll, List.foldl_cons]; exact ih _

/-- **partition_invariance for concurrent delivery**: whatever order the workers get the mutex in
(every interleaving of the atomic `handleResponse` steps = every schedule `sched` that runs each
worker once), the root ends as in `partition_invariance_partial`. -/
theorem partition_invariance_concurrent_partial (sp0 : List Spec) (cap : Nat) (hs : Simple sp0) (its : List TS)
    (ns : List Node) (hOK : ∀ L ∈ leavesOf ns, L.OK sp0) (hne : leavesOf ns ≠ [])
    (hpart : ((leavesOf ns).flatMap (·.its)).Perm its)
    (sched : List Nat) (hsched : sched.Perm (List.range ns.length)) :
    let c := runSchedule .code (Ctx.new ns.length) (ns.map (Node.resp cap)) sched
    c.done = true ∧ c.err = none ∧ c.hdrCap = cap ∧ ∃ A, c.agg = some A ∧ IsNaive sp0 cap its A := by
  intro c
  -- the schedule delivers a permutation of the nodes
  let ns' := sched.filterMap (fun i => ns[i]?)
  have hperm : ns'.Perm ns := by
    have h1 : ns'.Perm ((List.range ns.length).filterMap (fun i => ns[i]?)) := hsched.filterMap _
    rw [filterMap_getElem_range] at h1; exact h1
  have hresp : sched.filterMap (fun i => (ns.map (Node.resp cap))[i]?) = ns'.map (Node.resp cap) := by
    show _ = (sched.filterMap (fun i => ns[i]?)).map (Node.resp cap)
    rw [List.map_filterMap]
    apply List.filterMap_congr
    intro i _
    simp [List.getElem?_map]
  have hc : c = (Ctx.new ns'.length).handleAll .code (ns'.map (Node.resp cap)) := by
    show runSchedule .code (Ctx.new ns.length) _ sched = _
    rw [runSchedule_eq, hresp, hperm.length_eq]
  rw [hc]
  have hl := leavesOf_perm hperm
  exact partition_invariance_partial sp0 cap hs its ns'
    (fun L hL => hOK L (hl.mem_iff.mp hL))
    (by intro e; rw [e] at hl; exact hne (List.perm_nil.mp hl.symm))
    ((hl.flatMap_right _).trans hpart)

/-! ## 3. not-found tolerance and nodes without data -/

/-- **notfound_tolerance**, stated outright (both variants, no hypothesis on specs): if no response
is a failure and at least one response is not a not-found, the context completes, the outcome is
not an error, and the data part (aggregator, time range, specs) is exactly what handling the found
responses alone — with a plan that has only those targets — produces. -/
theorem notfound_tolerance (v : Variant) (rs : List Resp)
    (hf : ∀ r ∈ rs, isFailure r = false) (hex : ∃ r ∈ rs, r ≠ .notFound) :
    let c := (Ctx.new rs.length).handleAll v rs
    let found := rs.filter (fun r => r != .notFound)
    let c' := (Ctx.new found.length).handleAll v found
    c.done = true ∧ c.err = none ∧ c'.done = true ∧ c'.err = none ∧ c.data = c'.data := by
  intro c found c'
  have hne : rs ≠ [] := by rintro rfl; obtain ⟨r, hr, -⟩ := hex; cases hr
  have hfound_ne : found ≠ [] := by
    obtain ⟨r, hr, hn⟩ := hex
    intro h
    have : r ∈ found := List.mem_filter.mpr ⟨hr, by simpa using hn⟩
    rw [h] at this; cases this
  have hlt := countNF_lt_of_exists rs hex
  refine ⟨?_, ?_, ?_, ?_, ?_⟩
  · exact handleAll_done v _ rs hne (by simp [Ctx.new])
  · exact (handleAll_err_none v _ rs hf rfl (by simp only [Ctx.new]; omega)).1
  · exact handleAll_done v _ found hfound_ne (by simp [Ctx.new])
  · refine (handleAll_err_none v _ found (fun r hr => hf r (List.mem_filter.mp hr).1) rfl ?_).1
    rw [countNF_filter_ne]
    have : 0 < found.length := List.length_pos_of_ne_nil hfound_ne
    simp only [Ctx.new]; omega
  · exact handleAll_data_filter v _ _ rs rfl

/-- the other half of `checkError`: when EVERY target answers not-found the query fails with
that error. -/
theorem all_notfound_is_error (v : Variant) (n : Nat) :
    let c := (Ctx.new (n + 1)).handleAll v (List.replicate (n + 1) .notFound)
    c.done = true ∧ c.err = some .notFound := by
  intro c
  refine ⟨?_, handleAll_allNotFound v n _ rfl rfl⟩
  exact handleAll_done v _ _ (by simp) (by simp [Ctx.new])

/-- a failing response (any other error message, or an undecodable payload) makes the query fail
whatever arrives before or after it -/
theorem failure_is_error (v : Variant) (c : Ctx) (r : Resp) (rs : List Resp) (hr : isFailure r = true) :
    ((c.handle v r).handleAll v rs).err.isSome = true ∧ (c.handle v r).done = true := by
  have h0 : (c.handle v r).err.isSome = true ∧ (c.handle v r).done = true := by
    cases r with
    | ok p => cases hr
    | notFound => cases hr
    | error => simp [Ctx.handle, Ctx.absorb]
    | bad => simp [Ctx.handle, Ctx.absorb]
  refine ⟨?_, h0.2⟩
  generalize c.handle v r = c1 at h0
  induction rs generalizing c1 with
  | nil => exact h0.1
  | cons x xs ih =>
    rw [handleAll_cons]
    exact ih _ ⟨handle_err_isSome v c1 x h0.1, handle_done_mono v c1 x h0.2⟩

/-- **a node that holds no matching data never turns a non-empty answer into an error or an
empty answer**: take a schedule `ns` as in `partition_invariance_partial` and add any number of nodes
that answer not-found and of leaves that know the metric but have no series for the query
(`its = []`), at ANY positions (`ns'` is any permutation of `ns ++ extra`): the root still
completes without error with the naive aggregate of all data. -/
theorem empty_node_harmless (sp0 : List Spec) (cap : Nat) (hs : Simple sp0) (its : List TS)
    (ns extra ns' : List Node) (hOK : ∀ L ∈ leavesOf ns, L.OK sp0) (hne : leavesOf ns ≠ [])
    (hpart : ((leavesOf ns).flatMap (·.its)).Perm its)
    (hextra : ∀ L ∈ leavesOf extra, L.OK sp0 ∧ L.its = [])
    (hperm : ns'.Perm (ns ++ extra)) :
    let c := (Ctx.new ns'.length).handleAll .code (ns'.map (Node.resp cap))
    c.done = true ∧ c.err = none ∧ ∃ A, c.agg = some A ∧ IsNaive sp0 cap its A := by
  have hl : (leavesOf ns').Perm (leavesOf ns ++ leavesOf extra) := by
    have := leavesOf_perm hperm
    simpa [leavesOf, List.filterMap_append] using this
  have hOK' : ∀ L ∈ leavesOf ns', L.OK sp0 := by
    intro L hL
    rcases List.mem_append.mp (hl.mem_iff.mp hL) with h | h
    · exact hOK L h
    · exact (hextra L h).1
  have hne' : leavesOf ns' ≠ [] := by
    intro h
    rw [h] at hl
    have := hl.length_eq
    have hpos : 0 < (leavesOf ns).length := List.length_pos_of_ne_nil hne
    simp at this; omega
  have hzero : (leavesOf extra).flatMap (·.its) = [] := by
    apply List.flatMap_eq_nil_iff.mpr
    intro L hL; exact (hextra L hL).2
  have hp' : ((leavesOf ns').flatMap (·.its)).Perm its := by
    refine (hl.flatMap_right _).trans ?_
    rw [List.flatMap_append, hzero, List.append_nil]; exact hpart
  obtain ⟨h1, h2, -, h4⟩ := partition_invariance_partial sp0 cap hs its ns' hOK' hne' hp'
  exact ⟨h1, h2, h4⟩

/-! ## 4. the answer is a function of the data -/

theorem evalItem_congr (A B : Agg) (hcap : A.cap = B.cap) (hcells : A.cells = B.cells)
    (ht : A.touched = B.touched) (hv : SpecEquiv A.specs B.specs) (pc t : Nat) (it : SelItem) :
    A.evalItem pc t it = B.evalItem pc t it := by
  have hview := hv it.field
  unfold specView at hview
  unfold Agg.evalItem
  cases hA : A.specs.find? (fun sp => sp.name == it.field) with
  | none =>
    rw [hA] at hview
    cases hB : B.specs.find? (fun sp => sp.name == it.field) with
    | none => rfl
    | some spB => rw [hB] at hview; cases hview
  | some spA =>
    rw [hA] at hview
    cases hB : B.specs.find? (fun sp => sp.name == it.field) with
    | none => rw [hB] at hview; cases hview
    | some spB =>
      rw [hB] at hview
      simp only [Option.map_some, Option.some.injEq, Prod.mk.injEq] at hview
      have hnA : spA.name = it.field := by simpa using List.find?_some hA
      have hnB : spB.name = it.field := by simpa using List.find?_some hB
      simp only [hview.1, hview.2, hnA, hnB, ht, Agg.points, hcells, hcap]

/-- two aggregators that are naive for the same data answer every query identically -/
theorem rows_of_naive (sp0 : List Spec) (cap : Nat) (its : List TS) (A B : Agg)
    (hA : IsNaive sp0 cap its A) (hB : IsNaive sp0 cap its B)
    (pc : Nat) (items : List SelItem) (ords : List OrdItem) (limit : Nat) (order : List Tag) :
    A.resultRows pc items ords limit order = B.resultRows pc items ords limit order := by
  have hrow : ∀ t, A.row pc items t = B.row pc items t := by
    intro t
    unfold Agg.row
    congr 1
    apply List.map_congr_left
    intro it _
    apply evalItem_congr
    · rw [hA.cap_eq, hB.cap_eq]
    · rw [hA.cells_eq, hB.cells_eq]
    · funext t f
      rw [Bool.eq_iff_iff, hA.touched_iff, hB.touched_iff]
    · exact hA.specs_equiv.trans hB.specs_equiv.symm
  have : A.row pc items = B.row pc items := funext hrow
  unfold Agg.resultRows
  rw [this]

/-- **layout independence of the outcome**: two layouts + delivery schedules of the same data
(under the hypotheses of `partition_invariance_partial`) give the same `WaitResponse` outcome for every
select list, order-by, limit (for the same iteration order of the group map; see section 5 for
why that order does not matter without ties). -/
theorem layout_independence (sp0 : List Spec) (cap : Nat) (hs : Simple sp0) (its : List TS)
    (ns1 ns2 : List Node)
    (hOK1 : ∀ L ∈ leavesOf ns1, L.OK sp0) (hne1 : leavesOf ns1 ≠ [])
    (hp1 : ((leavesOf ns1).flatMap (·.its)).Perm its)
    (hOK2 : ∀ L ∈ leavesOf ns2, L.OK sp0) (hne2 : leavesOf ns2 ≠ [])
    (hp2 : ((leavesOf ns2).flatMap (·.its)).Perm its)
    (items : List SelItem) (ords : List OrdItem) (limit : Nat) (order : List Tag) :
    ((Ctx.new ns1.length).handleAll .code (ns1.map (Node.resp cap))).outcome items ords limit order =
    ((Ctx.new ns2.length).handleAll .code (ns2.map (Node.resp cap))).outcome items ords limit order := by
  obtain ⟨d1, e1, c1, A1, a1, n1⟩ := partition_invariance_partial sp0 cap hs its ns1 hOK1 hne1 hp1
  obtain ⟨d2, e2, c2, A2, a2, n2⟩ := partition_invariance_partial sp0 cap hs its ns2 hOK2 hne2 hp2
  unfold Ctx.outcome
  simp only [d1, d2, e1, e2, a1, a2, c1, c2, Bool.not_true, Bool.false_eq_true, if_false]
  rw [rows_of_naive sp0 cap its A1 A2 n1 n2]

/-! ## 5. order by / top N / limit -/

/-- **orderby_topn_deterministic**: when `topNHeap.Less` is a strict total order on the rows (no
two distinct rows tie on all order-by keys), the rows `topNHeap.Add` keeps do not depend on the
order in which the groups are pushed (Go map iteration order): any two push orders give the same
set of rows — the `limit` greatest — and `makeResultSet` then sorts them by tag values. -/
theorem orderby_topn_deterministic (less : Row → Row → Bool) (limit : Nat) (rows rows' : List Row)
    (hn : rows.Nodup) (hp : rows.Perm rows') (ho : StrictTotalOn less rows) :
    (topN less limit rows).Perm (topN less limit rows') := by
  have hn' : rows'.Nodup := hp.nodup_iff.mp hn
  have ho' : StrictTotalOn less rows' := ho.mono (fun x hx => hp.mem_iff.mpr hx)
  have t1 := isTop_topN less limit rows hn ho
  have t2 := isTop_perm less limit hp _ (isTop_topN less limit rows' hn' ho')
  exact (List.perm_ext_iff_of_nodup t1.nodup t2.nodup).mpr (fun x =>
    ⟨isTop_subset less limit rows _ _ ho t1 t2 x, isTop_subset less limit rows _ _ ho t2 t1 x⟩)

/-- what is kept: `limit` rows (or all of them), each of which beats every dropped row -/
theorem topn_keeps_the_greatest (less : Row → Row → Bool) (limit : Nat) (rows : List Row)
    (hn : rows.Nodup) (ho : StrictTotalOn less rows) :
    (topN less limit rows).length = min limit rows.length ∧
    (∀ x ∈ topN less limit rows, x ∈ rows) ∧
    (∀ x ∈ topN less limit rows, ∀ y ∈ rows, y ∉ topN less limit rows → less y x = true) := by
  have t := isTop_topN less limit rows hn ho
  refine ⟨?_, t.sub, t.dom⟩
  have hle : (topN less limit rows).length ≤ rows.length :=
    (List.subperm_of_subset t.nodup t.sub).length_le
  by_cases hl : (topN less limit rows).length < limit
  · have : rows.length ≤ (topN less limit rows).length :=
      (List.subperm_of_subset hn (t.full hl)).length_le
    omega
  · have := t.len; omega

/-- the hypothesis in terms of the query: for the real comparison function it is enough that no
two distinct rows have the same vector of order-by keys -/
theorem orderby_deterministic_of_distinct_keys (ords : List OrdItem) (limit : Nat) (rows rows' : List Row)
    (hn : rows.Nodup) (hp : rows.Perm rows')
    (hk : ∀ a ∈ rows, ∀ b ∈ rows, a ≠ b → keyVec ords a ≠ keyVec ords b) :
    (topN (rowLess ords) limit rows).Perm (topN (rowLess ords) limit rows') :=
  orderby_topn_deterministic _ limit rows rows' hn hp (strictTotal_of_distinct_keys ords rows hk)

/-- **top-N = sort, then take** for ANY total preorder (ties allowed): whatever the push order,
what `topNHeap.Add` keeps is the first `limit` rows of SOME list that is a permutation of the rows
and sorted by the order (no later row strictly better than an earlier one). With ties the sorted
list is not unique — that is exactly the freedom `ties_are_order_dependent` shows — but no dropped
row ever beats a kept one. -/
theorem topn_is_sort_then_take (less : Row → Row → Bool) (ho : StrictWeak less) (limit : Nat)
    (rows : List Row) (hn : rows.Nodup) :
    ∃ sorted : List Row, sorted.Perm rows ∧ sorted.Pairwise (fun a b => less a b = false) ∧
      (topN less limit rows).Perm (sorted.take limit) := by
  have t := isTopW_topN less limit rows hn ho
  let K := topN less limit rows
  let D := rows.filter (fun x => !K.contains x)
  let r : Row → Row → Prop := fun a b => less a b = false
  have : DecidableRel r := fun a b => inferInstanceAs (Decidable (less a b = false))
  have : Std.Total r := ⟨fun a b => by
    by_cases h : less a b = true
    · exact Or.inr (ho.asymm a b h)
    · exact Or.inl (by simpa using h)⟩
  have : IsTrans Row r := ⟨fun a b c => ho.negtrans a b c⟩
  let sK := K.insertionSort r
  let sD := D.insertionSort r
  have pK : sK.Perm K := List.perm_insertionSort r K
  have pD : sD.Perm D := List.perm_insertionSort r D
  -- K and the rows outside K are the rows
  have hKfilter : K.Perm (rows.filter (fun x => K.contains x)) := by
    apply (List.perm_ext_iff_of_nodup t.nodup (hn.filter _)).mpr
    intro x
    constructor
    · intro hx; exact List.mem_filter.mpr ⟨t.sub x hx, by simpa using hx⟩
    · intro hx; simpa using (List.mem_filter.mp hx).2
  have hrows : (sK ++ sD).Perm rows :=
    ((pK.trans hKfilter).append pD).trans (List.filter_append_perm _ rows)
  refine ⟨sK ++ sD, hrows, ?_, ?_⟩
  · apply List.pairwise_append.mpr
    refine ⟨List.pairwise_insertionSort r K, List.pairwise_insertionSort r D, ?_⟩
    intro a ha b hb
    have haK : a ∈ K := pK.mem_iff.mp ha
    have hbD := List.mem_filter.mp (pD.mem_iff.mp hb)
    exact t.dom a haK b hbD.1 (by simpa using hbD.2)
  · by_cases hl : K.length < limit
    · -- not full: everything is kept
      have hD : D = [] := by
        apply List.filter_eq_nil_iff.mpr
        intro x hx
        simpa using t.full hl x hx
      have hsD : sD = [] := by
        have := pD.length_eq; rw [hD] at this; exact List.length_eq_zero_iff.mp this
      rw [hsD, List.append_nil, List.take_of_length_le (by rw [pK.length_eq]; exact Nat.le_of_lt hl)]
      exact pK.symm
    · have hlen : sK.length = limit := by
        rw [pK.length_eq]
        have h1 : K.length ≤ limit := t.len
        omega
      rw [List.take_left' hlen]
      exact pK.symm

/-- for the real comparison function (exact differences of the order-by keys) -/
theorem topn_rowLess_is_sort_then_take (ords : List OrdItem) (limit : Nat) (rows : List Row) (hn : rows.Nodup) :
    ∃ sorted : List Row, sorted.Perm rows ∧ sorted.Pairwise (fun a b => rowLess ords a b = false) ∧
      (topN (rowLess ords) limit rows).Perm (sorted.take limit) :=
  topn_is_sort_then_take _ (rowLess_strictWeak ords) limit rows hn

/-- ties are exposed, not hidden: two groups with equal keys and `limit 1` — the survivor is
whichever was pushed first (in the code: whichever the map iteration yields first). The same
holds for `limit` without `order by` (`resultLimiter` keeps the first `limit` pushed rows). -/
theorem ties_are_order_dependent :
    let a : Row := { tags := 0, vals := [some [(0, 5)]] }
    let b : Row := { tags := 1, vals := [some [(0, 5)]] }
    let ords : List OrdItem := [{ fn := 1, desc := true, sel := some 0 }]
    topN (rowLess ords) 1 [a, b] = [a] ∧ topN (rowLess ords) 1 [b, a] = [b] ∧
    limiter 1 [a, b] = [a] ∧ limiter 1 [b, a] = [b] := by decide

/-! ### the plan-completion callback (`baseTaskContext.Complete`) -/

theorem complete_err_isSome (c : Ctx) (e : Option ErrKind) (h : c.err.isSome = true) :
    (c.complete true e).err.isSome = true ∧ (c.complete true e).done = true := by
  cases e with
  | none => simp [Ctx.complete, h]
  | some x => simp [Ctx.complete]

theorem step_err_isSome (v : Variant) (c : Ctx) (ev : Event)
    (h : c.err.isSome = true ∧ c.done = true) :
    (c.step true v ev).err.isSome = true ∧ (c.step true v ev).done = true := by
  cases ev with
  | resp r => exact ⟨handle_err_isSome v c r h.1, handle_done_mono v c r h.2⟩
  | planDone e => exact complete_err_isSome c e h.1

theorem run_err_isSome (v : Variant) (c : Ctx) (evs : List Event)
    (h : c.err.isSome = true ∧ c.done = true) :
    (c.run true v evs).err.isSome = true ∧ (c.run true v evs).done = true := by
  induction evs generalizing c with
  | nil => exact h
  | cons ev evs ih => exact ih _ (step_err_isSome v c ev h)

/-- **error_sticky** (repaired `Complete`, every variant of the merge): once a failing response
(error message other than not-found, or an undecodable payload) has been handled, the outcome is
an error — whatever happened before it, whatever the order of the remaining responses and
wherever the plan-completion callback (`Complete(nil)` or `Complete(err)`) falls among them.
More generally a recorded error is never erased (`run_err_isSome`). -/
theorem error_sticky (v : Variant) (c : Ctx) (before after : List Event) (r : Resp) (hr : isFailure r = true)
    (items : List SelItem) (ords : List OrdItem) (limit : Nat) (order : List Tag) :
    let final := c.run true v (before ++ Event.resp r :: after)
    final.done = true ∧ final.err.isSome = true ∧
    ∃ e, final.outcome items ords limit order = .failed e := by
  intro final
  have hmid : ((c.run true v before).handle v r).err.isSome = true ∧ ((c.run true v before).handle v r).done = true := by
    have := failure_is_error v (c.run true v before) r [] hr
    exact ⟨this.1, this.2⟩
  have hsplit : final = ((c.run true v before).handle v r).run true v after := by
    show c.run true v (before ++ Event.resp r :: after) = _
    simp only [Ctx.run, List.foldl_append, List.foldl_cons, Ctx.step]
  have hfin : final.err.isSome = true ∧ final.done = true := by
    rw [hsplit]; exact run_err_isSome v _ after hmid
  refine ⟨hfin.2, hfin.1, ?_⟩
  obtain ⟨e, he⟩ := Option.isSome_iff_exists.mp hfin.1
  exact ⟨e, by simp [Ctx.outcome, hfin.2, he]⟩

/-! ## 6. the property at full strength, and where the code violates it -/

/-- a node of a placement: its node-local schema of the metric (`none`: never saw it) and the
grouped per-series results of its shards -/
structure NodeData where
  schema : Option (List (FName × Nat))
  its : List TS

/-- the node-local schema lists (at least) the fields the node has data for -/
def NodeData.consistent (n : NodeData) : Prop :=
  ∀ ts ∈ n.its, ∀ fd ∈ ts.fields, ∃ fields, n.schema = some fields ∧ (fd.name, fd.ftype) ∈ fields

def outcomeOf (v : Variant) (rs : List Resp) (items : List SelItem) (ords : List OrdItem) (limit : Nat)
    (order : List Tag) : Outcome :=
  ((Ctx.new rs.length).handleAll v rs).outcome items ords limit order

/-- **C12 at full strength** (for a variant of the code): the same written data placed on any two
sets of nodes with their node-local schemas, delivered in any two orders, gives the same outcome.
`sel = none` is `select *`. This is what the property text demands; it is FALSE for
`Variant.code` (theorems `Neg.*`), `partition_invariance_partial` is what holds. -/
def FullStatement (v : Variant) : Prop :=
  ∀ (sel : Option (List SelItem)) (cap : Nat) (data : List TS) (p1 p2 : List NodeData),
    (∀ n ∈ p1, n.consistent) → (∀ n ∈ p2, n.consistent) →
    (p1.flatMap (·.its)).Perm data → (p2.flatMap (·.its)).Perm data →
    ∀ (items : List SelItem) (ords : List OrdItem) (limit : Nat) (order : List Tag),
      outcomeOf v (p1.map (fun n => leafAnswer v n.schema sel cap n.its)) items ords limit order =
      outcomeOf v (p2.map (fun n => leafAnswer v n.schema sel cap n.its)) items ords limit order

namespace Neg

/-- one point of one series: group `tg`, field `fl` of type `ft`, the primitive series of the
field's kinds `kds`, slot, value -/
def pt (tg fl ft : Nat) (kds : List Nat) (sl : Nat) (vl : Int) : TS :=
  { tags := tg, fields := [{ name := fl, ftype := ft, prims := kds.map (fun k => { kind := k, pts := [(sl, vl)] }) }] }

def bare (f : Nat) : SelItem := { fn := 0, field := f }

/-! (a) ARRIVAL ORDER. `select *`; field 1 (f2) was only ever written on node B. -/
def aA : NodeData := { schema := some [(0, 1)], its := [pt 0 0 1 [1] 1 5] }
def aB : NodeData :=
  { schema := some [(0, 1), (1, 1)],
    its := [{ tags := 0, fields := [{ name := 0, ftype := 1, prims := [{ kind := 1, pts := [(1, 7)] }] },
                                     { name := 1, ftype := 1, prims := [{ kind := 1, pts := [(2, 3)] }] }] }] }

/-- the root's answer has f2 iff B's response is handled first -/
theorem arrival_order_dependence :
    outcomeOf .code ([aA, aB].map (fun n => leafAnswer .code n.schema none 4 n.its)) [bare 0, bare 1] [] 100 [0] =
      .rows [{ tags := 0, vals := [some [(1, 12)], none] }] ∧
    outcomeOf .code ([aB, aA].map (fun n => leafAnswer .code n.schema none 4 n.its)) [bare 0, bare 1] [] 100 [0] =
      .rows [{ tags := 0, vals := [some [(1, 12)], some [(2, 3)]] }] := by decide

/-- with later specs merged into the aggregator (the repair) both orders agree -/
theorem arrival_order_repaired :
    outcomeOf .repaired ([aA, aB].map (fun n => leafAnswer .repaired n.schema none 4 n.its)) [bare 0, bare 1] [] 100 [0] =
    outcomeOf .repaired ([aB, aA].map (fun n => leafAnswer .repaired n.schema none 4 n.its)) [bare 0, bare 1] [] 100 [0] := by
  decide

/-! (b) PLACEMENT. `select f1, f2`; node A never saw f2: its whole answer (its f1 data too) is lost. -/
def bAB : NodeData := { schema := some [(0, 1), (1, 1)], its := aA.its ++ aB.its }

theorem placement_dependence :
    outcomeOf .code ([aA, aB].map (fun n => leafAnswer .code n.schema (some [bare 0, bare 1]) 4 n.its))
        [bare 0, bare 1] [] 100 [0] =
      .rows [{ tags := 0, vals := [some [(1, 7)], some [(2, 3)]] }] ∧
    outcomeOf .code ([bAB].map (fun n => leafAnswer .code n.schema (some [bare 0, bare 1]) 4 n.its))
        [bare 0, bare 1] [] 100 [0] =
      .rows [{ tags := 0, vals := [some [(1, 12)], some [(2, 3)]] }] := by decide

/-- the leaf that lacks one selected field answers not-found although it has data -/
theorem leaf_missing_field_is_notfound :
    leafAnswer .code aA.schema (some [bare 0, bare 1]) 4 aA.its = .notFound := by decide

/-! (c) LAST / FIRST. a last-type field (type 4, kind 5), two series, same slot, no group by. -/
def cA : NodeData := { schema := some [(0, 4)], its := [pt 0 0 4 [5] 1 100] }
def cB : NodeData := { schema := some [(0, 4)], its := [pt 0 0 4 [5] 1 200] }

theorem last_field_arrival_order :
    outcomeOf .code ([cA, cB].map (fun n => leafAnswer .code n.schema (some [bare 0]) 4 n.its)) [bare 0] [] 100 [0] =
      .rows [{ tags := 0, vals := [some [(1, 200)]] }] ∧
    outcomeOf .code ([cB, cA].map (fun n => leafAnswer .code n.schema (some [bare 0]) 4 n.its)) [bare 0] [] 100 [0] =
      .rows [{ tags := 0, vals := [some [(1, 100)]] }] := by decide

/-! (d) TWO FUNCTIONS ON ONE FIELD. `select sum(f1), min(f1)` on a sum field: kinds [sum, min];
every merge level adds the min series into the sum array. -/
def dSel : List SelItem := [{ fn := 1, field := 0 }, { fn := 2, field := 0 }]
def dA : NodeData := { schema := some [(0, 1)], its := [pt 0 0 1 [1, 3] 1 5] }
def dB : NodeData := { schema := some [(0, 1)], its := [pt 0 0 1 [1, 3] 1 7] }
def dAB : NodeData := { schema := some [(0, 1)], its := dA.its ++ dB.its }

/-- one node vs. two nodes (the true sum is 12) -/
theorem two_functions_shard_split :
    outcomeOf .code ([dAB].map (fun n => leafAnswer .code n.schema (some dSel) 4 n.its)) dSel [] 100 [0] =
      .rows [{ tags := 0, vals := [some [(1, 29)], some [(1, 5)]] }] ∧
    outcomeOf .code ([dA, dB].map (fun n => leafAnswer .code n.schema (some dSel) 4 n.its)) dSel [] 100 [0] =
      .rows [{ tags := 0, vals := [some [(1, 36)], some [(1, 5)]] }] := by decide

/-- with and without an intermediate node (one leaf, one point 5) -/
theorem two_functions_intermediate :
    let leaf := leafAnswer .code dA.schema (some dSel) 4 dA.its
    let im := ((Ctx.new 1).handleAll .code [leaf]).taskResponse
    outcomeOf .code [leaf] dSel [] 100 [0] = .rows [{ tags := 0, vals := [some [(1, 15)], some [(1, 5)]] }] ∧
    outcomeOf .code [im] dSel [] 100 [0] = .rows [{ tags := 0, vals := [some [(1, 20)], some [(1, 5)]] }] := by
  decide

/-- with the kind-respecting merge (the repair) the extra level changes nothing -/
theorem two_functions_repaired :
    let leaf := leafAnswer .repaired dA.schema (some dSel) 4 dA.its
    let im := ((Ctx.new 1).handleAll .repaired [leaf]).taskResponse
    outcomeOf .repaired [leaf] dSel [] 100 [0] = .rows [{ tags := 0, vals := [some [(1, 5)], some [(1, 5)]] }] ∧
    outcomeOf .repaired [im] dSel [] 100 [0] = outcomeOf .repaired [leaf] dSel [] 100 [0] := by
  decide

/-! (e) INTERMEDIATES THAT NEVER ANSWER. With two live brokers the root's plan has two targets
(`flow.BuildPhysicalPlan`), `addRequests` expects two responses, but the `ReceiveOnly` target's
`intermediateTaskProcessor.Process` answers nothing (replayed on the real code by witness case 4):
the context stays incomplete whatever the working intermediate sends. -/
theorem unanswered_target_never_completes (v : Variant) (r : Resp) (hr : isFailure r = false) :
    ((Ctx.new 2).handleAll v [r]).done = false := by
  cases r with
  | ok p => simp only [Ctx.handleAll, List.foldl, Ctx.handle, Ctx.absorb, Ctx.new]; split <;> simp
  | notFound => simp [Ctx.handleAll, Ctx.handle, Ctx.absorb, Ctx.new]
  | error => cases hr
  | bad => cases hr

/-! (f) AN ERROR RESPONSE THAT ARRIVES BEFORE THE PLAN STAGE COMPLETES IS ERASED. The search
pipeline's completion callback calls `Complete(nil)` after the last request is sent;
`baseTaskContext.Complete` overwrites `ctx.err`. A node that fails fast (its error response is
handled while the root is still sending) is forgotten: the query "succeeds" with the data of the
others. The same response handled after the callback fails the query. -/
theorem error_before_plan_completion_is_erased (v : Variant) (p : Payload) :
    (((Ctx.new 2).handleAll v [.error, .ok p]).complete false none).err = none ∧
    (((Ctx.new 2).handle v .error).complete false none |>.handle v (.ok p)).err = none ∧
    ((((Ctx.new 2).complete false none).handleAll v [.error, .ok p]).err = some .other) := by
  refine ⟨rfl, ?_, ?_⟩
  · simp only [Ctx.handle, Ctx.absorb, Ctx.complete, Ctx.new]; split <;> rfl
  · simp only [Ctx.handleAll, List.foldl, Ctx.handle, Ctx.absorb, Ctx.complete, Ctx.new]; split <;> rfl

/-- the same schedule in the event form of `error_sticky`: with the pinned `Complete` the error
of a failing node is gone after the plan-completion callback -/
theorem error_not_sticky_pinned (v : Variant) :
    ((Ctx.new 1).run false v [.resp .error, .planDone none]).err = none := rfl

/-! A TRUNCATING COMPARATOR (seeded change c12-12: `int(a - b)` instead of the sign of `a - b`).
Values travel scaled by 8, so `int(a-b)` is `(A - B).tdiv 8`: keys closer than 1.0 compare as
equal, the comparison is no longer the strict part of a total preorder (not negatively
transitive), and the kept set depends on the push order although all keys are distinct. -/
def rowLessTrunc (scale : Int) : List OrdItem → Row → Row → Bool
  | [], _, _ => false
  | o :: os, a, b =>
    let d := (a.ordKey o - b.ordKey o).tdiv scale
    let d := if o.desc then -d else d
    if d > 0 then true else if d < 0 then false else rowLessTrunc scale os a b

theorem truncating_comparator_is_order_dependent :
    let a : Row := { tags := 0, vals := [some [(0, 9)]] }    -- 1.125
    let b : Row := { tags := 1, vals := [some [(0, 10)]] }   -- 1.25
    let c : Row := { tags := 2, vals := [some [(0, 17)]] }   -- 2.125
    let ords : List OrdItem := [{ fn := 1, desc := true, sel := some 0 }]
    -- exact comparison: the best row wins whatever the push order
    topN (rowLess ords) 1 [a, b] = [b] ∧ topN (rowLess ords) 1 [b, a] = [b] ∧
    -- truncating comparison: whoever is pushed first stays
    topN (rowLessTrunc 8 ords) 1 [a, b] = [a] ∧ topN (rowLessTrunc 8 ords) 1 [b, a] = [b] ∧
    -- and it is not negatively transitive: a ~ b, b ~ c, but c beats a
    rowLessTrunc 8 ords a b = false ∧ rowLessTrunc 8 ords b c = false ∧ rowLessTrunc 8 ords a c = true := by
  decide

/-! THE HAVING SCRATCH SET HOISTED OUT OF THE PER-SERIES LOOP (seeded change c12-14): a slot
rejected for one group is dropped in every group rendered after it, and rendering order is Go map
order. Threshold `> 16` (2.0), group 0 has 8 (1.0) at slot 1, group 1 has 40 (5.0) at slot 1. -/
theorem having_leak_is_order_dependent :
    let h : Having := { op := 1, thr := 16 }
    let g0 : Row := { tags := 0, vals := [some [(1, 8), (2, 24)]] }
    let g1 : Row := { tags := 1, vals := [some [(1, 40)]] }
    -- per-series scratch (the code): group 1 keeps its slot 1 in both rendering orders
    havingRows (some h) [g0, g1] = [{ tags := 0, vals := [some [(2, 24)]] }, g1] ∧
    havingRows (some h) [g1, g0] = [g1, { tags := 0, vals := [some [(2, 24)]] }] ∧
    -- hoisted scratch: rendered after group 0, group 1 loses slot 1
    havingRowsLeaky h [] [g0, g1] = [{ tags := 0, vals := [some [(2, 24)]] }, { tags := 1, vals := [some []] }] ∧
    havingRowsLeaky h [] [g1, g0] = [g1, { tags := 0, vals := [some [(2, 24)]] }] := by decide

/-! THE RECEIVE-ONLY FLAG TESTED ON THE LIVE-NODE INDEX (seeded change c12-13): with more live
nodes than compute nodes and node 0 not among the chosen ones, nobody executes. -/
theorem plan_by_live_index_without_executor :
    executors (buildPlanByLiveIndex (List.range 6) 2 [3, 1, 0, 2, 4, 5]) = [] ∧
    (executors (buildPlan (List.range 6) 2 [3, 1, 0, 2, 4, 5])).length = 1 := by decide

/-- the full-strength statement is false of the code as it is (witness (a); (b), (c), (d) refute
it just as well) -/
theorem full_statement_false : ¬ FullStatement .code := by
  intro h
  have hc : ∀ n ∈ [aA, aB], n.consistent := by
    intro n hn
    simp only [List.mem_cons, List.not_mem_nil, or_false] at hn
    rcases hn with rfl | rfl
    · intro ts hts fd hfd
      simp only [aA, pt, List.mem_singleton, List.map] at hts hfd ⊢
      subst hts; simp only [List.mem_singleton] at hfd; subst hfd
      exact ⟨_, rfl, by simp⟩
    · intro ts hts fd hfd
      simp only [aB, List.mem_singleton] at hts ⊢
      subst hts
      simp only [List.mem_cons, List.not_mem_nil, or_false] at hfd
      rcases hfd with rfl | rfl
      · exact ⟨_, rfl, by simp⟩
      · exact ⟨_, rfl, by simp⟩
  have hc' : ∀ n ∈ [aB, aA], n.consistent := fun n hn => hc n (by
    simp only [List.mem_cons, List.not_mem_nil, or_false] at hn ⊢; tauto)
  have := h none 4 (aA.its ++ aB.its) [aA, aB] [aB, aA] hc hc'
    (by simp [List.flatMap_cons]) (by simp [List.flatMap_cons]; exact List.perm_append_comm)
    [bare 0, bare 1] [] 100 [0]
  rw [arrival_order_dependence.1, arrival_order_dependence.2] at this
  exact absurd this (by decide)

end Neg

/-! ## HAVING and the physical plan -/

/-- HAVING is applied per group, after the merge (and after order by / limit): the filtered rows
do not depend on the order in which the groups are rendered … -/
theorem having_independent_of_group_order (h : Option Having) (rows rows' : List Row) (hp : rows.Perm rows') :
    (havingRows h rows).Perm (havingRows h rows') := by
  cases h with
  | none => exact hp
  | some h => exact hp.map _

/-- … every row is filtered by its own values only … -/
theorem having_is_per_row (h : Having) (rows : List Row) (i : Nat) :
    (havingRows (some h) rows)[i]? = (rows[i]?).map (Row.having h) := by
  simp [havingRows]

/-- … and HAVING commutes with the layout: filter-after-merge of any layout and schedule = of any
other (hypotheses of `partition_invariance_partial`). -/
theorem having_commutes_with_layout (sp0 : List Spec) (cap : Nat) (hs : Simple sp0) (its : List TS)
    (ns1 ns2 : List Node)
    (hOK1 : ∀ L ∈ leavesOf ns1, L.OK sp0) (hne1 : leavesOf ns1 ≠ [])
    (hp1 : ((leavesOf ns1).flatMap (·.its)).Perm its)
    (hOK2 : ∀ L ∈ leavesOf ns2, L.OK sp0) (hne2 : leavesOf ns2 ≠ [])
    (hp2 : ((leavesOf ns2).flatMap (·.its)).Perm its)
    (items : List SelItem) (ords : List OrdItem) (limit : Nat) (having : Option Having) (order : List Tag) :
    ((Ctx.new ns1.length).handleAll .code (ns1.map (Node.resp cap))).outcomeH items ords limit having order =
    ((Ctx.new ns2.length).handleAll .code (ns2.map (Node.resp cap))).outcomeH items ords limit having order := by
  unfold Ctx.outcomeH
  rw [layout_independence sp0 cap hs its ns1 ns2 hOK1 hne1 hp1 hOK2 hne2 hp2 items ords limit order]

theorem zipIdx_flags_from (l : List Nat) (k : Nat) (hk : 1 ≤ k) :
    ((l.zipIdx k).map (fun p => (p.1, p.2 != 0))).filter (fun p => !p.2) = [] := by
  induction l generalizing k with
  | nil => rfl
  | cons x xs ih =>
    rw [List.zipIdx_cons, List.map_cons, List.filter_cons]
    have : (k != 0) = true := by simp; omega
    simp only [this, Bool.not_true, Bool.false_eq_true, if_false]
    exact ih (k + 1) (by omega)

/-- **the plan has exactly one executor**: for every shuffle of the live nodes and every number of
compute nodes `n ≥ 1` (and at least one live node) `BuildPhysicalPlan` yields `min n |live|`
targets, all of them live nodes, pairwise distinct, exactly ONE of which is not receive-only. -/
theorem plan_has_one_executor (live : List Nat) (hl : live ≠ []) (n : Nat) (hn : 1 ≤ n) (perm : List Nat)
    (hp : perm.Perm (List.range live.length)) :
    let plan := buildPlan live n perm
    (executors plan).length = 1 ∧ plan.length = min n live.length ∧
    (∀ p ∈ plan, p.1 ∈ live) ∧ (live.Nodup → (plan.map Prod.fst).Nodup) := by
  intro plan
  have hsh : (perm.filterMap (fun i => live[i]?)).Perm live := by
    have h1 := hp.filterMap (fun i => live[i]?)
    rw [filterMap_getElem_range] at h1; exact h1
  have hfst : plan.map Prod.fst = (perm.filterMap (fun i => live[i]?)).take n := by
    show (((perm.filterMap (fun i => live[i]?)).take n).zipIdx.map (fun p => (p.1, p.2 != 0))).map Prod.fst = _
    rw [List.map_map]
    have : (Prod.fst ∘ fun p : Nat × Nat => (p.1, p.2 != 0)) = Prod.fst := by funext p; rfl
    rw [this, List.zipIdx_map_fst]
  refine ⟨?_, ?_, ?_, ?_⟩
  · -- the taken prefix is non-empty; its head is the executor, nobody else
    cases hsf : (perm.filterMap (fun i => live[i]?)).take n with
    | nil =>
      have hlen := congrArg List.length hsf
      rw [List.length_take, hsh.length_eq, List.length_nil] at hlen
      have : 0 < live.length := List.length_pos_of_ne_nil hl
      have : 0 < min n live.length := by omega
      omega
    | cons x xs =>
      show (executors (((perm.filterMap (fun i => live[i]?)).take n).zipIdx.map (fun p => (p.1, p.2 != 0)))).length = 1
      rw [hsf]
      unfold executors
      rw [List.zipIdx_cons, List.map_cons, List.filter_cons]
      simp only [bne_self_eq_false, Bool.not_false, if_true, List.map_cons, List.length_cons]
      rw [zipIdx_flags_from xs 1 (le_refl 1)]
      rfl
  · have := congrArg List.length hfst
    rw [List.length_map, List.length_take, hsh.length_eq] at this
    exact this
  · intro p hpm
    have : p.1 ∈ plan.map Prod.fst := List.mem_map.mpr ⟨p, hpm, rfl⟩
    rw [hfst] at this
    exact hsh.mem_iff.mp (List.mem_of_mem_take this)
  · intro hnd
    rw [hfst]
    exact (hsh.nodup_iff.mpr hnd).sublist (List.take_sublist _ _)

/-! ## 7. routing of written rows -/

/-- the broker's shard iterator hands every row out exactly once, in the group of the shard the
jump hash names — for EVERY hash function with values `< n` (the jump consistent hash is a
parameter; `partition_invariance_partial` holds for every placement, in particular this one) -/
theorem route_partition (jump : Nat → Nat) (n : Nat) (rows : List (Nat × Nat))
    (hj : ∀ r ∈ rows, jump r.2 < n) :
    (∀ r ∈ rows, ∃ g ∈ routeGroups jump n rows, g.1 = jump r.2 ∧ r.1 ∈ g.2) ∧
    (∀ g ∈ routeGroups jump n rows, g.1 < n ∧ ∀ id ∈ g.2, ∃ r ∈ rows, r.1 = id ∧ jump r.2 = g.1) ∧
    ((routeGroups jump n rows).map Prod.fst).Nodup := by
  refine ⟨?_, ?_, ?_⟩
  · intro r hr
    refine ⟨(jump r.2, rows.filterMap (fun x => if jump x.2 = jump r.2 then some x.1 else none)), ?_, rfl, ?_⟩
    · unfold routeGroups
      refine List.mem_filterMap.mpr ⟨jump r.2, List.mem_range.mpr (hj r hr), ?_⟩
      have : (rows.filterMap (fun x => if jump x.2 = jump r.2 then some x.1 else none)).isEmpty = false := by
        have hm : r.1 ∈ rows.filterMap (fun x => if jump x.2 = jump r.2 then some x.1 else none) :=
          List.mem_filterMap.mpr ⟨r, hr, by simp⟩
        cases hl : rows.filterMap (fun x => if jump x.2 = jump r.2 then some x.1 else none) with
        | nil => rw [hl] at hm; cases hm
        | cons _ _ => rfl
      simp only [this, Bool.false_eq_true, if_false]
    · exact List.mem_filterMap.mpr ⟨r, hr, by simp⟩
  · intro g hg
    unfold routeGroups at hg
    obtain ⟨s, hs, hsg⟩ := List.mem_filterMap.mp hg
    simp only at hsg
    split at hsg
    · cases hsg
    · cases hsg
      refine ⟨List.mem_range.mp hs, ?_⟩
      intro id hid
      obtain ⟨r, hr, hrid⟩ := List.mem_filterMap.mp hid
      split at hrid
      · rename_i hjs
        cases hrid
        exact ⟨r, hr, rfl, hjs⟩
      · cases hrid
  · unfold routeGroups
    rw [List.map_filterMap]
    refine List.Nodup.filterMap ?_ List.nodup_range
    intro a b c hac hbc
    simp only [Option.mem_def] at hac hbc
    split at hac
    · simp at hac
    · split at hbc
      · simp at hbc
      · simp at hac hbc; rw [hac, hbc]

/-! ## non-vacuity: the hypotheses of the partial theorems hold for a non-trivial layout -/

namespace Example

def spSum : Spec := { name := 0, ftype := 1, funcs := [1] }
def spMax : Spec := { name := 1, ftype := 3, funcs := [3] }
/-- reference specs: f0 a sum field, f1 a max field -/
def sp0 : List Spec := [spSum, spMax]

def tsA : TS := { tags := 0, fields := [{ name := 0, ftype := 1, prims := [{ kind := 1, pts := [(1, 5)] }] }] }
def tsB : TS :=
  { tags := 0, fields := [{ name := 0, ftype := 1, prims := [{ kind := 1, pts := [(1, 7)] }] },
                          { name := 1, ftype := 3, prims := [{ kind := 4, pts := [(2, 3)] }] }] }
/-- two leaves that list their specs in different (node-local field id) orders, and a node that
never saw the metric between them -/
def leafA : LeafIn := { specs := [spSum, spMax], its := [tsA] }
def leafB : LeafIn := { specs := [spMax, spSum], its := [tsB] }
def nodes : List Node := [.leaf leafB, .absent, .leaf leafA]

theorem view_sp0 (f : Nat) : specView sp0 f =
    if f = 0 then some (1, [Kind.sum]) else if f = 1 then some (3, [Kind.max]) else none := by
  match f with
  | 0 => decide
  | 1 => decide
  | n + 2 => simp [specView, sp0, spSum, spMax]

theorem view_rev (f : Nat) : specView [spMax, spSum] f = specView sp0 f := by
  match f with
  | 0 => decide
  | 1 => decide
  | n + 2 => simp [specView, sp0, spSum, spMax]

theorem simple_sp0 : Simple sp0 := by
  intro f ks h
  rw [kindsOf_eq_view, view_sp0] at h
  split at h
  · cases h; exact ⟨.sum, rfl, rfl⟩
  · split at h
    · cases h; exact ⟨.max, rfl, rfl⟩
    · cases h

theorem okA : leafA.OK sp0 := ⟨SpecEquiv.refl _, by decide, rfl⟩
theorem okB : leafB.OK sp0 := ⟨view_rev, by decide, rfl⟩

/-- the partial theorem applies and pins the root's answer: f0 at slot 1 is 5 + 7 -/
example :
    ∃ A, ((Ctx.new 3).handleAll .code (nodes.map (Node.resp 4))).agg = some A ∧
      A.cells 0 0 .sum 1 = some 12 ∧ A.cells 0 1 .max 2 = some 3 := by
  obtain ⟨-, -, -, A, hA, hn⟩ := partition_invariance_partial sp0 4 simple_sp0 [tsB, tsA] nodes
    (by intro L hL
        simp only [nodes, leavesOf, List.filterMap_cons, List.filterMap_nil, List.mem_cons,
          List.not_mem_nil, or_false] at hL
        rcases hL with rfl | rfl
        · exact okB
        · exact okA)
    (by decide) (List.Perm.refl _)
  refine ⟨A, hA, ?_, ?_⟩
  · rw [hn.cells_eq]; decide
  · rw [hn.cells_eq]; decide

end Example

/-! ## 8. ties to the regenerated facts (`lvh extract` re-reads /repo's source on every run) -/

/-- the variant of `handleResponse` / `fieldAggregator.Aggregate` that /repo's source has NOW
(the model driver runs this one) -/
def currentVariant : Variant :=
  ⟨Generated.C12.mergesLaterSpecs, Generated.C12.crossFeeds, Generated.C12.crossFeedFallback⟩

/-- whatever the source currently is, the partial theorems cover it … -/
theorem current_variant_partial :
    type_of% (partition_invariance_partial_any_variant currentVariant) :=
  partition_invariance_partial_any_variant currentVariant

theorem current_variant_intermediate_partial :
    type_of% (partition_invariance_intermediate_partial_any_variant currentVariant) :=
  partition_invariance_intermediate_partial_any_variant currentVariant

/-- since fix commit eb2ea99 the source is `Variant.byType`: finding (d) is gone … -/
theorem current_variant_two_functions_fixed (h : currentVariant = Variant.byType) :
    let leaf := leafAnswer currentVariant Neg.dA.schema (some Neg.dSel) 4 Neg.dA.its
    let im := ((Ctx.new 1).handleAll currentVariant [leaf]).taskResponse
    outcomeOf currentVariant [im] Neg.dSel [] 100 [0] = outcomeOf currentVariant [leaf] Neg.dSel [] 100 [0] ∧
    outcomeOf currentVariant [leaf] Neg.dSel [] 100 [0] = .rows [{ tags := 0, vals := [some [(1, 5)], some [(1, 5)]] }] := by
  rw [h]; decide

/-- … the other findings are not: the full-strength statement is still false of it (witness (a)) -/
theorem current_variant_still_false (h : currentVariant = Variant.byType) : ¬ FullStatement currentVariant := by
  rw [h]
  intro hf
  have hc : ∀ n ∈ [Neg.cA, Neg.cB], n.consistent := by
    intro n hn ts hts fd hfd
    simp only [List.mem_cons, List.not_mem_nil, or_false] at hn
    rcases hn with rfl | rfl
    · simp only [Neg.cA, Neg.pt, List.mem_singleton] at hts; subst hts
      simp only [List.map, List.mem_singleton] at hfd; subst hfd
      exact ⟨_, rfl, by simp⟩
    · simp only [Neg.cB, Neg.pt, List.mem_singleton] at hts; subst hts
      simp only [List.map, List.mem_singleton] at hfd; subst hfd
      exact ⟨_, rfl, by simp⟩
  have hc' : ∀ n ∈ [Neg.cB, Neg.cA], n.consistent := fun n hn => hc n (by
    simp only [List.mem_cons, List.not_mem_nil, or_false] at hn ⊢; tauto)
  have := hf (some [Neg.bare 0]) 4 (Neg.cA.its ++ Neg.cB.its) [Neg.cA, Neg.cB] [Neg.cB, Neg.cA] hc hc'
    (by simp [List.flatMap_cons]) (by simp [List.flatMap_cons]; exact List.perm_append_comm)
    [Neg.bare 0] [] 100 [0]
  exact absurd this (by decide)

/-- … and while it is `Variant.code` the full-strength statement is false of it (the harness's
witness cases say whether the real code still behaves so). -/
theorem current_variant_findings (h : currentVariant = Variant.code) : ¬ FullStatement currentVariant :=
  h ▸ Neg.full_statement_false

open LinVerif.Generated.C12 in
/-- the shape of `handleResponse` and the variant flag the driver uses agree: either the code as it
is (aggregator built once, nothing else done with later specs) or the repair
`fixes/C12-merge-later-specs.patch` (`AddSpecs` on every later response) -/
theorem generated_first_response_rule :
    aggregatorCreatedOnce = true ∧ skipsFieldWithoutAggregator = true ∧ skipsSeriesWithoutFields = true ∧
    ((groupAggCalls = ["Aggregate"] ∧ mergesLaterSpecs = false) ∨
     (groupAggCalls = ["AddSpecs", "Aggregate"] ∧ mergesLaterSpecs = true)) := by decide

open LinVerif.Generated.C12 in
/-- `handleResponse` is one critical section: nothing runs before `ctx.mutex.Lock()` and the unlock
is deferred — what `runSchedule` (one atomic step per response) assumes -/
theorem generated_handleResponse_atomic :
    handleResponseAtomic = true ∧ handleResponseBeforeLock = [] := by decide

open LinVerif.Generated.C12 in
/-- the statement order `Ctx.handle` / `Ctx.absorb` mirror (as it is, or with the repair) -/
theorem generated_handleResponse_steps :
    handleResponseSteps = ["mutex.Lock", "defer mutex.Unlock", "ctx.handleTaskState", "ctx.expectResults--",
      "ctx.handleStats", "ignoreResponse :=", "if err != nil", "if ignoreResponse", "tsList :=", "if err != nil",
      "if len(tsList.FieldAggSpecs) == 0", "ctx.timeRange =", "ctx.interval =", "range tsList.FieldAggSpecs",
      "if ctx.groupAgg == nil", "range tsList.TimeSeriesList"] ∨
    handleResponseSteps = ["mutex.Lock", "defer mutex.Unlock", "ctx.handleTaskState", "ctx.expectResults--", "ctx.handleStats", "ignoreResponse :=", "if err != nil", "if ignoreResponse", "tsList :=", "if err != nil", "if len(tsList.FieldAggSpecs) == 0", "ctx.timeRange =", "ctx.interval =", "range tsList.FieldAggSpecs", "AggregatorSpecs :=", "range tsList.FieldAggSpecs", "if ctx.groupAgg == nil", "range tsList.TimeSeriesList"] := by decide

open LinVerif.Generated.C12 in
/-- `fieldAggregator.Aggregate` and the cross-feed flag agree: as it is (every primitive series goes
through `AggregateBySlot`, i.e. into every kind) or with `fixes/C12-merge-by-agg-type.patch` -/
theorem generated_field_aggregate :
    (fieldAggregateCalls = ["it.HasNext", "it.Next", "pIt.HasNext", "pIt.Next", "a.AggregateBySlot"] ∧
      crossFeeds = true ∧ crossFeedFallback = false) ∨
    -- fix commit eb2ea99: by aggregate type, AggregateBySlot only when the type is not one of the aggregator's
    (fieldAggregateCalls = ["it.HasNext", "it.Next", "pIt.AggType", "pIt.HasNext", "pIt.Next", "a.AggregateBySlot",
        "a.aggregateBySlotOfType"] ∧ crossFeeds = false ∧ crossFeedFallback = true) ∨
    (fieldAggregateCalls = ["it.HasNext", "it.Next", "pIt.AggType", "pIt.HasNext", "pIt.Next", "math.IsInf", "a.aggregate"] ∧ crossFeeds = false ∧ crossFeedFallback = false) := by decide

open LinVerif.Generated.C12 in
/-- `baseTaskContext.Complete` and the `keep` flag the driver passes to `Ctx.complete` agree:
the pinned code (unconditional `ctx.err = err`) or `fixes/C12-complete-keeps-error.patch` -/
theorem generated_complete :
    (completeSteps = ["mutex.Lock", "ctx.err = err", "mutex.Unlock", "ctx.tryClose"] ∧ completeKeepsError = false) ∨
    (completeSteps = ["mutex.Lock", "if err != nil || ctx.err == nil", "mutex.Unlock", "ctx.tryClose"] ∧
      completeKeepsError = true) := by decide

/-- with the repair in the source, `error_sticky` is about the code -/
theorem current_complete_sticky (h : Generated.C12.completeKeepsError = true) (v : Variant) (c : Ctx)
    (before after : List Event) (r : Resp) (hr : isFailure r = true) :
    (c.run Generated.C12.completeKeepsError v (before ++ Event.resp r :: after)).err.isSome = true := by
  rw [h]; exact (error_sticky v c before after r hr [] [] 0 []).2.1

open LinVerif.Generated.C12 in
theorem generated_checkError :
    checkErrorSteps = ["if errMsg == \"\"", "if !strings.Contains(errMsg, \"not found\")",
      "ctx.tolerantNotFounds--", "if ctx.tolerantNotFounds > 0", "ReturnError: return true, errors.New(errMsg)"] ∧
    notFoundNeedle = "not found" ∧ tryCloseCond = "ctx.expectResults <= 0 || ctx.err != nil" ∧
    addRequestsIncs = ["ctx.expectResults++", "ctx.tolerantNotFounds++"] := by decide

open LinVerif.Generated.C12 in
/-- `AggType` codes and `AggType.Aggregate` are what `Kind.code` / `Kind.agg` model -/
theorem generated_aggregate_table :
    aggTypeCodes = [("Sum", 1), ("Count", 2), ("Min", 3), ("Max", 4), ("Last", 5), ("First", 6)] ∧
    aggregateExprs = [(1, "a + b"), (2, "a + b"), (3, "math.Min(a, b)"), (4, "math.Max(a, b)"), (5, "b"), (6, "a")] ∧
    Kind.all.map Kind.code = aggTypeCodes.map Prod.snd := by decide

open LinVerif.Generated.C12 in
/-- the field-type tables of the model are the ones in series/field/type.go -/
theorem generated_field_tables :
    (funcFieldParams.all (fun r => (funcKinds r.1 r.2.1).map Kind.code == r.2.2)) = true ∧
    (defaultFieldParams.all (fun r => (defaultKinds r.1).map Kind.code == r.2)) = true ∧
    (orderByFuncs.all (fun r => orderByFunc r.1 == r.2)) = true ∧
    (downSamplingFuncs.all (fun r => downSamplingFunc r.1 == r.2)) = true ∧
    ((List.range 7).all (fun t => (List.range 11).all (fun f =>
        funcSupported t f == supportedFuncs.contains (t, f)))) = true := by decide

open LinVerif.Generated.C12 in
/-- `topNHeap.Less` is the comparison `rowLess` models: per order-by item the DIFFERENCE of the two
values, negated for desc, `> 0` -> true, `< 0` -> false, otherwise the next item; finally false -/
theorem generated_topn_less :
    topnLessSteps = ["range h.orderByItems",
      "  ret := h.rows[i].GetValue(by.Name, by.FuncType) - h.rows[j].GetValue(by.Name, by.FuncType)",
      "  if by.Desc", "    ret = -ret", "  if ret > 0", "    return true", "  else", "    if ret < 0",
      "      return false", "return false"] := by decide

open LinVerif.Generated.C12 in
/-- `flow.BuildPhysicalPlan` is what `buildPlan` models: shuffle the live nodes, walk them with
their position `i` IN THE SHUFFLED LIST (= the position in the plan), stop at `numOfNodes`,
receive-only unless `i == 0` -/
theorem generated_build_plan :
    buildPlanSteps = ["physicalPlan := &models.PhysicalPlan{ Database: database, }", "numOfLiveNodes := len(liveNodes)", "if numOfLiveNodes > 0", "  random := rand.New(rand.NewSource(time.Now().UnixNano()))", "  random.Shuffle(numOfLiveNodes, func(i, j int) { liveNodes[i], liveNodes[j] = liveNodes[j], liveNodes[i] })", "  range i, node := liveNodes", "    if i == numOfNodes", "      break", "    receiveOnly := true", "    if i == 0", "      receiveOnly = false", "    physicalPlan.AddTarget(&models.Target{ Indicator: node.Indicator(), ReceiveOnly: receiveOnly, })", "return physicalPlan"] := by decide

open LinVerif.Generated.C12 in
theorem generated_hash_and_routing :
    receiverIndexExpr = "int(h % uint64(numOfReceivers))" ∧ receiverHashExpr = "xxhash.Sum64String(ts.Tags)" ∧
    shardIdxExpr = "int(jump.Hash(br.rows[i].m.KvsHash(), numOfShards))" := by decide

end LinVerif.Props.C12
