/-
C12 — query results do not depend on sharding, node placement or response order.

Property theorems over the model `LinVerif/Model/RootMerge.lean` (helper lemmas in
`LinVerif/Lemmas/C12*.lean`). `Variant.code` is lindb as it is (aggregator built from the first
response's specs; `fieldAggregator.Aggregate` feeds every incoming primitive series into every kind).

The full-strength statement of the property is `partition_invariance` WITHOUT the hypotheses
`Simple sp0` ("every selected field has one aggregate kind, and it is sum/count/min/max") and
`LeafIn.OK` ("every answering leaf reports the same field specs"). It is false of the code; the
four regions those hypotheses exclude each have a proved negation in `namespace Neg`, replayed on
the real code by the harness (deterministic witness cases 0–3).
-/
import LinVerif.Lemmas.C12Layout
import LinVerif.Generated.C12

namespace LinVerif.Props.C12
open LinVerif.RootMerge

/-! ## 1. the merge algebra -/

/-- `AggType.Aggregate` is associative for all six kinds … -/
theorem agg_assoc (k : Kind) (a b c : Int) : k.agg (k.agg a b) c = k.agg a (k.agg b c) :=
  Kind.agg_assoc k a b c

/-- … and commutative for sum / count / min / max. -/
theorem agg_comm (k : Kind) (h : k.comm = true) (a b : Int) : k.agg a b = k.agg b a :=
  Kind.agg_comm k h a b

/-- First/last carry nothing but the value: `Aggregate(Last)` keeps the incoming value,
`Aggregate(First)` the accumulated one — the result of a merge is decided by ARRIVAL order. -/
theorem last_first_are_projections (a b : Int) : Kind.last.agg a b = b ∧ Kind.first.agg a b = a :=
  ⟨rfl, rfl⟩

/-- what every array cell of the aggregator holds after any list of incoming groups: the fold of
its kind over the values delivered to that position, in delivery order (started from the old
content). The aggregator is an action of the free monoid of value lists on cells. -/
theorem merge_cell (a : Agg) (tss : List TS) (t f : Nat) (k : Kind) (s : Nat) :
    (a.aggregateAll .code tss).cells t f k s =
      if hasKind a.specs f k = true
      then combOpt k (a.cells t f k s) (foldVals k (valsAt a.cap (tss.flatMap TS.atoms) t f s))
      else a.cells t f k s := by
  rw [aggregateAll_cells, foldl_addAtom_apply .code rfl, foldl_comb_eq]

/-- `merge_comm_assoc`, commutative part: when every aggregate kind of the aggregator's specs is
sum/count/min/max, the merge is invariant under every permutation of the incoming groups —
arrays, group set and touched flags. (Associativity is `merge_cell` + `foldVals_append`:
merging `l1 ++ l2` = merging `l1` then `l2`, for all six kinds.) -/
theorem merge_comm_assoc (a : Agg)
    (hc : ∀ f ks, kindsOf a.specs f = some ks → ∀ k ∈ ks, k.comm = true)
    (l1 l2 : List TS) (hp : l1.Perm l2) :
    (a.aggregateAll .code l1).cells = (a.aggregateAll .code l2).cells ∧
    (∀ t, t ∈ (a.aggregateAll .code l1).keys ↔ t ∈ (a.aggregateAll .code l2).keys) ∧
    (a.aggregateAll .code l1).touched = (a.aggregateAll .code l2).touched := by
  refine ⟨?_, ?_, ?_⟩
  · funext t f k s
    rw [merge_cell, merge_cell]
    by_cases hk : hasKind a.specs f k = true
    · rw [if_pos hk, if_pos hk]
      have hcomm : k.comm = true := by
        unfold hasKind at hk
        cases hq : kindsOf a.specs f with
        | none => rw [hq] at hk; cases hk
        | some ks => rw [hq] at hk; exact hc f ks hq k (by simpa using hk)
      rw [foldVals_perm k hcomm (valsAt_perm a.cap (hp.flatMap_right _) t f s)]
    · rw [if_neg hk, if_neg hk]
  · intro t
    rw [mem_keys_aggregateAll, mem_keys_aggregateAll]
    constructor
    · rintro (h | ⟨x, hx, h2⟩)
      · exact Or.inl h
      · exact Or.inr ⟨x, hp.mem_iff.mp hx, h2⟩
    · rintro (h | ⟨x, hx, h2⟩)
      · exact Or.inl h
      · exact Or.inr ⟨x, hp.mem_iff.mpr hx, h2⟩
  · funext t f
    rw [Bool.eq_iff_iff, touched_iff, touched_iff, naiveTouched_perm a.specs hp]

/-- associativity of the merge (all six kinds): two batches one after the other = one batch -/
theorem merge_assoc (v : Variant) (a : Agg) (l1 l2 : List TS) :
    a.aggregateAll v (l1 ++ l2) = (a.aggregateAll v l1).aggregateAll v l2 :=
  aggregateAll_append v a l1 l2

/-- for first/last what holds is: values for DIFFERENT array positions commute (any kinds) -/
theorem merge_comm_disjoint (specs : List Spec) (cap : Nat) (c : Cells) (x y : Atom)
    (h : ¬ (x.t = y.t ∧ x.f = y.f ∧ x.s = y.s)) :
    addAtom .code specs cap (addAtom .code specs cap c x) y =
      addAtom .code specs cap (addAtom .code specs cap c y) x := by
  funext t f k s
  simp only [addAtom_apply .code rfl]
  by_cases hx : x.t = t ∧ x.f = f ∧ x.s = s ∧ x.s < cap ∧ hasKind specs f k = true
  · have hy : ¬ (y.t = t ∧ y.f = f ∧ y.s = s ∧ y.s < cap ∧ hasKind specs f k = true) := by
      rintro ⟨h1, h2, h3, -⟩
      exact h ⟨hx.1.trans h1.symm, hx.2.1.trans h2.symm, hx.2.2.1.trans h3.symm⟩
    rw [if_neg hy, if_pos hx, if_neg hy, if_pos hx]
  · rw [if_neg hx]
    by_cases hy : y.t = t ∧ y.f = f ∧ y.s = s ∧ y.s < cap ∧ hasKind specs f k = true
    · rw [if_pos hy, if_neg hx]
    · rw [if_neg hy, if_neg hx]

/-! ## 2. partition invariance -/

/-- the observable content of the root's aggregator equals the naive aggregate over ALL data -/
structure IsNaive (sp0 : List Spec) (cap : Nat) (its : List TS) (A : Agg) : Prop where
  cap_eq : A.cap = cap
  specs_equiv : SpecEquiv A.specs sp0
  cells_eq : A.cells = naiveCells sp0 cap its
  keys_iff : ∀ t, t ∈ A.keys ↔ NaiveGroup its t
  touched_iff : ∀ t f, A.touched t f = true ↔ NaiveTouched sp0 its t f

/-- **partition_invariance** (leaves answer the root directly).
`its` = the per-series grouped results of the whole cluster (what C11 delivers). Take ANY
placement of them on leaf nodes (`leavesOf ns`, each leaf reducing its share in any order
`L.its`), ANY number of additional nodes that answer not-found, and ANY delivery order (`ns` is
the list of nodes in the order their responses are handled — it is universally quantified).
Under the hypothesis the first-response rule forces — all answering leaves report the same field
specs (up to order) — and for selected fields with one commutative aggregate kind, the root
completes without error and its aggregator holds exactly the naive aggregate of all data. -/
theorem partition_invariance (sp0 : List Spec) (cap : Nat) (hs : Simple sp0) (its : List TS)
    (ns : List Node) (hOK : ∀ L ∈ leavesOf ns, L.OK sp0) (hne : leavesOf ns ≠ [])
    (hpart : ((leavesOf ns).flatMap (·.its)).Perm its) :
    let c := (Ctx.new ns.length).handleAll .code (ns.map (Node.resp cap))
    c.done = true ∧ c.err = none ∧ c.hdrCap = cap ∧ ∃ A, c.agg = some A ∧ IsNaive sp0 cap its A := by
  intro c
  have hlen : (ns.map (Node.resp cap)).length = ns.length := List.length_map _
  have hns : ns ≠ [] := by rintro rfl; exact hne rfl
  have hgood := goodPayloads_nodes sp0 cap ns hOK
  refine ⟨?_, ?_, ?_, ?_⟩
  · apply handleAll_done
    · intro h; exact hns (List.map_eq_nil_iff.mp h)
    · simp [Ctx.new, hlen]
  · refine (handleAll_err_none .code _ _ (noFailure_nodes cap ns) rfl ?_).1
    have := countNF_nodes cap ns
    have hpos : 0 < (leavesOf ns).length := List.length_pos_of_ne_nil hne
    simp only [Ctx.new]; omega
  · apply handleAll_hdrCap
    · intro p hp
      rw [hgood] at hp
      obtain ⟨L, -, rfl⟩ := List.mem_map.mp hp
      rfl
    · right; rw [hgood]; intro h; exact hne (List.map_eq_nil_iff.mp h)
  · have hagg : c.agg = aggAfter .code none (goodPayloads (ns.map (Node.resp cap))) :=
      handleAll_agg .code rfl _ _
    rw [hgood] at hagg
    cases hL : leavesOf ns with
    | nil => exact absurd hL hne
    | cons L Ls =>
      rw [hL, List.map_cons, aggAfter_none_cons] at hagg
      refine ⟨_, hagg, ?_⟩
      have hOK' : ∀ L' ∈ L :: Ls, L'.OK sp0 := by rw [← hL]; exact hOK
      have hp' : ((L :: Ls).flatMap (·.its)).Perm its := by rw [← hL]; exact hpart
      have hflat : ((leafPayload .code L.specs cap L.its) ::
            Ls.map (fun L => leafPayload .code L.specs cap L.its)).flatMap (·.series) =
          (L :: Ls).flatMap (fun L => (leafPayload .code L.specs cap L.its).series) := by
        simp [List.flatMap_cons, List.flatMap_map]
      rw [hflat]
      have he : SpecEquiv (leafPayload .code L.specs cap L.its).specs sp0 := (hOK' L List.mem_cons_self).equiv
      constructor
      · rw [aggregateAll_cap]; rfl
      · rw [aggregateAll_specs]; exact he
      · funext t f k s
        rw [show (leafPayload .code L.specs cap L.its).cap = cap from rfl,
          cells_of_leaves sp0 _ hs he cap (L :: Ls) hOK' t f k s, naiveCells_perm sp0 hs cap hp']
      · intro t
        rw [show (leafPayload .code L.specs cap L.its).cap = cap from rfl,
          keys_of_leaves sp0 _ cap (L :: Ls) hOK' t, naiveGroup_perm hp']
      · intro t f
        rw [show (leafPayload .code L.specs cap L.its).cap = cap from rfl,
          touched_of_leaves sp0 _ hs he cap (L :: Ls) hOK' t f, naiveTouched_perm sp0 hp']

end LinVerif.Props.C12
