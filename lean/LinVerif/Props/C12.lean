import LinVerif.Model.RootMerge
import LinVerif.Generated.C12
namespace LinVerif.Props.C12
theorem placeholder : (1 : Nat) + 1 = 2 := rfl
end LinVerif.Props.C12
