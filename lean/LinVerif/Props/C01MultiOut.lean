/-
C01, round 13 — compaction outputs vs. a concurrent deleteObsoleteFiles of the same family.
Model: LinVerif/Model/C01MultiOut.lean. Only the property theorems, ties and non-vacuity examples.
-/
import LinVerif.Model.C01MultiOut
import LinVerif.Generated.C01
import LinVerif.Lemmas.C01MultiOut

namespace LinVerif.Props.C01MultiOut
open LinVerif LinVerif.Kv.MO LinVerif.Lemmas.C01MultiOut

/-- every file of the version is in the directory; every finished output is in the directory and protected
(pending) or installed (version); the table being written is in the directory and pending. -/
def Inv (s : St) : Prop :=
  (∀ f ∈ s.version, f ∈ s.disk) ∧
  (∀ f ∈ s.outputs, f ∈ s.disk ∧ (f ∈ s.pending ∨ f ∈ s.version)) ∧
  (∀ n, s.cur = some n → n ∈ s.disk ∧ n ∈ s.pending)

theorem inv_step (cfg : Cfg) (hc : cfg.releaseAtFinish = false) (s : St) (e : Ev) (h : Inv s) :
    Inv (step cfg s e) := by
  obtain ⟨hv, ho, hcur⟩ := h
  cases e with
  | openOut =>
    cases hcu : s.cur with
    | some n => simp only [step, hcu]; exact ⟨hv, ho, hcur⟩
    | none =>
      simp only [step, hcu]
      refine ⟨?_, ?_, ?_⟩
      · intro f hf; exact List.mem_cons_of_mem _ (hv f hf)
      · intro f hf
        obtain ⟨a, b⟩ := ho f hf
        exact ⟨List.mem_cons_of_mem _ a, b.imp (List.mem_cons_of_mem _) id⟩
      · intro n hn
        simp only [Option.some.injEq] at hn
        subst hn
        exact ⟨List.mem_cons_self, List.mem_cons_self⟩
  | finishOut =>
    cases hcu : s.cur with
    | none => simp only [step, hcu]; exact ⟨hv, ho, hcur⟩
    | some n =>
      simp only [step, hcu, hc]
      obtain ⟨nd, np⟩ := hcur n hcu
      refine ⟨hv, ?_, ?_⟩
      · intro f hf
        rcases List.mem_append.mp hf with h1 | h1
        · exact ho f h1
        · simp only [List.mem_singleton] at h1
          subst h1
          exact ⟨nd, Or.inl (by simpa using np)⟩
      · intro m hm; simp at hm
  | commit ok =>
    cases ok with
    | false =>
      have : step cfg s (Ev.commit false) = s := by simp [step]
      rw [this]; exact ⟨hv, ho, hcur⟩
    | true =>
      simp only [step, if_true]
      refine ⟨?_, ?_, hcur⟩
      · intro f hf
        rcases List.mem_append.mp hf with h1 | h1
        · exact hv f (List.mem_filter.mp h1).1
        · exact (ho f h1).1
      · intro f hf
        exact ⟨(ho f hf).1, Or.inr (List.mem_append.mpr (Or.inr hf))⟩
  | jobCleanup =>
    simp only [step]
    exact ⟨hv, by intro f hf; simp at hf, by intro n hn; simp at hn⟩
  | cleanup =>
    simp only [step]
    refine ⟨?_, ?_, ?_⟩
    · intro f hf
      exact List.mem_filter.mpr ⟨hv f hf, by simp [hf]⟩
    · intro f hf
      obtain ⟨a, b⟩ := ho f hf
      refine ⟨List.mem_filter.mpr ⟨a, ?_⟩, b⟩
      rcases b with b | b <;> simp [b]
    · intro n hn
      obtain ⟨a, b⟩ := hcur n hn
      exact ⟨List.mem_filter.mpr ⟨a, by simp [b]⟩, b⟩

theorem inv_run (cfg : Cfg) (hc : cfg.releaseAtFinish = false) (evs : List Ev) (s : St) (h : Inv s) :
    Inv (run cfg s evs) := by
  induction evs generalizing s with
  | nil => exact h
  | cons e t ih => exact ih (step cfg s e) (inv_step cfg hc s e h)

theorem inv_init (inputs : List Int) (next : Int) : Inv (initSt inputs next) :=
  ⟨fun _ hf => hf, by intro f hf; simp [initSt] at hf, by intro n hn; simp [initSt] at hn⟩

/-- tie: the source releases a finished output table from pendingOutputs in cleanupCompaction (which
mergeCompaction defers, i.e. AFTER installCompactionResults returned) and NOT in
finishCompactionOutputFile; a new table number is pending before its file is created. -/
theorem tie_output_release_points :
    codeCfg = ⟨false, true⟩ ∧
    (Generated.C01.cleanupCompactionSteps.filter (fun c => releaseNames.contains c)).length = 2 ∧
    Generated.C01.mergeCompactionDeferCalls.head? = some "c.cleanupCompaction" ∧
    Generated.C01.mergeCompactionCalls.filter (fun c => ["defer:?", "c.doMerge", "c.installCompactionResults"].contains c)
      = ["defer:?", "c.doMerge", "c.installCompactionResults"] ∧
    Generated.C01.newTableBuilderSteps.filter
        (fun c => ["store.nextFileNumber", "f.addPendingOutput", "table.NewStoreBuilder", "f.removePendingOutput"].contains c)
      = ["store.nextFileNumber", "f.addPendingOutput", "table.NewStoreBuilder"] ∧
    Generated.C01.openCompactionOutputFileSteps.filter (fun c => releaseNames.contains c) = [] := by decide

/-- **Finished compaction outputs survive every concurrent cleanup.** With the release points the source
has, for EVERY sequence of events — the steps of a merge compaction with any number of output tables, its
failing and succeeding commits, its cleanupCompaction, interleaved in any way with any number of
deleteObsoleteFiles runs of other jobs of the family (all interleavings of the job's program with foreign
cleanups are among these sequences, so are its error exits) — started in any state satisfying the
invariant: the version never references a table that is not in the directory, every finished output is
still there, and so is the table being written. -/
theorem outputs_survive_concurrent_cleanup (evs : List Ev) (s : St) (h : Inv s) :
    Inv (run codeCfg s evs) :=
  inv_run codeCfg (by rw [tie_output_release_points.1]) evs s h

/-- the property-level consequence: whatever the schedule, a reopen of the directory finds every table
the committed version references. -/
theorem committed_version_files_exist (inputs : List Int) (next : Int) (evs : List Ev) :
    missing (run codeCfg (initSt inputs next) evs) = [] := by
  have h := (outputs_survive_concurrent_cleanup evs _ (inv_init inputs next)).1
  unfold missing
  apply List.filter_eq_nil_iff.mpr
  intro f hf
  simp [h f hf]

/-- non-vacuity: inputs 2, 4; three outputs 6, 7, 8; two foreign cleanups after the first output was
finished: everything committed is there, the inputs are gone. -/
example : run codeCfg (initSt [2, 4] 6) (jobSchedule 3 1 2) =
    { disk := [8, 7, 6], version := [6, 7, 8], pending := [], next := 9, inputs := [], outputs := [], cur := none } := by
  decide
example : Inv (run codeCfg (initSt [2, 4] 6) ((List.replicate 1 [Ev.openOut, Ev.finishOut]).flatten ++ [Ev.cleanup])) ∧
    (run codeCfg (initSt [2, 4] 6) ((List.replicate 1 [Ev.openOut, Ev.finishOut]).flatten ++ [Ev.cleanup])).disk = [6, 2, 4] :=
  ⟨outputs_survive_concurrent_cleanup _ _ (inv_init _ _), by decide⟩

/-- the job's program, for EVERY number of outputs k, every park point j ≤ k and every number c of foreign
cleanups at that point: the committed version is exactly the k output tables (numbers next .. next+k-1, the
inputs are gone), and every one of them is in the directory. -/
theorem job_commits_exactly_its_outputs (inputs : List Int) (next : Int) (k j c : Nat) (hj : j ≤ k) :
    (run codeCfg (initSt inputs next) (jobSchedule k j c)).version = (List.range k).map (fun (i : Nat) => next + (i : Int)) ∧
    missing (run codeCfg (initSt inputs next) (jobSchedule k j c)) = [] := by
  refine ⟨?_, committed_version_files_exist inputs next _⟩
  have hs : jobSchedule k j c = pairs j ++ (List.replicate c Ev.cleanup ++ (pairs (k - j) ++ [Ev.commit true, Ev.jobCleanup, Ev.cleanup])) := by
    simp [jobSchedule, pairs]
  rw [hs, run_append, run_append, run_append]
  obtain ⟨a1, b1, c1, d1, e1⟩ := run_pairs codeCfg j (initSt inputs next) rfl
  generalize run codeCfg (initSt inputs next) (pairs j) = s1 at *
  obtain ⟨a2, b2, c2, d2, e2⟩ := run_cleanups codeCfg c s1
  generalize run codeCfg s1 (List.replicate c Ev.cleanup) = s2 at *
  obtain ⟨a3, b3, c3, d3, e3⟩ := run_pairs codeCfg (k - j) s2 (by rw [c2, c1])
  generalize run codeCfg s2 (pairs (k - j)) = s3 at *
  have hv : (run codeCfg s3 [Ev.commit true, Ev.jobCleanup, Ev.cleanup]).version
      = s3.version.filter (fun f => !s3.inputs.contains f) ++ s3.outputs := by
    simp [run, step]
  rw [hv, d3, d2, d1, e3, e2, e1, a3, a2, a1, b2, b1]
  simp only [initSt, filter_not_self, List.nil_append]
  have hk : k = j + (k - j) := by omega
  conv => rhs; rw [hk, List.range_add, List.map_append, List.map_map]
  congr 1
  apply List.map_congr_left
  intro i _
  simp only [Function.comp]
  omega

example : (run codeCfg (initSt [2, 4] 6) (jobSchedule 3 1 2)).version = [6, 7, 8] := by decide

namespace Counterfactual

/-- general: with a release at finish, ONE foreign cleanup right after a finished output removes that
table although the job is about to commit it (any state with an open builder whose number the version
does not reference). -/
theorem release_at_finish_exposes_output (rc : Bool) (s : St) (n : Int) (hcur : s.cur = some n)
    (hnv : n ∉ s.version) :
    n ∉ (run ⟨true, rc⟩ s [Ev.finishOut, Ev.cleanup]).disk ∧
    n ∈ (run ⟨true, rc⟩ s [Ev.finishOut, Ev.cleanup]).outputs := by
  simp only [run, List.foldl, step, hcur, if_true]
  refine ⟨?_, by simp⟩
  intro h
  have h2 := (List.mem_filter.mp h).2
  simp [hnv] at h2

/-- the c01-26 shape: release at finish (and none after the commit); inputs 2, 4; outputs 6, 7, 8; one foreign
cleanup after output 6 was finished: the commit succeeds, the version references 6, the file is gone. -/
theorem release_at_finish_loses_committed_output :
    missing (run ⟨true, false⟩ (initSt [2, 4] 6) (jobSchedule 3 1 1)) = [6] := by decide

end Counterfactual

end LinVerif.Props.C01MultiOut
