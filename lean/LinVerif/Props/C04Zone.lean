/-
C04 — target-family selection of the rollup under ANY `time.Local` (local days of 23, 24 or 25 hours).

C04 says the rolled-up values land "in the target family and segment that contain those timestamps";
nothing restricts the process zone. `Props/C04Target.lean` is the UTC instance over day numbers. Here the
locating lines of `family.rollup()` are taken over C13's zone model (`Model/IntervalZone.lean`,
contract `ZoneOK` of `Lemmas/C13ZoneContract.lean`: local midnights increase, every instant lies
between the midnight of its wall-clock day and the next one, `time.Date` then `time.Unix` gives the date
back). The zone model itself is C13's (imported, not copied).

* `locateZ_month`, `locateZ_year` — closed form: the located month-type family starts at the local
  midnight of the source family's wall-clock day (whatever the lengths of the days before it), the
  year-type family at the local midnight of the first of that month.
* `source_family_in_one_local_day` — whole-hour zones: an hour family that starts inside local day `n`
  lies inside it (days of 23 and 25 hours included).
* `target_family_contains_timestamps_month/_year` — every timestamp of the source family gets, from the
  target calculator applied to the timestamp itself, exactly the (segment, family, family start) the
  rollup located, and lies inside that family's window.
* `month_family_shapes_agree_fixed` — in a fixed-offset zone the arithmetic shape
  `(timestamp - segmentTime)/OneDay + 1` is the calendar day; `Neg.arith_month_family_after_clock_change`
  — in America/New_York (2019) it is not: the first hour of 2019-03-12 is located in the family of
  2019-03-11, whose window does not contain it.
* `tie_month_family_shape` — which shape the code has (regenerated).
-/
import LinVerif.Model.C04Zone
import LinVerif.Lemmas.C13ZoneContract
import LinVerif.Lemmas.C13Zone
import LinVerif.Lemmas.C04Arith

set_option linter.unusedSimpArgs false
set_option linter.unusedVariables false
set_option linter.unusedTactic false
set_option linter.unreachableTactic false
namespace LinVerif.Props.C04
open LinVerif.Rollup LinVerif.Calendar
open LinVerif.Interval (Zone Calc civilOfMsZ dateMsZ calcSegmentTimeZ calcFamilyZ calcFamilyStartTimeZ
  calcFamilyEndTimeZ calcFamilyTimeZ)
open LinVerif.Lemmas.C13 (ZoneOK HourAligned localDay midnightOf monthStartDay nextMonthStartDay
  civilOfMsZ_eq dateMsZ_eq localDay_unique midnight_le zc_month_familyTime zc_month_familyEnd
  zc_year_familyTime zc_year_familyEnd monthStartDay_le fixed_zone_ok)

theorem segOfDayZ_eq (z : Zone) (n : Int) : segOfDayZ z n = midnightOf z n := rfl

/-- the source family start of a day-type source: `segmentTime + family * OneHour` -/
theorem locateZ_src_day (b : Bool) (z : Zone) (src tgt seg f : Int) (hs : itype src = .day) :
    (locateZ b z src tgt seg f).srcFamStart = seg + f * 3600000 := by
  simp only [locateZ, hs, IType.toCalc, calcFamilyStartTimeZ, LinVerif.Interval.oneHour,
    LinVerif.Interval.oneMinute, LinVerif.Interval.oneSecond]
  omega

/-- month-type target, calendar shape: the located family is the wall-clock day of the source family
start — named by its day of month, starting at that day's local midnight, in the segment of that month -/
theorem locateZ_month (z : Zone) (hz : ZoneOK z) (src tgt seg f : Int) (ht : itype tgt = .month) :
    let l := locateZ true z src tgt seg f
    l.tFamStart = midnightOf z (localDay z l.srcFamStart) ∧
    l.tFamily = (civilFromDays (localDay z l.srcFamStart)).2.2 ∧
    l.tSegTime = calcSegmentTimeZ z .month l.srcFamStart := by
  refine ⟨?_, ?_, ?_⟩
  · have := zc_month_familyTime hz (calcFamilyStartTimeZ z (itype src).toCalc seg f)
    simpa only [locateZ, ht, IType.toCalc, familyZ, monthFamilyZ, if_true, calcFamilyTimeZ, calcFamilyZ] using this
  · simp only [locateZ, ht, IType.toCalc, familyZ, monthFamilyZ, if_true, civilOfMsZ_eq]
  · simp only [locateZ, ht, IType.toCalc]

/-- year-type target: the located family is the calendar month of the source family start -/
theorem locateZ_year (b : Bool) (z : Zone) (hz : ZoneOK z) (src tgt seg f : Int) (ht : itype tgt = .year) :
    let l := locateZ b z src tgt seg f
    l.tFamStart = midnightOf z (monthStartDay (localDay z l.srcFamStart)) ∧
    l.tFamily = (civilFromDays (localDay z l.srcFamStart)).2.1 ∧
    l.tSegTime = calcSegmentTimeZ z .year l.srcFamStart := by
  refine ⟨?_, ?_, ?_⟩
  · have := zc_year_familyTime hz (calcFamilyStartTimeZ z (itype src).toCalc seg f)
    simpa only [locateZ, ht, IType.toCalc, familyZ, calcFamilyTimeZ, calcFamilyZ] using this
  · simp only [locateZ, ht, IType.toCalc, familyZ, calcFamilyZ, civilOfMsZ_eq]
  · simp only [locateZ, ht, IType.toCalc]

/-- what the target calculator says about a timestamp depends on its wall-clock day only
(calendar shape; month- and year-type targets) -/
theorem placeOfTsZ_congr (z : Zone) (tgt ts ts' : Int) (ht : itype tgt = .month ∨ itype tgt = .year)
    (h : localDay z ts = localDay z ts') : placeOfTsZ true z tgt ts = placeOfTsZ true z tgt ts' := by
  rcases ht with ht | ht <;>
    simp only [placeOfTsZ, ht, IType.toCalc, familyZ, monthFamilyZ, if_true, calcSegmentTimeZ, calcFamilyZ,
      civilOfMsZ_eq, h]

/-- whole-hour zones: an hour family `f ≥ 0` that starts inside local day `n` ends inside it -/
theorem hour_family_ends_in_day (z : Zone) (ha : HourAligned z) (n f : Int) (h0 : 0 ≤ f)
    (hin : midnightOf z n + f * 3600000 < midnightOf z (n + 1)) :
    midnightOf z n + (f + 1) * 3600000 ≤ midnightOf z (n + 1) := by
  have al := ha n
  omega

/-- every timestamp of hour family `f` of local day `n` is on local day `n` — also when the day has 23 or
25 hours (`f` ranges over the hour families that start inside the day) -/
theorem source_family_in_one_local_day (z : Zone) (hz : ZoneOK z) (ha : HourAligned z) (n f x : Int)
    (hn : 0 ≤ midnightOf z n) (h0 : 0 ≤ f) (hin : midnightOf z n + f * 3600000 < midnightOf z (n + 1))
    (hx : 0 ≤ x ∧ x < 3600000) :
    localDay z (midnightOf z n + f * 3600000 + x) = n := by
  have e := hour_family_ends_in_day z ha n f h0 hin
  exact localDay_unique hz (by omega) (by omega) (by omega)

/-- Month-type target, any zone satisfying the contract, whole-hour days of any length. For the source
family `f` of the day store of wall-clock day `n` (`segOfDayZ z n` = what `ParseSegmentTime` gives) and
every timestamp `ts = familyStart + x`, `0 ≤ x < 1h`, of it:
the target calculator applied to `ts` gives exactly the segment / family / family start the rollup
located, that family starts at the local midnight of day `n` and is named by `n`'s day of month, and
`ts` lies inside the family's window. -/
theorem target_family_contains_timestamps_month (z : Zone) (hz : ZoneOK z) (ha : HourAligned z)
    (src tgt n f x : Int) (hs : itype src = .day) (ht : itype tgt = .month)
    (hn : 0 ≤ midnightOf z n) (h0 : 0 ≤ f) (hin : midnightOf z n + f * 3600000 < midnightOf z (n + 1))
    (hx : 0 ≤ x ∧ x < 3600000) :
    let l := locateZ true z src tgt (segOfDayZ z n) f
    let ts := l.srcFamStart + x
    placeOfTsZ true z tgt ts = (l.tSegTime, l.tFamily, l.tFamStart, midnightOf z (n + 1) - 1) ∧
    l.tFamStart = midnightOf z n ∧ l.tFamily = (civilFromDays n).2.2 ∧
    l.tFamStart ≤ ts ∧ ts ≤ midnightOf z (n + 1) - 1 := by
  intro l ts
  have hsrc : l.srcFamStart = midnightOf z n + f * 3600000 := by
    simp only [l, locateZ_src_day true z src tgt _ f hs, segOfDayZ_eq]
  have hd0 : localDay z l.srcFamStart = n := by
    have := source_family_in_one_local_day z hz ha n f 0 hn h0 hin (by omega)
    rw [hsrc]; simpa using this
  have hdx : localDay z ts = n := by
    have := source_family_in_one_local_day z hz ha n f x hn h0 hin hx
    simp only [ts, hsrc]; exact this
  obtain ⟨l1, l2, l3⟩ := locateZ_month z hz src tgt (segOfDayZ z n) f ht
  have e := hour_family_ends_in_day z ha n f h0 hin
  have hst : l.tFamStart = midnightOf z n := by rw [← hd0]; exact l1
  refine ⟨?_, hst, ?_, ?_, ?_⟩
  · rw [placeOfTsZ_congr z tgt ts l.srcFamStart (Or.inl ht) (by rw [hdx, hd0])]
    have hend : calcFamilyEndTimeZ z .month l.tFamStart = midnightOf z (n + 1) - 1 := by
      rw [hst]; exact zc_month_familyEnd hz n
    have : placeOfTsZ true z tgt l.srcFamStart
        = (l.tSegTime, l.tFamily, l.tFamStart, calcFamilyEndTimeZ z .month l.tFamStart) := by
      simp only [placeOfTsZ, l, locateZ, ht, IType.toCalc]
    rw [this, hend]
  · rw [← hd0]; exact l2
  · rw [hst]; simp only [ts, hsrc]; omega
  · simp only [ts, hsrc]; omega

/-- the same for a year-type target: the located family is the calendar month of day `n` (it starts at the
local midnight of the first of the month and ends right before the local midnight of the next first) -/
theorem target_family_contains_timestamps_year (z : Zone) (hz : ZoneOK z) (ha : HourAligned z)
    (src tgt n f x : Int) (hs : itype src = .day) (ht : itype tgt = .year)
    (hn : 0 ≤ midnightOf z n) (h0 : 0 ≤ f) (hin : midnightOf z n + f * 3600000 < midnightOf z (n + 1))
    (hx : 0 ≤ x ∧ x < 3600000) :
    let l := locateZ true z src tgt (segOfDayZ z n) f
    let ts := l.srcFamStart + x
    placeOfTsZ true z tgt ts
      = (l.tSegTime, l.tFamily, l.tFamStart, midnightOf z (nextMonthStartDay n) - 1) ∧
    l.tFamStart = midnightOf z (monthStartDay n) ∧ l.tFamily = (civilFromDays n).2.1 ∧
    l.tFamStart ≤ ts ∧ ts ≤ midnightOf z (nextMonthStartDay n) - 1 := by
  intro l ts
  have hsrc : l.srcFamStart = midnightOf z n + f * 3600000 := by
    simp only [l, locateZ_src_day true z src tgt _ f hs, segOfDayZ_eq]
  have hd0 : localDay z l.srcFamStart = n := by
    have := source_family_in_one_local_day z hz ha n f 0 hn h0 hin (by omega)
    rw [hsrc]; simpa using this
  have hdx : localDay z ts = n := by
    have := source_family_in_one_local_day z hz ha n f x hn h0 hin hx
    simp only [ts, hsrc]; exact this
  obtain ⟨l1, l2, l3⟩ := locateZ_year true z hz src tgt (segOfDayZ z n) f ht
  have e := hour_family_ends_in_day z ha n f h0 hin
  have hst : l.tFamStart = midnightOf z (monthStartDay n) := by rw [← hd0]; exact l1
  have hm := monthStartDay_le n
  have m1 := midnight_le hz hm.1
  have m2 := midnight_le hz (a := n + 1) (b := nextMonthStartDay n) (by omega)
  refine ⟨?_, hst, ?_, ?_, ?_⟩
  · rw [placeOfTsZ_congr z tgt ts l.srcFamStart (Or.inr ht) (by rw [hdx, hd0])]
    have hend : calcFamilyEndTimeZ z .year l.tFamStart = midnightOf z (nextMonthStartDay n) - 1 := by
      rw [hst]; exact zc_year_familyEnd hz n
    have : placeOfTsZ true z tgt l.srcFamStart
        = (l.tSegTime, l.tFamily, l.tFamStart, calcFamilyEndTimeZ z .year l.tFamStart) := by
      simp only [placeOfTsZ, l, locateZ, ht, IType.toCalc]
    rw [this, hend]
  · rw [← hd0]; exact l2
  · rw [hst]; simp only [ts, hsrc]; omega
  · simp only [ts, hsrc]; omega

/-- the hour families of different local days never share a month-type target family (any zone) -/
theorem target_family_month_distinct_days_zone (z : Zone) (hz : ZoneOK z) (ha : HourAligned z)
    (src tgt n n' f f' : Int) (hs : itype src = .day) (ht : itype tgt = .month)
    (hn : 0 ≤ midnightOf z n) (h0 : 0 ≤ f) (hin : midnightOf z n + f * 3600000 < midnightOf z (n + 1))
    (hn' : 0 ≤ midnightOf z n') (h0' : 0 ≤ f') (hin' : midnightOf z n' + f' * 3600000 < midnightOf z (n' + 1))
    (hne : n < n') :
    (locateZ true z src tgt (segOfDayZ z n) f).tFamStart < (locateZ true z src tgt (segOfDayZ z n') f').tFamStart := by
  have a := (target_family_contains_timestamps_month z hz ha src tgt n f 0 hs ht hn h0 hin (by omega)).2.1
  have b := (target_family_contains_timestamps_month z hz ha src tgt n' f' 0 hs ht hn' h0' hin' (by omega)).2.1
  rw [a, b]
  have := hz.mono n
  have := midnight_le hz (a := n + 1) (b := n') (by omega)
  omega

/-! ### the two shapes of `(*month).CalcFamily` -/

/-- in a fixed-offset zone (UTC included) the arithmetic shape is the calendar day: for `t ≥ 0` with
non-negative local time and the segment time of `t`'s month -/
theorem month_family_shapes_agree_fixed (off t : Int) (h0 : 0 ≤ t) (h1 : 0 ≤ t + 1000 * off) :
    monthFamilyZ false (Zone.fixed off) t (calcSegmentTimeZ (Zone.fixed off) .month t)
      = monthFamilyZ true (Zone.fixed off) t (calcSegmentTimeZ (Zone.fixed off) .month t) := by
  have hz := (fixed_zone_ok off).1
  have fl := hz.floor t h0
  -- calendar day = localDay - monthStartDay + 1; segment = midnight of monthStartDay
  obtain ⟨a1, a2, a3, a4, a5⟩ := LinVerif.Lemmas.C13.civil_spec (localDay (Zone.fixed off) t)
  have hseg : calcSegmentTimeZ (Zone.fixed off) .month t
      = midnightOf (Zone.fixed off) (monthStartDay (localDay (Zone.fixed off) t)) := by
    simp only [calcSegmentTimeZ, civilOfMsZ_eq, dateMsZ_eq]
    rw [LinVerif.Lemmas.C13.dateDays_valid _ _ 1 a1 a2]; rfl
  have hday : (civilFromDays (localDay (Zone.fixed off) t)).2.2
      = localDay (Zone.fixed off) t - monthStartDay (localDay (Zone.fixed off) t) + 1 := by
    have l1 := LinVerif.Lemmas.C13.days_linear (civilFromDays (localDay (Zone.fixed off) t)).1
      (civilFromDays (localDay (Zone.fixed off) t)).2.1 (civilFromDays (localDay (Zone.fixed off) t)).2.2
    have l2 := LinVerif.Lemmas.C13.days_linear (civilFromDays (localDay (Zone.fixed off) t)).1
      (civilFromDays (localDay (Zone.fixed off) t)).2.1 1
    simp only [monthStartDay]; omega
  have hm := monthStartDay_le (localDay (Zone.fixed off) t)
  have hmid : ∀ k, midnightOf (Zone.fixed off) k = (k * 86400 - off) * 1000 := fun k => rfl
  simp only [monthFamilyZ, Bool.false_eq_true, if_false, if_true, civilOfMsZ_eq, hseg, hday]
  rw [hmid] at fl ⊢
  rw [hmid] at fl
  generalize localDay (Zone.fixed off) t = L at *
  generalize monthStartDay L = M at *
  simp only [oneDay]
  rw [Int.tdiv_eq_ediv_of_nonneg (by omega)]
  omega

/-- which shape the code has: the calendar day (`t := time.Unix(timestamp/1000, 0); return t.Day()`) -/
theorem tie_month_family_shape :
    Generated.C04.monthFamilyIsCalendarDay = true ∧
    Generated.C04.monthCalcFamilyShape = ["timestamp / 1000", "0", "|", "t.Day()"] := by
  decide

/-- if the code had the arithmetic shape, it would be the formula the model's second shape has -/
theorem tie_month_family_arith (t s : Int) :
    Generated.C04.monthFamilyIsArithmetic = false ∨
      Generated.C04.monthCalcFamilyArith t s = Int.tdiv (t - s) oneDay + 1 := by
  first
    | exact Or.inl rfl
    | exact Or.inr (by simp only [Generated.C04.monthCalcFamilyArith, oneDay])
    | exact Or.inr (by simp only [Generated.C04.monthCalcFamilyArith, oneDay]; omega)

namespace Neg

/-- America/New_York in 2019: EST (−5 h) until 2019-03-10T07:00:00Z, EDT (−4 h) until
2019-11-03T06:00:00Z, then EST -/
def newYork2019 : Zone := Zone.ofTransitions (-18000) [(1552201200, -14400), (1572760800, -18000)]

/-- The arithmetic shape after a clock change (seeded c04-21). Source: day store of 2019-03-12
(wall-clock day 17967), hour family 0, 10s → 5m. Its start 2019-03-12T00:00 EDT is 263 h (not 264 h)
after the local midnight of March 1, so `(t - segmentTime)/OneDay + 1` names family 11; the located
family is the local day 2019-03-11, whose window ends one millisecond before the source family starts.
With the calendar shape the located family is day 12 and contains the timestamp. -/
theorem arith_month_family_after_clock_change :
    let n : Int := 17967
    let bad := locateZ false newYork2019 10000 300000 (segOfDayZ newYork2019 n) 0
    let good := locateZ true newYork2019 10000 300000 (segOfDayZ newYork2019 n) 0
    bad.srcFamStart = 1552363200000 ∧ bad.tFamily = 11 ∧ bad.tFamStart = 1552276800000 ∧
    calcFamilyEndTimeZ newYork2019 .month bad.tFamStart = 1552363199999 ∧
    ¬ (bad.srcFamStart ≤ calcFamilyEndTimeZ newYork2019 .month bad.tFamStart) ∧
    good.tFamily = 12 ∧ good.tFamStart = 1552363200000 ∧
    good.srcFamStart ≤ calcFamilyEndTimeZ newYork2019 .month good.tFamStart := by
  decide +kernel

end Neg

/-! ### non-vacuity: a 23-hour and a 25-hour local day in the zone model -/

/-- 2019-03-10 in New York has 23 hours, 2019-11-03 has 25, 2019-03-12 has 24 -/
example :
    midnightOf Neg.newYork2019 (17965 + 1) - midnightOf Neg.newYork2019 17965 = 23 * 3600000 ∧
    midnightOf Neg.newYork2019 (18203 + 1) - midnightOf Neg.newYork2019 18203 = 25 * 3600000 ∧
    midnightOf Neg.newYork2019 (17967 + 1) - midnightOf Neg.newYork2019 17967 = 24 * 3600000 := by
  decide +kernel

/-- the last hour family (24) of the 25-hour day 2019-11-03 rolls into family 3 of segment 2019-11,
which starts at that day's local midnight (04:00Z) -/
example :
    locateZ true Neg.newYork2019 10000 300000 (segOfDayZ Neg.newYork2019 18203) 24 =
      { srcFamStart := 1572753600000 + 24 * 3600000, tSegTime := 1572580800000, tFamily := 3,
        tFamStart := 1572753600000 } := by
  decide +kernel

end LinVerif.Props.C04
