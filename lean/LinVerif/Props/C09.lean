/-
C09 — Name-to-ID assignment is a stable injective function.

Model: LinVerif/Model/IdAssign.lean (package index of lindb; which code variant /repo has now is read
from the regenerated facts, Model/IdAssignCfg.lean). Interleaving semantics: Model/IdAssignConc.lean.
Only the property theorems, their non-vacuity examples and the ties to the generated facts are here;
the lemmas are in LinVerif/Lemmas/C09*.lean.

Sequential histories (whole operations, any placement of prepare-flush / flush / reopen / crash inside
a metadata or index flush):
  * `stable`, `injective`            — full strength over all histories without a refused series
                                       (series limit), for all six kinds of names and every code variant;
  * `recover_ids`                    — full strength;
  * `fresh_after_recover`            — full strength for ids used by recovered DICTIONARIES;
  * `fresh_after_recover_index_partial` — ids used by recovered index entries (tag values): only under
                                       the explicit hypothesis that the counters were synced; it FAILS
                                       for the current code (`Neg.fresh_after_recover_index`), and holds
                                       for the write-through repair (`index_ids_synced_writeThrough`).
Interleavings of the code's atomic steps (indexKVStore):
  * `stable_concurrent`, `injective_concurrent` — full statements, proved for the `recheckFull` variant;
  * `Neg.stable_concurrent_noRecheck` (the CURRENT code) and `Neg.stable_concurrent_recheckMem`;
  * `concurrent_verdict` — decides the property for the variant /repo has now.
Schema store (genTagKeyID / genFieldID): `Neg.schema_race_*` for the current variant; the repaired
variant makes each generator one atomic step, i.e. the sequential theorems apply.
-/
import LinVerif.Model.IdAssignCfg
import LinVerif.Lemmas.C09Kv
import LinVerif.Lemmas.C09KvLookup
import LinVerif.Lemmas.C09KvStale
import LinVerif.Lemmas.C09Compact
import LinVerif.Lemmas.C09SeriesStable
import LinVerif.Lemmas.C09Hist
import LinVerif.Lemmas.C09Blocks
import LinVerif.Lemmas.C09Buf
import LinVerif.Lemmas.C09FlushFault
import LinVerif.Model.IdAssignView
import LinVerif.Generated.C10

namespace LinVerif.Props.C09
open LinVerif.IdAssign LinVerif.Generated

/-! ## Ties to the regenerated facts -/

/-- sequence file: four 4-byte counters at 0, 4, 8, 12 (ns, metric name, tag key, tag value) -/
theorem seq_layout_tie :
    C09.seqSize = 16 ∧ [C09.namespaceOffset, C09.metricNameOffset, C09.tagKeyOffset, C09.tagValueOffset] = [0, 4, 8, 12] := by
  decide

inductive KvStepName | lookupMem | lookupPersisted | create
  deriving DecidableEq, Repr

/-- the model's step list of `getOrCreateValue` in terms of the calls the source makes -/
def kvStepsOf (calls : List String) : List KvStepName :=
  calls.filterMap (fun c =>
    if c = "s.GetValueFromMem" ∨ c = "s.getValueFromMemWithSeq" then some .lookupMem
    else if c = "bucket.GetValue" then some .lookupPersisted
    else if c = "s.createValue" then some .create
    else none)

/-- `getOrCreateValue` = two lookups, then createValue — the three atomic steps of `kstepO`, in the
order `currentCfg.kvMemFirst` says (lindb: memory maps first, `kstep`) -/
theorem kv_steps_tie :
    kvStepsOf C09.kvGetOrCreateCalls =
      (if currentCfg.kvMemFirst then [.lookupMem, .lookupPersisted, .create] else [.lookupPersisted, .lookupMem, .create]) := by
  decide

/-- `GenMetricID` = get-or-create in the namespace dictionary, then in the metric dictionary of that
namespace, and nothing else that could answer (no cache in front of the dictionaries) -/
theorem gen_metric_order_tie :
    C09.metaGenMetricCalls.filter (fun c => !(["GenMetricIDFailures.Incr", "GenMetricIDs.Incr", "uint32", "metric.ID"].contains c)) =
      ["ns.GetOrCreateValue", "metric.GetOrCreateValue"] := by decide

/-- `GetValueFromMem` looks in two maps (mutable, immutable) under one read lock -/
theorem kv_lookupMem_tie :
    C09.kvGetValueFromMemCalls = ["lock.RLock", "defer:lock.RUnlock", "s.getValueFromMem", "s.getValueFromMem"] ∨
    C09.kvGetValueFromMemCalls = [] := by decide

/-- `Flush`: the kv family commit (`flusher.Close`) happens before the lock is taken for the tail
(new snapshot, cache purge) — the two steps `commit` / `finish` of the model -/
theorem kv_flush_tie :
    (callsBefore C09.kvFlushCalls "lock.Lock").contains "flusher.Close" = true ∧
    (callsAfter C09.kvFlushCalls "lock.Lock").contains "family.GetSnapshot" = true ∧
    (callsAfter C09.kvFlushCalls "lock.Lock").contains "bucketCache.Purge" = true := by decide

/-- `indexKVStore.Flush`, the exact call list: needFlush, write every bucket, commit the kv family, and
only then — under the lock — new snapshot, `immutable = nil`, cache purge … -/
theorem kv_flush_exact_tie :
    C09.kvFlushCalls = ["s.needFlush", "family.NewFlusher", "defer:kvFlusher.Release", "newIndexKVFlusher", "λ:len",
      "λ:flusher.PrepareBucket", "λ:strutil.String2ByteSlice", "λ:append", "λ:append", "λ:flusher.WriteKVs",
      "λ:flusher.CommitBucket", "immutable.WalkEntry", "flusher.Close", "lock.Lock", "defer:lock.Unlock",
      "snapshot.Close", "family.GetSnapshot", "bucketCache.Purge"] := by decide

/-- … and every error branch of `Flush` only returns the error: a failed flush leaves mutable, immutable
and snapshot as they were (the model's failed step is a no-op, `Op.metaFlushFail`) -/
theorem kv_flush_error_paths_tie : C09.kvFlushErrBranchCalls.all (· = []) = true ∧ C09.kvFlushErrBranchCalls.length = 4 := by
  decide

/-- the schema lookup of the create path (`getSchemaLocked`, under the store lock): memory maps, then the
kv family — no read of the LRU cache (unless `currentCfg.schemaLockedUsesCache` says so, which
`schema_cache_verdict` then refutes) -/
theorem schema_locked_lookup_tie :
    currentCfg.schemaLockedUsesCache = false →
      C09.schemaGetSchemaLockedCalls = ["uint32", "mutable.Get", "immutable.Get", "s.getSchemaFromKV"] ∨
      C09.schemaGetSchemaLockedCalls = [] := by decide

/-- createValue's re-check under the write lock reads `s.snapshot` directly — exact call list between
`lock.Lock` and `createFn`, no `bucketCache.Get` / `bucketCache.Add`, reader built on `s.snapshot` — whenever
the tree is classified `recheckLocked` -/
theorem kv_locked_recheck_tie :
    currentCfg.kv = .recheckLocked →
      callsBefore (callsAfter C09.kvCreateValueCalls "lock.Lock") "createFn" =
        ["defer:lock.Unlock", "s.getValueFromMem", "s.getValueFromMem", "v1.NewIndexKVReader", "reader.GetBucket",
         "defer:bucket.Release", "bucket.GetValue", "mutable.Get", "make", "mutable.Put"] ∧
      C09.kvCreateValueReaderArgs = ["s.snapshot"] := by decide

/-- memdb `GetOrCreateTimeSeriesIndex`: lock-free Load, then the second Load + Store (`getOrCreateTimeSeriesIndex`)
under `idb.lock` taken with `Lock()` — or with `RLock()`, which `memdb_verdict` then refutes -/
theorem memdb_lock_tie :
    C09.memdbGetOrCreateTSICalls =
      ["row.NameHash", "timeSeriesIndexes.Load", if currentCfg.memdbExclusive then "lock.Lock" else "lock.RLock",
       if currentCfg.memdbExclusive then "defer:lock.Unlock" else "defer:lock.RUnlock", "idb.getOrCreateTimeSeriesIndex"] ∧
    C09.memdbGetOrCreateTSIInnerCalls.filter (· ≠ "verifhook.Yield") = ["timeSeriesIndexes.Load", "NewTimeSeriesIndex", "timeSeriesIndexes.Store"] := by
  decide

/-- the compaction merger: a NEW TrieBucket per merged bucket (`compactFiles`, not `compactFilesLeaky`) -/
theorem kv_merger_tie :
    C09.kvMergerMergeCalls = ["model.NewTrieBucket", "trieBucket.Unmarshal", "kvWriter.Prepare", "trieBucket.Write", "kvWriter.Commit"] := by
  decide

/-- `TrieBucketBuilder.Write`: `numBlocks = ⌈len/blockSize⌉`, block `i` = `keys[i*blockSize : min(i*blockSize+blockSize, len)]`
(`numBlocksOf` / `blocksOfBucket`); block sizes of the flush and of the compaction merge are positive constants -/
theorem kv_trie_blocks_tie :
    C10.trieBlockSplit = ["numBlocks := len(keys) / b.blockSize", "if len(keys)%b.blockSize != 0", "numBlocks++",
      "for i := 0; i < numBlocks; i++", "start := i * b.blockSize", "end := start + b.blockSize", "if end > len(keys)",
      "end = len(keys)", "Build(kvs.Keys[start:end], kvs.IDs[start:end])", "if err != nil", "if err != nil"] ∧
    C10.trieBlockSizes = ["math.MaxInt16", "math.MaxUint16"] := by
  decide

/-- the memdb index worker: on a flush request the handler goroutine calls `PrepareFlush` itself, then starts the
background goroutine (`go idb.handleFlush`), which only flushes and reports — or the variant `worker_verdict` refutes -/
theorem memdb_worker_tie :
    C09.memdbHandleCalls = (["idb.handleRow"] ++ (if currentCfg.memdbPrepareInline then ["indexDB.PrepareFlush"] else []) ++ ["idb.handleFlush"]) ∧
    C09.memdbHandleFlushCalls.filter (· ≠ "indexDB.PrepareFlush") = ["indexDB.Flush", "event.Callback"] ∧
    C09.memdbHandleGoFlush = 1 := by
  decide

/-- the lock-free lookup path is where the bucket cache is read and filled; Flush purges it under the lock -/
theorem kv_bucket_cache_tie :
    C09.kvGetOrCreateCalls.filter (fun c => c = "bucketCache.Get" ∨ c = "s.getSnapshot" ∨ c = "bucketCache.Add" ∨ c = "s.addBucketCache") =
      ["bucketCache.Get", "s.getSnapshot", if currentCfg.kvCacheAddGuarded then "s.addBucketCache" else "bucketCache.Add"] ∧
    (callsAfter C09.kvFlushCalls "lock.Lock").contains "bucketCache.Purge" = true := by decide

/-- readers fill the cache after their kv read (`GetSchema`), `Flush` purges it under the lock -/
theorem schema_cache_tie :
    C09.schemaGetSchemaCalls.filter (fun c => c = "s.getSchemaFromMem" ∨ c = "cache.Get" ∨ c = "s.getSchemaFromKV" ∨ c = "cache.Add") =
      ["s.getSchemaFromMem", "cache.Get", "s.getSchemaFromKV", "cache.Add"] ∧
    (callsAfter C09.schemaFlushCalls "lock.Lock").contains "cache.Purge" = true := by decide

/-- everything `Flush` calls, except the deferred reset of the `flushing` flag and its test-and-set -/
def isFlushStep (c : String) : Bool := !(c = "defer:?" || c = "?.CompareAndSwap")

/-- `metricMetaDatabase.Flush` = Sync, ns, metric, schema, tag values: the order of `Node.metaFlushStep`;
the verification export `VerifMetaFlushSteps` lists the same steps -/
theorem meta_flush_order_tie :
    C09.metaFlushCalls.filter isFlushStep = ["sequence.Sync", "ns.Flush", "metric.Flush", "schemaStore.Flush", "tagValue.Flush"] ∧
    C09.hookMetaFlushSteps = C09.metaFlushCalls.filter isFlushStep := by decide

/-- `metricIndexDatabase.Flush` = metric→series postings, forward, inverted, series dictionary:
the order of `Shard.flushStep`; postings before the dictionary -/
theorem index_flush_order_tie :
    C09.indexFlushCalls.filter isFlushStep = ["metricInverted.flush", "forward.flush", "inverted.flush", "series.Flush"] ∧
    C09.hookIndexFlushSteps = C09.indexFlushCalls.filter isFlushStep := by decide

theorem prepare_order_tie :
    C09.metaPrepareFlushCalls = ["ns.PrepareFlush", "metric.PrepareFlush", "tagValue.PrepareFlush", "schemaStore.PrepareFlush"] ∧
    C09.indexPrepareFlushCalls = ["metricInverted.prepareFlush", "forward.prepareFlush", "inverted.prepareFlush", "series.PrepareFlush"] := by
  decide

/-- the four `PrepareFlush` functions of package index have the same test: either all of them also
swap an EMPTY immutable map (`immutable == nil || immutable.IsEmpty()`, lindb commit a4b424c) or none
does (`immutable == nil`: an empty immutable map then stays for ever). `Cfg.prepareSwapsEmpty`, and with
it the model's `prepareFlushE`, follows this fact; the theorems hold for both shapes. -/
theorem prepare_shape_tie :
    let l := [C09.kvPrepareFlushCalls, C09.schemaPrepareFlushCalls, C09.invertedPrepareFlushCalls, C09.forwardPrepareFlushCalls]
    l.all (·.contains "immutable.IsEmpty") = true ∨ l.all (fun c => !c.contains "immutable.IsEmpty") = true := by decide

/-- `Sequence.Close` and `metricMetaDatabase.Close` do not write the counters: reopen = recover from
what the last Sync (or, in the write-through repair, the last allocation) left in the mmap page -/
theorem close_does_not_sync_tie :
    C09.seqCloseCalls.contains "stream.PutUint32" = false ∧ C09.seqCloseCalls.contains "s.Sync" = false ∧
    C09.metaCloseCalls.contains "sequence.Sync" = false ∧ C09.metaCloseCalls.contains "mm.Flush" = false := by decide

/-- `Sync` is what copies the four counters into the mmap page -/
theorem sync_writes_all_tie : (C09.seqSyncCalls.filter (· = "stream.PutUint32")).length = 4 := by decide

/-- `GenSeriesID`: dictionary get-or-create (createFn = createSeriesID), then the sequence cache, then
the metric→series posting, then the tag index — the order in `Node.genSeries` -/
theorem gen_series_order_tie :
    C09.indexGenSeriesCalls.filter (fun c => c = "series.GetOrCreateValue" ∨ c = "sequenceCache.Add" ∨ c = "metricInverted.put" ∨ c = "index.buildInvertIndex") =
      ["series.GetOrCreateValue", "sequenceCache.Add", "metricInverted.put", "index.buildInvertIndex"] ∧
    C09.indexGenSeriesCalls.contains "λ:index.createSeriesID" = true ∧
    C09.indexCreateSeriesCalls.filter (fun c => c = "sequenceCache.Get" ∨ c = "metricInverted.getSeriesIDs" ∨ c = "seriesIDs.Maximum") =
      ["sequenceCache.Get", "metricInverted.getSeriesIDs", "seriesIDs.Maximum"] := by decide

/-! ## Sequential histories -/

/-- the invariant holds after every history from an empty node, crashes inside flushes included -/
theorem invariant_reachable (c : Cfg) (lim : Limits) (n : Nat) (ops : List Op)
    (h : historyOk c { lim := lim, nShards := n } ops) : NodeInv (run c { lim := lim, nShards := n } ops) :=
  invariant_run c ops _ (nodeInv_init lim n) h

/-- **stable** (sequential): within one run of the node every caller gets the same id for a name —
across prepare-flush and flush, for all six kinds, in every code variant -/
theorem stable (c : Cfg) {nd : Node} (inv : NodeInv nd) (ops : List Op) (h : epochOk c nd ops)
    {k : NameKey} {i j : Nat} (h1 : (k, i) ∈ observations c nd ops) (h2 : (k, j) ∈ observations c nd ops) : i = j := by
  obtain ⟨_, _, r⟩ := epoch_final c ops nd inv h
  have a := r k i h1
  have b := r k j h2
  rw [a] at b; cases b; rfl

/-- … and it is the id the name already had when the run began (e.g. in the recovered dictionaries) -/
theorem stable_wrt_start (c : Cfg) {nd : Node} (inv : NodeInv nd) (ops : List Op) (h : epochOk c nd ops)
    {k : NameKey} {i j : Nat} (h1 : (k, i) ∈ observations c nd ops) (h0 : nd.view k = some j) : i = j := by
  obtain ⟨_, m, r⟩ := epoch_final c ops nd inv h
  have a := r k i h1
  have b := m k j h0
  rw [a] at b; cases b; rfl

/-- **injective** (sequential): two different names of the same kind and scope never share an id -/
theorem injective (c : Cfg) {nd : Node} (inv : NodeInv nd) (ops : List Op) (h : epochOk c nd ops)
    {k k' : NameKey} {i : Nat} (hs : k.sameScope k')
    (h1 : (k, i) ∈ observations c nd ops) (h2 : (k', i) ∈ observations c nd ops) : k = k' := by
  obtain ⟨fi, _, r⟩ := epoch_final c ops nd inv h
  exact view_inj fi hs (r k i h1) (r k' i h2)

/-- **recover_ids**: after reopen, or after a crash at any point inside a metadata / index flush,
every name found in the recovered dictionaries has the id it had before -/
theorem recover_ids (c : Cfg) {nd : Node} (inv : NodeInv nd) (op : Op) (hr : op.isRecover = true)
    {k : NameKey} {i : Nat} (h : (step c nd op).1.view k = some i) : nd.view k = some i :=
  (recover_step_spec c inv op hr).2 k i h

/-- **fresh_after_recover** (dictionaries): a name created after recovery (it was not in the recovered
dictionaries) never receives an id that the recovered dictionaries use for another name of its kind and
scope. Holds for every crash point: `Sequence.Sync()` is the first step of a metadata flush, so the
counter in the sequence file lies above every id a dictionary commit of that flush can contain. -/
theorem fresh_after_recover (c : Cfg) {nd : Node} (inv : NodeInv nd) (op : Op) (hr : op.isRecover = true)
    (ops : List Op) (h : epochOk c (step c nd op).1 ops) {k k' : NameKey} {i : Nat}
    (hnew : (step c nd op).1.view k = none) (hobs : (k, i) ∈ observations c (step c nd op).1 ops)
    (hs : k.sameScope k') (hused : (step c nd op).1.view k' = some i) : False := by
  have inv1 := (recover_step_spec c inv op hr).1
  obtain ⟨fi, m, r⟩ := epoch_final c ops _ inv1 h
  have : k = k' := view_inj fi hs (r k i hobs) (m k' i hused)
  subst this
  rw [hnew] at hused; cases hused

/-- **stable across failed flushes**: `Op.metaFlushFail k` (a metadata flush that returns an error at
step k: the kv family commit of a dictionary failed) is an ordinary operation of a run — `epochOk` admits
it, so `stable`, `injective`, `stable_wrt_start` above hold for histories with any number of failed
flushes at any step. Spelled out for one failed flush: every name keeps its id. -/
theorem stable_across_failed_flush (c : Cfg) {nd : Node} (inv : NodeInv nd) (k : Nat) (key : NameKey) (i : Nat)
    (h : nd.view key = some i) : (step c nd (.metaFlushFail k)).1.view key = some i :=
  (step_spec c inv (.metaFlushFail k) rfl (by simp [step])).2.1 key i h

/-- **the create path never consults the LRU schema cache**: whatever the cache holds (stale entries
included), `genFieldID` / `genTagKeyID` answer the same and leave the same store -/
theorem gen_ignores_cache (v : SchemaVariant) (lim : Limits) (s : SchemaStore) (cache : Nat → Option Nat) (ctr m x : Nat) :
    (genField v lim (s.withCache cache) m x).2 = (genField v lim s m x).2 ∧
    (genTagKey v lim (s.withCache cache) ctr m x).2 = (genTagKey v lim s ctr m x).2 := by
  rw [genField_withCache, genTagKey_withCache]
  exact ⟨rfl, rfl⟩

/-! ### compaction of a dictionary family -/

/-- **compaction preserves the id map**: the family produced by the compaction job (one output file, the
merger called once per bucket with that bucket's blocks of all inputs) answers every lookup exactly as the
input files did — no name loses its id, no name gains one, no id moves to another bucket. In the node
model compaction is therefore the identity on `KvStore.disk` (= `readFiles` of the files), and `stable`,
`injective`, `recover_ids` hold with compactions anywhere in the history. -/
theorem compaction_preserves_ids (fs : KvFiles) (b n : Nat) : readFiles (compactFiles fs) b n = readFiles fs b n :=
  readFiles_compact fs b n

/-- a flush commit is a new newest file of the family -/
theorem commit_is_new_file (d : Dict) (fs : KvFiles) : readFiles (d :: fs) = d.over (readFiles fs) := rfl

/-! ### tsdb/memdb: one memory index per metric -/

/-- all callers of `GetOrCreateTimeSeriesIndex` for one new metric get the same TimeSeriesIndex object —
every schedule of any number of callers — when `idb.lock` is taken exclusively -/
theorem memdb_one_index (sched : List (Option Nat)) (a b : Nat)
    (ha : MPc.done a ∈ (mrun true {} sched).threads) (hb : MPc.done b ∈ (mrun true {} sched).threads) : a = b := by
  have h := memOk_run sched {} ⟨fun _ hx => (by cases hx), fun _ hx => (by cases hx)⟩
  have h1 := h.2 _ ha a rfl
  have h2 := h.2 _ hb b rfl
  rw [h1] at h2; cases h2; rfl

/-! ### ids used by recovered index entries -/

/-- **fresh_after_recover_index_partial**: `nd0` is the node as it came up after reopen / crash recovery.
UNDER THE HYPOTHESIS that every tag value id used by a recovered index entry (tag value → series,
forward index; any shard) lies below the counter the node restarted with — i.e. the counter had
reached the sequence file before the index entries reached their kv families — a tag value created
afterwards never receives an id that a recovered index entry uses.
The current code does not provide the hypothesis (`Neg.fresh_after_recover_index`): the counters are
written to the mmap page only by `Sequence.Sync()` at the start of a METADATA flush, index entries are
flushed by the shards' INDEX flushes. The write-through repair provides it (`index_ids_synced_writeThrough`). -/
theorem fresh_after_recover_index_partial (c : Cfg) {nd0 : Node} (inv : NodeInv nd0)
    (hsynced : IdxTvBelow nd0 nd0.seqMem.tagValue)
    (ops : List Op) (h : epochOk c nd0 ops) {tk v i : Nat}
    (hnew : nd0.view (.md (.tagValue tk v)) = none)
    (hobs : (.md (.tagValue tk v), i) ∈ observations c nd0 ops) :
    ∀ sh, (∀ p, p ∈ (nd0.shards sh).inv.all → p.1 ≠ i) ∧ (∀ q, q ∈ (nd0.shards sh).fwd.all → q.2.1 ≠ i) := by
  obtain ⟨_, _, r⟩ := epoch_final c ops nd0 inv h
  have hv : (run c nd0 ops).tagValue.lookup tk v = some i := r _ _ hobs
  have hge : nd0.seqMem.tagValue ≤ i := by
    rcases (tvStep_epoch c ops nd0 inv h).2 tk v i hv with h0 | h0
    · have : nd0.tagValue.lookup tk v = none := hnew
      rw [this] at h0; cases h0
    · exact h0
  intro sh
  refine ⟨fun p hp => ?_, fun q hq => ?_⟩
  · have := (hsynced sh).1 p hp; omega
  · have := (hsynced sh).2 q hq; omega

/-- with the write-through repair the hypothesis holds after every history, crash points inside
metadata and index flushes included: counters synced, index entries' tag value ids below them -/
theorem index_ids_synced_writeThrough (c : Cfg) (hc : c.seqWriteThrough = true) (lim : Limits) (n : Nat) (ops : List Op)
    (h : historyOk c { lim := lim, nShards := n } ops) :
    IdxTvBelow (run c { lim := lim, nShards := n } ops) (run c { lim := lim, nShards := n } ops).seqMem.tagValue := by
  suffices g : ∀ ops nd, NodeInv nd → WtInv nd → historyOk c nd ops → WtInv (run c nd ops) from
    (g ops _ (nodeInv_init lim n) ⟨rfl, fun _ => ⟨fun _ hp => (by cases hp), fun _ hq => (by cases hq)⟩⟩ h).idx
  intro ops
  induction ops with
  | nil => intro nd _ w _; exact w
  | cons op rest ih =>
    intro nd inv w hh
    obtain ⟨h1, h2⟩ := hh
    simp only [run]
    apply ih _ _ (wtInv_step hc inv w op h1) h2
    by_cases hr : op.isRecover = true
    · exact (recover_step_spec c inv op hr).1
    · exact (step_spec c inv op (by simpa using hr) h1).1

/-! ### non-vacuity: the hypotheses hold on a non-trivial history -/

def sampleHistory : List Op :=
  [.metric 97 0 0, .tagKey 0 0, .tagValue 0 0, .field 0 1, .series 0 0 0 [(0, 1), (1, 2)], .metaPrepare, .metaFlush,
   .metric 97 0 1, .indexPrepare 0, .indexFlush 0, .series 0 0 1 [(0, 1)], .series 0 0 0 [(0, 1), (1, 2)], .metric 97 0 0]

example : epochOk {} ({} : Node) sampleHistory := by decide

example : observations {} ({} : Node) sampleHistory =
    [(.md (.metric 97 0 0), 0), (.md (.tagKey 0 0), 0), (.md (.tagValue 0 0), 0), (.md (.field 0 1), 0),
     (.series 0 0 0, 0), (.md (.metric 97 0 1), 1), (.series 0 0 1, 1), (.series 0 0 0, 0), (.md (.metric 97 0 0), 0)] := by
  decide

/-! ## Interleavings of the code's atomic steps (indexKVStore) -/

/-- **stable_concurrent** / **injective_concurrent**: for every interleaving of any number of
get-or-create calls with PrepareFlush and the two steps of Flush, from any freshly opened store —
proved for the variant that looks again under the write lock and retries after a completed flush -/
theorem stable_concurrent {s0 s : KSys} (h0 : KStart s0) (r : KReach .recheckFull s0 s) : KStable s :=
  kinv_stable (kinv_reach h0 r)

theorem injective_concurrent {s0 s : KSys} (h0 : KStart s0) (r : KReach .recheckFull s0 s) : KInjective s :=
  kinv_injective (kinv_reach h0 r)

/-- the same for the SMALL repair (`recheckLocked`): createValue looks again, under the write lock, in the
memory maps and in the bucket of the current snapshot — the tail of Flush needs the same lock, so the
three are one consistent view and no flush sequence / retry is needed -/
theorem stable_concurrent_locked {s0 s : KSys} (h0 : KStart s0) (r : KReach .recheckLocked s0 s) : KStable s :=
  kinv_stable (kinv_reach_locked h0 r)

theorem injective_concurrent_locked {s0 s : KSys} (h0 : KStart s0) (r : KReach .recheckLocked s0 s) : KInjective s :=
  kinv_injective (kinv_reach_locked h0 r)

/-- **the locked create path never consults the LRU bucket cache** — and therefore the property survives
it: callers' lock-free persisted lookups may miss through an arbitrarily stale cached bucket
(`KStepStale.staleMiss`; a bucket of an older snapshot cached after Flush's purge), yet under every
interleaving every name has one id and ids are not shared -/
theorem stable_concurrent_locked_staleCache {s0 s : KSys} (h0 : KStart s0)
    (r : KReachStale (kstep .recheckLocked) s0 s) : KStable s ∧ KInjective s :=
  ⟨kinvL_stable (kinvL_reach h0 r), kinvL_injective (kinvL_reach h0 r)⟩

/-- non-vacuity: an empty store is a start state; so is any recovered store below its counter -/
example : KStart { store := {}, ctr := 0 } := by
  refine ⟨rfl, rfl, fun _ _ => rfl, rfl, rfl, ?_, ?_⟩ <;> intros <;> simp_all [Dict.empty]

/-- **lookup ‖ flush** (all variants of createValue, memory maps first): a name that is in the store is
found by every call that begins later, under every interleaving with other callers, PrepareFlush and
the two steps of Flush: such a call never reaches createValue -/
theorem existing_name_found (v : KvVariant) {s0 s1 s : KSys} (h0 : KStart s0) (r1 : KReach v s0 s1) {b n : Nat}
    (hown : s1.store.Owned b n) (r : KReach v s1 s) :
    ∀ k t, s1.threads.length ≤ k → s.threads[k]? = some t → t.bucket = b → t.name = n → ∀ q, t.pc ≠ .afterDisk q :=
  late_callers_find v h0 r1 hown r

/-- what the property says about a variant of `createValue` -/
def KvVerdict : KvVariant → Prop
  | .recheckFull => ∀ s0 s, KStart s0 → KReach .recheckFull s0 s → KStable s ∧ KInjective s
  | .recheckLocked => ∀ s0 s, KStart s0 → KReachStale (kstep .recheckLocked) s0 s → KStable s ∧ KInjective s
  | .recheckLockedCached =>
    -- a locked re-check that reads the bucket through a stale cache is, at worst, a re-check of the memory maps only
    ∃ s, KReachStale (kstep .recheckMem) { store := {}, ctr := 0 } s ∧ ¬ KStable s
  | v => ∃ s, KReach v { store := {}, ctr := 0 } s ∧ ¬ KStable s

namespace Neg

/-- two callers ask for one new name; A is stopped before createValue, B completes, A continues -/
def raceSchedule : List KAct :=
  [.call 0 7, .call 0 7, .thread 0, .thread 0, .thread 1, .thread 1, .thread 1, .thread 0]

/-- … and a whole flush (PrepareFlush, commit, locked tail) happens while A is stopped -/
def raceFlushSchedule : List KAct :=
  [.call 0 7, .call 0 7, .thread 0, .thread 0, .thread 1, .thread 1, .thread 1, .prepare, .commit, .finish, .thread 0]

/-- the CURRENT code (`createValue` does not look again): one name, two ids -/
theorem stable_concurrent_noRecheck : ∃ s, KReach .noRecheck { store := {}, ctr := 0 } s ∧ ¬ KStable s :=
  ⟨_, kexec_reach .noRecheck _ raceSchedule,
    not_stable_of_two_ids (b := 0) (n := 7) (i := 1) (j := 0) (by decide) (by decide)⟩

/-- looking again only in the memory maps is not enough: a flush that completes while A is stopped
moves B's entry out of memory -/
theorem stable_concurrent_recheckMem : ∃ s, KReach .recheckMem { store := {}, ctr := 0 } s ∧ ¬ KStable s :=
  ⟨_, kexec_reach .recheckMem _ raceFlushSchedule,
    not_stable_of_two_ids (b := 0) (n := 7) (i := 1) (j := 0) (by decide) (by decide)⟩

/-- the two lookups in the other order (persisted bucket first): name 7 exists and is frozen by
PrepareFlush; a second call reads the old snapshot (miss), the whole flush completes, the call looks
into the memory maps (empty now) and creates a second id -/
def lookupFlushSchedule : List KAct :=
  [.call 0 7, .thread 0, .thread 0, .thread 0, .prepare, .call 0 7, .thread 1, .commit, .finish, .thread 1, .thread 1]

theorem lookup_flush_persistedFirst :
    (kexecG (kstepPF .noRecheck) { store := {}, ctr := 0 } lookupFlushSchedule).threads = [⟨0, 7, .done 0⟩, ⟨0, 7, .done 1⟩] := by
  decide

/-- … but with the `recheckLocked` createValue (what /repo has since fix 79fc5a0) the swapped order is
harmless on this schedule: the second caller misses twice, and createValue — looking again under the write
lock in the memory maps and in the CURRENT snapshot — finds the name. (Seeded change c09-2 is masked by
the repair: its own demo passes, and this check rightly reports no violation for it.) -/
theorem lookup_flush_persistedFirst_locked :
    (kexecG (kstepPF .recheckLocked) { store := {}, ctr := 0 } lookupFlushSchedule).threads = [⟨0, 7, .done 0⟩, ⟨0, 7, .done 0⟩] := by
  decide

/-- … while lindb's order finds the name on the same schedule -/
theorem lookup_flush_memFirst :
    (kexec .noRecheck { store := {}, ctr := 0 } lookupFlushSchedule).threads = [⟨0, 7, .done 0⟩, ⟨0, 7, .done 0⟩] := by
  decide

/-- name 7 is created and persisted by a whole flush; a later call misses it in memory (flushed) and —
through a stale cached bucket — in the persisted lookup; a createValue that looks again only where a
stale cache can hide the name creates a second id -/
def staleCacheSchedule : List (KAct ⊕ Nat) :=
  [.inl (.call 0 7), .inl (.thread 0), .inl (.thread 0), .inl (.thread 0), .inl .prepare, .inl .commit, .inl .finish,
   .inl (.call 0 7), .inl (.thread 1), .inr 1, .inl (.thread 1)]

theorem stable_staleCache_cachedRecheck :
    ∃ s, KReachStale (kstep .recheckMem) { store := {}, ctr := 0 } s ∧ ¬ KStable s :=
  ⟨_, kexecStale_reach _ _ staleCacheSchedule,
    not_stable_of_two_ids (b := 0) (n := 7) (i := 0) (j := 1) (by decide) (by decide)⟩

/-- lindb's createValue on the same schedule (stale miss included): one id -/
theorem staleCache_locked :
    (kexecStale (kstep .recheckLocked) { store := {}, ctr := 0 } staleCacheSchedule).threads = [⟨0, 7, .done 0⟩, ⟨0, 7, .done 0⟩] := by
  decide

/-- the same schedule as run by the driver's `krace` op -/
theorem kvRace_noRecheck :
    (kvRace .noRecheck {} 0 ⟨0, 7, .start⟩ ⟨0, 7, .start⟩).2.2.1.pc = .done 1 ∧
    (kvRace .noRecheck {} 0 ⟨0, 7, .start⟩ ⟨0, 7, .start⟩).2.2.2.pc = .done 0 := by decide

/-- schema store, current variant (`GetSchema` outside the lock), metric without schema:
two callers ask for one new tag key and get two ids … -/
theorem schema_race_tagKey : (tagKeyRace .snapshotOutside {} {} 0 5 1 1).2.2.1 = .id 1 ∧
    (tagKeyRace .snapshotOutside {} {} 0 5 1 1).2.2.2 = .id 0 := by decide

/-- … two callers ask for two different new fields and both get id 0 -/
theorem schema_race_field : (fieldRace .snapshotOutside {} {} 5 1 2).2.1 = .id 0 ∧
    (fieldRace .snapshotOutside {} {} 5 1 2).2.2 = .id 0 := by decide

/-- with the lookup under the lock the same schedules give one id per name -/
theorem schema_race_repaired :
    (tagKeyRace .lookupLocked {} {} 0 5 1 1).2.2.1 = .id 0 ∧ (tagKeyRace .lookupLocked {} {} 0 5 1 1).2.2.2 = .id 0 ∧
    (fieldRace .lookupLocked {} {} 5 1 2).2.1 = .id 1 ∧ (fieldRace .lookupLocked {} {} 5 1 2).2.2 = .id 0 := by decide

/-- the series limit (current code): the refused series' dictionary entry is stored before the limit
test; two refused series end up sharing an id, returned without error on the next call -/
theorem series_limit_shared_id :
    let nd := run {} { lim := { maxSeries := 2 } }
      [.series 0 0 0 [], .series 0 0 1 [], .series 0 0 2 [], .series 0 0 3 [], .series 0 0 4 []]
    (step {} nd (.series 0 0 3 [])).2 = some (.id 3) ∧ (step {} nd (.series 0 0 4 [])).2 = some (.id 3) := by decide

/-- the schema flush window (current code): field 2 is created between the kv commit of the schema
family and `MarkPersisted`; it is marked persisted without having been written. After the next flush
the schema object has left memory, the persisted schema lacks field 2, and field 3 gets id 1 —
the id field 2 was given in the same run of the node -/
theorem schema_flush_window :
    let r := (run {} ({} : Node) [.metric 97 0 0, .field 0 1, .metaPrepare]).metaFlushFieldInWindow {} 0 2
    r.2 = .id 1 ∧ (step {} (run {} r.1 [.metaPrepare, .metaFlush]) (.field 0 3)).2 = some (.id 1) := by decide

/-- marking only what was written: field 3 gets id 2 -/
theorem schema_flush_window_repaired :
    let c : Cfg := { schemaMarkWritten := true }
    let r := (run c ({} : Node) [.metric 97 0 0, .field 0 1, .metaPrepare]).metaFlushFieldInWindow c 0 2
    r.2 = .id 1 ∧ (step c (run c r.1 [.metaPrepare, .metaFlush]) (.field 0 3)).2 = some (.id 2) := by decide

/-- reader ‖ writer ‖ flush on a persisted schema {field 1 = 0}: with a create path that trusts the LRU
cache the reader's stale object makes field 3 get id 1, which field 2 owns … -/
theorem schema_cache_race_cached :
    let nd := run {} ({} : Node) [.metric 97 0 0, .field 0 1, .metaPrepare, .metaFlush]
    (nd.schemaCacheRace { schemaLockedUsesCache := true, schema := .lookupLocked } 0 2 3).2 = (.id 1, .id 1) := by decide

/-- … lindb's create path (memory maps, then kv family) gives 1 and 2 -/
theorem schema_cache_race_lindb :
    let nd := run {} ({} : Node) [.metric 97 0 0, .field 0 1, .metaPrepare, .metaFlush]
    (nd.schemaCacheRace { schema := .lookupLocked } 0 2 3).2 = (.id 1, .id 2) := by decide

/-- a merger that keeps one working bucket for the whole job: name 5 exists only in bucket 0 (id 3), after
the compaction bucket 1 answers id 3 for it as well -/
theorem compaction_leaky :
    let f : Dict := fun b n => if b = 0 ∧ n = 5 then some 3 else if b = 1 ∧ n = 6 then some 4 else none
    readFiles [f] 1 5 = none ∧ readFiles (compactFilesLeaky [f] (fun b => List.range b)) 1 5 = some 3 := by decide

/-- memdb with a shared lock (`RLock`) around the second check + store: A is between its check and its
store, B checks and stores, A stores — two objects for one metric -/
theorem memdb_shared_lock :
    (mrun false {} [none, none, some 0, some 0, some 1, some 1, some 1, some 0]).threads = [.done 1, .done 0] := by decide

/-- the history of the witness case: the tag value `1` of tag key 0 is created after the last metadata
flush (Sync), used by a series, the shard's index is flushed, the node is reopened -/
def unsyncedHistory : List Op :=
  [.metric 97 0 0, .tagKey 0 0, .tagValue 0 0, .metaPrepare, .metaFlush, .series 0 0 0 [(0, 1)],
   .indexPrepare 0, .indexFlush 0, .reopen]

/-- the CURRENT code: after the reopen the new tag value `2` gets id 1 — the id that the recovered
tag-value→series entry (1, series 0) still uses for the lost tag value `1` -/
theorem fresh_after_recover_index :
    let nd := run {} ({} : Node) unsyncedHistory
    nd.view (.md (.tagValue 0 2)) = none ∧ (step {} nd (.tagValue 0 2)).2 = some (.id 1) ∧
    (1, 0) ∈ (nd.shards 0).inv.all ∧ ¬ IdxTvBelow nd nd.seqMem.tagValue := by
  refine ⟨by decide, by decide, by decide, ?_⟩
  intro h
  have := (h 0).1 (1, 0) (by decide)
  revert this; decide

/-- the same history with the write-through repair: the new tag value gets id 2 -/
theorem fresh_after_recover_index_repaired :
    (step { seqWriteThrough := true } (run { seqWriteThrough := true } ({} : Node) unsyncedHistory) (.tagValue 0 2)).2 = some (.id 2) := by
  decide

/-- a "balanced" block split that does not write the remainder loses the largest names of the bucket:
5 names in blocks of at most 2 → 3 blocks of 5/3 = 1 name; names 3 and 4 are not in the file -/
theorem balanced_blocks_lose_names :
    let kvs := [(0, 10), (1, 11), (2, 12), (3, 13), (4, 14)]
    pairsFind kvs 4 = some 14 ∧ blocksFindId (blocksBalanced 2 kvs) 4 = none ∧ blocksFindId (blocksBalanced 2 kvs) 3 = none ∧
    blocksFindId (blocksOfBucket 2 kvs) 4 = some 14 := by
  decide

/-- `PrepareFlush` from another goroutine than the row handler, landing between the two inserts of GenSeriesID
(series 2 of metric 5): the flush persists the dictionary entry `series 2 ↦ id 1` but not the posting
`metric 5 ∋ 1`; after a crash the NEW series 3 gets id 1 — the id the recovered dictionary uses for series 2 -/
theorem series_prepare_between_inserts (se : Bool) :
    let c : Cfg := { prepareSwapsEmpty := se }
    let nd := (workerRun false c 0 {} [.row 5 1, .flush, .row 5 2]).recover
    (nd.shards 0).series.lookup 5 2 = some 1 ∧ (nd.genSeries c 0 5 3 []).2 = .id 1 := by
  cases se <;> decide

/-- the same events with `PrepareFlush` inline: series 2 is created after the switch, is lost by the crash
with its posting, and the new series gets an id nobody uses -/
theorem series_prepare_inline (se : Bool) :
    let c : Cfg := { prepareSwapsEmpty := se }
    let nd := (workerRun true c 0 {} [.row 5 1, .flush, .row 5 2]).recover
    (nd.shards 0).series.lookup 5 2 = none ∧ (nd.genSeries c 0 5 3 []).2 = .id 1 ∧ (nd.genSeries c 0 5 3 []).1.view (.series 0 5 2) = none := by
  cases se <;> decide

end Neg

/-- what the property says about the index-entry part of `fresh_after_recover`, per variant of
`Sequence.Gen*Seq` (does an allocation store the counter into the mmap page?) -/
def IndexVerdict : Bool → Prop
  | true => ∀ c : Cfg, c.seqWriteThrough = true → ∀ lim n ops, historyOk c { lim := lim, nShards := n } ops →
      IdxTvBelow (run c { lim := lim, nShards := n } ops) (run c { lim := lim, nShards := n } ops).seqMem.tagValue
  | false => ∃ ops, ¬ IdxTvBelow (run {} ({} : Node) ops) (run {} ({} : Node) ops).seqMem.tagValue

/-- **index_verdict**: decided for the variant /repo has now -/
theorem index_verdict : IndexVerdict currentCfg.seqWriteThrough := by
  cases h : currentCfg.seqWriteThrough with
  | true => exact fun c hc lim n ops hh => index_ids_synced_writeThrough c hc lim n ops hh
  | false => exact ⟨Neg.unsyncedHistory, Neg.fresh_after_recover_index.2.2.2⟩

/-- the repaired schema generators ignore the schema pointer read before the lock: whatever a caller
saw outside the lock, the locked part works on a lookup made under the lock — each generator is one
atomic step, and the interleavings of generators are the sequential histories of `stable` / `injective` -/
theorem schema_locked_ignores_snapshot (s : SchemaStore) (m : Nat) (p p' : SPtr) :
    lockedPtr .lookupLocked s m p = lockedPtr .lookupLocked s m p' := rfl

/-- what the schedule "A reads the schema, B runs, A continues" does, per variant of the generators -/
def SchemaVerdict : SchemaVariant → Prop
  | .lookupLocked => ∀ s m p p', lockedPtr .lookupLocked s m p = lockedPtr .lookupLocked s m p'
  | .snapshotOutside =>
    ((tagKeyRace .snapshotOutside {} {} 0 5 1 1).2.2.1 ≠ (tagKeyRace .snapshotOutside {} {} 0 5 1 1).2.2.2) ∧
    ((fieldRace .snapshotOutside {} {} 5 1 2).2.1 = (fieldRace .snapshotOutside {} {} 5 1 2).2.2)

/-- **schema_verdict**: decided for the variant /repo has now -/
theorem schema_verdict : SchemaVerdict currentCfg.schema := by
  cases h : currentCfg.schema with
  | lookupLocked => exact schema_locked_ignores_snapshot
  | snapshotOutside => exact ⟨by decide, by decide⟩

/-- what reader ‖ writer ‖ flush says about the schema lookup of the create path -/
def SchemaCacheVerdict : Bool → Prop
  | false => ∀ (v : SchemaVariant) (lim : Limits) (s : SchemaStore) (cache : Nat → Option Nat) (ctr m x : Nat),
      (genField v lim (s.withCache cache) m x).2 = (genField v lim s m x).2 ∧
      (genTagKey v lim (s.withCache cache) ctr m x).2 = (genTagKey v lim s ctr m x).2
  | true =>
      let nd := run {} ({} : Node) [.metric 97 0 0, .field 0 1, .metaPrepare, .metaFlush]
      (nd.schemaCacheRace { schemaLockedUsesCache := true, schema := .lookupLocked } 0 2 3).2 = (.id 1, .id 1)

/-- **schema_cache_verdict**: decided for the create path /repo has now -/
theorem schema_cache_verdict : SchemaCacheVerdict currentCfg.schemaLockedUsesCache := by
  cases h : currentCfg.schemaLockedUsesCache with
  | false => exact gen_ignores_cache
  | true => exact Neg.schema_cache_race_cached

/-- what the LRU bucket cache does to the lookup-only path (`GetValue`, createFn = nil: a caller that
reaches `afterDisk` answers not-found). Unguarded `bucketCache.Add`: a stale bucket can be cached after the
purge, a later lookup of a name that is in the store misses (`staleMiss`) and answers not-found. Guarded
add (only while the snapshot read is still the store's snapshot): the cache is coherent, the system
without stale misses applies, and `existing_name_found` says every later call finds the name. -/
def BucketCacheVerdict : Bool → Prop
  | true => ∀ (v : KvVariant) (s0 s1 s : KSys), KStart s0 → KReach v s0 s1 → ∀ b n, s1.store.Owned b n → KReach v s1 s →
      ∀ k t, s1.threads.length ≤ k → s.threads[k]? = some t → t.bucket = b → t.name = n → ∀ q, t.pc ≠ .afterDisk q
  | false => (kexecStale (kstep .recheckLocked) { store := {}, ctr := 0 }
      [.inl (.call 0 7), .inl (.thread 0), .inl (.thread 0), .inl (.thread 0), .inl .prepare, .inl .commit, .inl .finish,
       .inl (.call 0 7), .inl (.thread 1), .inr 1]).threads = [⟨0, 7, .done 0⟩, ⟨0, 7, .afterDisk 1⟩]

/-- **bucket_cache_verdict**: decided for the `bucketCache.Add` /repo has now -/
theorem bucket_cache_verdict : BucketCacheVerdict currentCfg.kvCacheAddGuarded := by
  cases h : currentCfg.kvCacheAddGuarded with
  | true => exact fun v s0 s1 s h0 r1 b n hown r => late_callers_find v h0 r1 hown r
  | false =>
    show (kexecStale _ _ _).threads = _
    decide

/-- what the lock kind of memdb's `GetOrCreateTimeSeriesIndex` gives -/
def MemdbVerdict : Bool → Prop
  | true => ∀ (sched : List (Option Nat)) (a b : Nat),
      MPc.done a ∈ (mrun true {} sched).threads → MPc.done b ∈ (mrun true {} sched).threads → a = b
  | false => (mrun false {} [none, none, some 0, some 0, some 1, some 1, some 1, some 0]).threads = [.done 1, .done 0]

/-- **memdb_verdict**: decided for the lock /repo's `GetOrCreateTimeSeriesIndex` takes now -/
theorem memdb_verdict : MemdbVerdict currentCfg.memdbExclusive := by
  cases h : currentCfg.memdbExclusive with
  | true => exact memdb_one_index
  | false => exact Neg.memdb_shared_lock

/-- what lookup ‖ flush says about the order of the two lookups -/
def LookupVerdict : Bool → Prop
  | true => ∀ (v : KvVariant) (s0 s1 s : KSys), KStart s0 → KReach v s0 s1 → ∀ b n, s1.store.Owned b n → KReach v s1 s →
      ∀ k t, s1.threads.length ≤ k → s.threads[k]? = some t → t.bucket = b → t.name = n → ∀ q, t.pc ≠ .afterDisk q
  | false => ∃ s, KReachG (kstepPF .noRecheck) { store := {}, ctr := 0 } s ∧ ¬ KStable s

/-- **lookup_verdict**: decided for the order of the two lookups /repo has now -/
theorem lookup_verdict : LookupVerdict currentCfg.kvMemFirst := by
  cases h : currentCfg.kvMemFirst with
  | true => exact fun v s0 s1 s h0 r1 b n hown r => late_callers_find v h0 r1 hown r
  | false =>
    exact ⟨_, kexecG_reach _ _ Neg.lookupFlushSchedule,
      not_stable_of_two_ids (b := 0) (n := 7) (i := 0) (j := 1) Neg.lookup_flush_persistedFirst (by decide)⟩

theorem kv_verdict_all : ∀ v, KvVerdict v
  | .recheckFull => fun _ _ h0 r => ⟨stable_concurrent h0 r, injective_concurrent h0 r⟩
  | .recheckLocked => fun _ _ h0 r => stable_concurrent_locked_staleCache h0 r
  | .recheckLockedCached => Neg.stable_staleCache_cachedRecheck
  | .recheckMem => Neg.stable_concurrent_recheckMem
  | .noRecheck => Neg.stable_concurrent_noRecheck

/-- **concurrent_verdict**: the concurrent part of C09, decided for the variant of `createValue` that
/repo has now (regenerated facts): proved when it re-checks under the lock and retries after a flush,
refuted by a concrete schedule otherwise -/
theorem concurrent_verdict : KvVerdict currentCfg.kv := kv_verdict_all _

/-! ### flushed buckets are written in blocks -/

/-- **flush_blocks_preserve_ids**: a flushed dictionary bucket (its (name, id) pairs in key order) is written as
`blocksOfBucket bs` and read block by block: for ANY block size `bs > 0` every name resolves to the id it had
when the bucket was flushed — names are neither lost nor re-bound by the block split -/
theorem flush_blocks_preserve_ids (bs : Nat) (hbs : 0 < bs) (kvs : List (Nat × Nat)) (n : Nat) :
    blocksFindId (blocksOfBucket bs kvs) n = pairsFind kvs n :=
  blocks_preserve_ids bs hbs kvs n

/-- the blocks hold exactly the bucket's pairs, in order -/
theorem flush_blocks_cover {α : Type} (bs : Nat) (hbs : 0 < bs) (l : List α) : (blocksOfBucket bs l).flatten = l :=
  blocksOfBucket_cover bs hbs l

/-- the big-bucket operation of the driver (`tvrange`) is `count` GenTagValueID calls in a row -/
theorem tag_value_range_is_iterated_gen (c : Cfg) (nd : Node) (tk lo k : Nat)
    (hnew : (nd.genTagValueRange c tk lo k).1.tagValue.lookup tk (lo + k) = none) :
    (nd.genTagValueRange c tk lo (k + 1)).1 = ((nd.genTagValueRange c tk lo k).1.genTagValueID c tk (lo + k)).1 ∧
    ((nd.genTagValueRange c tk lo k).1.genTagValueID c tk (lo + k)).2 = .id ((nd.genTagValueRange c tk lo (k + 1)).2 + k) :=
  genTagValueRange_succ c nd tk lo k hnew

/-! ### the memdb index worker -/

/-- **worker_histories_are_sequential**: with `PrepareFlush` inline in the handler goroutine (`memdb_worker_tie`),
what the worker does with any stream of rows and flush requests is a sequential history of `run` — `PrepareFlush`
is atomic with respect to `GenSeriesID` BECAUSE both run on the one handler goroutine; `stable`, `injective`,
`recover_ids`, `fresh_after_recover` then speak about the worker -/
theorem worker_histories_are_sequential (c : Cfg) (shard : Nat) (evs : List WEvent) (nd : Node) :
    workerRun true c shard nd evs = run c nd (evs.flatMap (WEvent.ops shard)) := by
  unfold workerRun
  induction evs generalizing nd with
  | nil => rfl
  | cons e rest ih =>
    cases e with
    | row m ts =>
      simp only [workerGo, List.flatMap_cons, WEvent.ops, List.cons_append, List.nil_append, run, step]
      exact ih _
    | flush =>
      simp only [workerGo, List.flatMap_cons, WEvent.ops, List.cons_append, List.nil_append, run, step, if_true]
      exact ih _

def WorkerVerdict : Bool → Prop
  | true => ∀ (c : Cfg) (shard : Nat) (evs : List WEvent) (nd : Node),
      workerRun true c shard nd evs = run c nd (evs.flatMap (WEvent.ops shard))
  | false => ∀ se : Bool,
      let c : Cfg := { prepareSwapsEmpty := se }
      let nd := (workerRun false c 0 {} [.row 5 1, .flush, .row 5 2]).recover
      (nd.shards 0).series.lookup 5 2 = some 1 ∧ (nd.genSeries c 0 5 3 []).2 = .id 1

/-- **worker_verdict**: decided for the goroutine in which /repo's worker calls `PrepareFlush` now -/
theorem worker_verdict : WorkerVerdict currentCfg.memdbPrepareInline := by
  cases h : currentCfg.memdbPrepareInline with
  | true => exact worker_histories_are_sequential
  | false => exact Neg.series_prepare_between_inserts

/-! ## The store keeps no reference to the caller's bytes

The write path passes names as views into a reused block (`metric.StorageRow` over the replica's decode
buffer) and overwrites the block with the next batch. Model/IdAssignBuf.lean has the buffer, views and a
dictionary whose keys are copies (`Key.own`, lindb) or references (`Key.ref`, what a zero-copy conversion
keeps); Model/IdAssignView.lean runs the node's operations on views. -/

open Buf

/-- `buildInvertIndex` (what `GenSeriesID` does for a new series, and what the harness's reused-block region
replays call by call): per tag, the key view goes to `GenTagKeyID`, then the value view to `GenTagValueID`,
then both postings are written under the index lock -/
theorem build_invert_order_tie :
    C09.indexBuildInvertCalls.filter (fun c => c ∈ ["tags.HasNext", "tags.NextKey", "metaDB.GenTagKeyID", "tags.NextValue",
      "metaDB.GenTagValueID", "lock.Lock", "inverted.put", "forward.put", "lock.Unlock"]) =
    ["tags.HasNext", "tags.NextKey", "metaDB.GenTagKeyID", "tags.NextValue", "metaDB.GenTagValueID",
     "lock.Lock", "inverted.put", "forward.put", "lock.Unlock"] := by decide

/-- the namespace / metric-name limits are off by default (the model has no refusal of a namespace or a
metric name: `genNSID` / `genMetricID` test `MaxNamespaces > 0` / `MaxMetrics > 0` first), and
`getOrCreateValue` is not wrapped in a retry loop -/
theorem ns_metric_limits_off_tie :
    C09.defaultMaxNamespaces = 0 ∧ C09.defaultMaxMetrics = 0 ∧ C09.kvRetryLoopCalls = [] := by decide

/-- the three places where a name is kept use a copying conversion (regenerated on every run) -/
theorem name_copy_tie : currentNamesCopied = true := by decide

/-- **Refinement**: for the copying dictionary and every history of calls and buffer writes, the answers are
those of the value-level dictionary fed with the copies taken at call time -/
theorem copy_store_ignores_buffer (ops : List Buf.Op) (buf : Bytes) :
    Buf.run false {} buf ops = vrun {} (materialize buf ops) := by
  rw [run_copy_eq_values ops {} buf allOwn_empty, toVS_empty]

/-- **The result is independent of later mutations of the argument buffer**: after any history (calls with
views, overwrites in between) every name resolves to the same id whatever the buffer holds afterwards -/
theorem lookup_independent_of_buffer (ops : List Buf.Op) (buf0 buf buf' name : Bytes) :
    (finalStore false {} buf0 ops).find buf name = (finalStore false {} buf0 ops).find buf' name :=
  find_indep _ (finalStore_allOwn ops {} buf0 allOwn_empty) buf buf' name

/-- same name ⇒ same id, judged on the copies of the names taken at call time, for every history -/
theorem buf_stable (ops : List Buf.Op) (buf name : Bytes) (i j : Nat)
    (hi : (name, i) ∈ Buf.run false {} buf ops) (hj : (name, j) ∈ Buf.run false {} buf ops) : i = j := by
  rw [copy_store_ignores_buffer] at hi hj
  exact vrun_stable _ _ name i j hi hj

/-- different names ⇒ different ids -/
theorem buf_injective (ops : List Buf.Op) (buf n m : Bytes) (i : Nat)
    (hn : (n, i) ∈ Buf.run false {} buf ops) (hm : (m, i) ∈ Buf.run false {} buf ops) : n = m := by
  rw [copy_store_ignores_buffer] at hn hm
  exact vrun_injective _ _ vinv_empty n m i hn hm

/-- non-vacuity: two calls through ONE view with an overwrite in between are two names with two ids -/
example : Buf.run false {} [109, 48] [.call ⟨0, 2⟩, .write 0 [109, 49], .call ⟨0, 2⟩, .write 0 [109, 48], .call ⟨0, 2⟩]
    = [([109, 48], 0), ([109, 49], 1), ([109, 48], 0)] := by decide

namespace Neg

/-- a dictionary that keeps a REFERENCE (`kvs[strutil.ByteSlice2String(key)] = id`): the caller overwrites
its buffer with the next name, and that name is answered with the first name's id -/
theorem alias_shares_id :
    Buf.run true {} [109, 48] [.call ⟨0, 2⟩, .write 0 [109, 49], .call ⟨0, 2⟩] = [([109, 48], 0), ([109, 49], 0)] := by decide

/-- … and the first name, presented again from another place, has lost its id and gets a second one -/
theorem alias_second_id :
    Buf.run true {} [109, 48, 109, 48] [.call ⟨0, 2⟩, .write 0 [109, 49], .call ⟨2, 2⟩] = [([109, 48], 0), ([109, 48], 1)] := by decide

end Neg

def BufVerdict : Bool → Prop
  | true => (∀ (ops : List Buf.Op) (buf name : Bytes) (i j : Nat),
        (name, i) ∈ Buf.run false {} buf ops → (name, j) ∈ Buf.run false {} buf ops → i = j) ∧
      (∀ (ops : List Buf.Op) (buf n m : Bytes) (i : Nat),
        (n, i) ∈ Buf.run false {} buf ops → (m, i) ∈ Buf.run false {} buf ops → n = m)
  | false => Buf.run true {} [109, 48] [.call ⟨0, 2⟩, .write 0 [109, 49], .call ⟨0, 2⟩] = [([109, 48], 0), ([109, 49], 0)]

/-- **buffer_verdict**: decided for the conversions /repo uses now where it keeps a name -/
theorem buffer_verdict : BufVerdict currentNamesCopied := by
  cases h : currentNamesCopied with
  | true => exact ⟨buf_stable, buf_injective⟩
  | false => exact Neg.alias_shares_id

/-- **A history over a reused buffer is a value-level history.** Whatever the caller loads into or writes
over its buffer between the calls, the node ends where the history of the materialised calls (each view
replaced by the copy of the bytes it showed when the call was made) ends — the node holds no reference. -/
theorem buffer_history_is_value_history (c : Cfg) (bops : List BOp) : ∀ (st st' : BNode),
    brun c st bops = some st' → ∃ ops, bmaterialize st.buf bops = some ops ∧ st'.nd = IdAssign.run c st.nd ops := by
  induction bops with
  | nil => intro st st' h; simp only [brun, Option.some.injEq] at h; subst h; exact ⟨[], rfl, rfl⟩
  | cons b rest ih =>
    intro st st' h
    simp only [brun, bstep] at h
    cases hb : b.toOp st.buf with
    | none => simp [hb] at h
    | some o =>
      cases o with
      | none =>
        simp only [hb] at h
        obtain ⟨ops, h1, h2⟩ := ih _ st' h
        exact ⟨ops, by simp only [bmaterialize, hb]; exact h1, h2⟩
      | some op =>
        simp only [hb] at h
        obtain ⟨ops, h1, h2⟩ := ih _ st' h
        refine ⟨op :: ops, ?_, ?_⟩
        · simp only [bmaterialize, hb]; simp only at h1; rw [h1]; rfl
        · simpa [IdAssign.run] using h2

/-- hence `stable` / `injective` speak about callers that reuse their buffer -/
theorem stable_over_reused_buffer (c : Cfg) {nd : Node} (inv : NodeInv nd) (buf : Bytes) (bops : List BOp) (st' : BNode)
    (hr : brun c { nd := nd, buf := buf } bops = some st') :
    ∃ ops, bmaterialize buf bops = some ops ∧ st'.nd = IdAssign.run c nd ops ∧
      (epochOk c nd ops → ∀ k i j, (k, i) ∈ observations c nd ops → (k, j) ∈ observations c nd ops → i = j) ∧
      (epochOk c nd ops → ∀ k k' i, k.sameScope k' → (k, i) ∈ observations c nd ops → (k', i) ∈ observations c nd ops → k = k') := by
  obtain ⟨ops, h1, h2⟩ := buffer_history_is_value_history c bops _ st' hr
  exact ⟨ops, h1, h2, fun h k i j a b => stable c inv ops h a b, fun h k k' i hs a b => injective c inv ops h hs a b⟩

/-- non-vacuity: the block is overwritten between two `GenMetricID` calls through the same two views -/
example : (brun {} {} [.load [97, 110, 115, 48, 109, 48], .metric ⟨0, 4⟩ ⟨4, 2⟩, .load [97, 110, 115, 48, 109, 49],
      .metric ⟨0, 4⟩ ⟨4, 2⟩]).map (fun st => (st.nd.getMetric 97 0 0, st.nd.getMetric 97 0 1)) = some (some 0, some 1) := by decide


/-! ## Round 9: faults inside an index flush (which of the four steps fails) × crash / reopen × new series

Series ids have no sequence file: after a restart `createSeriesID` continues after the largest id in the
metric→series postings. That is safe only while "the postings of a round are on disk before the dictionary
entries that carry their ids" — which has two halves: the ORDER of the steps of `metricIndexDatabase.Flush`
(`index_flush_order_tie`) and the EARLY RETURN when a step fails. Here the second half: the flush is a step
list with a fault placement (`Node.flushFaultGo`), "a failed step aborts the round" is its modelled control
flow (`Cfg.indexFlushAborts`, read from the regenerated `indexFlushStepGuards`), and the theorems quantify over
all histories with any number of faulted flushes, any step failing, crashes after any prefix and reopen. -/

/-- every step of both Flush methods is `if err := step(); err != nil { return err }` (no step's error is
collected, ignored or deferred); the steps come in the order `Shard.flushStep` numbers them; the error
branches of the two posting flushes do nothing but return (their `immutable` table stays for the next round),
and both clear `immutable` only after `flusher.Close()` -/
theorem flush_abort_tie :
    currentIndexFlushSteps = [0, 1, 2, 3] ∧ currentCfg.indexFlushAborts = true ∧
    (C09.indexFlushStepGuards.filter (fun g => isFlushStep g.1)).map (·.1) = C09.hookIndexFlushSteps ∧
    C09.metaFlushStepGuards.map (·.1) = C09.hookMetaFlushSteps ∧ C09.metaFlushStepGuards.all (·.2) = true ∧
    C09.invertedFlushErrBranchCalls.all (· = []) = true ∧ C09.forwardFlushErrBranchCalls.all (· = []) = true ∧
    callsAfter C09.invertedFlushCalls "flusher.Close" = ["lock.Lock", "lock.Unlock"] ∧
    callsAfter C09.forwardFlushCalls "flusher.Close" = ["lock.Lock", "lock.Unlock"] := by decide

/-- **a failed step aborts the round**: whichever step fails, a faulted flush with lindb's control flow is a
prefix of the flush — so a crash during or after it is one of the crash points `recover_ids` /
`fresh_after_recover` already quantify over; it reports the error iff it stopped early -/
theorem faulted_flush_is_prefix (sh : Shard) (k : Nat) :
    ∃ j, j ≤ 4 ∧ (Node.flushFaultGo true k [0, 1, 2, 3] sh).1 = (List.range j).foldl Shard.flushStep sh ∧
      ((Node.flushFaultGo true k [0, 1, 2, 3] sh).2 = true → j < 4) :=
  flushFault_abort_is_prefix sh k

/-- **the cover invariant is reachable**: after every history — get-or-create calls of every kind, PrepareFlush /
Flush of both databases, failed metadata flushes, index flushes in which ANY step fails (any number of them,
retried or not), crashes after any prefix of either flush, reopen — every entry of every shard's series
dictionary has its metric→series posting at least as close to the disk as the entry itself -/
theorem cover_reachable (c : Cfg) (hc : c.seriesLimitFirst = true) (hp : c.prepareSwapsEmpty = true)
    (ha : c.indexFlushAborts = true) (lim : Limits) (n : Nat) (ops : List FOp) :
    NodeCover (frun c [0, 1, 2, 3] { lim := lim, nShards := n } ops) :=
  nodeCover_frun hc hp ha ops (nodeCover_init lim n)

/-- **the recovered series sequence lies above every id of every committed dictionary, for all fault
placements**: in the state after any such history (a), and in the state a crash at that moment leaves (b),
the id the next new series of a metric gets is larger than every id the series dictionary answers for that
metric. (b) is the statement about disk content: `recover` keeps exactly the committed families. -/
theorem series_sequence_above_dictionary (c : Cfg) (hc : c.seriesLimitFirst = true) (hp : c.prepareSwapsEmpty = true)
    (ha : c.indexFlushAborts = true) (lim : Limits) (n : Nat) (ops : List FOp) (sh m ts i : Nat) :
    ((((frun c [0, 1, 2, 3] { lim := lim, nShards := n } ops).shards sh).series.lookup m ts = some i →
      i < ((frun c [0, 1, 2, 3] { lim := lim, nShards := n } ops).shards sh).createSeriesID m)) ∧
    ((((frun c [0, 1, 2, 3] { lim := lim, nShards := n } ops).shards sh).recover.series.lookup m ts = some i →
      i < ((frun c [0, 1, 2, 3] { lim := lim, nShards := n } ops).shards sh).recover.createSeriesID m)) :=
  ⟨fun h => (cover_reachable c hc hp ha lim n ops sh).new_id_unused h,
   fun h => (coverInv_recover (cover_reachable c hc hp ha lim n ops sh)).new_id_unused h⟩

/-- **injective across faulted flushes, crash and reopen**: a series that is new to the dictionary never gets
an id the dictionary — live or recovered — answers for another tag set of the metric -/
theorem new_series_id_unused (c : Cfg) (hc : c.seriesLimitFirst = true) (hp : c.prepareSwapsEmpty = true)
    (ha : c.indexFlushAborts = true) (lim : Limits) (n : Nat) (ops : List FOp) (sh m ts ts' i : Nat) (tags : List (Nat × Nat))
    (hold : ((frun c [0, 1, 2, 3] { lim := lim, nShards := n } ops).shards sh).series.lookup m ts = some i)
    (hnew : ((frun c [0, 1, 2, 3] { lim := lim, nShards := n } ops).shards sh).series.lookup m ts' = none) :
    ((frun c [0, 1, 2, 3] { lim := lim, nShards := n } ops).genSeries c sh m ts' tags).2 ≠ .id i := by
  have hlt := (cover_reachable c hc hp ha lim n ops sh).new_id_unused hold
  generalize frun c [0, 1, 2, 3] { lim := lim, nShards := n } ops = nd at *
  unfold Node.genSeries
  simp only [hnew]
  by_cases over : nd.lim.maxSeries > 0 ∧ nd.lim.maxSeries < (nd.shards sh).createSeriesID m
  · rw [if_pos ⟨hc, over⟩]; intro h; cases h
  · rw [if_neg (fun h => over h.2), if_neg over]
    intro h
    have : (nd.shards sh).createSeriesID m = i := by injection h
    omega

namespace Neg

/-- a Flush that carries on after a failed step (e.g. `errors.Join(step1(), …, step4())`): series `a` (tags hash
1) of metric 0 is created, PrepareFlush, the postings step fails, the dictionary step commits `a ↦ 0` all the
same; the process dies. The recovered dictionary answers 0 for `a`, the recovered postings are empty, and the
NEW series `b` gets id 0 as well. Fault on the forward / inverted / dictionary step: harmless. -/
theorem flush_join_reuses_series_id :
    let c : Cfg := { seriesLimitFirst := true, prepareSwapsEmpty := true, indexFlushAborts := false }
    let nd := frun c [0, 1, 2, 3] {} [.op (.series 0 0 1 []), .op (.indexPrepare 0), .indexFlushFault 0 0, .op .reopen]
    (nd.shards 0).series.lookup 0 1 = some 0 ∧ (nd.genSeries c 0 0 2 []).2 = .id 0 := by decide

/-- the same history with lindb's control flow: nothing of the round is committed, `a` is simply lost by the
crash and created again -/
theorem flush_abort_same_history :
    let c : Cfg := { seriesLimitFirst := true, prepareSwapsEmpty := true, indexFlushAborts := true }
    let nd := frun c [0, 1, 2, 3] {} [.op (.series 0 0 1 []), .op (.indexPrepare 0), .indexFlushFault 0 0, .op .reopen]
    (nd.shards 0).series.lookup 0 1 = none ∧ (nd.genSeries c 0 0 2 []).2 = .id 0 ∧
    ((nd.genSeries c 0 0 2 []).1.genSeries c 0 0 1 []).2 = .id 1 := by decide

/-- without the crash the carried-on flush is not observable: the retained postings go out with the retry
round (the witness needs fault AND crash) -/
theorem flush_join_retry_heals :
    let c : Cfg := { seriesLimitFirst := true, prepareSwapsEmpty := true, indexFlushAborts := false }
    let nd := frun c [0, 1, 2, 3] {} [.op (.series 0 0 1 []), .op (.indexPrepare 0), .indexFlushFault 0 0,
      .op (.indexPrepare 0), .op (.indexFlush 0), .op .reopen]
    (nd.shards 0).series.lookup 0 1 = some 0 ∧ (nd.genSeries c 0 0 2 []).2 = .id 1 := by decide

/-- why `cover_reachable` asks for the PrepareFlush shape lindb has now (swap when nil OR empty, commit a4b424c): with
the old test (`immutable == nil`) a faulted round desynchronises the tables — series a (with a tag), PrepareFlush, the
forward step fails (postings flushed, dictionary still frozen); the next PrepareFlush freezes an EMPTY postings table,
which then sticks for ever while the dictionary keeps swapping; series b's dictionary entry is flushed, its posting
never; after a crash the new series c gets b's id -/
theorem flush_fault_old_prepare_shape :
    let c : Cfg := { seriesLimitFirst := true, prepareSwapsEmpty := false, indexFlushAborts := true }
    let nd := frun c [0, 1, 2, 3] {} [.op (.series 0 0 1 [(1, 1)]), .op (.indexPrepare 0), .indexFlushFault 0 1,
      .op (.indexPrepare 0), .op (.indexFlush 0), .op (.series 0 0 2 []), .op (.indexPrepare 0), .op (.indexFlush 0), .op .reopen]
    (nd.shards 0).series.lookup 0 2 = some 1 ∧ (nd.genSeries c 0 0 3 []).2 = .id 1 := by decide

end Neg

/-- what holds for a Flush that aborts on a failed step / that carries on -/
def FlushFaultVerdict : Bool → Prop
  | true => ∀ (c : Cfg), c.seriesLimitFirst = true → c.prepareSwapsEmpty = true → c.indexFlushAborts = true →
      ∀ (lim : Limits) (n : Nat) (ops : List FOp) (sh m ts ts' i : Nat) (tags : List (Nat × Nat)),
      ((frun c [0, 1, 2, 3] { lim := lim, nShards := n } ops).shards sh).series.lookup m ts = some i →
      ((frun c [0, 1, 2, 3] { lim := lim, nShards := n } ops).shards sh).series.lookup m ts' = none →
      ((frun c [0, 1, 2, 3] { lim := lim, nShards := n } ops).genSeries c sh m ts' tags).2 ≠ .id i
  | false =>
      let c : Cfg := { seriesLimitFirst := true, prepareSwapsEmpty := true, indexFlushAborts := false }
      let nd := frun c [0, 1, 2, 3] {} [.op (.series 0 0 1 []), .op (.indexPrepare 0), .indexFlushFault 0 0, .op .reopen]
      (nd.shards 0).series.lookup 0 1 = some 0 ∧ (nd.genSeries c 0 0 2 []).2 = .id 0

/-- **flush_fault_verdict**: decided for the control flow /repo's `metricIndexDatabase.Flush` has now; the
hypotheses of the positive arm are what /repo has now, too -/
theorem flush_fault_verdict : FlushFaultVerdict currentCfg.indexFlushAborts ∧
    currentCfg.seriesLimitFirst = true ∧ currentCfg.prepareSwapsEmpty = true := by
  refine ⟨?_, by decide, by decide⟩
  cases h : currentCfg.indexFlushAborts with
  | true => exact fun c hc hp ha lim n ops sh m ts ts' i tags => new_series_id_unused c hc hp ha lim n ops sh m ts ts' i tags
  | false => exact Neg.flush_join_reuses_series_id

/-- non-vacuity: a history with two rounds, a fault on the forward step of the second, the retry, a crash —
the hypotheses hold for a state in which dictionary, frozen and committed postings are all non-empty -/
example :
    let c : Cfg := { seriesLimitFirst := true, prepareSwapsEmpty := true }
    let nd := frun c [0, 1, 2, 3] {} [.op (.series 0 0 1 [(1, 1)]), .op (.indexPrepare 0), .op (.indexFlush 0),
      .op (.series 0 0 2 [(1, 2)]), .op (.indexPrepare 0), .indexFlushFault 0 1, .op (.series 0 0 3 [])]
    (nd.shards 0).series.lookup 0 2 = some 1 ∧ (nd.shards 0).series.needFlush = true ∧
    (nd.shards 0).minv.disk.length = 2 ∧ (nd.shards 0).createSeriesID 0 = 3 := by decide


/-! ## Round 9: namespace / metric-name limits — a createFn that fails inside `createValue` -/

/-- `genNSID` / `genMetricID` test the limit against the number of ids handed out so far BEFORE they take the
next counter value; `createValue` has made the bucket's map when createFn runs (`mutable.Put` before
`createFn`), stores the name only after createFn succeeded (`string(key)` after it), and its error branches
do nothing but return -/
theorem name_limits_tie :
    C09.metaGenNSIDCalls = ["models.GetDatabaseLimits", "limits.EnableNamespacesCheck", "sequence.GetNamespaceSeq", "sequence.GenNamespaceSeq"] ∧
    C09.metaGenMetricIDFnCalls = ["models.GetDatabaseLimits", "limits.EnableMetricsCheck", "sequence.GetMetricNameSeq", "sequence.GenMetricNameSeq"] ∧
    (callsBefore C09.kvCreateValueCalls "createFn").contains "mutable.Put" = true ∧
    callsAfter C09.kvCreateValueCalls "createFn" = ["string"] ∧
    C09.kvCreateValueErrBranchCalls.all (· = []) = true := by decide

/-- with both limits off (the default, `ns_metric_limits_off_tie`) the limit-aware `GenMetricID` IS the one all
other theorems speak about -/
theorem name_limits_off_is_genMetric (c : Cfg) (nd : Node) (nb ns name : Nat)
    (h1 : nd.lim.maxNamespaces = 0) (h2 : nd.lim.maxMetrics = 0) :
    nd.genMetricLim c nb ns name = ((nd.genMetric c nb ns name).1, .out (nd.genMetric c nb ns name).2) :=
  genMetricLim_off c nd nb ns name h1 h2

/-- **a refused name changes no id** (any limits, any state satisfying the metadata invariant): the invariant
is kept — so every later operation is covered by the sequential theorems again —, every name that had an id
keeps it, the shards are untouched, and nothing is stored under the refused name -/
theorem refused_name_changes_no_id (c : Cfg) {nd : Node} (inv : NodeInv nd) (nb ns name : Nat)
    (href : (nd.genMetricLim c nb ns name).2 = .tooManyNamespaces ∨ (nd.genMetricLim c nb ns name).2 = .tooManyMetrics) :
    NodeInv (nd.genMetricLim c nb ns name).1 ∧
    (∀ key i, nd.view key = some i → (nd.genMetricLim c nb ns name).1.view key = some i) ∧
    (nd.genMetricLim c nb ns name).1.view (.md (.metric nb ns name)) = none := by
  obtain ⟨mi, mono, hn⟩ := genMetricLim_refused c inv.md nb ns name href
  have hs := genMetricLim_shards c nd nb ns name
  refine ⟨⟨mi, fun k => by rw [hs]; exact inv.sh k⟩, ?_, hn⟩
  intro key i h
  cases key with
  | md k => exact mono k i h
  | series sh m ts =>
    show ((nd.genMetricLim c nb ns name).1.shards sh).series.lookup m ts = some i
    rw [hs]; exact h

/-- a refusal is reachable and is what the witness case replays: limits 1 / 2 admit two namespaces and three
metric names (`limit < ids handed out`); the refused name is not found afterwards; lifting the limit gives it
a fresh id -/
example :
    let c : Cfg := currentCfg
    let nd0 : Node := { lim := { maxNamespaces := 1, maxMetrics := 2 } }
    let r1 := nd0.genMetricLim c 97 0 0
    let r2 := r1.1.genMetricLim c 98 1 0
    let r3 := r2.1.genMetricLim c 99 2 0
    let r4 := r3.1.genMetricLim c 97 0 1
    let r5 := r4.1.genMetricLim c 97 0 2
    let nd6 : Node := { r5.1 with lim := {} }
    (r1.2, r2.2, r3.2, r4.2, r5.2) = (.out (.id 0), .out (.id 1), .tooManyNamespaces, .out (.id 2), .tooManyMetrics) ∧
    r5.1.getMetric 97 0 2 = none ∧ r5.1.ns.mutEmpty = false ∧ (nd6.genMetricLim c 97 0 2).2 = .out (.id 3) := by decide

/-! ## Round 12: the LRU sequence cache of `metricIndexDatabase` may evict / expire at any time

`createSeriesID` answers `cache + 1` on a hit and `max(metric→series postings) + 1` (kv family ∪ mutable ∪
immutable; 0 when empty) on a miss. The cache is an `expirable.LRU` (100000 entries, one hour): an entry can
vanish between any two calls. `FOp.evictSeq shard m` is that event; since it is a constructor of `FOp`,
`cover_reachable`, `series_sequence_above_dictionary`, `new_series_id_unused` and `flush_fault_verdict` above
quantify over histories with evictions placed anywhere (between faulted flushes, crashes, reopen, …). -/

/-- **whatever part of the sequence cache is gone when the call comes**: after any history (evictions
included), drop the entries of any list of metrics from one shard's cache — the id the next new series of a
metric gets is still larger than every id the series dictionary answers for that metric -/
theorem series_ids_fresh_whatever_is_evicted (c : Cfg) (hc : c.seriesLimitFirst = true) (hp : c.prepareSwapsEmpty = true)
    (ha : c.indexFlushAborts = true) (lim : Limits) (n : Nat) (ops : List FOp) (sh : Nat) (evicted : List Nat) (m ts i : Nat)
    (h : (evicted.foldl Shard.evictSeq ((frun c [0, 1, 2, 3] { lim := lim, nShards := n } ops).shards sh)).series.lookup m ts = some i) :
    i < (evicted.foldl Shard.evictSeq ((frun c [0, 1, 2, 3] { lim := lim, nShards := n } ops).shards sh)).createSeriesID m := by
  have inv := cover_reachable c hc hp ha lim n ops sh
  generalize (frun c [0, 1, 2, 3] { lim := lim, nShards := n } ops).shards sh = s at *
  have key : ∀ (l : List Nat) (s : Shard), CoverInv s → CoverInv (l.foldl Shard.evictSeq s) := by
    intro l
    induction l with
    | nil => intro s hs; exact hs
    | cons a r ih => intro s hs; exact ih _ (coverInv_evictSeq hs a)
  exact (key evicted s inv).new_id_unused h

/-- an eviction is a history step like any other: the fault-placement theorem with an eviction spelled out
in front of the call (the eviction of the very metric the new series belongs to) -/
theorem new_series_id_unused_after_eviction (c : Cfg) (hc : c.seriesLimitFirst = true) (hp : c.prepareSwapsEmpty = true)
    (ha : c.indexFlushAborts = true) (lim : Limits) (n : Nat) (ops : List FOp) (sh m ts ts' i : Nat) (tags : List (Nat × Nat))
    (hold : ((frun c [0, 1, 2, 3] { lim := lim, nShards := n } (ops ++ [.evictSeq sh m])).shards sh).series.lookup m ts = some i)
    (hnew : ((frun c [0, 1, 2, 3] { lim := lim, nShards := n } (ops ++ [.evictSeq sh m])).shards sh).series.lookup m ts' = none) :
    ((frun c [0, 1, 2, 3] { lim := lim, nShards := n } (ops ++ [.evictSeq sh m])).genSeries c sh m ts' tags).2 ≠ .id i :=
  new_series_id_unused c hc hp ha lim n (ops ++ [.evictSeq sh m]) sh m ts ts' i tags hold hnew

/-- **the cache entry, while it is there, is the largest posting of its metric** — after every history
(`GenSeriesID` puts the new id into the cache and into the mutable postings together, postings only move
towards the disk, a crash empties the cache, an eviction only removes) -/
theorem cache_tight_reachable (c : Cfg) (hc : c.seriesLimitFirst = true) (hp : c.prepareSwapsEmpty = true)
    (ha : c.indexFlushAborts = true) (lim : Limits) (n : Nat) (ops : List FOp) (sh m v : Nat)
    (h : ((frun c [0, 1, 2, 3] { lim := lim, nShards := n } ops).shards sh).seqCache m = some v) :
    (m, v) ∈ ((frun c [0, 1, 2, 3] { lim := lim, nShards := n } ops).shards sh).minv.all ∧
    ∀ i, (m, i) ∈ ((frun c [0, 1, 2, 3] { lim := lim, nShards := n } ops).shards sh).minv.all → i ≤ v :=
  ⟨nodeTight_frun hc hp ha ops (nodeTight_init lim n) sh m v h,
   (cover_reachable c hc hp ha lim n ops sh).cache m v h⟩

/-- **an eviction does not even change the next id**: in the state after any history, the miss branch of
`createSeriesID` (`max(kv family ∪ mutable ∪ immutable postings) + 1`) computes what the hit branch
(`cache + 1`) computes — so whether and when the LRU drops an entry is not observable in the ids -/
theorem eviction_keeps_next_series_id (c : Cfg) (hc : c.seriesLimitFirst = true) (hp : c.prepareSwapsEmpty = true)
    (ha : c.indexFlushAborts = true) (lim : Limits) (n : Nat) (ops : List FOp) (sh m : Nat) :
    (((frun c [0, 1, 2, 3] { lim := lim, nShards := n } ops).shards sh).evictSeq m).createSeriesID m =
      ((frun c [0, 1, 2, 3] { lim := lim, nShards := n } ops).shards sh).createSeriesID m :=
  evictSeq_same_next (cover_reachable c hc hp ha lim n ops sh) (nodeTight_frun hc hp ha ops (nodeTight_init lim n) sh) m

/-- … and neither the answer of the next `GenSeriesID` of that metric, whatever tag set it is asked for: the
history with the eviction in front of the call and the history without it answer alike -/
theorem eviction_invisible_to_next_call (c : Cfg) (hc : c.seriesLimitFirst = true) (hp : c.prepareSwapsEmpty = true)
    (ha : c.indexFlushAborts = true) (lim : Limits) (n : Nat) (ops : List FOp) (sh m ts : Nat) (tags : List (Nat × Nat)) :
    ((fstep c [0, 1, 2, 3] (frun c [0, 1, 2, 3] { lim := lim, nShards := n } ops) (.evictSeq sh m)).genSeries c sh m ts tags).2 =
      ((frun c [0, 1, 2, 3] { lim := lim, nShards := n } ops).genSeries c sh m ts tags).2 := by
  have hsame := eviction_keeps_next_series_id c hc hp ha lim n ops sh m
  generalize frun c [0, 1, 2, 3] { lim := lim, nShards := n } ops = nd at *
  have e : (fstep c [0, 1, 2, 3] nd (.evictSeq sh m)).shards sh = (nd.shards sh).evictSeq m := by
    simp [fstep, Node.setShard]
  have hlim : (fstep c [0, 1, 2, 3] nd (.evictSeq sh m)).lim = nd.lim := rfl
  have hser : ((nd.shards sh).evictSeq m).series = (nd.shards sh).series := rfl
  unfold Node.genSeries
  simp only [e, hlim, hser, hsame]
  cases (nd.shards sh).series.lookup m ts with
  | some i => rfl
  | none =>
    simp only []
    split
    · rfl
    · split <;> rfl

/-- non-vacuity: two series, PrepareFlush, a faulted flush (postings committed, dictionary still frozen), a
third series, eviction of the metric's entry: the miss branch reads kv family ∪ mutable and answers 3; the
state has a non-empty cache before the eviction, committed, and mutable postings -/
example :
    let c : Cfg := { seriesLimitFirst := true, prepareSwapsEmpty := true }
    let ops : List FOp := [.op (.series 0 0 1 []), .op (.series 0 0 2 [(1, 1)]), .op (.indexPrepare 0), .indexFlushFault 0 1,
      .op (.series 0 0 3 [])]
    let nd := frun c [0, 1, 2, 3] {} ops
    let nd' := frun c [0, 1, 2, 3] {} (ops ++ [.evictSeq 0 0])
    (nd.shards 0).seqCache 0 = some 2 ∧ (nd'.shards 0).seqCache 0 = none ∧
    (nd'.shards 0).minv.disk.length = 2 ∧ (nd'.shards 0).minv.cur.length = 1 ∧
    (nd'.shards 0).createSeriesID 0 = 3 ∧ (nd'.genSeries c 0 0 4 []).2 = .id 3 ∧
    (nd'.shards 0).series.lookup 0 3 = some 2 := by decide

/-- **a series keeps its id for as long as the node runs, whatever happens in between**: after any history
`pre` (crashes and reopen included) a caller is answered `i` for tag set `ts` of metric `m`; then any stretch
`post` of history in which the node does not restart — get-or-create calls of every kind, PrepareFlush / Flush of
both databases, failed metadata flushes, index flushes in which any step fails (retried or not), refused metric
names, evictions from the LRU sequence cache — and every later caller for that tag set is answered `i`, and the
call changes nothing. (`stable` above is this statement for histories of `Op`s; here the history may contain
faulted index flushes, refusals and evictions.) -/
theorem series_stable_over_fault_histories (c : Cfg) (hc : c.seriesLimitFirst = true) (hp : c.prepareSwapsEmpty = true)
    (ha : c.indexFlushAborts = true) (lim : Limits) (n : Nat) (pre post : List FOp)
    (hrun : ∀ op ∈ post, FOp.sameRun op = true) (sh m ts i : Nat) (tags tags' : List (Nat × Nat))
    (h : ((frun c [0, 1, 2, 3] { lim := lim, nShards := n } pre).genSeries c sh m ts tags).2 = .id i) :
    (frun c [0, 1, 2, 3] { lim := lim, nShards := n } (pre ++ .op (.series sh m ts tags) :: post)).genSeries c sh m ts tags' =
      (frun c [0, 1, 2, 3] { lim := lim, nShards := n } (pre ++ .op (.series sh m ts tags) :: post), .id i) := by
  have cov := cover_reachable c hc hp ha lim n (pre ++ [.op (.series sh m ts tags)])
  have fl := nodeFlags_frun hc hp ha (pre ++ [.op (.series sh m ts tags)]) (nodeFlags_init lim n)
  have hsplit : pre ++ .op (.series sh m ts tags) :: post = (pre ++ [.op (.series sh m ts tags)]) ++ post := by simp
  rw [hsplit, frun_append]
  have h1 : frun c [0, 1, 2, 3] { lim := lim, nShards := n } (pre ++ [.op (.series sh m ts tags)]) =
      ((frun c [0, 1, 2, 3] { lim := lim, nShards := n } pre).genSeries c sh m ts tags).1 := by
    rw [frun_append]; rfl
  have hl : ((frun c [0, 1, 2, 3] { lim := lim, nShards := n } (pre ++ [.op (.series sh m ts tags)])).shards sh).series.lookup m ts = some i := by
    rw [h1]; exact genSeries_id_lookup hc _ sh m ts tags i h
  exact genSeries_of_lookup c _ sh m ts tags' i (lookup_frun hc hp ha post cov fl hrun sh m ts i hl)

/-- non-vacuity of `series_stable_over_fault_histories`: the stretch contains a faulted flush, the retry round, an
eviction, other series, and the series asked for again keeps id 1 (its entry has moved from the mutable table
through the frozen one into the kv family meanwhile) -/
example :
    let c : Cfg := { seriesLimitFirst := true, prepareSwapsEmpty := true }
    let pre : List FOp := [.op (.series 0 0 1 []), .op .reopen, .op (.series 0 0 1 [])]
    let post : List FOp := [.op (.indexPrepare 0), .indexFlushFault 0 0, .op (.series 0 0 3 []), .evictSeq 0 0,
      .op (.indexPrepare 0), .op (.indexFlush 0), .op (.series 0 0 4 [])]
    (∀ op ∈ post, FOp.sameRun op = true) ∧
    ((frun c [0, 1, 2, 3] {} pre).genSeries c 0 0 2 [(1, 1)]).2 = .id 1 ∧
    ((frun c [0, 1, 2, 3] {} (pre ++ .op (.series 0 0 2 [(1, 1)]) :: post)).genSeries c 0 0 2 []).2 = .id 1 ∧
    ((frun c [0, 1, 2, 3] {} (pre ++ .op (.series 0 0 2 [(1, 1)]) :: post)).shards 0).series.disk 0 2 = some 1 := by decide

namespace Neg

/-- why `series_stable_over_fault_histories` excludes restarts from `post`: a series that was never flushed is
gone after a reopen, and the id it had goes to the next new series (this is what the property allows: "every name
FOUND in the recovered dictionaries has the id it had before") -/
theorem series_not_stable_across_restart :
    let c : Cfg := { seriesLimitFirst := true, prepareSwapsEmpty := true }
    let nd := frun c [0, 1, 2, 3] {} [.op (.series 0 0 1 []), .op .reopen]
    (nd.genSeries c 0 0 2 []).2 = .id 0 ∧ ((nd.genSeries c 0 0 2 []).1.genSeries c 0 0 1 []).2 = .id 1 := by decide

end Neg

/-- **the miss branch reads all three tiers** (regenerated from `invertedIndex.getSeriesIDs` and
`findSeriesIDsByKeyFromMem`): the memory tables — `ii.mutable`, then `ii.immutable` — and then the kv family's
snapshot; `Shard.metricSeries`, which the model's `createSeriesID` takes the maximum of, is exactly the union of
the three -/
theorem posting_tiers_tie :
    C09.invertedGetSeriesIDsCalls.filter (fun c => c = "ii.findSeriesIDsByKeyFromMem" ∨ c = "family.GetSnapshot" ∨ c = "snapshot.Load") =
      ["ii.findSeriesIDsByKeyFromMem", "family.GetSnapshot", "snapshot.Load"] ∧
    C09.invertedFindFromMemTiers = ["ii.mutable", "ii.immutable"] ∧
    C09.invertedFindFromMemCalls.filter (fun c => c = "findSeriesIDs") = ["findSeriesIDs", "findSeriesIDs"] ∧
    (∀ (sh : Shard) (m i : Nat), i ∈ sh.metricSeries m ↔
      ((m, i) ∈ sh.minv.cur ∨ (m, i) ∈ sh.minv.frzList ∨ (m, i) ∈ sh.minv.disk)) := by
  refine ⟨by decide, by decide, by decide, ?_⟩
  intro sh m i
  rw [← Layers.mem_all]
  unfold Shard.metricSeries
  constructor
  · intro h
    obtain ⟨⟨m', i'⟩, hf, rfl⟩ := List.mem_map.1 h
    obtain ⟨hin, hm'⟩ := List.mem_filter.1 hf
    have : m' = m := by simpa using hm'
    subst this
    exact hin
  · intro h
    exact List.mem_map.2 ⟨(m, i), List.mem_filter.2 ⟨h, by simp⟩, rfl⟩

namespace Neg

/-- why the miss branch must read ALL three tiers of the postings: a `createSeriesID` that, on a miss, looked
at the kv family only (what it sees right after a reopen) would hand out the id of a series whose posting is
still in memory. Stated on the model's state: after two series and an eviction, the committed postings are
empty although the dictionary answers 1 for the second series. -/
theorem eviction_disk_only_would_reuse :
    let c : Cfg := { seriesLimitFirst := true, prepareSwapsEmpty := true }
    let nd := frun c [0, 1, 2, 3] {} [.op (.series 0 0 1 []), .op (.series 0 0 2 []), .evictSeq 0 0]
    (nd.shards 0).series.lookup 0 2 = some 1 ∧ (nd.shards 0).minv.disk = [] ∧ (nd.shards 0).createSeriesID 0 = 2 := by decide

end Neg

/-! ## Round 12 follow-up: a cached bucket released under a lock-free reader

`NewIndexKVStore` gives the LRU bucket cache an eviction callback that calls `TrieBucket.Release` (the bucket's
tries go back to a `sync.Pool`); `getOrCreateValue` calls `bucket.GetValue` on a cached bucket without any lock;
`Flush` purges the cache. Witness case 28 of the harness runs the schedule on the real code. -/

namespace Neg

/-- one value `v = 7` under two tag keys (ids 0 and 1), flushed; a reader of (tag key 0, v) holds the cached
bucket, a flush purges and releases it, the bucket of tag key 1 is loaded into the recycled trie: the reader
answers 1 — the id of (tag key 1, v) — while every other caller of (tag key 0, v) is answered 0 -/
theorem bucket_released_under_reader :
    let c : Cfg := { currentCfg with kvCacheReleasesOnEvict := true }
    let nd := run c {} [.tagValue 0 7, .tagValue 1 7, .metaPrepare, .metaFlush, .tagValue 0 9, .metaPrepare, .metaFlush]
    (nd.bucketReleaseRace c 0 7 1).2 = .id 1 ∧ (nd.genTagValueID c 0 7).2 = .id 0 := by decide

/-- the same schedule when nothing is released on eviction: the reader answers like everybody else -/
theorem bucket_kept_under_reader :
    let c : Cfg := { currentCfg with kvCacheReleasesOnEvict := false }
    let nd := run c {} [.tagValue 0 7, .tagValue 1 7, .metaPrepare, .metaFlush, .tagValue 0 9, .metaPrepare, .metaFlush]
    (nd.bucketReleaseRace c 0 7 1).2 = .id 0 := by decide

end Neg

/-- what holds for a bucket cache that releases on eviction / that does not -/
def BucketReleaseVerdict : Bool → Prop
  | true =>
      let c : Cfg := { currentCfg with kvCacheReleasesOnEvict := true }
      let nd := run c {} [.tagValue 0 7, .tagValue 1 7, .metaPrepare, .metaFlush, .tagValue 0 9, .metaPrepare, .metaFlush]
      (nd.bucketReleaseRace c 0 7 1).2 = .id 1 ∧ (nd.genTagValueID c 0 7).2 = .id 0
  | false => ∀ (c : Cfg), c.kvCacheReleasesOnEvict = false → ∀ (nd : Node) (tk v other : Nat),
      nd.bucketReleaseRace c tk v other = nd.genTagValueID c tk v

/-- **bucket_release_verdict**: decided for the eviction callback /repo's `NewIndexKVStore` has now (regenerated
fact `kvNewStoreEvictCalls`) -/
theorem bucket_release_verdict : BucketReleaseVerdict currentCfg.kvCacheReleasesOnEvict := by
  cases h : currentCfg.kvCacheReleasesOnEvict with
  | true => exact Neg.bucket_released_under_reader
  | false =>
    intro c hc nd tk v other
    unfold Node.bucketReleaseRace
    rw [hc]; rfl

/-- the callback is read from the source: either it calls `value.Release` and nothing else, or there is none -/
theorem bucket_release_tie :
    (C09.kvNewStoreEvictCalls = ["value.Release"] ∧ currentCfg.kvCacheReleasesOnEvict = true) ∨
    (C09.kvNewStoreEvictCalls = [] ∧ currentCfg.kvCacheReleasesOnEvict = false) := by decide

end LinVerif.Props.C09
