import LinVerif.Model.IdAssignCfg
namespace LinVerif.Props.C09
theorem placeholder : (1 : Nat) + 1 = 2 := rfl
end LinVerif.Props.C09
