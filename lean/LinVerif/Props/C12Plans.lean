/-
C12 (round 12) — a root whose nodes are spread over SEVERAL physical plans.

`RootMetricContext.MakePlan` calls `addRequests` once per physical plan returned by `Choose`; the
counters `expectResults` / `tolerantNotFounds` are incremented per TARGET, so the context after
`MakePlan` depends on the total number of targets only: in which plan a node sits is invisible to
`handleResponse` / `checkError` / `tryClose`, and every theorem stated for `Ctx.new n` holds for every
split of the n targets over plans.  Model `LinVerif/Model/C12Plans.lean`.
-/
import LinVerif.Model.C12Plans
import LinVerif.Props.C12
import LinVerif.Generated.C12

namespace LinVerif.Props.C12
open LinVerif.RootMerge

theorem addTargets_eq (k : Nat) : ∀ c : Ctx,
    c.addTargets k = { c with expect := c.expect + k, tolerant := c.tolerant + k } := by
  induction k with
  | zero => intro c; simp [Ctx.addTargets]
  | succ k ih =>
    intro c
    simp only [Ctx.addTargets, ih, Ctx.addTarget]
    congr 1 <;> push_cast <;> omega

theorem foldl_addRequests_perTarget (ks : List Nat) : ∀ c : Ctx,
    ks.foldl (Ctx.addRequests .perTarget) c =
      { c with expect := c.expect + ks.sum, tolerant := c.tolerant + ks.sum } := by
  induction ks with
  | nil => intro c; simp
  | cons k ks ih =>
    intro c
    simp only [List.foldl_cons, Ctx.addRequests, addTargets_eq, ih, List.sum_cons]
    congr 1 <;> push_cast <;> omega

/-- **plans_eq_single_plan**: for EVERY list of physical plans (any number of plans, any number of
targets each, empty plans included) the context `MakePlan` leaves is the context of ONE plan with all
the targets. -/
theorem plans_eq_single_plan (ks : List Nat) : Ctx.newPlans .perTarget ks = Ctx.new ks.sum := by
  simp [Ctx.newPlans, foldl_addRequests_perTarget, Ctx.empty, Ctx.new]

/-- **plan_split_irrelevant**: two splits of the same number of targets over plans, ANY schedule of
responses and plan-completion callbacks: same context (so same `WaitResponse` outcome). -/
theorem plan_split_irrelevant (ks ks' : List Nat) (h : ks.sum = ks'.sum) (keep : Bool) (v : Variant)
    (evs : List Event) :
    (Ctx.newPlans .perTarget ks).run keep v evs = (Ctx.newPlans .perTarget ks').run keep v evs := by
  rw [plans_eq_single_plan, plans_eq_single_plan, h]

/-- **notfound_tolerance_plans**: `notfound_tolerance` for a root with any split of its targets over
plans: no failing response and at least one target that is not a not-found ⇒ done, no error, data =
handling the found responses alone. -/
theorem notfound_tolerance_plans (v : Variant) (ks : List Nat) (rs : List Resp)
    (hlen : rs.length = ks.sum)
    (hf : ∀ r ∈ rs, isFailure r = false) (hex : ∃ r ∈ rs, r ≠ .notFound) :
    let c := (Ctx.newPlans .perTarget ks).handleAll v rs
    let found := rs.filter (fun r => r != .notFound)
    let c' := (Ctx.new found.length).handleAll v found
    c.done = true ∧ c.err = none ∧ c'.done = true ∧ c'.err = none ∧ c.data = c'.data := by
  rw [plans_eq_single_plan, ← hlen]
  exact notfound_tolerance v rs hf hex

/-- every target of every plan answers not-found ⇒ the query fails with that error -/
theorem all_notfound_is_error_plans (v : Variant) (ks : List Nat) (n : Nat) (h : ks.sum = n + 1) :
    let c := (Ctx.newPlans .perTarget ks).handleAll v (List.replicate (n + 1) .notFound)
    c.done = true ∧ c.err = some .notFound := by
  rw [plans_eq_single_plan, h]
  exact all_notfound_is_error v n

/-- what the "tidied" `addRequests` (`expectResults += len; tolerantNotFounds = len`) leaves: all
targets expected, but only the LAST plan's size tolerated — for every list of plans -/
theorem assigned_tolerance_is_last_plan (ks : List Nat) (k : Nat) :
    (Ctx.newPlans .assignTolerance (ks ++ [k])).tolerant = k ∧
    (Ctx.newPlans .assignTolerance (ks ++ [k])).expect = ((ks ++ [k]).sum : Nat) := by
  have hexp : ∀ (l : List Nat) (c : Ctx),
      (l.foldl (Ctx.addRequests .assignTolerance) c).expect = c.expect + (l.sum : Nat) := by
    intro l
    induction l with
    | nil => intro c; simp
    | cons a l ih => intro c; simp only [List.foldl_cons, ih, Ctx.addRequests, List.sum_cons]; push_cast; omega
  refine ⟨?_, ?_⟩
  · simp [Ctx.newPlans, List.foldl_append, Ctx.addRequests]
  · rw [Ctx.newPlans, hexp]; simp [Ctx.empty]

namespace Neg

/-- data response with nothing in it (`len(AggregatorSpecs) == 0`: early return) -/
def emptyOk : Resp := .ok { cap := 0, specs := [], series := [] }

/-- the c12-25 shape: nodes n1, n2 answer, n3 answers "metric not found". In one plan `[n1,n2,n3]`
the not-found is tolerated; with the assigned tolerance and plans `[[n1,n3],[n2]]` the same three
answers make the query fail: the outcome depends on the placement of nodes into plans. -/
theorem assigned_tolerance_depends_on_plan_split :
    ((Ctx.newPlans .assignTolerance [3]).handleAll .code [emptyOk, emptyOk, .notFound]).err = none ∧
    ((Ctx.newPlans .assignTolerance [2, 1]).handleAll .code [emptyOk, emptyOk, .notFound]).err
      = some .notFound ∧
    ((Ctx.newPlans .perTarget [2, 1]).handleAll .code [emptyOk, emptyOk, .notFound]).err = none := by
  refine ⟨?_, ?_, ?_⟩ <;> decide

end Neg

/-- non-vacuity: three plans, five targets, a not-found among data answers -/
example : (Ctx.newPlans .perTarget [2, 0, 3]).expect = 5 ∧ (Ctx.newPlans .perTarget [2, 0, 3]).tolerant = 5 ∧
    ((Ctx.newPlans .perTarget [2, 0, 3]).handleAll .code
      [Neg.emptyOk, .notFound, Neg.emptyOk, .notFound, Neg.emptyOk]).done = true := by
  refine ⟨?_, ?_, ?_⟩ <;> decide

open LinVerif.Generated.C12 in
/-- tie: `addRequests` statement by statement — both counters are incremented inside the loop over
the plan's targets and nowhere else; the driver runs `newp` with the count read from the source -/
theorem generated_addRequests :
    addRequestsSteps = ["ctx.mutex.Lock()", "defer ctx.mutex.Unlock()", "for range physicalPlan.Targets",
      "  ctx.expectResults++", "  ctx.tolerantNotFounds++", "  ctx.requests[target.Indicator] = req",
      "  ctx.state[target.Indicator] = models.Init"] ∧
    addRequestsPerTarget = true := by decide

/-- the plan-split theorems are about the source as read -/
theorem current_plan_split_irrelevant (ks ks' : List Nat) (h : ks.sum = ks'.sum) (keep : Bool) (v : Variant)
    (evs : List Event) :
    let pc := if Generated.C12.addRequestsPerTarget then PlanCount.perTarget else PlanCount.assignTolerance
    (Ctx.newPlans pc ks).run keep v evs = (Ctx.newPlans pc ks').run keep v evs := by
  have : Generated.C12.addRequestsPerTarget = true := generated_addRequests.2
  simp only [this, if_true]
  exact plan_split_irrelevant ks ks' h keep v evs

end LinVerif.Props.C12
