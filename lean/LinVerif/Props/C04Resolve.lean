/-
C04 — "… in the target family and segment that contain those timestamps … exactly once": WHICH target
object a rollup run writes into, for histories in which target stores are closed (segment eviction) and
created again while the source family objects live on.

Model: Model/C04Resolve.lean (`World`: registry of target stores with object generations + the bookkeeping
`St`; `World.resolve false` = the per-run lookup `GetStoreManager().GetStoreByName` → `CreateFamily` →
`newRollup` of `family.rollup()`; `World.resolve true` = a target cached in the source family object, the
shape of seeded change c04-18). Lemmas: Lemmas/C04Resolve.lean.
-/
import LinVerif.Generated.C04
import LinVerif.Lemmas.C04Resolve
import LinVerif.Props.C04Snap
import Mathlib.Data.List.Count

set_option linter.unusedSimpArgs false
namespace LinVerif.Props.C04
open LinVerif.Rollup LinVerif.Lemmas.C04

/-! ## tie -/

/-- `family.rollup()` resolves store, family and rollup object by statements standing directly in the body
of the loop over `rollupMap` — on every run, for every interval — and calls `doRollupWork` on exactly
these; `struct family` has no field that could keep a Family / Store / Rollup object besides its own
store. This is `World.resolve false`. -/
theorem tie_target_resolution :
    Generated.C04.rollupResolvesTargetPerRun = true ∧
    Generated.C04.rollupLoopDefs =
      ["segmentName := targetInterval.Calculator().GetSegment(familyStartTime)",
       "targetStoreName := filepath.Join(baseDir, targetInterval.Type().String(), segmentName)",
       "targetStore, ok := GetStoreManager().GetStoreByName(targetStoreName)",
       "tSegmentTime := targetInterval.Calculator().CalcSegmentTime(familyStartTime)",
       "tFamilyTime := targetInterval.Calculator().CalcFamily(familyStartTime, tSegmentTime)",
       "fSTime := targetInterval.Calculator().CalcFamilyStartTime(tSegmentTime, tFamilyTime)",
       "targetFamily, err := targetStore.CreateFamily(strconv.Itoa(tFamilyTime), f.option)",
       "rollup := newRollup(sourceInterval, targetInterval, familyStartTime, fSTime)"] ∧
    Generated.C04.rollupWorkCall = "targetFamily.doRollupWork(f, rollup, files)" ∧
    Generated.C04.familyObjectFields = ["store: Store"] := by
  decide

/-! ## the resolved target is the registered object -/

/-- Per-run lookup: in EVERY state of the registry the object a run resolves for (family, interval) carries
the name the locating lines computed, is the object registered under that name, and is live (its manifest
is open); and the job can commit iff a store of that name is registered. -/
theorem resolved_target_is_registered (nameOf : Nat → Iv → TName) (w : World) (fam : Nat) (i : Iv) :
    (∀ o, w.resolve false nameOf fam i = some o → o.1 = nameOf fam i ∧ o ∈ w.reg ∧ w.live o = true)
    ∧ w.canCommit false nameOf fam i = (w.lookup (nameOf fam i)).isSome := by
  refine ⟨?_, canCommit_per_run nameOf w fam i⟩
  intro o h
  have h' : w.lookup (nameOf fam i) = some o := by simpa [World.resolve] using h
  exact ⟨lookup_name h', lookup_mem h', lookup_live h'⟩

/-! ## histories with evictions are histories of `once` -/

/-- Any history of flush / rollup (complete or cut + restart) / restart / CLOSE and RE-CREATION of target
stores, from the empty world: the bookkeeping it leaves is the bookkeeping of a history of `HOp`s
(`once_any_restarts`) in which every rollup run is available exactly for the intervals whose target store
is registered at the moment of the run. -/
theorem registry_history_is_history (nameOf : Nat → Iv → TName) (own : Iv → Nat) (ops : List WOp)
    (hp : ∀ o ∈ ops, ∀ f ∈ WOp.perms o, SameLogs f) :
    (World.run false nameOf own {} ops).st = St.init.runH true own (World.trace nameOf own {} ops) :=
  run_st_eq_trace nameOf own ops {} hp

theorem inv_world_run (nameOf : Nat → Iv → TName) (own : Iv → Nat) (ops : List WOp)
    (hp : ∀ o ∈ ops, ∀ f ∈ WOp.perms o, SameLogs f) :
    Inv (World.run false nameOf own {} ops).st := by
  rw [registry_history_is_history nameOf own ops hp]
  apply inv_runH own _ _ St.init Inv.init
  intro f hf
  obtain ⟨o, ho, hfo⟩ := trace_restart_perm nameOf own ops {} f hf
  exact hp o ho f hfo

/-- `once` for histories in which target stores are evicted and re-created any number of times at any
place while source families live on: nothing is merged twice, every registered pair with data is pending
or merged exactly once. -/
theorem once_with_target_evictions (nameOf : Nat → Iv → TName) (own : Iv → Nat) (ops : List WOp)
    (hp : ∀ o ∈ ops, ∀ f ∈ WOp.perms o, SameLogs f) :
    let σ := (World.run false nameOf own {} ops).st
    σ.merged.Nodup
    ∧ (∀ p, σ.merged.count p ≤ 1)
    ∧ (∀ p ∈ σ.registered, p.1 ∈ σ.l0 → p ∈ σ.pending ∨ σ.merged.count p = 1) := by
  intro σ
  have h : Inv σ := inv_world_run nameOf own ops hp
  refine ⟨h.nodup, fun p => List.nodup_iff_count_le_one.1 h.nodup p, ?_⟩
  intro p hp' hl
  rcases h.live p hp' hl with h1 | h1
  · exact Or.inl h1
  · exact Or.inr (List.count_eq_one_of_mem h.nodup h1)

/-- After ANY such history: if the target stores of family `fam` for the intervals `ivs` are registered
NOW (however often they were closed and re-created before, whatever earlier runs of this family object
resolved), one complete run leaves no rollup mark of the family for these intervals and every registered
file with data is merged into each of them exactly once. This is the statement the cached shape breaks. -/
theorem rollup_drains_into_registered_targets (nameOf : Nat → Iv → TName) (own : Iv → Nat) (ops : List WOp)
    (hp : ∀ o ∈ ops, ∀ f ∈ WOp.perms o, SameLogs f) (fam : Nat) (ivs dvs : List Iv) :
    let w := World.run false nameOf own {} ops
    (∀ i ∈ ivs, (w.lookup (nameOf fam i)).isSome = true) →
    let w' := w.step false nameOf own (.rollup fam ivs ivs dvs none)
    (∀ p ∈ w'.st.pending, ¬ (p.1.1 = fam ∧ p.2 ∈ ivs))
    ∧ (∀ p ∈ w'.st.registered, p.1 ∈ w'.st.l0 → p.1.1 = fam → p.2 ∈ ivs → w'.st.merged.count p = 1)
    ∧ w'.st.merged.Nodup := by
  intro w hreg w'
  have h0 : Inv w.st := inv_world_run nameOf own ops hp
  have hav : ivs.filter (fun i => decide (i ∈ ivs) && w.canCommit false nameOf fam i) = ivs := by
    apply List.filter_eq_self.2
    intro i hi
    rw [canCommit_per_run, hreg i hi]
    simp [hi]
  have hst : w'.st = w.st.step (.rollup fam ivs ivs dvs none) := by
    show (World.step false nameOf own w (.rollup fam ivs ivs dvs none)).st = _
    simp only [World.step, hav]
  obtain ⟨h3, hpend, hcnt⟩ := drains_of_inv w.st h0 fam ivs ivs dvs
  rw [hst]
  refine ⟨?_, ?_, h3.nodup⟩
  · intro p hp' ⟨a, b⟩; exact hpend p hp' ⟨a, b, b⟩
  · intro p hp' hl hf hi; exact hcnt p hp' hl hf hi hi

/-! ## non-vacuity: eviction + re-creation between two rollups of one source family -/

/-- flush, rollup, the month store is closed and created again (generation 0 → 1), flush, rollup: both
files merged exactly once, nothing pending; a rollup while the store is closed keeps the marks -/
example :
    let nameOf : Nat → Iv → TName := fun _ i => (i, 0)
    let w := World.run false nameOf (fun _ => 0) {}
      [.topen (300000, 0) id, .flush 1 2 true [300000], .rollup 1 [300000] [300000] [300000] none,
       .tclose (300000, 0), .flush 1 3 true [300000], .rollup 1 [300000] [300000] [300000] none]
    let w2 := World.run false nameOf (fun _ => 0) w
      [.topen (300000, 0) id, .rollup 1 [300000] [300000] [300000] none]
    w.st.pending = [((1, 3), 300000)] ∧ w.reg = []
    ∧ w2.reg = [((300000, 0), 1)] ∧ w2.st.pending = []
    ∧ w2.st.merged = [((1, 2), 300000), ((1, 3), 300000)] := by decide

example : SameLogs id := fun _ _ => Iff.rfl

namespace Neg

/-- (seeded c04-18's shape) the source family object keeps the target it resolved first
(`World.resolve true`). flush, rollup (fills the cache with generation 0), the target store is closed and
created again (the registered object is generation 1), flush, rollup: the run resolves the DEAD object of
generation 0, its commit fails, the rollup mark of file (1,3) stays — and it stays in every later run of
this family object, although a store of the right name is registered. The per-run lookup on the same
history merges the file exactly once. -/
theorem cached_target_is_dead_after_eviction :
    let nameOf : Nat → Iv → TName := fun _ i => (i, 0)
    let ops : List WOp :=
      [.topen (300000, 0) id, .flush 1 2 true [300000], .rollup 1 [300000] [300000] [300000] none,
       .tclose (300000, 0), .topen (300000, 0) id,
       .flush 1 3 true [300000], .rollup 1 [300000] [300000] [300000] none,
       .rollup 1 [300000] [300000] [300000] none]
    let wc := World.run true nameOf (fun _ => 0) {} ops
    let wp := World.run false nameOf (fun _ => 0) {} ops
    (wc.lookup (300000, 0)).isSome = true
    ∧ wc.resolve true nameOf 1 300000 = some ((300000, 0), 0) ∧ wc.live ((300000, 0), 0) = false
    ∧ wc.st.pending = [((1, 3), 300000)] ∧ wc.st.merged.count ((1, 3), 300000) = 0
    ∧ wp.resolve false nameOf 1 300000 = some ((300000, 0), 1) ∧ wp.live ((300000, 0), 1) = true
    ∧ wp.st.pending = [] ∧ wp.st.merged.count ((1, 3), 300000) = 1 := by
  decide

end Neg

end LinVerif.Props.C04
