/-
C12 (round 12) — the leaf pipeline's glue.

(1) `shardScanStage.NextStages` hands every roaring container of the filtered series ids to exactly one
    stage together with ITS high key: the stages' lookups cover exactly the matched series, wherever
    in the id space they sit (a shard with more than 65536 series of the metric — whether that happens
    depends on how many series the routing hash sends to the shard).
(2) A shard whose scan plan ends in `ErrNotFound` at an ignore-node (no series with data carries the
    group-by tag key; nothing matches; …) does not change what the node answers from its other shards,
    as long as the error chain reaches `errors.Is` (`%w`); an error re-formatted with `%s` turns the
    whole node into a "not found" node.
Model `LinVerif/Model/C12LeafGlue.lean`.
-/
import LinVerif.Model.C12LeafGlue
import LinVerif.Generated.C12

namespace LinVerif.Props.C12
open LinVerif.LeafGlue

theorem containerAt_append (pre : Bitmap) (p : Nat × List Nat) (suf : Bitmap) :
    containerAt (pre ++ p :: suf) pre.length = p.2 := by
  simp [containerAt]

theorem nextStagesLoop_eq (pre : Bitmap) : ∀ (suf : Bitmap) (pre : Bitmap),
    nextStagesLoop .keyAtIndex (pre ++ suf) pre.length (highKeys suf)
      = suf.map (fun p => ({ highKey := p.1, lows := p.2 } : DataLoad)) := by
  intro suf
  induction suf with
  | nil => intro pre; simp [highKeys, nextStagesLoop]
  | cons p suf ih =>
    intro pre
    have h := ih (pre ++ [p])
    simp only [List.append_assoc, List.singleton_append, List.length_append, List.length_cons,
      List.length_nil, Nat.zero_add] at h
    simp only [highKeys, List.map_cons, nextStagesLoop, containerAt_append]
    simp only [highKeys] at h
    rw [h]

/-- **next_stages_one_per_container**: for EVERY bitmap (any number of containers, any high keys —
not contiguous, not starting at 0) the stages are the containers, each with its own high key. -/
theorem next_stages_one_per_container (bm : Bitmap) :
    nextStages .keyAtIndex bm = bm.map (fun p => ({ highKey := p.1, lows := p.2 } : DataLoad)) := by
  have := nextStagesLoop_eq [] bm []
  simpa [nextStages] using this

/-- **next_stages_cover_matched_series**: the series ids the stages look up are exactly the members
of the filtered bitmap, in order. -/
theorem next_stages_cover_matched_series (bm : Bitmap) :
    (nextStages .keyAtIndex bm).flatMap DataLoad.ids = members bm := by
  rw [next_stages_one_per_container]
  simp [members, DataLoad.ids, List.flatMap_map]

/-- **next_stages_load_all_matched**: whatever the shard holds (`data`), what the stages load is what
the matched series have — so a shard that holds ALL series of a placement loads what the same series
load when they are spread over shards with small ids (C11: per-series results do not depend on ids). -/
theorem next_stages_load_all_matched {α : Type} (bm : Bitmap) (data : Nat → Option α) :
    loaded (nextStages .keyAtIndex bm) data = (members bm).filterMap data := by
  rw [next_stages_one_per_container]
  simp only [loaded, members, DataLoad.ids, List.flatMap_map]
  induction bm with
  | nil => simp
  | cons p bm ih => simp only [List.flatMap_cons, List.filterMap_append, ih]

namespace Neg

/-- the index stored as high key (c12-23): the matched series 65536..65538 of a shard with more than
65536 series are looked up as 0..2 — nothing of theirs is loaded, although the same series are found
when they sit in a smaller shard (ids 0..2). -/
theorem index_as_high_key_loses_high_containers :
    let data : Nat → Option Nat := fun id => if 65536 ≤ id then some (id - 65536) else none
    loaded (nextStages .index [(1, [0, 1, 2])]) data = [] ∧
    loaded (nextStages .keyAtIndex [(1, [0, 1, 2])]) data = [0, 1, 2] ∧
    nextStages .index [(0, [5]), (1, [0])] = nextStages .keyAtIndex [(0, [5]), (1, [0])] := by
  refine ⟨?_, ?_, ?_⟩ <;> decide

end Neg

/-! ## ignorable not-found -/

/-- every error a plan node of the shard's scan returns is `ErrNotFound` behind `%w` wrappers only,
and sits at an ignore-node -/
def Tolerable (n : PlanNode) : Prop := ∀ e, n.result = some e → n.ignore = true ∧ e.isNotFound = true

theorem execPlan_tolerable : ∀ (ns : List PlanNode), (∀ n ∈ ns, Tolerable n) → execPlan ns = none := by
  intro ns
  induction ns with
  | nil => intro _; rfl
  | cons n ns ih =>
    intro h
    have hn := h n List.mem_cons_self
    have hns := ih (fun m hm => h m (List.mem_cons_of_mem _ hm))
    cases hr : n.result with
    | none => simp [execPlan, hr, hns]
    | some e =>
      obtain ⟨hi, he⟩ := hn e hr
      simp [execPlan, hr, hi, he, hns]

/-- `%w` wrapping at any depth keeps an error ignorable -/
theorem wrapW_keeps_notFound (e : Err) (k : Nat) :
    (Nat.repeat Err.wrapW k e).isNotFound = e.isNotFound := by
  induction k with
  | zero => rfl
  | succ k ih => simpa [Nat.repeat, Err.isNotFound] using ih

/-- **shard_notfound_harmless**: a node with ANY number of shards, in any order, whose scan plans raise
nothing but chain-preserved `ErrNotFound` at ignore-nodes, answers the data of all its shards — a
shard that holds nothing for the query (its plan stops with not-found, its data is empty) never
changes what the node answers from the others. -/
theorem shard_notfound_harmless {α : Type} : ∀ (shards : List (Shard α)),
    (∀ s ∈ shards, ∀ n ∈ s.plan, Tolerable n) →
    nodeAnswer shards = .data (shards.flatMap (fun s => s.data)) := by
  intro shards
  induction shards with
  | nil => intro _; rfl
  | cons s ss ih =>
    intro h
    have hs := execPlan_tolerable s.plan (h s List.mem_cons_self)
    have hss := ih (fun t ht => h t (List.mem_cons_of_mem _ ht))
    simp [nodeAnswer, hs, hss]

/-- corollary in placement terms: inserting shards without data anywhere in the node -/
theorem empty_shard_harmless {α : Type} (before after : List (Shard α)) (e : Shard α)
    (he : e.data = [])
    (h : ∀ s ∈ before ++ e :: after, ∀ n ∈ s.plan, Tolerable n) :
    nodeAnswer (before ++ e :: after) = nodeAnswer (before ++ after) := by
  rw [shard_notfound_harmless _ h,
    shard_notfound_harmless _ (fun s hs => h s (by
      rcases List.mem_append.mp hs with h1 | h1
      · exact List.mem_append_left _ h1
      · exact List.mem_append_right _ (List.mem_cons_of_mem _ h1)))]
  simp [he]

namespace Neg

/-- c12-24's mechanism: the not-found of a shard whose series lack the group-by key, re-formatted with
`%s`, is no longer ignorable; the node — which holds data in its other shard — answers an error whose
TEXT still says "not found", and the root drops the node as "without data". -/
theorem reformatted_notfound_drops_the_node :
    let keyless : Shard Nat := { plan := [⟨true, none⟩, ⟨true, some (.wrapS .notFound)⟩], data := [] }
    let good : Shard Nat := { plan := [⟨true, none⟩, ⟨true, none⟩], data := [7, 8] }
    let keyless' : Shard Nat := { plan := [⟨true, none⟩, ⟨true, some (.wrapW .notFound)⟩], data := [] }
    (match nodeAnswer [keyless, good] with | .notFound => true | _ => false) = true ∧
    (match nodeAnswer [keyless', good] with | .data [7, 8] => true | _ => false) = true := by
  refine ⟨?_, ?_⟩ <;> decide

end Neg

/-- non-vacuity: a three-container bitmap with a gap in the high keys, a node with a tolerable shard -/
example : nextStages .keyAtIndex [(0, [1, 2]), (2, [0]), (5, [9])] =
    [⟨0, [1, 2]⟩, ⟨2, [0]⟩, ⟨5, [9]⟩] ∧
    Tolerable ⟨true, some (.wrapW (.wrapW .notFound))⟩ ∧ ¬ Tolerable ⟨true, some (.wrapS .notFound)⟩ := by
  refine ⟨by decide, ?_, ?_⟩
  · intro e he; cases he; exact ⟨rfl, rfl⟩
  · intro h; have := (h _ rfl).2; simp [Err.isNotFound] at this

open LinVerif.Generated.C12 in
/-- tie: NextStages ranges over the high keys and stores `highKeys[idx]` / `GetContainerAtIndex(idx)`
(local names resolved by the extractor) -/
theorem generated_next_stages :
    nextStagesRange = "stage.shardExecuteCtx.SeriesIDsAfterFiltering.GetHighKeys()" ∧
    nextStagesHighKey = "stage.shardExecuteCtx.SeriesIDsAfterFiltering.GetHighKeys()[IDX]" ∧
    nextStagesContainer = "stage.shardExecuteCtx.SeriesIDsAfterFiltering.GetContainerAtIndex(IDX)" := by
  decide

open LinVerif.Generated.C12 in
/-- tie: the swallow rule of `baseStage.execute`, the ignore-nodes of the shard scan plan, what their
operators return, and that none of them builds an error that cuts the chain -/
theorem generated_stage_ignore :
    stageIgnoreCond = "node.IgnoreNotFound() && errors.Is(err, constants.ErrNotFound)" ∧
    shardScanIgnoreOps = ["operator.NewSeriesFiltering", "operator.NewMetricAllSeries",
      "operator.NewDataFamilyRead", "operator.NewGroupingContextBuild", "operator.NewSeriesLimit"] ∧
    ignoreOpReturns = ["seriesFiltering: return op.err", "seriesFiltering: return nil",
      "metricAllSeries: return err", "metricAllSeries: return nil", "dataFamilyRead: return err",
      "dataFamilyRead: return nil", "groupingContextBuild: return nil",
      "groupingContextBuild: return op.shard.IndexDB().GetGroupingContext(op.executeCtx)",
      "seriesLimit: return nil", "seriesLimit: return constants.ErrTooManySeriesFound",
      "seriesLimit: return nil"] ∧
    ignoreOpChainCuts = [] := by decide

end LinVerif.Props.C12
