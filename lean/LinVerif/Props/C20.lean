/-
C20 — the on-disk string dictionary behaves like a sorted map: property theorems.

Layer 1 (this part): the compressed trie as a tree built by the recursion of `buildNodes`
(`LinVerif.TrieTree.build`), queried by tree versions of `trie.Get`, the iterator, `Seek` and
the prefix iterator. All theorems quantify over every strictly sorted list of byte-string keys
with values (`Buildable`) and every probe key / prefix.
-/
import LinVerif.Lemmas.C20Get
import LinVerif.Lemmas.C20SeekList
import LinVerif.Lemmas.C20Merge
import LinVerif.Lemmas.C20Blocks
import LinVerif.Lemmas.C20Collect
import LinVerif.Lemmas.C20Bits
import LinVerif.Lemmas.C20Louds
import LinVerif.Lemmas.C20LoudsGet
import LinVerif.Lemmas.C20Wire
import LinVerif.Lemmas.C20IterMachine
import LinVerif.Lemmas.C20SeekMachine
import LinVerif.Lemmas.C20Reuse
import LinVerif.Lemmas.C20PrevMachine
import LinVerif.Lemmas.C20Walk
import LinVerif.Lemmas.C20WireErr
import LinVerif.Lemmas.C20BucketWire
import LinVerif.Lemmas.C20Words
import LinVerif.Model.Louds
import LinVerif.Model.TrieBucket
import LinVerif.Generated.C20

set_option linter.unusedSimpArgs false
set_option linter.unusedVariables false

namespace LinVerif.Props.C20
open LinVerif.TrieTree LinVerif.Lemmas.C20

/-- `Build` does not panic on a buildable input -/
theorem build_total {kvs : List KV} (h : Buildable kvs) : ∃ t, build kvs = some t := by
  obtain ⟨t, ht, _⟩ := build_spec h
  exact ⟨t, ht⟩

/-- **ordered iteration** = the sorted pair list -/
theorem iter_eq_sorted {kvs : List KV} {t : Node} (h : Buildable kvs) (ht : build kvs = some t) :
    iter t = kvs := by
  obtain ⟨t', ht', hit, _⟩ := build_spec h
  rw [ht] at ht'; cases ht'; exact hit

/-- **exact lookup** = sorted-map lookup, for every probe key (present ⇒ its value, absent ⇒
none; proper prefixes / extensions of present keys, the empty key, bytes 0x00/0xff included), for
both source variants of the terminator test (`eon`, see `getNode`).
`_partial`: for the test as it is in the code today (`eon = false`) the key set {"\xff"} is
excluded — there `Get("")` answers the value of "\xff" (`Neg.get_empty_key_on_single_ff`). -/
theorem get_eq_lookup_partial {kvs : List KV} {t : Node} (eon : Bool) (h : Buildable kvs) (ht : build kvs = some t)
    (hff : eon = false → ∀ v, kvs ≠ [([255], v)]) (key : Key) : getNode eon t key = lookup key kvs := by
  obtain ⟨t', ht', hit, hwf, hno⟩ := build_spec h
  rw [ht] at ht'; cases ht'
  have := getNode_spec eon t [] key hwf (fun he => hno (hff he))
  rw [show iterNode [] t = kvs from hit] at this
  simpa using this

/-- **exact lookup** at full strength for the repaired `Get`
(fixes/C20-get-terminator-not-end-of-node.patch) -/
theorem get_eq_lookup {kvs : List KV} {t : Node} (h : Buildable kvs) (ht : build kvs = some t) (key : Key) :
    getNode true t key = lookup key kvs :=
  get_eq_lookup_partial true h ht (fun e => absurd e (by simp)) key

/-- … and for whichever variant /repo's source has now (regenerated fact) -/
theorem get_current_source {kvs : List KV} {t : Node} (h : Buildable kvs) (ht : build kvs = some t)
    (hff : Generated.C20.getChecksEndOfNode = false → ∀ v, kvs ≠ [([255], v)]) (key : Key) :
    getNode Generated.C20.getChecksEndOfNode t key = lookup key kvs :=
  get_eq_lookup_partial _ h ht hff key

theorem lookup_mem {kvs : List KV} (hs : Sorted kvs) {k : Key} {v : Nat} (hm : (k, v) ∈ kvs) :
    lookup k kvs = some v := by
  induction kvs with
  | nil => simp at hm
  | cons x xs ih =>
    obtain ⟨xk, xv⟩ := x
    rcases List.mem_cons.1 hm with e | hm
    · cases e; exact lookup_cons_eq
    · have hlt := hs.head_lt (k, v) hm
      rw [lookup_cons_ne (keyLt_ne hlt)]
      exact ih hs.tail hm

theorem lookup_not_mem {kvs : List KV} {k : Key} (hm : ∀ v, (k, v) ∉ kvs) : lookup k kvs = none := by
  apply lookup_none_of_ne
  intro kv hkv e
  exact hm kv.2 (by rw [← e]; exact hkv)

/-- a present key is found with its value -/
theorem get_present_partial {kvs : List KV} {t : Node} (eon : Bool) (h : Buildable kvs) (ht : build kvs = some t)
    (hff : eon = false → ∀ v, kvs ≠ [([255], v)]) {k : Key} {v : Nat} (hm : (k, v) ∈ kvs) :
    getNode eon t k = some v := by
  rw [get_eq_lookup_partial eon h ht hff, lookup_mem ((sortedKeys_iff kvs).1 h.sorted) hm]

/-- an absent key (e.g. a proper prefix or an extension of a present key) is reported absent -/
theorem get_absent_partial {kvs : List KV} {t : Node} (eon : Bool) (h : Buildable kvs) (ht : build kvs = some t)
    (hff : eon = false → ∀ v, kvs ≠ [([255], v)]) {k : Key} (hm : ∀ v, (k, v) ∉ kvs) :
    getNode eon t k = none := by
  rw [get_eq_lookup_partial eon h ht hff, lookup_not_mem hm]

/-- **seek**, as the code is: `Iterator.Seek(key)` puts the iterator on the lower bound of `key`
or exactly one key before it (on the greatest key smaller than `key`). -/
theorem seek_lowerBound_or_predecessor {kvs : List KV} {t : Node} (h : Buildable kvs) (ht : build kvs = some t)
    (key : Key) :
    (seek t key).2 = lowerBound key kvs ∨
      ∃ x, keyLt x.1 key = true ∧ (seek t key).2 = x :: lowerBound key kvs := by
  obtain ⟨t', ht', hit, hwf, _⟩ := build_spec h
  rw [ht] at ht'; cases ht'
  have := seekNode_spec t [] key hwf
  simp only [List.nil_append] at this
  have hc := seekOK_cases this
  rw [show iterNode [] t = kvs from hit] at hc
  exact hc

/-- **seek = lower bound**, `_partial`: whenever the landing key is not smaller than the probe
(the full-strength statement without this hypothesis is false: `Neg.seek_not_lowerBound`) -/
theorem seek_eq_lowerBound_partial {kvs : List KV} {t : Node} (h : Buildable kvs) (ht : build kvs = some t)
    (key : Key) (hge : ∀ x, (seek t key).2.head? = some x → keyLt x.1 key = false) :
    (seek t key).2 = lowerBound key kvs := by
  rcases seek_lowerBound_or_predecessor h ht key with h1 | ⟨x, hx, h1⟩
  · exact h1
  · have := hge x (by rw [h1]; rfl)
    rw [this] at hx; exact absurd hx (by simp)

/-- **seek = lower bound** at full strength for the repaired `Seek` (fixes/C20-seek-lower-bound.patch:
one more `Next()` when the landing key is smaller than the probe) -/
theorem seek_eq_lowerBound {kvs : List KV} {t : Node} (h : Buildable kvs) (ht : build kvs = some t)
    (key : Key) : seekLB t key = lowerBound key kvs := by
  obtain ⟨t', ht', hit, hwf, _⟩ := build_spec h
  rw [ht] at ht'; cases ht'
  have := seekNode_spec t [] key hwf
  simp only [List.nil_append] at this
  have hlb := seekOK_lowerBound this
  rw [show iterNode [] t = kvs from hit] at hlb
  rw [hlb]
  unfold seekLB seek advance
  cases (seekNode [] t key).2 <;> rfl

/-- … and for whichever variant of `Seek` /repo's source has now: with the conditional step it
is the lower bound, without it the lower bound or its predecessor -/
theorem seek_current_source {kvs : List KV} {t : Node} (h : Buildable kvs) (ht : build kvs = some t) (key : Key) :
    (Generated.C20.seekStepsToLowerBound = true →
      (seekCur Generated.C20.seekStepsToLowerBound t key).2 = lowerBound key kvs) ∧
    (Generated.C20.seekStepsToLowerBound = false →
      ((seekCur Generated.C20.seekStepsToLowerBound t key).2 = lowerBound key kvs ∨
        ∃ x, keyLt x.1 key = true ∧
          (seekCur Generated.C20.seekStepsToLowerBound t key).2 = x :: lowerBound key kvs)) := by
  constructor
  · intro e
    rw [e]
    simp only [seekCur, if_true]
    exact seek_eq_lowerBound h ht key
  · intro e
    rw [e]
    simp only [seekCur, Bool.false_eq_true, if_false]
    exact seek_lowerBound_or_predecessor h ht key

/-- **prefix enumeration** = the pairs of the sorted map whose key has the prefix, in order (for
both variants of `Seek`: the prefix iterator hides the early landing) -/
theorem prefix_iter_eq_filter {kvs : List KV} {t : Node} (step : Bool) (h : Buildable kvs) (ht : build kvs = some t)
    (p : Key) : prefixIter step t p = withPrefix p kvs := by
  obtain ⟨t', ht', hit, hwf, _⟩ := build_spec h
  rw [ht] at ht'; cases ht'
  have hs := seekNode_spec t [] p hwf
  simp only [List.nil_append] at hs
  have hL : iterNode [] t = kvs := hit
  rw [hL] at hs
  have hadv : seekLB t p = advance p (seekNode [] t p).2 := by
    unfold seekLB seek advance
    cases (seekNode [] t p).2 <;> rfl
  unfold prefixIter withPrefix seekCur
  cases p with
  | nil =>
    simp only [List.isEmpty_nil, if_true]
    have hall : kvs = kvs.filter (fun kv => hasPrefix [] kv.1) := by
      symm
      apply List.filter_eq_self.2
      intro kv _
      simp [hasPrefix]
    cases step with
    | false =>
      simp only [Bool.false_eq_true, if_false, seek]
      rw [seekOK_nil hs]; exact hall
    | true =>
      simp only [if_true]
      rw [hadv, advance_nil_probe, seekOK_nil hs]; exact hall
  | cons c p' =>
    simp only [List.isEmpty_cons, Bool.false_eq_true, if_false]
    cases step with
    | false =>
      simp only [Bool.false_eq_true, if_false, seek]
      exact seekOK_prefix ((sortedKeys_iff kvs).1 h.sorted) hs
    | true =>
      simp only [if_true]
      rw [hadv]
      exact seekOK_prefix_advance ((sortedKeys_iff kvs).1 h.sorted) hs

/-- the prefix iterator yields EXACTLY the pairs whose key has the prefix — for every prefix: empty,
equal to a key, longer than every key, ending in one or several 0xff bytes (where the terminator
label collides with a real label), … -/
theorem prefix_iter_mem_iff {kvs : List KV} {t : Node} (step : Bool) (h : Buildable kvs) (ht : build kvs = some t)
    (p : Key) (kv : KV) : kv ∈ prefixIter step t p ↔ kv ∈ kvs ∧ hasPrefix p kv.1 = true := by
  rw [prefix_iter_eq_filter step h ht p]
  simp [withPrefix, List.mem_filter]

/-- … in the order of the sorted map, each once -/
theorem prefix_iter_sorted {kvs : List KV} {t : Node} (step : Bool) (h : Buildable kvs) (ht : build kvs = some t)
    (p : Key) : Sorted (prefixIter step t p) := by
  rw [prefix_iter_eq_filter step h ht p]
  exact List.Pairwise.filter _ ((sortedKeys_iff kvs).1 h.sorted)

/-- the `skipEnd := groupEnd + 4` shortcut of the group scan is sound on sorted labels … -/
theorem scan_shortcut_sound (cur : Nat) (labels : List Nat) (hmono : labels.Pairwise (· ≤ ·))
    (hlo : ∀ l ∈ labels, cur ≤ l) : scanGroup cur labels = (labels.takeWhile (· == cur)).length :=
  scanGroup_eq cur labels hmono hlo

/-! ### trie buckets (index/model, index/v1) -/
section Bucket
open LinVerif.TrieBucket

/-- `TrieBucket.GetValue` over built tries with pairwise distinct keys = lookup in the sorted map
of all their pairs (`_partial` for the same reason as `get_eq_lookup_partial`) -/
theorem bucket_get_eq_lookup_partial (eon : Bool) {r : List Node} (hr : ∀ t ∈ r, Built t)
    (hd : DistinctKeys (r.flatMap iter)) (hff : eon = false → ∀ v, ([255], v) ∉ r.flatMap iter) (key : Key) :
    bucketGet eon r key = lookup key (sortKVs (r.flatMap iter)) := by
  rw [bucketGet_spec eon r key, lookup_perm hd (sortKVs_perm _).symm]
  intro t ht
  obtain ⟨kvs, hb, hbt⟩ := hr t ht
  rw [get_eq_lookup_partial eon hb hbt _ key, iter_eq_sorted hb hbt]
  intro he v e
  refine hff he v (List.mem_flatMap.2 ⟨t, ht, ?_⟩)
  rw [iter_eq_sorted hb hbt, e]; exact List.mem_cons_self ..

/-- `TrieBucketBuilder.Write` (index/v1 `WriteKVs`): sorting, cutting into blocks of `blockSize`
keys and building one trie per block stores exactly the sorted pairs. The empty key needs
`blockSize ≥ 2` and a second key (else its block is the key set {""}: `Neg`). -/
theorem bucket_write_eq_sorted {bs : Nat} (hbs : 1 ≤ bs) {kvs : List KV} (hd : DistinctKeys kvs)
    (hb : bytesOK kvs = true) (hE : (∀ v, ([], v) ∉ kvs) ∨ (2 ≤ bs ∧ 2 ≤ kvs.length)) :
    ∃ r, buildAll (writeBlocks bs kvs) = some r ∧ (∀ t ∈ r, Built t) ∧ r.flatMap iter = sortKVs kvs :=
  builder_write_spec hbs hd ((bytesOK_iff kvs).1 hb) hE

/-- **the blocks partition the key list, for every size** (round 12). `TrieBucketBuilder.Write` as the
Go code computes it — `numBlocks` from `len/blockSize` and `len%blockSize`, then the slices
`kvs.Keys[i*blockSize : min(i*blockSize+blockSize, len)]` (`writeBlocksGo`: `numBlocksGo`, `blockBounds`,
`goSlice`, `blocksLoop`) — for EVERY key count and EVERY block size ≥ 1: no slice expression panics, the
blocks concatenated are exactly the sorted pairs (nothing dropped, nothing twice), there are
`⌈len/blockSize⌉` of them, none is empty or longer than `blockSize`, and every block but the last is full.
They are the `take`/`drop` blocks `writeBlocks` that the other bucket theorems are stated on. -/
theorem builder_blocks_partition {bs : Nat} (hbs : 1 ≤ bs) (kvs : List KV) :
    ∃ blocks, writeBlocksGo bs kvs = some blocks ∧ blocks = writeBlocks bs kvs ∧
      blocks.flatten = sortKVs kvs ∧
      blocks.length = numBlocksGo kvs.length bs ∧
      (∀ b ∈ blocks, b ≠ [] ∧ b.length ≤ bs) ∧ (∀ b ∈ blocks.dropLast, b.length = bs) := by
  have hlen : (sortKVs kvs).length = kvs.length := (sortKVs_perm kvs).length_eq
  refine ⟨writeBlocks bs kvs, writeBlocksGo_eq bs hbs kvs, rfl, ?_, ?_, ?_, ?_⟩
  · unfold writeBlocks
    exact chunks_flatten bs hbs _ _ (by rw [hlen]; exact Nat.le_refl _)
  · unfold writeBlocks
    rw [chunks_length bs hbs _ _ (by rw [hlen]; exact Nat.le_refl _), hlen]
  · intro b hb
    unfold writeBlocks at hb
    exact ⟨(chunks_mem bs hbs _ _ b hb).1, chunks_length_le bs _ _ b hb⟩
  · intro b hb
    unfold writeBlocks at hb
    exact chunks_dropLast_full bs hbs _ _ b hb

/-- the loop of `TrieBucketBuilder.Write` at any block index: started at block `i` with the count of
what is left, it walks exactly the blocks of the rest (the invariant behind `builder_blocks_partition`) -/
theorem builder_loop_invariant {bs : Nat} (hbs : 1 ≤ bs) (s : List KV) (i : Nat) (hi : i * bs ≤ s.length) :
    blocksLoop bs s (numBlocksGo (s.length - i * bs) bs) i = some (chunks bs s.length (s.drop (i * bs))) :=
  blocksLoop_eq_chunks bs hbs s s.length i hi (Nat.sub_le _ _)

/-- `TrieBucketBuilder.Write` end to end on the code's own arithmetic: the tries built from the blocks
the Go loop slices out hold exactly the sorted pairs (with `bucket_write_eq_sorted`) -/
theorem builder_write_go_eq_sorted {bs : Nat} (hbs : 1 ≤ bs) {kvs : List KV} (hd : DistinctKeys kvs)
    (hb : bytesOK kvs = true) (hE : (∀ v, ([], v) ∉ kvs) ∨ (2 ≤ bs ∧ 2 ≤ kvs.length)) :
    ∃ blocks r, writeBlocksGo bs kvs = some blocks ∧ buildAll blocks = some r ∧ (∀ t ∈ r, Built t) ∧
      r.flatMap iter = sortKVs kvs := by
  obtain ⟨r, h1, h2, h3⟩ := bucket_write_eq_sorted hbs hd hb hE
  exact ⟨_, r, writeBlocksGo_eq bs hbs kvs, h1, h2, h3⟩

/-- `blockSize = 0`: `len(keys) / b.blockSize` is an integer division by zero — the model answers
`none` (panic), never a default. No production caller passes 0 (the merger's `model.NewTrieBucket()` uses
`math.MaxUint16`, the index flusher a positive constant), so it is outside `builder_blocks_partition`. -/
theorem builder_blockSize_zero_panics (kvs : List KV) : writeBlocksGo 0 kvs = none := by
  simp [writeBlocksGo]

/-- non-vacuity at the sizes a "fold the small remainder" rewrite disagrees on: 9 keys, blockSize 8
(remainder = blockSize/8): a full block and a block of one; 17 keys: 8 + 8 + 1; 16 keys: no third block -/
example : blocksLoop 8 ((List.range 9).map (fun i => ([i], i))) (numBlocksGo 9 8) 0 =
    some [(List.range 8).map (fun i => ([i], i)), [([8], 8)]] := by decide
example : (blocksLoop 8 ((List.range 17).map (fun i => ([i], i))) (numBlocksGo 17 8) 0).map (·.map List.length) =
    some [8, 8, 1] := by decide
example : (blocksLoop 8 ((List.range 16).map (fun i => ([i], i))) (numBlocksGo 16 8) 0).map (·.map List.length) =
    some [8, 8] := by decide
example : numBlocksGo 72 64 = 2 ∧ blockBounds 72 64 1 = (64, 72) ∧ numBlocksGo 128 64 = 2 ∧
    blockBounds 128 64 1 = (64, 128) := by decide

/-- **merge = rebuild from the union**: `TrieBucket.Write` (index/v1 `indexKVMerger.Merge`) on
built tries with pairwise distinct keys yields built tries holding a permutation of all pairs … -/
theorem merge_eq_union (step : Bool) {bs : Nat} (hbs : 1 ≤ bs) {ts : List Node} (hts : ∀ t ∈ ts, Built t)
    (hd : DistinctKeys (ts.flatMap iter)) (hE : (∀ v, ([], v) ∉ ts.flatMap iter) ∨ 2 ≤ bs) :
    ∃ r, mergeTries step bs ts = some r ∧ (∀ t ∈ r, Built t) ∧ (r.flatMap iter).Perm (ts.flatMap iter) :=
  merge_spec hbs hts hd hE

/-- … so lookups in the merged bucket answer like the sorted map of the union of the pairs -/
theorem merge_get_eq_union_lookup_partial (eon step : Bool) {bs : Nat} (hbs : 1 ≤ bs) {ts : List Node}
    (hts : ∀ t ∈ ts, Built t) (hd : DistinctKeys (ts.flatMap iter))
    (hE : (∀ v, ([], v) ∉ ts.flatMap iter) ∨ 2 ≤ bs)
    (hff : eon = false → ∀ v, ([255], v) ∉ ts.flatMap iter) :
    ∃ r, mergeTries step bs ts = some r ∧
      ∀ key, bucketGet eon r key = lookup key (sortKVs (ts.flatMap iter)) := by
  obtain ⟨r, hr1, hr2, hr3⟩ := merge_spec (step := step) hbs hts hd hE
  refine ⟨r, hr1, fun key => ?_⟩
  have hdr : DistinctKeys (r.flatMap iter) := hd.perm hr3.symm
  rw [bucket_get_eq_lookup_partial eon hr2 hdr (fun he v hv => hff he v (hr3.mem_iff.1 hv)) key]
  have h1 : (sortKVs (r.flatMap iter)).Perm (sortKVs (ts.flatMap iter)) :=
    ((sortKVs_perm _).trans hr3).trans (sortKVs_perm _).symm
  exact lookup_perm (hdr.perm (sortKVs_perm _).symm) h1 key

theorem mergerRun_eq_map (step : Bool) (bs : Nat) (calls : List MergeCall) (acc : List (Nat × Option (List Node))) :
    calls.foldl (mergerStep step bs) acc = acc ++ calls.map (fun c => (c.bucketID, mergeTries step bs c.tries)) := by
  induction calls generalizing acc with
  | nil => simp
  | cons c r ih => simp [List.foldl_cons, ih, mergerStep]

/-- **the merger's output is a function of the current call's inputs**: whatever calls one merger
instance served before, what it writes for a call is `mergeTries` of that call's tries (the fact the
harness' merger-session cases test on the real `indexKVMerger`; tie `gen_merger_fresh_bucket`) -/
theorem merge_independent_of_previous_merges (step : Bool) (bs : Nat) (previous : List MergeCall) (c : MergeCall) :
    mergerRun step bs (previous ++ [c]) = mergerRun step bs previous ++ [(c.bucketID, mergeTries step bs c.tries)] ∧
    (mergerRun step bs (previous ++ [c])).getLast? = some (c.bucketID, mergeTries step bs c.tries) := by
  unfold mergerRun
  rw [mergerRun_eq_map, mergerRun_eq_map]
  simp

/-- … so every call of a session yields the union of ITS inputs (with `merge_eq_union`) -/
theorem merger_session_eq_union (step : Bool) {bs : Nat} (hbs : 1 ≤ bs) (previous : List MergeCall) (c : MergeCall)
    (hts : ∀ t ∈ c.tries, Built t) (hd : DistinctKeys (c.tries.flatMap iter))
    (hE : (∀ v, ([], v) ∉ c.tries.flatMap iter) ∨ 2 ≤ bs) :
    ∃ r, (mergerRun step bs (previous ++ [c])).getLast? = some (c.bucketID, some r) ∧ (∀ t ∈ r, Built t) ∧
      (r.flatMap iter).Perm (c.tries.flatMap iter) := by
  obtain ⟨r, h1, h2, h3⟩ := merge_spec (step := step) hbs hts hd hE
  exact ⟨r, by rw [(merge_independent_of_previous_merges step bs previous c).2, h1], h2, h3⟩

theorem filter_key_eq_lookup {l : List KV} (hd : DistinctKeys l) (k : Key) :
    (l.filter (fun kv => k == kv.1)).map (·.2) =
      (match lookup k l with
       | some v => [v]
       | none => []) := by
  induction l with
  | nil => rfl
  | cons x xs ih =>
    obtain ⟨xk, xv⟩ := x
    have hd' := List.pairwise_cons.1 hd
    by_cases hk : xk = k
    · subst hk
      rw [lookup_cons_eq]
      have hnone : xs.filter (fun kv => xk == kv.1) = [] := by
        apply List.filter_eq_nil_iff.2
        intro y hy
        have := hd'.1 y hy
        simpa using this
      simp [List.filter_cons, hnone]
    · rw [lookup_cons_ne hk, ← ih hd'.2]
      have : (k == xk) = false := by simpa using (fun e => hk e.symm)
      simp [List.filter_cons, this]

theorem filter_flatMap {α β} (p : β → Bool) (f : α → List β) (l : List α) :
    (l.flatMap f).filter p = l.flatMap (fun a => (f a).filter p) := by
  induction l with
  | nil => rfl
  | cons a r ih => simp [List.flatMap_cons, List.filter_append, ih]

theorem built_prefixIter {step : Bool} {t : Node} (h : Built t) (p : Key) :
    prefixIter step t p = withPrefix p (iter t) := by
  obtain ⟨kvs, hb, hbt⟩ := h
  rw [prefix_iter_eq_filter step hb hbt p, iter_eq_sorted hb hbt]

/-- **bucket lookup = lookup in the union map, for ANY list of tries**: no ordering among the tries
(they are NOT one sorted run: every flush adds a trie over the whole key range) — only that each
came out of `Build` and no key occurs twice; in particular the answer does not depend on the
order of the tries -/
theorem bucket_lookup_any_order_partial (eon : Bool) {ts ts' : List Node} (hperm : ts'.Perm ts)
    (hts : ∀ t ∈ ts, Built t) (hd : DistinctKeys (ts.flatMap iter))
    (hff : eon = false → ∀ v, ([255], v) ∉ ts.flatMap iter) (key : Key) :
    bucketGet eon ts' key = lookup key (sortKVs (ts.flatMap iter)) ∧
    bucketGet eon ts' key = bucketGet eon ts key := by
  have hp : (ts'.flatMap iter).Perm (ts.flatMap iter) := List.Perm.flatMap_right iter hperm
  have hd' : DistinctKeys (ts'.flatMap iter) := hd.perm hp.symm
  have h1 := bucket_get_eq_lookup_partial eon (r := ts') (fun t ht => hts t (hperm.mem_iff.1 ht)) hd'
    (fun he v hv => hff he v (hp.mem_iff.1 hv)) key
  have h2 := bucket_get_eq_lookup_partial eon hts hd hff key
  have h3 : lookup key (sortKVs (ts'.flatMap iter)) = lookup key (sortKVs (ts.flatMap iter)) :=
    lookup_perm (hd'.perm (sortKVs_perm _).symm) (((sortKVs_perm _).trans hp).trans (sortKVs_perm _).symm) key
  exact ⟨by rw [h1, h3], by rw [h1, h3, h2]⟩

theorem bucketPrefix_eq_filter (step : Bool) {ts : List Node} (hts : ∀ t ∈ ts, Built t) (p : Key) :
    bucketPrefix step ts p = (ts.flatMap iter).filter (fun kv => hasPrefix p kv.1) := by
  unfold bucketPrefix
  rw [filter_flatMap]
  exact flatMap_congr_mem (fun t ht => built_prefixIter (hts t ht) p)

/-- **`FindValuesByLike` over any list of tries** = the values of the pairs of the union with the
prefix that pass the check (every trie is scanned, none is skipped) -/
theorem bucket_find_eq_union_filter (step : Bool) {ts : List Node} (hts : ∀ t ∈ ts, Built t) (p : Key)
    (check : Key → Bool) :
    bucketFind step ts p check =
      ((ts.flatMap iter).filter (fun kv => hasPrefix p kv.1 && check kv.1)).map (·.2) := by
  unfold bucketFind
  rw [bucketPrefix_eq_filter step hts p, List.filter_filter]
  congr 2
  funext kv
  exact Bool.and_comm _ _

/-- **`CollectKVs` (value → key) over any list of tries** (round 12): the two nested loops with the early
`return` once the wanted set is empty write exactly what a scan of ALL pairs of the union without any early exit
writes (`firstHits`: in enumeration order, the first pair carrying a wanted value), appended to what the
caller's map held — for every list of built tries, every wanted set, both `Seek` variants -/
theorem collect_eq_full_scan (step : Bool) {ts : List Node} (hts : ∀ t ∈ ts, Built t) (vs : List Nat)
    (res : List (Nat × Key)) :
    collectTries step ts vs res = res ++ firstHits (ts.flatMap iter) vs := by
  rw [collectTries_spec, bucketPrefix_eq_filter step hts []]
  congr 2
  rw [List.filter_eq_self]
  intro kv _
  rfl

/-- … hence, when every value sits on one pair only (ids are assigned once), `CollectKVs` answers exactly the
inverse map restricted to the wanted values: `(v ↦ k)` is written iff `v` is wanted and `(k, v)` is a pair of
the union; nothing is skipped because an earlier trie or an earlier pair already matched -/
theorem collect_mem_iff (step : Bool) {ts : List Node} (hts : ∀ t ∈ ts, Built t)
    (hv : (ts.flatMap iter).Pairwise (fun a b => a.2 ≠ b.2)) {vs : List Nat} (hnd : vs.Nodup) (v : Nat) (k : Key) :
    (v, k) ∈ collectTries step ts vs [] ↔ (v ∈ vs ∧ (k, v) ∈ ts.flatMap iter) := by
  rw [collect_eq_full_scan step hts, List.nil_append]
  exact mem_firstHits _ vs hnd hv v k

/-- non-vacuity on the bucket {"a"→1, "z"→3} + {"m"→2}: wanted {2, 3, 9} needs both tries; wanted {1} returns
after the first pair; an empty wanted set writes nothing -/
example : (buildAll [[([97], 1), ([122], 3)], [([109], 2)]]).map (fun ts => collectTries true ts [2, 3, 9] []) = some [(3, [122]), (2, [109])] := by decide
example : (buildAll [[([97], 1), ([122], 3)], [([109], 2)]]).map (fun ts => collectTries true ts [1] []) = some [(1, [97])] := by decide
example : (buildAll [[([97], 1), ([122], 3)], [([109], 2)]]).map (fun ts => collectTries true ts [] []) = some [] := by decide

/-- **`Suggest` over any list of tries** = the first `limit` keys (at least one) with the prefix of
the sorted union -/
theorem bucket_suggest_eq_union (step : Bool) {ts : List Node} (hts : ∀ t ∈ ts, Built t)
    (hd : DistinctKeys (ts.flatMap iter)) (p : Key) (limit : Nat) :
    bucketSuggest step ts p limit =
      (((sortKVs (ts.flatMap iter)).filter (fun kv => hasPrefix p kv.1)).map (·.1)).take (max limit 1) := by
  unfold bucketSuggest
  rw [bucketPrefix_eq_filter step hts p]
  congr 2
  -- two strictly sorted permutations of the same pairs are equal
  have hs1 : Sorted (sortKVs ((ts.flatMap iter).filter (fun kv => hasPrefix p kv.1))) :=
    sortKVs_sorted (List.Pairwise.filter _ hd)
  have hs2 : Sorted ((sortKVs (ts.flatMap iter)).filter (fun kv => hasPrefix p kv.1)) :=
    List.Pairwise.filter _ (sortKVs_sorted hd)
  have hperm : (sortKVs ((ts.flatMap iter).filter (fun kv => hasPrefix p kv.1))).Perm
      ((sortKVs (ts.flatMap iter)).filter (fun kv => hasPrefix p kv.1)) :=
    (sortKVs_perm _).trans (List.Perm.filter _ (sortKVs_perm _).symm)
  exact List.Perm.eq_of_pairwise (fun a b _ _ hab hba => by
    have := keyLt_asymm hab; rw [this] at hba; cases hba) hs1 hs2 hperm

/-- **like dispatch** (`indexKVStore.FindValuesByLike` over the flushed bucket): whatever branch the
pattern selects — everything, prefix iteration from `p` + `HasPrefix`, full iteration +
`HasSuffix` / `Contains`, or the exact lookup — the values collected are exactly the values of
the pairs whose key matches the pattern (`_partial`: the exact-lookup branch inherits the
{"\xff"} exclusion of `Get` for the unrepaired terminator test) -/
theorem like_dispatch_eq_filter_partial (eon step : Bool) {ts : List Node} (hts : ∀ t ∈ ts, Built t)
    (hd : DistinctKeys (ts.flatMap iter)) (hff : eon = false → ∀ v, ([255], v) ∉ ts.flatMap iter)
    (like : Key) :
    bucketLike eon step ts like =
      ((ts.flatMap iter).filter (fun kv => likeMatches like kv.1)).map (·.2) := by
  have hall : bucketPrefix step ts [] = ts.flatMap iter := by
    unfold bucketPrefix
    exact flatMap_congr_mem (fun t ht => prefixIter_nil_of_built (hts t ht))
  unfold bucketLike likeMatches
  cases hp : likePlan like with
  | nothing => simp
  | all =>
    simp only [hall]
    congr 1
  | withPrefix p =>
    simp only
    have : bucketPrefix step ts p = (ts.flatMap iter).filter (fun kv => hasPrefix p kv.1) := by
      unfold bucketPrefix
      rw [filter_flatMap]
      exact flatMap_congr_mem (fun t ht => built_prefixIter (hts t ht) p)
    rw [this, List.filter_filter]
    simp
  | withSuffix sfx => simp only [hall]
  | containing m => simp only [hall]
  | exact k =>
    simp only
    rw [bucket_get_eq_lookup_partial eon hts hd hff k, ← lookup_perm hd (sortKVs_perm _).symm,
      filter_key_eq_lookup hd k]
    cases lookup k (ts.flatMap iter) <;> rfl

/-- **a lookup does not depend on earlier lookups**: any sequence of `GetValue` calls on one bucket object
answers every probe like the sorted union — the object has no state that a lookup writes (`BucketObj` = the
fields of `model.TrieBucket`, tie `gen_bucket_no_lookup_state`) -/
theorem lookup_session_eq_sorted_map_partial (eon : Bool) {ts : List Node} (bsz : Nat)
    (hts : ∀ t ∈ ts, Built t) (hd : DistinctKeys (ts.flatMap iter))
    (hff : eon = false → ∀ v, ([255], v) ∉ ts.flatMap iter) (probes : List Key) :
    lookupSession eon ⟨ts, bsz⟩ probes = probes.map (fun k => lookup k (sortKVs (ts.flatMap iter))) := by
  induction probes with
  | nil => rfl
  | cons k ks ih =>
    simp only [lookupSession, getValueStep, List.map_cons]
    rw [bucket_get_eq_lookup_partial eon hts hd hff k]
    congr 1

end Bucket

/-! ### the serialised byte layout (Write / MarshalSize / UnmarshalBinary) -/
section Wire
open LinVerif.TrieWire LinVerif.Louds

/-- **`UnmarshalBinary (Write t) = t`** on the byte-layout model, for every well-formed wire
image (counts fit uint32, the rank/select tables have the length the reader recomputes) -/
theorem unmarshal_marshal (w : Wire) (h : WireOK w) : unmarshal (marshal w) = some w :=
  unmarshal_marshal_wire w h

/-- … in particular for the encoding of every tree (every label / node count, multiples of the
rank block size included), under the size bounds only -/
theorem unmarshal_marshal_encode (t : Node) (hb : WireBounded (toWire (encode t))) :
    unmarshal (marshal (toWire (encode t))) = some (toWire (encode t)) :=
  unmarshal_marshal_wire _ (wireOK_encode t hb)

/-- `len(Write t) = MarshalSize t` -/
theorem marshal_size (w : Wire) (h : WireOK w) : (marshal w).length = marshalSize w :=
  marshal_length w h

/-- round trip on the BRANCH-FOR-BRANCH reader (`TrieWire.unmarshalR`: every length check, every unchecked
slice expression, the uint32 wrap of the recomputed lengths): a well-formed image whose recomputed lengths
do not wrap is accepted and yields exactly the written trie -/
theorem unmarshal_errpaths_marshal (w : Wire) (h : WireOK w) (hf : WireFits w) : unmarshalR (marshal w) = .ok w :=
  unmarshalR_marshal_wire w h hf

/-- **a truncated image is never accepted**: for EVERY proper prefix of a serialised trie
`UnmarshalBinary` returns an error or panics (the unchecked `buf[4:4+size]`, `buf[:4]`, `buf[:totalKeys*4]`
slices) — it never yields a trie, in particular never a different one -/
theorem unmarshal_truncated_never_ok (w : Wire) (h : WireOK w) (hf : WireFits w) (m : Nat)
    (hm : m < (marshal w).length) : ∀ w', unmarshalR ((marshal w).take m) ≠ .ok w' :=
  unmarshalR_truncated w h hf m hm

/-- … for the encoding of every tree under the size bounds only -/
theorem unmarshal_truncated_never_ok_encode (t : Node) (hb : WireBounded (toWire (encode t)))
    (h4 : U32 (4 + (encode t).labels.length)) (m : Nat) (hm : m < (marshal (toWire (encode t))).length) :
    ∀ w', unmarshalR ((marshal (toWire (encode t))).take m) ≠ .ok w' := by
  have hfit : ∀ n, U32 n → U32 ((n / rankSparseBlockSize + 1) * 4) := by
    intro n hn; unfold U32 rankSparseBlockSize at *; omega
  exact unmarshalR_truncated _ (wireOK_encode t hb)
    ⟨h4, ⟨hfit _ hb.hasChildBits⟩, ⟨hfit _ hb.pfxBits⟩, ⟨hfit _ hb.sfxBits⟩⟩ m hm

/-! #### the bucket framing around the tries (round 12; `Model/BucketWire.lean`) -/

/-- **`TrieBucket.Unmarshal` undoes `TrieBucketBuilder.Write`'s framing**: the value written by one builder
call — per block `uint32(MarshalSize())` little endian, then the image — is read back by the loop of
`TrieBucket.Unmarshal` (size word, `end := 4 + size` in uint32, the unchecked `block[4:end]` / `block[:end]` /
`block[end:]` slices, `UnmarshalBinary` on exactly the image) as exactly the written tries, in block order, APPENDED
to whatever the object already holds; every entry's `buf` is its whole frame. For any number of tries of any size
whose frame length fits `uint32` (`BucketFrameOK`). -/
theorem bucket_unmarshal_frames (ws : List Wire) (h : ∀ w ∈ ws, BucketFrameOK w) (acc : List BucketWire.Entry) :
    BucketWire.bucketUnmarshal acc (BucketWire.bucketBytes ws) = .ok (acc ++ ws.map entryOf) :=
  bucketUnmarshal_frames ws h acc

/-- a bucket object filled by one `Unmarshal` per stored value (index/v1 `GetBucket`: every flushed value of the
key; `indexKVMerger.Merge`: every input block) holds the tries of all values, in order -/
theorem bucket_load_all_values (wss : List (List Wire)) (h : ∀ ws ∈ wss, ∀ w ∈ ws, BucketFrameOK w) :
    BucketWire.loadAll [] (wss.map BucketWire.bucketBytes) = .ok (wss.flatten.map entryOf) := by
  have := loadAll_frames wss h []
  simpa using this

/-- the tries a merge keeps are copied as their `buf` (`w.Write(tree.buf)`): those bytes are again a
well-framed value holding exactly the kept tries -/
theorem bucket_copied_frames_reload (ws : List Wire) (h : ∀ w ∈ ws, BucketFrameOK w) :
    BucketWire.bucketUnmarshal [] (BucketWire.copiedBytes (ws.map entryOf)) = .ok (ws.map entryOf) := by
  rw [copiedBytes_entries]
  have := bucketUnmarshal_frames ws h []
  simpa using this

/-- the encoding of every tree is frameable under the size bounds only -/
theorem bucketFrameOK_encode (t : Node) (hb : WireBounded (toWire (encode t)))
    (h4 : U32 (4 + (encode t).labels.length)) (hs : U32 (4 + marshalSize (toWire (encode t)))) :
    BucketFrameOK (toWire (encode t)) := by
  have hfit : ∀ n, U32 n → U32 ((n / rankSparseBlockSize + 1) * 4) := by
    intro n hn; unfold U32 rankSparseBlockSize at *; omega
  exact ⟨wireOK_encode t hb, ⟨h4, ⟨hfit _ hb.hasChildBits⟩, ⟨hfit _ hb.pfxBits⟩, ⟨hfit _ hb.sfxBits⟩⟩, hs⟩

-- non-vacuity: two flushed values, the first with two tries, loaded into one object
set_option maxRecDepth 16000 in
example : ((build [([97], 1)]).bind fun t1 => (build [([98], 2), ([99, 100], 3)]).map fun t2 =>
    let w1 := toWire (encode t1); let w2 := toWire (encode t2)
    BucketWire.loadAll [] [BucketWire.bucketBytes [w1, w2], BucketWire.bucketBytes [w2]] ==
      .ok [entryOf w1, entryOf w2, entryOf w2]) = some true := by decide
/-- damaged framing: a size word pointing beyond the value panics (`block[4:end]`), fewer than 4 bytes panic,
`end` wrapping below 4 panics; a value cut at a frame boundary loads as a shorter bucket (no count, no checksum
at this level — kv tables carry the checksum) -/
example : BucketWire.bucketUnmarshal [] [200, 0, 0, 0, 1, 2, 3] = .panic := by decide
example : BucketWire.bucketUnmarshal [] [1, 0] = .panic := by decide
example : BucketWire.bucketUnmarshal [] [254, 255, 255, 255, 1, 2, 3] = .panic := by decide
example : BucketWire.bucketUnmarshal [] [4, 0, 0, 0, 1, 0, 0, 0] = .err "eof" := by decide

/-- `UnmarshalBinary` looks only at the bytes it consumes: bytes after an accepted image change nothing -/
theorem unmarshal_ignores_trailing_bytes (b s : List Nat) (w : Wire) (h : unmarshalR b = .ok w) :
    unmarshalR (b ++ s) = .ok w := by
  unfold unmarshalR at h ⊢
  cases hp : parseR b with
  | err k => rw [hp] at h; cases h
  | panic => rw [hp] at h; cases h
  | ok xr =>
    obtain ⟨x, r⟩ := xr
    rw [hp] at h
    rw [ext_parseR b s x r hp]
    exact h

/-- **no state leaks between uses of a pooled trie object** (`trie.GetTrie` / `PutTrie`,
`TrieBucket.Release`): whatever the object held before (`prev` arbitrary — a larger dictionary, or the
half-assigned fields a FAILED `UnmarshalBinary` leaves), the outcome of `UnmarshalBinary(buf)` is that of
a fresh object and after success the object is exactly the parsed image -/
theorem unmarshal_into_used_object (prev : Wire) (b : List Nat) :
    (unmarshalInto prev b).2 = (match unmarshalR b with | .ok _ => .ok () | .err k => .err k | .panic => .panic) ∧
    (∀ w, unmarshalR b = .ok w → (unmarshalInto prev b).1 = w) :=
  unmarshalInto_spec prev b

/-- … in particular a good load after a failed one on the same object -/
theorem unmarshal_after_failed_unmarshal (prev : Wire) (b1 b2 : List Nat) (w : Wire) (h : unmarshalR b2 = .ok w) :
    (unmarshalInto (unmarshalInto prev b1).1 b2).1 = w :=
  (unmarshalInto_spec _ b2).2 w h

-- the failure modes are all inhabited (the last one: `4+size` wraps to 3, the slice `buf[4:3]` panics)
example : unmarshalR [1, 0, 0, 0, 1, 0, 0, 0] = .err "eof" := by decide
example : unmarshalR [1, 0, 0, 0, 1, 0, 0, 0, 9] = .err "labels-short" := by decide
example : unmarshalR [1, 0, 0, 0, 1, 0, 0, 0, 9, 0, 0, 0, 97] = .panic := by decide
example : unmarshalR [1, 0, 0, 0, 1, 0, 0, 0, 255, 255, 255, 255, 97] = .panic := by decide
example : unmarshalR [1, 0, 0, 0, 1, 0, 0, 0, 1, 0, 0, 0, 97, 1, 0, 0] = .err "rank-header" := by decide

/-- **a build is independent of the builder's previous builds**: whatever the re-used buffers of
the builder (`hasChildVec`, `loudsVec`, `prefixVec`, `suffixVec` bit buffers and rank tables) held
before — `prev` is arbitrary, e.g. a larger dictionary — `Write` serialises exactly what a fresh
builder would: `bitVector.Init` zeroes the whole buffer, so `selectVector.Init`, which ranges over
the whole buffer, sees no stale bits (`numOnes`, select table), and only the first
`numBits/blockSize + 1` rank entries are written -/
theorem build_independent_of_previous_builds (prev : TrieReuse.Bufs) (t : Node) :
    TrieReuse.toWireReuse prev (encode t) = toWire (encode t) ∧
    marshal (TrieReuse.toWireReuse prev (encode t)) = marshal (toWire (encode t)) := by
  have := toWireReuse_eq prev t
  exact ⟨this, by rw [this]⟩

end Wire

/-! ### layer 2: rank / select on bit vectors and the LOUDS position formulas -/
section Layer2
open LinVerif.Louds

/-- `select (rank i) = i` on set bits, for all vectors -/
theorem louds_select_rank (bs : List Bool) (i : Nat) (h : bs[i]? = some true) : select bs (rank bs i) = i :=
  select_rank bs i h

/-- `rank (select k) = k` and `select k` is a set bit, for `1 ≤ k ≤ popcount`, for all vectors -/
theorem louds_rank_select (bs : List Bool) (k : Nat) (h1 : 1 ≤ k) (h2 : k ≤ popcount bs) :
    rank bs (select bs k) = k ∧ bs[select bs k]? = some true :=
  rank_select bs k h1 h2

/-- rank.go: the block table (`rankSparseBlockSize = 512`) + in-block popcount computes `rank` -/
theorem louds_rankGo_eq_rank (bs : List Bool) (pos : Nat) (h : pos < bs.length) :
    rankGo (rankLut bs) bs pos = rank bs pos :=
  rankGo_eq_rank bs pos h

/-- select.go: the sampled table (`selectSampleInterval = 64`) + scan computes `select`, given
that bit 0 is set (the root's first label; `Select` relies on it through `rankLeft--`) -/
theorem louds_selectGo_eq_select (bs : List Bool) (k : Nat) (h0 : bs.head? = some true) (h1 : 1 ≤ k)
    (h2 : k ≤ popcount bs) : selectGo (selectLut bs) bs k = select bs k :=
  selectGo_eq_select bs k h0 h1 h2

/-- `firstLabelPos(n) = Select(louds, n+1)` is the offset of node n's labels: the sum of the
sizes of the nodes before it, for every list of node sizes ≥ 1 -/
theorem louds_firstLabelPos (sizes : List Nat) (n : Nat) (hpos : ∀ s ∈ sizes, 1 ≤ s) (hn : n < sizes.length) :
    selectGo (selectLut (loudsOfSizes sizes)) (loudsOfSizes sizes) (n + 1) = (sizes.take n).sum := by
  have hne : sizes ≠ [] := by intro e; rw [e] at hn; simp at hn
  obtain ⟨s, rest, rfl⟩ := List.exists_cons_of_ne_nil hne
  rw [selectGo_eq_select _ _ (head_loudsOfSizes s rest (hpos s (List.mem_cons_self ..))) (by omega)
    (by rw [popcount_loudsOfSizes _ hpos]; omega)]
  exact select_loudsOfSizes _ n hpos hn

/-- `nodeSize(pos) = DistanceToNextSetBit(louds, pos)` at a node's first label is the node's size
(except at the very last bit of the vector, which is a node of its own only in a one-key trie) -/
theorem louds_nodeSize (sizes : List Nat) (n : Nat) (hpos : ∀ s ∈ sizes, 1 ≤ s) (hn : n < sizes.length)
    (hnotlast : (sizes.take n).sum + 1 < sizes.sum) :
    distNext (loudsOfSizes sizes) ((sizes.take n).sum) = sizes[n] :=
  distNext_loudsOfSizes sizes n hpos hn hnotlast

/-- `valuePos(pos) = pos - Rank(hasChild, pos)` is the index of a child-less label among the
child-less labels: the position of its value in the value vector -/
theorem louds_valuePos (hasChild : List Bool) (pos : Nat) (h : hasChild[pos]? = some false) :
    pos - rankGo (rankLut hasChild) hasChild pos = (hasChild.take pos).count false := by
  have hlt : pos < hasChild.length := by
    cases hl : hasChild[pos]? with
    | none => rw [hl] at h; cases h
    | some _ => exact (List.getElem?_eq_some_iff.1 hl).1
  rw [rankGo_eq_rank _ _ hlt]
  exact valuePos_eq hasChild pos h

/-- `childNodeID(pos) = Rank(hasChild, pos)`: a label with child is the `Rank`-th such label, so
its child is the `Rank`-th node after the root in level order -/
theorem louds_childNodeID (hasChild : List Bool) (pos : Nat) (h : hasChild[pos]? = some true) :
    rankGo (rankLut hasChild) hasChild pos = (hasChild.take pos).count true + 1 := by
  have hlt : pos < hasChild.length := by
    cases hl : hasChild[pos]? with
    | none => rw [hl] at h; cases h
    | some _ => exact (List.getElem?_eq_some_iff.1 hl).1
  rw [rankGo_eq_rank _ _ hlt]
  exact rank_of_set hasChild pos h

/-- **LOUDS navigation = tree navigation, position formulas** (`_partial`, see below): on the
encoding `encode t` of the tree built from any buildable key list, with `bfs t` the nodes in
level order (node ids) and `flatItems t` the labels in vector order,
* `firstLabelPos(n)` (select.go's table-driven `Select(louds, n+1)`) is the offset of node n's
  labels: the number of labels of the nodes before it;
* at a label with child, `childNodeID(pos)` (rank.go's table-driven `Rank(hasChild, pos)`) is the
  level-order index of exactly that child node;
* at a label without child, `valuePos(pos)` indexes exactly that label's value.
These compose (with the label scan, `nodeSize`, and the prefix/suffix lookup through the
hasPrefix/hasSuffix rank vectors) into `louds_get_refines_tree` and (with the stack machine) into
`louds_iter_refines_tree` below. `louds_seek_refines_tree`,
`louds_prefix_refines_tree` and `louds_riter_refines_tree` close `Seek`, prefix iteration and backward
iteration: nothing of layer 2 is left to the correspondence alone. -/
theorem louds_refines_tree_partial {kvs : List KV} {t : Node} (h : Buildable kvs) (ht : build kvs = some t) :
    (∀ n, n < (bfs t).length → firstLabelPos (encode t) n = offset t n) ∧
    (∀ pos l c, (flatItems t)[pos]? = some (.child l c) → (bfs t)[childNodeID (encode t) pos]? = some c) ∧
    (∀ pos l suf v, (flatItems t)[pos]? = some (.leaf l suf v) →
      (encode t).values[valuePos (encode t) pos]? = some v) := by
  obtain ⟨t', ht', _, hwf, _⟩ := build_spec h
  rw [ht] at ht'; cases ht'
  exact ⟨fun n hn => firstLabelPos_eq_offset hwf n hn,
    fun pos l c hp => childNodeID_eq_bfs_index pos l c hp,
    fun pos l suf v hp => valuePos_eq_value_index pos l suf v hp⟩

/-- **LOUDS navigation = tree navigation for exact lookup**: `trie.Get` run over the flat vectors
of the encoding (table-driven `Select`/`Rank`, `DistanceToNextSetBit`, label scan with the
terminator skip, prefix/suffix lookup, `valuePos`) returns exactly what `trie.Get` on the tree
returns — for every buildable key list, every probe key and both variants of the terminator test -/
theorem louds_get_refines_tree {kvs : List KV} {t : Node} (eon : Bool) (h : Buildable kvs)
    (ht : build kvs = some t) (key : Key) : loudsGet eon (encode t) key = getNode eon t key := by
  obtain ⟨t', ht', _, hwf, _⟩ := build_spec h
  rw [ht] at ht'; cases ht'
  unfold loudsGet
  apply lget_eq_getNode eon hwf
  · rw [bfs_eq t]; rfl
  · omega

/-- … hence the encoded dictionary answers exact lookups like the sorted map (`_partial` as
`get_eq_lookup_partial`: key set {"\xff"} excluded for the terminator test of today's code) -/
theorem louds_get_eq_lookup_partial {kvs : List KV} {t : Node} (eon : Bool) (h : Buildable kvs)
    (ht : build kvs = some t) (hff : eon = false → ∀ v, kvs ≠ [([255], v)]) (key : Key) :
    loudsGet eon (encode t) key = lookup key kvs := by
  rw [louds_get_refines_tree eon h ht key, get_eq_lookup_partial eon h ht hff key]

/-- **LOUDS iteration = tree iteration = the sorted pairs**: the Go iterator as an explicit stack
machine over the flat vectors (`LoudsIter`: `SeekToFirst`, then `Next` = climb while at the end
of a node through the louds bits, `setAt`, `moveToLeftMostKey` with `childNodeID` /
`firstLabelPos`, the per-level `posInTrie` / `nodeID` / `prefixLen` arrays and the incremental
`keyBuf`, `Key()` with the terminator flag and the suffix vector, `Value()` through `valuePos`)
enumerates exactly the in-order traversal of the tree, i.e. the sorted pair list -/
theorem louds_iter_refines_tree {kvs : List KV} {t : Node} (h : Buildable kvs) (ht : build kvs = some t) :
    LoudsIter.iterAll (encode t) = iter t ∧ LoudsIter.iterAll (encode t) = kvs := by
  obtain ⟨t', ht', hit, hwf, _⟩ := build_spec h
  rw [ht] at ht'; cases ht'
  have := iterAll_eq_iter hwf
  exact ⟨this, by rw [this, hit]⟩

/-- the empty-prefix iterator over the vectors (`NewPrefixIterator(nil)`: the enumeration used by
`TrieBucket.Write`, `CollectKVs`, `FindValuesByRegexp` and the suffix / contains like scans) is
`Seek(nil)` = `SeekToFirst` followed by the same `Next` loop: it enumerates the sorted pairs
(both variants of `Seek`) -/
theorem louds_prefix_nil_refines_tree {kvs : List KV} {t : Node} (step : Bool) (h : Buildable kvs)
    (ht : build kvs = some t) : LoudsIter.prefixAll step (encode t) [] = kvs := by
  obtain ⟨t', ht', hit, hwf, _⟩ := build_spec h
  rw [ht] at ht'; cases ht'
  rw [prefixAll_nil_eq_iter hwf step, hit]

/-- **LOUDS `Seek` = tree `Seek`**: `Iterator.Seek(k)` of the stack machine over the vectors (the
per-level loop of `seek` with the node-prefix comparison, `labelVector.Search`,
`SearchGreaterThan`'s binary search + `moveToLeftInNextSubTrie`, the `moveToRightMostKey` fallback
and the final conditional `Next`) returns the same flag and enumerates, from its landing position
on, exactly what the tree-level `seek` does — every buildable key list, every probe, both variants
of the final step -/
theorem louds_seek_refines_tree {kvs : List KV} {t : Node} (step : Bool) (h : Buildable kvs)
    (ht : build kvs = some t) (k : Key) : LoudsIter.seekAll step (encode t) k = seekCur step t k := by
  obtain ⟨t', ht', _, hwf, _⟩ := build_spec h
  rw [ht] at ht'; cases ht'
  exact seekAll_eq hwf step k

/-- **LOUDS prefix iteration = tree prefix iteration** (`NewPrefixIterator(p)` and its
`Valid()/Key()/Value()/Next()` loop over the vectors), every prefix -/
theorem louds_prefix_refines_tree {kvs : List KV} {t : Node} (step : Bool) (h : Buildable kvs)
    (ht : build kvs = some t) (p : Key) : LoudsIter.prefixAll step (encode t) p = prefixIter step t p := by
  obtain ⟨t', ht', _, hwf, _⟩ := build_spec h
  rw [ht] at ht'; cases ht'
  exact prefixAll_eq hwf step p

/-- end to end on the vectors: `Seek(k)` (with the conditional `Next` of today's code) positions
the iterator on the lower bound of `k` in the sorted map -/
theorem louds_seek_eq_lowerBound {kvs : List KV} {t : Node} (h : Buildable kvs) (ht : build kvs = some t)
    (k : Key) : (LoudsIter.seekAll true (encode t) k).2 = lowerBound k kvs := by
  rw [louds_seek_refines_tree true h ht k]
  simp only [seekCur, if_true]
  exact seek_eq_lowerBound h ht k

/-- … and for whichever variant of `Seek` /repo's source has now -/
theorem louds_seek_current_source {kvs : List KV} {t : Node} (h : Buildable kvs) (ht : build kvs = some t)
    (k : Key) : LoudsIter.seekAll Generated.C20.seekStepsToLowerBound (encode t) k =
      seekCur Generated.C20.seekStepsToLowerBound t k :=
  louds_seek_refines_tree _ h ht k

/-- end to end on the vectors: prefix enumeration = the pairs of the sorted map with the prefix -/
theorem louds_prefix_eq_filter {kvs : List KV} {t : Node} (step : Bool) (h : Buildable kvs)
    (ht : build kvs = some t) (p : Key) : LoudsIter.prefixAll step (encode t) p = withPrefix p kvs := by
  rw [louds_prefix_refines_tree step h ht p, prefix_iter_eq_filter step h ht p]

/-- **backward iteration over the vectors**: `SeekToLast` then `Prev` until invalid (the `pos == 0`
exit, the climb while the louds bit of the current label is set, `setAt(level, pos-1)`,
`moveToRightMostKey` through `lastLabelPos`) enumerates the sorted pairs in reverse -/
theorem louds_riter_refines_tree {kvs : List KV} {t : Node} (h : Buildable kvs) (ht : build kvs = some t) :
    LoudsIter.riterAll (encode t) = kvs.reverse := by
  obtain ⟨t', ht', hit, hwf, _⟩ := build_spec h
  rw [ht] at ht'; cases ht'
  rw [riterAll_eq_reverse hwf, hit]

/-- `Prev` from the end enumerates exactly the reverse of what `Next` from the start enumerates -/
theorem prev_is_reverse_of_next {kvs : List KV} {t : Node} (h : Buildable kvs) (ht : build kvs = some t) :
    LoudsIter.riterAll (encode t) = (LoudsIter.iterAll (encode t)).reverse := by
  rw [louds_riter_refines_tree h ht, (louds_iter_refines_tree h ht).2]

/-- `SeekToLast` is valid and stands on the greatest key (the last pair of the sorted map) -/
theorem seekToLast_is_max {kvs : List KV} {t : Node} (h : Buildable kvs) (ht : build kvs = some t) :
    (LoudsIter.seekToLast (encode t)).valid = true ∧
      kvs.getLast? = some (LoudsIter.key (encode t) (LoudsIter.seekToLast (encode t)),
        LoudsIter.value (encode t) (LoudsIter.seekToLast (encode t))) := by
  obtain ⟨t', ht', hit, hwf, _⟩ := build_spec h
  rw [ht] at ht'; cases ht'
  have := seekToLast_last hwf
  rw [hit] at this
  exact this

/-- **cursor walks**: ANY script of `Next` / `Prev` calls on the stack machine over the vectors,
started by `SeekToFirst` or by `SeekToLast`, observes (`Valid`, `Key`, `Value` after every call) exactly
what an index cursor on the sorted pairs observes: `Next` = index + 1 (invalid past the last pair), `Prev` =
index - 1 (invalid before the first), an invalid iterator stays invalid. Not only the two full sweeps. -/
theorem louds_walk_refines_cursor {kvs : List KV} {t : Node} (h : Buildable kvs) (ht : build kvs = some t)
    (ms : List LoudsIter.Mv) :
    LoudsIter.walk (encode t) (LoudsIter.seekToFirst (encode t)) ms = LoudsIter.cursorWalk kvs (some 0) ms ∧
    LoudsIter.walk (encode t) (LoudsIter.seekToLast (encode t)) ms =
      LoudsIter.cursorWalk kvs (some (kvs.length - 1)) ms := by
  obtain ⟨t', ht', hit, hwf, _⟩ := build_spec h
  rw [ht] at ht'; cases ht'
  have h1 := walk_spec hwf ms _ _ (at_first hwf)
  have h2 := walk_spec hwf ms _ _ (at_last hwf)
  rw [hit] at h1 h2
  exact ⟨h1, h2⟩

/-- … and started by `Seek(k)` (both source variants): the walk is that of the cursor standing where the
forward enumeration from the landing position begins (`kvs.drop i`; with today's `Seek` that is the lower
bound of `k`, `louds_seek_eq_lowerBound`), or of the invalid cursor when `Seek` ran past the end -/
theorem louds_walk_from_seek {kvs : List KV} {t : Node} (step : Bool) (h : Buildable kvs)
    (ht : build kvs = some t) (k : Key) (ms : List LoudsIter.Mv) :
    ∃ c, LoudsIter.walk (encode t) (LoudsIter.seek step (encode t) k).1 ms = LoudsIter.cursorWalk kvs c ms ∧
      (LoudsIter.seekAll step (encode t) k).2 = LoudsIter.cursorRest kvs c := by
  obtain ⟨t', ht', hit, hwf, _⟩ := build_spec h
  rw [ht] at ht'; cases ht'
  obtain ⟨c, hc⟩ := at_seek hwf step k
  refine ⟨c, ?_, ?_⟩
  · rw [walk_spec hwf ms _ _ hc, hit]
  · have := at_collect hwf hc
    rw [hit] at this
    exact this

/-- **`Prev` undoes `Next` and `Next` undoes `Prev`**: after any script that leaves the iterator on the
i-th pair, `Next(); Prev()` (when a next pair exists) resp. `Prev(); Next()` (when a previous pair exists)
shows the neighbour and then the i-th pair again -/
theorem next_prev_identity {kvs : List KV} {t : Node} (h : Buildable kvs) (ht : build kvs = some t)
    (ms : List LoudsIter.Mv) (i : Nat) (hi : cursorAfter kvs.length (some 0) ms = some i) :
    (i + 1 < kvs.length →
      LoudsIter.walk (encode t) (LoudsIter.seekToFirst (encode t)) (ms ++ [.next, .prev]) =
        LoudsIter.walk (encode t) (LoudsIter.seekToFirst (encode t)) ms ++ [kvs[i + 1]?, kvs[i]?]) ∧
    (0 < i →
      LoudsIter.walk (encode t) (LoudsIter.seekToFirst (encode t)) (ms ++ [.prev, .next]) =
        LoudsIter.walk (encode t) (LoudsIter.seekToFirst (encode t)) ms ++ [kvs[i - 1]?, kvs[i]?]) := by
  have hw := fun ms => (louds_walk_refines_cursor h ht ms).1
  constructor
  · intro hlt
    rw [hw, hw, cursorWalk_append, hi]
    simp [LoudsIter.cursorWalk, LoudsIter.cursorMove, LoudsIter.cursorObs, hlt]
  · intro hpos
    have hne : i ≠ 0 := by omega
    have hlt : i - 1 + 1 < kvs.length ∨ True := Or.inr trivial
    have hi' : i - 1 + 1 = i := by omega
    rw [hw, hw, cursorWalk_append, hi]
    have hil : i < kvs.length ∨ kvs.length ≤ i := by omega
    simp only [LoudsIter.cursorWalk, LoudsIter.cursorMove, LoudsIter.cursorObs, hne, if_false, hi']
    rcases hil with hil | hil
    · simp [hil]
    · -- a cursor never stands beyond the last pair
      exfalso
      exact cursorAfter_lt kvs.length ms 0 i (List.length_pos_iff.2 h.nonempty) hi hil

/-- the encoded label / hasChild / louds / value vectors are the per-node rows concatenated in
level order (what `trie.Init` / `bitVector.Init` do with the builder's levels) -/
theorem louds_encoding_layout (t : Node) :
    (encode t).labels = (flatItems t).map Item.label ∧
    (encode t).hasChild = (flatItems t).map Item.isChild ∧
    (encode t).louds = loudsOfSizes ((bfs t).map (fun n => n.entries.length)) ∧
    (encode t).values = (flatItems t).filterMap Item.val? ∧
    bfs t = t :: (flatItems t).filterMap Item.child? := by
  refine ⟨encode_labels t, encode_hasChild t, encode_louds t, encode_values t, ?_⟩
  rw [← bfs_tail]
  conv => lhs; rw [bfs_eq t]
  conv => rhs; rw [bfs_eq t]
  rfl

end Layer2

/-! ### layer 2b: the 64-bit word arithmetic under rank / select / DistanceToNextSetBit (round 10) -/
section Words
open LinVerif.Louds LinVerif.C20Words

/-- bits_vector.go `DistanceToNextSetBit`, statement by statement over the words of the vector (in-word
shift + `TrailingZeros64`, the `wordOff == numWords-1` return, the word loop, the unused-tail correction of
the last word — which applies only when `numBits % 64 != 0`), computes the distance on the bit list: for
EVERY vector, every position that is not the last bit, and every number of stale zero words of a re-used
longer buffer. In particular at `numBits % 64 = 0` nothing is subtracted. -/
theorem louds_distNextGo_eq_distNext (bs : List Bool) (extra pos : Nat) (h : pos + 1 < bs.length) :
    distNextGo bs.length (toWords bs extra) pos = distNext bs pos := by
  rw [distNextGo_eq bs extra pos h]
  unfold distNext
  rw [if_neg (by simp only [wordSize]; omega)]

/-- `trie.nodeSize` over the words: the size of node n of ANY node-size list (every node but a one-label
last node), whatever the total — including totals that are multiples of 64 with a last node wider than a word -/
theorem louds_nodeSize_words (sizes : List Nat) (n extra : Nat) (hpos : ∀ s ∈ sizes, 1 ≤ s) (hn : n < sizes.length)
    (hnotlast : (sizes.take n).sum + 1 < sizes.sum) :
    distNextGo sizes.sum (toWords (loudsOfSizes sizes) extra) ((sizes.take n).sum) = sizes[n] := by
  have hl := length_loudsOfSizes sizes
  have := louds_distNextGo_eq_distNext (loudsOfSizes sizes) extra ((sizes.take n).sum) (by rw [hl]; exact hnotlast)
  rw [hl] at this
  rw [this]
  exact distNext_loudsOfSizes sizes n hpos hn hnotlast

/-- bits.go `popcountBlock` (full words + the last word shifted left by `63 - lastBits`) counts the set
bits of the `nbits` bits from word `off` on -/
theorem louds_popcountBlock_eq (bs : List Bool) (extra off nbits : Nat) (h1 : 1 ≤ nbits)
    (h : 64 * off + nbits ≤ bs.length) :
    popcountBlockGo (toWords bs extra) off nbits = popcount ((bs.drop (64 * off)).take nbits) :=
  popcountBlockGo_eq bs extra off nbits h1 h

/-- rank.go `rankVectorSparse.Rank` over the words (table entry + `popcountBlock` inside the 512-bit block)
= `rank`, every vector and position -/
theorem louds_rankWords_eq_rank (bs : List Bool) (extra pos : Nat) (h : pos < bs.length) :
    rankWords (rankLut bs) (toWords bs extra) pos = rank bs pos := by
  rw [rankWords_eq_rankGo _ bs extra pos h]
  exact rankGo_eq_rank bs pos h

/-- bits.go `selectInByteLut` as filled by `init()` through `selectInByte` / `findFirstSet`: every one of
the 256 × 8 entries is the position of the (j+1)-th set bit of the byte, or 8 -/
theorem select_byte_table_correct (b j : Nat) (hb : b < 256) (hj : j < 8) :
    (selectInByteLut.getD b []).getD j 8 = selectByteSpec b j := by
  rw [← selectInByte_eq_spec b j hb hj]
  simp [selectInByteLut, List.getD_eq_getElem?_getD, List.getElem?_map, List.getElem?_range, hb, hj]

/-- the byte-level skeleton of `select64Broadword` (running byte sums → `place` → `byteRank` → table) returns
the position of the (k+1)-th set bit of the word, for every word given by its bytes and every k below its
popcount. (`_partial`: that the uint64 SWAR arithmetic of `select64Broadword` — the three mask/shift/add
steps, `* onesStep8`, the `geqKStep8` comparison — computes exactly these byte sums / place / byteRank is NOT
proved; it is compared with the real `select64Broadword` and the amd64 `select64` on every bit-vector case.) -/
theorem select64_bytes_eq_select_partial (bytes : List Nat) (k : Nat) (hb : ∀ b ∈ bytes, b < 256)
    (hk : k < popcount (bytes.flatMap byteBits)) :
    select64Bytes bytes k = select (bytes.flatMap byteBits) (k + 1) :=
  select64Bytes_eq_select bytes k hb hk

-- the boundary of seeded change c20-17: 128 bits, the last set bit at 62, 65 clear bits behind it
set_option maxRecDepth 100000 in
example : distNextGo 128 (toWords (true :: List.replicate 61 false ++ true :: List.replicate 65 false) 0) 62 = 66 := by
  decide
set_option maxRecDepth 100000 in
example : distNext (true :: List.replicate 61 false ++ true :: List.replicate 65 false) 62 = 66 := by decide
example : select64Bytes [0x11, 0x00, 0x80] 2 = 23 := by decide

end Words

/-! ### ties to the facts regenerated from /repo's source (`lvh extract`) -/
section Ties
open LinVerif.Louds

theorem gen_labelTerminator : Generated.C20.labelTerminator = labelTerminator := rfl
theorem gen_wordSize : Generated.C20.wordSize = wordSize := rfl
theorem gen_rankSparseBlockSize : Generated.C20.rankSparseBlockSize = rankSparseBlockSize := rfl
theorem gen_selectSampleInterval : Generated.C20.selectSampleInterval = selectSampleInterval := rfl

/-- the bitmap kinds `bitVector.Init` switches on (HasPrefix is sized by nodes, the others by labels) -/
theorem gen_bitmap_kinds :
    (Generated.C20.bitmapHasChild, Generated.C20.bitmapLouds, Generated.C20.bitmapHasPrefix,
      Generated.C20.bitmapHasSuffix) = (1, 2, 3, 4) := rfl

/-- `skipEnd := groupEnd + 4` followed by `continue`: five labels are taken per shortcut, as in
`scanGroup` -/
theorem gen_skipEnd (g : Int) : Generated.C20.skipEnd g + 1 - g = 5 := by
  unfold Generated.C20.skipEnd; omega

/-- `valuePos(pos) = pos - hasChildVec.Rank(pos)` -/
theorem gen_valuePos (f : Flat) (pos : Nat) (h : rankGo f.hasChildLut f.hasChild pos ≤ pos) :
    (valuePos f pos : Int) =
      Generated.C20.valuePos (fun p => (rankGo f.hasChildLut f.hasChild p.toNat : Nat)) pos := by
  unfold valuePos Generated.C20.valuePos
  simp only [Int.toNat_natCast]
  omega

/-- `firstLabelPos(nodeID) = loudsVec.Select(nodeID + 1)` -/
theorem gen_firstLabelPos (f : Flat) (nodeID : Nat) :
    (firstLabelPos f nodeID : Int) =
      Generated.C20.firstLabelPos (fun k => (selectGo f.loudsLut f.louds k.toNat : Nat)) nodeID := by
  unfold firstLabelPos Generated.C20.firstLabelPos
  have : ((nodeID : Int) + 1).toNat = nodeID + 1 := by omega
  simp only [this]

/-- `childNodeID(pos) = hasChildVec.Rank(pos)` -/
theorem gen_childNodeID (f : Flat) (pos : Nat) :
    (childNodeID f pos : Int) =
      Generated.C20.childNodeID (fun p => (rankGo f.hasChildLut f.hasChild p.toNat : Nat)) pos := by
  unfold childNodeID Generated.C20.childNodeID
  simp only [Int.toNat_natCast]

/-- `nodeSize(pos) = loudsVec.DistanceToNextSetBit(pos)` -/
theorem gen_nodeSize (f : Flat) (pos : Nat) :
    (nodeSize f pos : Int) = Generated.C20.nodeSize (fun p => (distNext f.louds p.toNat : Nat)) pos := by
  unfold nodeSize Generated.C20.nodeSize
  simp only [Int.toNat_natCast]

/-- the step order of `trie.Get` that `getNode` / `lget` mirror: prefix check, label search,
hasChild test, then suffix check + value, or child node; after the loop prefix check, terminator
test, suffix check + value -/
theorem gen_get_calls : Generated.C20.getCalls =
    ["tree.firstLabelPos", "len", "uint32", "tree.prefixID", "prefixVec.CheckPrefix", "len", "uint32",
     "tree.nodeSize", "labelVec.Search", "hasChildVec.IsSet", "suffixVec.CheckSuffix", "tree.valuePos",
     "values.Get", "tree.childNodeID", "tree.firstLabelPos", "tree.prefixID", "prefixVec.CheckPrefix",
     "labelVec.GetLabel", "hasChildVec.IsSet"] ++
    (if Generated.C20.getChecksEndOfNode then ["tree.isEndOfNode"] else []) ++
    ["suffixVec.CheckSuffix", "tree.valuePos", "values.Get"] := by decide

/-- `Iterator.Seek` = `Reset`, `seek`, then the `moveToRightMostKey` fallback that `seekNode` builds
in (and, in the repaired variant, compare the landing key and `Next`: `seekLB`) -/
theorem gen_seek_calls : Generated.C20.seekCalls =
    ["it.Reset", "it.seek", "it.moveToRightMostKey"] ++
    (if Generated.C20.seekStepsToLowerBound then ["it.Key", "bytes.Compare", "it.Next"] else []) := by decide

/-- `labelVector.Search` is a linear `bytes.IndexByte` (first hit), as `getEntries`/`seekEntries` -/
theorem gen_search_calls : Generated.C20.searchCalls =
    ["len", "uint32", "len", "uint32", "bytes.IndexByte", "uint32"] := rfl

/-- `buildNodes`: terminator append, recursive call for the one-way node, label append, suffix /
value for a single key or child recursion, prefix, louds bit -/
theorem gen_buildNodes_calls : Generated.C20.buildNodesCalls =
    ["b.ensureLevel", "len", "len", "len", "append", "b.moveToNextItemSlot", "append", "b.buildNodes",
     "append", "b.moveToNextItemSlot", "len", "len", "uint32", "setBit", "append", "append", "len", "uint32",
     "setBit", "b.buildNodes", "uint32", "setBit", "append", "uint32", "setBit"] := rfl

/-- `TrieBucket.Write`: sort tries by size, write the big ones as they are, iterate the pending
ones with the empty prefix, rebuild through a `TrieBucketBuilder` (as `mergeTries`) -/
theorem gen_bucket_write_calls : Generated.C20.bucketWriteCalls =
    ["λ:tree.Size", "λ:tree.Size", "sort.Slice", "tree.Size", "w.Write", "append", "len", "w.Write",
     "tree.NewPrefixIterator", "itr.Valid", "itr.Key", "len", "make", "copy", "append", "itr.Value", "append",
     "itr.Next", "NewTrieBucketBuilder", "builder.Write"] := rfl

/-- `TrieBucketBuilder.Write`: sort, then per block Reset / Build / size / Write (as `writeBlocks`) -/
theorem gen_bucket_builder_calls : Generated.C20.bucketBuilderWriteCalls =
    ["sort.Sort", "len", "len", "len", "len", "builder.Reset", "builder.Build", "builder.MarshalSize", "uint32",
     "LittleEndian.PutUint32", "writer.Write", "builder.Write"] := rfl

/-- the whole body of `TrieBucketBuilder.Write`, statement by statement: the block count
(`numBlocksGo`), the bounds of block `i` (`blockBounds`), the slices handed to `Build` (`goSlice`), the loop
(`blocksLoop`). A change of the count, of a bound or of the clamp re-opens this obligation (and the model
must be re-read against the new text). -/
theorem gen_bucket_builder_write_body : Generated.C20.bucketBuilderWriteStmts =
    ["kvs := &KVs{Keys: keys, IDs: ids}", "sort.Sort(kvs)",
     "numBlocks := len(keys) / b.blockSize", "if len(keys)%b.blockSize != 0 {", "numBlocks++", "}",
     "for i := 0; i < numBlocks; i++ {",
     "start := i * b.blockSize", "end := start + b.blockSize", "if end > len(keys) {", "end = len(keys)", "}",
     "b.builder.Reset()", "b.builder.Build(kvs.Keys[start:end], kvs.IDs[start:end])",
     "size := b.builder.MarshalSize()", "binary.LittleEndian.PutUint32(b.sizeBuf[0:4], uint32(size))",
     "if err != nil {", "return err", "}", "if err != nil {", "return err", "}", "}", "return nil"] := rfl

/-- `TrieBucket.CollectKVs` statement by statement (`collectPairs` / `collectTries`: test, write, remove, the
early return AFTER the write, every trie in turn) -/
theorem gen_collect_body : Generated.C20.collectKVsStmts =
    ["range b.kvs {", "itr := kv.tree.NewPrefixIterator(nil)", "for ; itr.Valid(); {", "val := itr.Value()",
     "if values.Contains(val) {", "result[val] = string(itr.Key())", "values.Remove(val)", "}",
     "if values.IsEmpty() {", "return", "}", "itr.Next()", "}", "}"] := rfl

/-- `TrieBucket.Unmarshal` statement by statement (`BucketWire.unmarshalLoop`: size word, `end := 4 + size`,
the image `block[4:end]`, the entry's `buf = block[:end]`, advance by `end`) -/
theorem gen_bucket_unmarshal_body : Generated.C20.bucketUnmarshalStmts =
    ["for ; len(block) > 0; {", "size := binary.LittleEndian.Uint32(block[:4])", "tree := getTrieFn()",
     "end := 4 + size", "err := tree.UnmarshalBinary(block[4:end])", "if err != nil {", "return err", "}",
     "b.kvs = append(b.kvs, &trieEntry{tree: tree, buf: block[:end]})", "block = block[end:]", "}",
     "return nil"] := rfl

/-- `indexKVMerger.Merge`: unmarshal every block into one bucket, then `TrieBucket.Write` -/
theorem gen_merger_calls : Generated.C20.mergerCalls =
    ["model.NewTrieBucket", "trieBucket.Unmarshal", "kvWriter.Prepare", "trieBucket.Write", "kvWriter.Commit"] := rfl

/-- rank table: the reader's `lutSize()` and the writer's / `init`'s `nblks` agree, and are the
`numBits/blockSize + 1` entries of the byte-layout model (`TrieWire.rankSize`, `readRank`) -/
theorem gen_rank_lut_size (numBits blockSize : Nat) :
    Generated.C20.rankLutSize numBits blockSize = 4 * Generated.C20.rankWriteBlocks numBits blockSize ∧
    Generated.C20.rankWriteBlocks numBits blockSize = Generated.C20.rankInitBlocks numBits blockSize ∧
    Generated.C20.rankWriteBlocks numBits blockSize = ((numBits / blockSize + 1 : Nat) : Int) := by
  unfold Generated.C20.rankLutSize Generated.C20.rankWriteBlocks Generated.C20.rankInitBlocks
  refine ⟨by omega, rfl, ?_⟩
  simp [Int.ofNat_tdiv]

/-- select table: `lutSize()` and the writer's `lutBlk` agree: `numOnes/64 + 1` entries -/
theorem gen_select_lut_size (numOnes : Nat) :
    Generated.C20.selectLutSize numOnes = 4 * Generated.C20.selectWriteBlocks numOnes ∧
    Generated.C20.selectWriteBlocks numOnes = ((numOnes / selectSampleInterval + 1 : Nat) : Int) := by
  unfold Generated.C20.selectLutSize Generated.C20.selectWriteBlocks selectSampleInterval
  refine ⟨by omega, ?_⟩
  simp [Int.ofNat_tdiv]

/-- section order of `builder.Write`, `trie.UnmarshalBinary`, `MarshalSize` (= `TrieWire.marshal`) -/
theorem gen_layout_order :
    Generated.C20.writeCalls = ["uint32", "endian.PutUint32", "w.Write", "uint32", "endian.PutUint32", "w.Write",
      "labelVec.Write", "b.initWriteContext", "hasChildVec.Write", "loudsVec.Write", "prefixVec.Write",
      "suffixVec.Write", "len", "encoding.U32SliceToBytes", "w.Write"] ∧
    Generated.C20.unmarshalCalls = ["len", "endian.Uint32", "endian.Uint32", "labelVec.Unmarshal",
      "hasChildVec.Unmarshal", "loudsVec.Unmarshal", "prefixVec.Unmarshal", "suffixVec.Unmarshal", "int",
      "values.Unmarshal"] ∧
    Generated.C20.marshalSizeCalls = ["b.initWriteContext", "labelVec.MarshalSize", "hasChildVec.MarshalSize",
      "loudsVec.MarshalSize", "prefixVec.MarshalSize", "suffixVec.MarshalSize"] := ⟨rfl, rfl, rfl⟩

/-- rank / path vector writers and readers (= `writeRank`/`readRank`, `writePath`/`readPath`) -/
theorem gen_vector_layout :
    Generated.C20.rankWriteCalls = ["v.write", "endian.PutUint32", "w.Write", "encoding.U32SliceToBytes", "w.Write"] ∧
    Generated.C20.rankUnmarshalCalls = ["len", "fmt.Errorf", "v.unmarshal", "endian.Uint32", "v.lutSize", "int",
      "len", "len", "fmt.Errorf", "encoding.BytesToU32Slice"] ∧
    Generated.C20.pathWriteCalls = ["hasPathVector.Write", "len", "uint32", "endian.PutUint32", "len", "uint32",
      "endian.PutUint32", "w.Write", "encoding.U32SliceToBytes", "w.Write", "w.Write"] ∧
    Generated.C20.pathUnmarshalCalls = ["hasPathVector.Unmarshal", "len", "fmt.Errorf", "endian.Uint32",
      "endian.Uint32", "len", "uint32", "len", "fmt.Errorf", "encoding.BytesToU32Slice"] := ⟨rfl, rfl, rfl, rfl⟩

/-- the remaining readers, statement for statement what `labelsR` / `valuesR` / `bitsR` / `selR` follow:
`labelVector.Unmarshal` has ONE length check (`len(buf) < 4`) and slices `buf[4:4+size]` unchecked,
`valueVector.Unmarshal` has none, `bitVector.unmarshal` checks the word bytes, `selectVector.Unmarshal`
the header and the table -/
theorem gen_unmarshal_checks :
    Generated.C20.labelUnmarshalCalls = ["len", "len", "fmt.Errorf", "endian.Uint32"] ∧
    Generated.C20.valueUnmarshalCalls = ["encoding.BytesToU32Slice"] ∧
    Generated.C20.bitUnmarshalCalls = ["endian.Uint32", "v.numWords", "v.bitsSize", "int", "len", "len", "fmt.Errorf",
      "encoding.BytesToU64Slice"] ∧
    Generated.C20.selectUnmarshalCalls = ["len", "fmt.Errorf", "v.unmarshal", "endian.Uint32", "v.lutSize", "int",
      "len", "len", "fmt.Errorf", "encoding.BytesToU32Slice"] := ⟨rfl, rfl, rfl, rfl⟩

/-- **every field of a `trie` object and of each of its vectors is assigned by its `Unmarshal`** (directly,
or through the `Unmarshal` of the field / embedded vector), in the section order `unmarshalInto` follows —
what `unmarshal_into_used_object` rests on: a field added to one of these structs that the reader does not
reset re-opens this obligation -/
theorem gen_unmarshal_assigns_every_field :
    Generated.C20.trieAssigned =
      ["totalKeys", "height", "labelVec", "hasChildVec", "loudsVec", "prefixVec", "suffixVec", "values"] ∧
    (Generated.C20.trieFields.all (Generated.C20.trieAssigned.contains ·) &&
     Generated.C20.labelVectorFields.all (Generated.C20.labelVectorAssigned.contains ·) &&
     Generated.C20.valueVectorFields.all (Generated.C20.valueVectorAssigned.contains ·) &&
     Generated.C20.pathVectorFields.all (Generated.C20.pathVectorAssigned.contains ·) &&
     Generated.C20.bitVectorFields.all (Generated.C20.bitVectorAssigned.contains ·) &&
     Generated.C20.rankVectorFields.all (Generated.C20.rankVectorAssigned.contains ·) &&
     Generated.C20.selectVectorFields.all (Generated.C20.selectVectorAssigned.contains ·)) = true := by
  constructor
  · rfl
  · decide

/-- `Iterator.Next` / `Prev`: the louds-bit climb, `setAt`, then the leftmost resp. rightmost descent
(= `LoudsIter.next` / `prev`, the moves of `louds_walk_refines_cursor`) -/
theorem gen_cursor_moves :
    Generated.C20.nextCalls = ["loudsVec.IsSet", "it.setAt", "it.moveToLeftMostKey"] ∧
    Generated.C20.prevCalls = ["loudsVec.IsSet", "it.setAt", "it.moveToRightMostKey"] := ⟨rfl, rfl⟩

/-- `indexKVMerger.Merge` starts from a fresh `model.NewTrieBucket()` on every call (what
`mergerStep` / `merge_independent_of_previous_merges` rest on) -/
theorem gen_merger_fresh_bucket : Generated.C20.mergerCalls.head? = some "model.NewTrieBucket" := rfl

/-- the like dispatch of `indexKVStore.FindValuesByLike` (= `TrieBucket.likePlan`): four bucket
scans and the exact lookup -/
theorem gen_like_calls : Generated.C20.likeCalls =
    ["strings.HasPrefix", "strings.HasSuffix", "strutil.String2ByteSlice", "s.findValuesByLike", "len",
     "s.findValuesByLike", "s.findValuesByLike", "len", "s.findValuesByLike", "s.findValue"] := rfl

/-- the loops of `TrieBucket.GetValue` / `FindValuesByLike` / `FindValuesByRegexp` / `Suggest` /
`GetValues` (= `bucketGet`, `bucketFind`, `bucketSuggest`): every trie of `b.kvs` is visited in turn,
the only early exits are "found" in `GetValue` and "limit reached" in `Suggest` — no bisecting, no stop
at a trie without a match -/
theorem gen_bucket_loops :
    Generated.C20.getValueLoop = ["range b.kvs {", "if ok {", "return", "}", "}", "return"] ∧
    Generated.C20.findLikeLoop = ["range b.kvs {", "for itr.Valid() {", "if check(itr.Key(), subKey) {", "}", "}",
      "}", "return"] ∧
    Generated.C20.findRegexpLoop = ["range b.kvs {", "for itr.Valid() {", "if rp.Match(itr.Key()) {", "}", "}",
      "}", "return"] ∧
    Generated.C20.suggestLoop = ["range b.kvs {", "}", "for it.HasNext() {", "if len(rs) >= limit {", "return", "}",
      "}", "return"] ∧
    Generated.C20.getValuesLoop = ["range b.kvs {", "}", "return"] := ⟨rfl, rfl, rfl, rfl, rfl⟩

/-- re-used buffers: `bitVector.Init` zeroes the whole `v.bits` and `selectVector.Init` ranges over the
whole `v.bits` (what `TrieReuse.bufInit` / `selInitReuse` model); `Reset` keeps the builder's
vectors, `initWriteContext` re-initialises all four -/
theorem gen_reuse :
    Generated.C20.bitInitZeroRange = "v.bits" ∧ Generated.C20.selectInitRange = "v.bits" ∧
    Generated.C20.resetCalls = ["level.Reset", "append"] ∧
    Generated.C20.initWriteContextCalls = ["hasChildVec.init", "loudsVec.Init", "prefixVec.Init", "suffixVec.Init"] :=
  ⟨rfl, rfl, rfl, rfl⟩

/-- `model.TrieBucket` has exactly the fields `kvs`, `blockSize` (= `TrieBucket.BucketObj`): no memo of an
earlier lookup, no retained probe slice -/
theorem gen_bucket_no_lookup_state : Generated.C20.trieBucketFields = ["kvs", "blockSize"] := rfl

/-- the body of `bitVector.DistanceToNextSetBit`, statement by statement, as `C20Words.distNextGo` mirrors it
(early exit on `len(v.bits)`, in-word test, `wordOff == numWords-1` return, the word loop, and the
unused-tail correction guarded by `v.numBits%64 != 0`), and `numWords()` as `C20Words.numWords` -/
theorem gen_distNext_body :
    Generated.C20.distNextStmts =
      ["var distance uint32 = 1", "wordOff := (pos + 1) / wordSize", "bitsOff := (pos + 1) % wordSize",
       "if wordOff >= uint32(len(v.bits)) {", "return 0", "}",
       "testBits := v.bits[wordOff] >> bitsOff",
       "if testBits > 0 {", "return distance + uint32(bits.TrailingZeros64(testBits))", "}",
       "numWords := v.words",
       "if wordOff == numWords-1 {", "return v.numBits - pos", "}",
       "distance += wordSize - bitsOff",
       "for ; wordOff < numWords-1; {", "wordOff++", "testBits = v.bits[wordOff]",
       "if testBits > 0 {", "return distance + uint32(bits.TrailingZeros64(testBits))", "}",
       "distance += wordSize", "}",
       "if wordOff == numWords-1 && v.numBits%64 != 0 {", "distance -= wordSize - v.numBits%64", "}",
       "return distance"] ∧
    Generated.C20.numWordsStmts =
      ["wordSz := v.numBits / wordSize", "if v.numBits%wordSize != 0 {", "wordSz++", "}", "return wordSz"] :=
  ⟨rfl, rfl⟩

/-- the bodies of `popcountBlock`, `rankVectorSparse.Rank`, `selectInByte`, `findFirstSet` as
`C20Words.popcountBlockGo` / `rankWords` / `selectInByte` / `findFirstSet` mirror them -/
theorem gen_word_function_bodies :
    Generated.C20.popcountBlockStmts =
      ["if nbits == 0 {", "return 0", "}", "lastWord := (nbits - 1) / wordSize", "lastBits := (nbits - 1) % wordSize",
       "var i, p uint32", "for i = 0; i < lastWord; i++ {", "p += uint32(bits.OnesCount64(bs[off+i]))", "}",
       "last := bs[off+lastWord] << (wordSize - 1 - lastBits)", "return p + uint32(bits.OnesCount64(last))"] ∧
    Generated.C20.rankStmts =
      ["wordPreBlk := uint32(rankSparseBlockSize / wordSize)", "blockOff := pos / rankSparseBlockSize",
       "bitsOff := pos % rankSparseBlockSize",
       "return v.rankLut[blockOff] + popcountBlock(v.bits, blockOff*wordPreBlk, bitsOff+1)"] ∧
    Generated.C20.selectInByteStmts =
      ["r := 0", "for ; j != 0; j-- {", "s := findFirstSet(i)", "r += s", "i >>= s", "}", "if i == 0 {", "return 8", "}",
       "return uint8(r + findFirstSet(i) - 1)"] ∧
    Generated.C20.findFirstSetStmts = ["return bits.TrailingZeros64(uint64(x)) + 1"] :=
  ⟨rfl, rfl, rfl, rfl⟩

end Ties

/-! ### non-vacuity -/

def sampleKVs : List KV :=
  [([], 1), ([0], 2), ([97], 3), ([97, 98], 4), ([97, 98, 99], 5), ([97, 255], 6), ([98, 1, 2, 3], 7),
   ([98, 1, 2, 4], 8), ([255], 9), ([255, 255], 10)]

example : Buildable sampleKVs :=
  ⟨by decide, by decide, by decide, by intro v h; simp [sampleKVs] at h⟩

example : (build sampleKVs).map iter = some sampleKVs := by decide
example : (build sampleKVs).map (fun t => getNode false t [97, 98]) = some (some 4) := by decide
example : (build sampleKVs).map (fun t => getNode false t [97, 98, 0]) = some none := by decide
example : (build sampleKVs).map (fun t => prefixIter false t [97, 98]) = some [([97, 98], 4), ([97, 98, 99], 5)] := by decide
-- prefixes with trailing 0xff bytes (terminator label vs. real label 0xff), both Seek variants
example : (build sampleKVs).map (fun t => prefixIter true t [97, 255]) = some [([97, 255], 6)] := by decide
example : (build sampleKVs).map (fun t => prefixIter true t [255]) = some [([255], 9), ([255, 255], 10)] := by decide
example : (build sampleKVs).map (fun t => prefixIter true t [255, 255]) = some [([255, 255], 10)] := by decide
example : (build sampleKVs).map (fun t => prefixIter false t [255, 255, 255]) = some [] := by decide
example : (build sampleKVs).map (fun t => prefixIter true t [97, 98, 255]) = some [] := by decide
example : (build sampleKVs).map (fun t => LoudsIter.prefixAll true (Louds.encode t) [255]) =
    some [([255], 9), ([255, 255], 10)] := by decide

/-! ### where the code violates the property -/
namespace Neg

/-- `Build` of the key set {""} panics (`keys[1][depth]`: index out of range in `buildNodes`):
the dictionary holding only the empty key cannot be built. -/
theorem build_single_empty_key_panics : build [([], 7)] = none := by decide

/-- on the trie of the key set {"\xff"}, `Get("")` (terminator test without `!isEndOfNode`) finds
the value of "\xff": the first label is 0xff without child, which `Get` takes for the terminator
of the empty remainder. -/
theorem get_empty_key_on_single_ff :
    ∃ t, build [([255], 100)] = some t ∧ getNode false t [] = some 100 ∧ lookup [] [([255], 100)] = none :=
  ⟨_, rfl, by decide, by decide⟩

/-- `Seek` is not the lower bound: keys {"\x00", "a"}, `Seek("\x00\x00")` lands on "\x00"
(smaller than the probe); the lower bound is "a". -/
theorem seek_not_lowerBound :
    ∃ t, build [([0], 100), ([97], 101)] = some t ∧
      (seek t [0, 0]).2 = [([0], 100), ([97], 101)] ∧ lowerBound [0, 0] [([0], 100), ([97], 101)] = [([97], 101)] :=
  ⟨_, rfl, by decide, by decide⟩

/-- past the end `Seek` lands on the last key instead of becoming invalid -/
theorem seek_past_end_lands_on_last :
    ∃ t, build [([97], 5), ([98, 99], 6)] = some t ∧
      (seek t [99]).2 = [([98, 99], 6)] ∧ lowerBound [99] [([97], 5), ([98, 99], 6)] = [] :=
  ⟨_, rfl, by decide, by decide⟩

/-- a bucket whose tries are not one sorted run: {"a","z"} and {"m"} (two flushes) -/
def twoTries : Option (List Node) := TrieBucket.buildAll [[([97], 1), ([122], 3)], [([109], 2)]]

/-- bisecting on the tries' first keys is wrong: "z" is in the first trie, the bisect looks into the
second (whose first key "m" is the last one `≤ "z"`); the real `GetValue` loop finds it -/
theorem bucket_bisect_on_first_key_wrong :
    twoTries.map (fun ts => (TrieBucket.bucketGetBisect true ts [122], TrieBucket.bucketGet true ts [122])) =
      some (none, some 3) := by decide

/-- stopping at the first trie without a match is wrong: the prefix "m" matches nothing in the first
trie but a key of the second; the real loop scans every trie -/
theorem bucket_stop_at_first_nonmatching_trie_wrong :
    twoTries.map (fun ts => (TrieBucket.bucketPrefixStopEarly true ts [109], TrieBucket.bucketPrefix true ts [109])) =
      some ([], [([109], 2)]) := by decide

/-- … and the scan shortcut is NOT sound on unsorted labels (so `Build` really needs sorted keys) -/
theorem scan_shortcut_unsorted : scanGroup 1 [1, 2, 3, 4, 1] = 5 ∧ ([1, 2, 3, 4, 1].takeWhile (· == 1)).length = 1 := by
  decide

end Neg

end LinVerif.Props.C20
