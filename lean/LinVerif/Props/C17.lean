/-
C17 — A parsed statement survives the wire unchanged.

Property theorems over the model of sql/stmt's wire format (`Model/Stmt.lean`,
`Model/Json.lean`); helper lemmas are in `Lemmas/C17.lean`. The SQL parser (antlr) is not
modelled: parse → AST and parser determinism are checked by the correspondence harness only.

Equality used: Lean's structural equality on `Expr`/`Query`, where Go's nil slice and empty
slice are the same list `[]` and a nil `Expr` interface is `none`.

Full-strength statement of the property on the model:
    ∀ q, unmarshalQuery (marshalQuery q) = .ok q        and   ∀ e, unmarshal (marshal e) = .ok e.
It is FALSE of the code (see `namespace Neg`): a `NumberLiteral` that is ±Inf/NaN and a nil child
expression (both reachable from SQL text the parser accepts) are written as `null` and the
receiving side fails; an interval that is not a whole number of seconds (reachable through
int64 overflow in `parseDuration`) is cut by `Interval.String`. The `_exact` theorems say what
the code does on EVERY input; the `_partial` theorems are the property under the explicit guards.
-/
import LinVerif.Lemmas.C17
import LinVerif.Lemmas.C17Glue
import LinVerif.Generated.C17

namespace LinVerif.Props.C17
open LinVerif.Json LinVerif.Stmt

/-! ## Tie to the current source (regenerated facts) -/

theorem tie_marshalTags : Generated.C17.marshalTags = marshalTagTable := by decide
theorem tie_unmarshalTags : Generated.C17.unmarshalTags = unmarshalTagTable := by decide
theorem tie_unmarshalDefault : Generated.C17.unmarshalHasDefault = true := by decide
theorem tie_wireStructs : Generated.C17.wireStructs = wireStructTable := by decide
theorem tie_binaryOps : Generated.C17.binaryOps = binaryOpTable := by decide
theorem tie_binaryOpDefault : Generated.C17.binaryOpDefault = binaryOPString 0 := by decide
theorem tie_units :
    Generated.C17.oneSecond = oneSecond ∧ Generated.C17.oneMinute = oneMinute ∧
    Generated.C17.oneHour = oneHour ∧ Generated.C17.oneDay = oneDay ∧
    Generated.C17.oneWeek = oneWeek ∧ Generated.C17.oneMonth = oneMonth ∧
    Generated.C17.oneYear = oneYear := by decide
theorem tie_stringLadder : Generated.C17.stringLadder = stringLadder := by decide
theorem tie_stringDefault : Generated.C17.stringDefault = (oneSecond, 's') := by decide
theorem tie_suffixUnits : Generated.C17.suffixUnits = suffixUnits := by decide

theorem tie_buildTimeRange : Generated.C17.buildTimeRange = buildTimeRangeTable := by decide
theorem tie_completeCases : Generated.C17.completeCases = completeCaseTable := by decide
theorem tie_validationChecks : Generated.C17.validationChecks = validationCheckTable := by decide
theorem tie_parseFloatGuard : Generated.C17.parseFloatGuard = parseFloatGuardTable := by decide
theorem tie_listenerLinks : Generated.C17.listenerLinks = listenerLinkTable := by decide
theorem tie_listenerConstructs : Generated.C17.listenerConstructs = listenerConstructTable := by decide
theorem tie_planPayloads : Generated.C17.planPayloads = planPayloadTable := by decide
theorem tie_planCalls : Generated.C17.planCalls = planCallTable := by decide
theorem tie_leafUnmarshals : Generated.C17.leafUnmarshals = leafUnmarshalTable := by decide

/-! ## The model uses exactly the tabled vocabulary -/

/-- every node is written under the tag its `Marshal` case uses, and `Unmarshal` has a case for it -/
theorem marshal_tag (e : Expr) (hn : e ≠ .nil) :
    (∃ kvs, marshal e = .obj kvs ∧ getStr kvs "type" = .ok e.tag) ∧
    (e.goType, e.tag) ∈ marshalTagTable ∧ e.tag ∈ unmarshalTagTable := by
  cases e with
  | nil => exact absurd rfl hn
  | _ => simp [marshal, getStr, lookup, Expr.tag, Expr.goType, marshalTagTable, unmarshalTagTable]

/-- the keys of an envelope are the json tags of its Go struct, in order -/
theorem marshal_keys (e : Expr) (hn : e ≠ .nil) :
    ∃ kvs, marshal e = .obj kvs ∧ kvs.map Prod.fst = structKeys e.envelope := by
  cases e with
  | nil => exact absurd rfl hn
  | _ => simp [marshal, Expr.envelope, structKeys, wireStructTable]

/-- the tags are pairwise different (one `Unmarshal` case per kind) -/
theorem tags_nodup : (marshalTagTable.map Prod.snd).Nodup := by decide

/-- operator values are pairwise different -/
theorem binaryOps_nodup : (binaryOpTable.map (fun t => t.2.1)).Nodup := by decide

/-- `BinaryOPString` tells the named operators apart (`Rewrite` of a binary expression) -/
theorem binaryOPString_table : binaryOpTable.all (fun t => binaryOPString t.2.1 == t.2.2) = true := by
  decide

/-- a full statement is written with exactly the keys of `innerQuery`, in order -/
def fullQuery : Query :=
  { explain := true, ns := "ns", metricName := "cpu",
    selectItems := [.selectItem (.binary (.call 1 [.field "f"]) (.number ⟨0x4004000000000000⟩) 6) "x"],
    allFields := true, condition := .binary (.equals "host" "a") (.not (.inE "ip" ["1", "2"])) 1,
    timeRange := { start := 1000, stop := 2000 }, interval := 10000, storageInterval := 60000,
    intervalRatio := 6, autoGroupByTime := true, groupBy := ["host"],
    having := .binary (.field "f") (.number ⟨0x3FF0000000000000⟩) 9,
    orderByItems := [.orderBy (.field "f") true], limit := 5 }

theorem query_keys : (queryFields fullQuery).map Prod.fst = structKeys "innerQuery" := by decide

/-! ## Expressions: every tree -/

/-- What `Unmarshal(Marshal(e))` is for EVERY expression tree (including trees the parser never
produces, nil children and the nil expression itself): the tree when it is well formed (no nil
child, all number literals finite), a decoding error otherwise. -/
theorem expr_roundtrip_exact (e : Expr) :
    unmarshal (marshalRaw e) = if e.wellFormed then .ok e else .error .syntax :=
  unmarshal_marshal e

/-- the same for the element-wise loops over select / order-by / call parameters -/
theorem exprs_roundtrip_exact (es : List Expr) :
    unmarshalAll (marshalList es) = if wellFormedList es then .ok es else .error .syntax :=
  unmarshalAll_marshalList es

/-- C17 on expression trees, under the guard `wellFormed` (no nil child, no NaN/±Inf literal). -/
theorem expr_roundtrip_partial (e : Expr) (h : e.wellFormed = true) :
    unmarshal (marshalRaw e) = .ok e := by
  rw [expr_roundtrip_exact, h]; rfl

/-! ## Marshal is injective (it is also used as a map key: query/operator keys
`TagFilterResult` by `string(stmt.Marshal(expr))`) -/

/-- two well-formed trees with the same wire value are the same tree -/
theorem marshal_injective (e₁ e₂ : Expr) (h₁ : e₁.wellFormed = true) (h₂ : e₂.wellFormed = true)
    (h : marshalRaw e₁ = marshalRaw e₂) : e₁ = e₂ := by
  have r₁ := expr_roundtrip_partial e₁ h₁
  have r₂ := expr_roundtrip_partial e₂ h₂
  rw [h, r₂] at r₁
  injection r₁ with h'
  exact h'.symm

theorem tagFilter_wellFormed (e : Expr) (h : e.isTagFilter = true) : e.wellFormed = true := by
  cases e with
  | not x => cases x <;> simp_all [Expr.isTagFilter, Expr.wellFormed]
  | _ => simp_all [Expr.isTagFilter, Expr.wellFormed]

/-- the map key of a tag filter determines the filter — unconditionally -/
theorem marshal_injective_tagFilter (e₁ e₂ : Expr) (h₁ : e₁.isTagFilter = true)
    (h₂ : e₂.isTagFilter = true) (h : marshal e₁ = marshal e₂) : e₁ = e₂ := by
  apply marshal_injective e₁ e₂ (tagFilter_wellFormed e₁ h₁) (tagFilter_wellFormed e₂ h₂)
  cases e₁ <;> cases e₂ <;> simp_all [Expr.isTagFilter, marshalRaw]

/-! ## Interval ↦ String ↦ Interval -/

theorem interval_roundtrip_exact (v : Int) :
    intervalValueOf (intervalString v) = .ok (v - v.tmod 1000) := by
  simp [intervalValueOf, intervalString, intervalChars_roundtrip]

/-- `ValueOf (String v) = v` exactly for whole numbers of seconds (any sign, zero included). -/
theorem interval_roundtrip_iff (v : Int) :
    intervalValueOf (intervalString v) = .ok v ↔ (1000 : Int) ∣ v := by
  rw [interval_roundtrip_exact]
  constructor
  · intro h
    have h' : v - v.tmod 1000 = v := by injection h
    exact Int.dvd_of_tmod_eq_zero (by omega)
  · intro h
    rw [Int.tmod_eq_zero_of_dvd h]; simp

theorem interval_roundtrip (v : Int) (h : (1000 : Int) ∣ v) :
    intervalValueOf (intervalString v) = .ok v := (interval_roundtrip_iff v).2 h

/-! ## Statements -/

/-- What `UnmarshalJSON(MarshalJSON(q))` is for EVERY statement value: `q` with both intervals
cut to whole seconds when all number literals are finite, a decoding error otherwise. -/
theorem query_roundtrip_exact (q : Query) :
    unmarshalQuery (marshalQuery q) = if q.wellFormed then .ok q.wireImage else .error .syntax :=
  unmarshalQuery_marshalQuery q

theorem wireImage_eq (q : Query) (hi : (1000 : Int) ∣ q.interval) (hs : (1000 : Int) ∣ q.storageInterval) :
    q.wireImage = q := by
  simp [Query.wireImage, Int.tmod_eq_zero_of_dvd hi, Int.tmod_eq_zero_of_dvd hs]

/-- C17 on statements: under the guards (no nil child, no NaN/±Inf literal; `Interval` and
`StorageInterval` whole numbers of seconds — what `Interval.String` can express) the leaf gets
exactly the statement the root marshalled. -/
theorem query_roundtrip_partial (q : Query) (hf : q.wellFormed = true)
    (hi : (1000 : Int) ∣ q.interval) (hs : (1000 : Int) ∣ q.storageInterval) :
    unmarshalQuery (marshalQuery q) = .ok q := by
  rw [query_roundtrip_exact, hf, wireImage_eq q hi hs]; rfl

/-- the guards are necessary: if the round trip succeeds with `q`, they hold -/
theorem query_roundtrip_guards_necessary (q : Query) (h : unmarshalQuery (marshalQuery q) = .ok q) :
    q.wellFormed = true ∧ (1000 : Int) ∣ q.interval ∧ (1000 : Int) ∣ q.storageInterval := by
  rw [query_roundtrip_exact] at h
  by_cases hf : q.wellFormed = true
  · simp only [hf, if_true] at h
    have hq : q.wireImage = q := by injection h
    have h1 : q.interval - q.interval.tmod 1000 = q.interval := congrArg Query.interval hq
    have h2 : q.storageInterval - q.storageInterval.tmod 1000 = q.storageInterval :=
      congrArg Query.storageInterval hq
    exact ⟨hf, Int.dvd_of_tmod_eq_zero (by omega), Int.dvd_of_tmod_eq_zero (by omega)⟩
  · simp [hf] at h

/-- metadata statements (`show tag values ... where ...`); `hk` is the range of Go's `uint8` -/
theorem metadata_roundtrip_exact (m : Metadata) (hk : m.kind < 256) :
    unmarshalMetadata (marshalMetadata m) =
      if optWellFormed m.condition then .ok m else .error .syntax :=
  unmarshalMetadata_marshalMetadata m hk

theorem metadata_roundtrip_partial (m : Metadata) (hk : m.kind < 256)
    (h : optWellFormed m.condition = true) :
    unmarshalMetadata (marshalMetadata m) = .ok m := by
  rw [metadata_roundtrip_exact m hk, h]; rfl

/-! ## The JSON text layer (jsoniter) as a parameter -/

/-- jsoniter's encoder/decoder for the value subset the statements use. `parse_encode` is the
external contract (strconv shortest float formatting, string escaping, integer printing,
RawMessage splicing); it is exercised by the correspondence stream, not proved. -/
structure TextCodec where
  Text : Type
  encode : Json → Text
  parse : Text → Except Err Json
  parse_encode : ∀ j : Json, j.wireOk = true → parse (encode j) = .ok j

mutual
theorem marshal_wireOk : ∀ e : Expr, (marshal e).wireOk = true
  | .nil => by simp [marshal, Json.wireOk]
  | .field _ | .equals _ _ | .like _ _ | .regex _ _ => by
    simp [marshal, Json.wireOk, wireOkFields]
  | .inE _ vs => by
    cases vs with
    | nil => simp [marshal, strArr, Json.wireOk, wireOkFields]
    | cons a t =>
      have : ∀ l : List String, wireOkList (l.map Json.str) = true := by
        intro l; induction l with
        | nil => rfl
        | cons a t ih => simp [wireOkList, Json.wireOk, ih]
      simpa [marshal, strArr, Json.wireOk, wireOkFields, wireOkList] using this t
  | .number f => by
    by_cases h : f.isFinite <;> simp [marshal, Json.wireOk, wireOkFields, h]
  | .paren e | .not e | .selectItem e _ | .orderBy e _ => by
    simp [marshal, Json.wireOk, wireOkFields, marshal_wireOk e]
  | .binary l r _ => by
    simp [marshal, Json.wireOk, wireOkFields, marshal_wireOk l, marshal_wireOk r]
  | .call _ ps => by
    have := marshalList_wireOk ps
    cases ps with
    | nil => simp [marshal, Json.wireOk, wireOkFields]
    | cons a t => simpa [marshal, Json.wireOk, wireOkFields] using this
theorem marshalList_wireOk : ∀ es : List Expr, wireOkList (marshalList es) = true
  | [] => rfl
  | e :: es => by simp [marshalList, wireOkList, marshal_wireOk e, marshalList_wireOk es]
end

theorem wireOkFields_append (a b : Fields) :
    wireOkFields (a ++ b) = (wireOkFields a && wireOkFields b) := by
  induction a with
  | nil => simp [wireOkFields]
  | cons hd tl ih => obtain ⟨k, v⟩ := hd; simp [wireOkFields, ih, Bool.and_assoc]

theorem wireOkFields_optField (k : String) (e : Bool) (v : Json) (hv : v.wireOk = true) :
    wireOkFields (optField k e v) = true := by
  cases e <;> simp [optField, wireOkFields, hv]

theorem wireOkFields_optExpr (k : String) (e : Expr) : wireOkFields (optExpr k e) = true := by
  have := marshal_wireOk e
  cases e <;> simp_all [optExpr, marshalRaw, wireOkFields]

theorem wireOkList_strs (l : List String) : wireOkList (l.map Json.str) = true := by
  induction l with
  | nil => rfl
  | cons a t ih => simp [wireOkList, Json.wireOk, ih]

/-- what `MarshalJSON` hands to the encoder is always printable (no NaN/±Inf reaches it) -/
theorem marshalQuery_wireOk (q : Query) : (marshalQuery q).wireOk = true := by
  simp [marshalQuery, Json.wireOk, queryFields, wireOkFields_append, wireOkFields_optExpr,
    wireOkFields_optField, wireOkFields, marshalList_wireOk, wireOkList_strs]
  repeat' constructor
  all_goals exact wireOkFields_optField _ _ _ rfl

/-- through the text layer, statement level: the bytes the root sends decode at the leaf to the
statement the root planned (under the guards) -/
theorem wire_query_roundtrip_partial (C : TextCodec) (q : Query) (hf : q.wellFormed = true)
    (hi : (1000 : Int) ∣ q.interval) (hs : (1000 : Int) ∣ q.storageInterval) :
    (C.parse (C.encode (marshalQuery q))).bind unmarshalQuery = .ok q := by
  rw [C.parse_encode _ (marshalQuery_wireOk q)]
  simp only [Except.bind]
  exact query_roundtrip_partial q hf hi hs

/-- through the text layer: root `Marshal` → bytes → leaf `Unmarshal`, every finite tree -/
theorem wire_expr_roundtrip_partial (C : TextCodec) (e : Expr) (h : e.wellFormed = true) :
    (C.parse (C.encode (marshal e))).bind (fun j => unmarshal (some j)) = .ok e := by
  rw [C.parse_encode _ (marshal_wireOk e)]
  have := expr_roundtrip_partial e h
  cases e with
  | nil => simp [Expr.wellFormed] at h
  | _ => exact this

/-- as bytes: equal map keys (encoded text) of two tag filters ⇒ equal filters -/
theorem wire_marshal_injective_tagFilter (C : TextCodec) (e₁ e₂ : Expr) (h₁ : e₁.isTagFilter = true)
    (h₂ : e₂.isTagFilter = true) (h : C.encode (marshal e₁) = C.encode (marshal e₂)) : e₁ = e₂ := by
  apply marshal_injective_tagFilter e₁ e₂ h₁ h₂
  have p₁ := C.parse_encode _ (marshal_wireOk e₁)
  have p₂ := C.parse_encode _ (marshal_wireOk e₂)
  rw [h, p₂] at p₁
  injection p₁ with h'
  exact h'.symm

/-! ## `validation()` / `isCompleteExpr`: an accepted statement is well formed

The parser is not modelled; the claims "the parser never hands out a nil operand / a NaN or Inf
literal" rest on (a) the pinned tables of what the listener constructs and links, (b) `complete`
(= `isCompleteExpr`, tied case by case) and (c) the harness oracle "accepted ⇒ well formed". -/

mutual
/-- `isCompleteExpr` plus finite literals is exactly well-formedness — all constructors, call
parameters included -/
theorem complete_wellFormed : ∀ e : Expr, e.complete = true → e.numbersFinite = true →
    e.wellFormed = true
  | .nil, h, _ => by simp [Expr.complete] at h
  | .field _, _, _ | .equals _ _, _, _ | .inE _ _, _, _ | .like _ _, _, _ | .regex _ _, _, _ => by
    simp [Expr.wellFormed]
  | .number f, _, hf => by simpa [Expr.wellFormed, Expr.numbersFinite] using hf
  | .paren e, hc, hf => by
    simp only [Expr.complete, Expr.numbersFinite, Expr.wellFormed] at *
    exact complete_wellFormed e hc hf
  | .not e, hc, hf => by
    simp only [Expr.complete, Expr.numbersFinite, Expr.wellFormed] at *
    exact complete_wellFormed e hc hf
  | .selectItem e _, hc, hf => by
    simp only [Expr.complete, Expr.numbersFinite, Expr.wellFormed] at *
    exact complete_wellFormed e hc hf
  | .orderBy e _, hc, hf => by
    simp only [Expr.complete, Expr.numbersFinite, Expr.wellFormed] at *
    exact complete_wellFormed e hc hf
  | .binary l r _, hc, hf => by
    simp only [Expr.complete, Expr.numbersFinite, Expr.wellFormed, Bool.and_eq_true] at *
    exact ⟨complete_wellFormed l hc.1 hf.1, complete_wellFormed r hc.2 hf.2⟩
  | .call _ ps, hc, hf => by
    simp only [Expr.complete, Expr.numbersFinite, Expr.wellFormed] at *
    exact completeList_wellFormed ps hc hf
theorem completeList_wellFormed : ∀ es : List Expr, completeList es = true →
    numbersFiniteList es = true → wellFormedList es = true
  | [], _, _ => rfl
  | e :: es, hc, hf => by
    simp only [completeList, numbersFiniteList, wellFormedList, Bool.and_eq_true] at *
    exact ⟨complete_wellFormed e hc.1 hf.1, completeList_wellFormed es hc.2 hf.2⟩
end

mutual
/-- and conversely: `isCompleteExpr` rejects nothing that is well formed -/
theorem wellFormed_complete : ∀ e : Expr, e.wellFormed = true →
    e.complete = true ∧ e.numbersFinite = true
  | .nil, h => by simp [Expr.wellFormed] at h
  | .field _, _ | .equals _ _, _ | .inE _ _, _ | .like _ _, _ | .regex _ _, _ => by
    simp [Expr.complete, Expr.numbersFinite]
  | .number f, h => by simpa [Expr.wellFormed, Expr.complete, Expr.numbersFinite] using h
  | .paren e, h => by
    simp only [Expr.complete, Expr.numbersFinite, Expr.wellFormed] at *
    exact wellFormed_complete e h
  | .not e, h => by
    simp only [Expr.complete, Expr.numbersFinite, Expr.wellFormed] at *
    exact wellFormed_complete e h
  | .selectItem e _, h => by
    simp only [Expr.complete, Expr.numbersFinite, Expr.wellFormed] at *
    exact wellFormed_complete e h
  | .orderBy e _, h => by
    simp only [Expr.complete, Expr.numbersFinite, Expr.wellFormed] at *
    exact wellFormed_complete e h
  | .binary l r _, h => by
    simp only [Expr.complete, Expr.numbersFinite, Expr.wellFormed, Bool.and_eq_true] at *
    exact ⟨⟨(wellFormed_complete l h.1).1, (wellFormed_complete r h.2).1⟩,
      (wellFormed_complete l h.1).2, (wellFormed_complete r h.2).2⟩
  | .call _ ps, h => by
    simp only [Expr.complete, Expr.numbersFinite, Expr.wellFormed] at *
    exact wellFormedList_complete ps h
theorem wellFormedList_complete : ∀ es : List Expr, wellFormedList es = true →
    completeList es = true ∧ numbersFiniteList es = true
  | [], _ => ⟨rfl, rfl⟩
  | e :: es, h => by
    simp only [completeList, numbersFiniteList, wellFormedList, Bool.and_eq_true] at *
    exact ⟨⟨(wellFormed_complete e h.1).1, (wellFormedList_complete es h.2).1⟩,
      (wellFormed_complete e h.1).2, (wellFormedList_complete es h.2).2⟩
end

/-- a statement that passed `validation()`, whose literals are finite (ParseFloat guard) and whose
tag-filter condition is nil or well formed, is well formed — hence reaches the leaf unchanged -/
theorem validated_wellFormed (q : Query) (hv : q.validated = true)
    (hs : numbersFiniteList q.selectItems = true) (ho : numbersFiniteList q.orderByItems = true)
    (hh : q.having.numbersFinite = true) (hc : optWellFormed q.condition = true) :
    q.wellFormed = true := by
  simp only [Query.validated, Bool.and_eq_true] at hv
  obtain ⟨⟨h1, h2⟩, h3⟩ := hv
  simp only [Query.wellFormed, Bool.and_eq_true]
  refine ⟨⟨⟨completeList_wellFormed _ h1 hs, hc⟩, ?_⟩, completeList_wellFormed _ h2 ho⟩
  cases hq : q.having with
  | nil => rfl
  | _ =>
    rw [hq] at h3 hh
    exact complete_wellFormed _ h3 hh

theorem validated_leaf_executes (q : Query) (hv : q.validated = true)
    (hs : numbersFiniteList q.selectItems = true) (ho : numbersFiniteList q.orderByItems = true)
    (hh : q.having.numbersFinite = true) (hc : optWellFormed q.condition = true)
    (hi : (1000 : Int) ∣ q.interval) (hst : (1000 : Int) ∣ q.storageInterval) :
    leafStatement (payloadOf q) = .ok q :=
  query_roundtrip_partial q (validated_wellFormed q hv hs ho hh hc) hi hst

/-! ### facts about the listener's tables (all by evaluation of the pinned tables) -/

/-- the recursive cases of `isCompleteExpr` -/
def completeRecursiveKinds : List String :=
  (completeCaseTable.filter (fun c => c.1 != "nil" && c.1 != "default")).map (fun c => (c.1.drop 6).toString)

/-- every node kind the listener builds WITHOUT its children (filled in later by `setExprParam` /
`completeTagFilterExpr` / `parseFieldName` / `completeFuncExpr`) is a kind `isCompleteExpr`
descends into; every kind it does not descend into has no children at all -/
theorem listener_incomplete_kinds_covered :
    listenerConstructTable.all (fun c =>
      (childFields c.2.1).all (fun f => c.2.2.contains f) || completeRecursiveKinds.contains c.2.1) = true ∧
    listenerConstructTable.all (fun c =>
      completeRecursiveKinds.contains c.2.1 || (childFields c.2.1).isEmpty) = true := by decide

/-- a `NotExpr` is always built together with its operand -/
theorem listener_not_has_operand :
    listenerConstructTable.all (fun c => c.2.1 != "NotExpr" || c.2.2.contains "Expr") = true := by decide

/-- number literals are built in one place, from `strconv.ParseFloat`, whose error is not dropped -/
theorem listener_number_only_from_parseFloat :
    (listenerConstructTable.filter (fun c => c.2.1 == "NumberLiteral")).map (·.1) = ["visitExprAtom"] ∧
    parseFloatGuardTable = ["val, err := strconv.ParseFloat(valStr, 64)",
      "if err != nil { q.err = err return }"] := by decide

/-- the where-condition is stored in one place and built by the tag-filter functions only, which
build no call, number, select-item or order-by node -/
theorem listener_condition_kinds :
    (listenerLinkTable.filter (fun l => l.2.1 == "b.condition")).map (·.1) = ["completeTagFilterExpr"] ∧
    (listenerConstructTable.filter (fun c => c.1 == "visitTagFilterExpr" || c.1 == "createTagFilterExpr")).all
      (fun c => ["ParenExpr", "BinaryExpr", "EqualsExpr", "NotExpr", "LikeExpr", "RegexExpr", "InExpr"].contains c.2.1)
      = true := by decide

/-- the clauses `validation()` checks are all the clauses that hold field expressions -/
theorem validation_covers_expression_clauses :
    validationCheckTable.map (·.2) = ["item", "item", "q.havingStmt"] ∧
    validationCheckTable.map (·.1) = ["range q.selectItems", "range q.orderBy", ""] ∧
    -- every link the listener makes is a child link or one of the four clause stores; the three
    -- stores that hold field expressions are the three things validation() checks
    listenerLinkTable.all (fun l =>
      ["q.orderBy", "q.selectItems", "q.havingStmt", "b.condition", "q.curOrderByExpr.Expr",
       "parentExpr.Left", "parentExpr.Right", "parentExpr.Expr", "expr.Params", "expr.Expr",
       "expr.Left", "expr.Right"].contains l.2.1) = true := by decide

/-! ## Absolute time bounds come from the text, not from the clock

(only the defaulting step of `queryStmtParser.build`, tied by `tie_buildTimeRange`; the harness
checks `TimeRange == the literals` on statements with both bounds absolute, also for bounds after
the wall clock, and re-parses after a pause) -/

/-- both bounds given ⇒ the range is exactly the bounds, whatever the clock (also when a bound
lies after `now`) -/
theorem buildTimeRange_of_text (s e now : Int) (hs : 0 < s) (he : 0 < e) :
    buildTimeRange s e now = ⟨s, e⟩ := by
  have h1 : ¬ s ≤ 0 := by omega
  have h2 : ¬ e ≤ 0 := by omega
  simp [buildTimeRange, h1, h2]

theorem buildTimeRange_clock_free (s e n₁ n₂ : Int) (hs : 0 < s) (he : 0 < e) :
    buildTimeRange s e n₁ = buildTimeRange s e n₂ := by
  rw [buildTimeRange_of_text s e n₁ hs he, buildTimeRange_of_text s e n₂ hs he]

/-- a missing bound is the only way the clock gets in -/
theorem buildTimeRange_defaults (now : Int) :
    buildTimeRange 0 0 now = ⟨now - 3600000, now⟩ ∧
    (∀ e, 0 < e → buildTimeRange 0 e now = ⟨now - 3600000, e⟩) ∧
    (∀ s, 0 < s → buildTimeRange s 0 now = ⟨s, now⟩) := by
  refine ⟨by simp [buildTimeRange, oneHour, oneMinute, oneSecond], ?_, ?_⟩
  · intro e he
    have : ¬ e ≤ 0 := by omega
    simp [buildTimeRange, oneHour, oneMinute, oneSecond, this]
  · intro s hs
    have : ¬ s ≤ 0 := by omega
    simp [buildTimeRange, this]

/-! ## What "parsing is deterministic" means (the parser itself is NOT modelled)

`sql.Parse` is outside the model. The property's second sentence is taken extensionally: the
implementation must behave like a FUNCTION of the text (and of the clock, for ranges relative to
`now()`), whatever callers do with statements they obtained earlier — in particular the root's
planner rewrites its statement in place. The harness records observations `(text, dump of the
result)`, where between two observations every earlier result has been planned / rewritten in
every field, sequentially and from concurrent requests; the oracle is `Functional` below.
A parser that returns shared mutable structure (statement cache, pooled nodes) produces a
non-functional trace. The two lemmas say this notion is exactly "there is a parse function". -/

/-- a trace of observations `(input, observed result)` is functional -/
def Functional {α β : Type} (tr : List (α × β)) : Prop :=
  ∀ a b₁ b₂, (a, b₁) ∈ tr → (a, b₂) ∈ tr → b₁ = b₂

/-- observations of a pure function are functional, for every sequence of inputs -/
theorem functional_of_function {α β : Type} (f : α → β) (inputs : List α) :
    Functional (inputs.map (fun a => (a, f a))) := by
  intro a b₁ b₂ h₁ h₂
  simp only [List.mem_map, Prod.mk.injEq] at h₁ h₂
  obtain ⟨x, _, rfl, rfl⟩ := h₁
  obtain ⟨y, _, rfl, rfl⟩ := h₂
  rfl

/-- conversely a functional trace is explained by some function -/
theorem function_of_functional {α β : Type} [DecidableEq α] [Inhabited β] (tr : List (α × β))
    (h : Functional tr) : ∃ f : α → β, ∀ p ∈ tr, p.2 = f p.1 := by
  refine ⟨fun a => match tr.find? (fun p => p.1 == a) with | some p => p.2 | none => default, ?_⟩
  intro p hp
  have hs : (tr.find? (fun q => q.1 == p.1)).isSome := by
    rw [List.find?_isSome]; exact ⟨p, hp, by simp⟩
  cases hf : tr.find? (fun q => q.1 == p.1) with
  | none => rw [hf] at hs; cases hs
  | some q =>
    have hq := List.mem_of_find?_eq_some hf
    have hk : q.1 = p.1 := by simpa using List.find?_some hf
    show p.2 = match tr.find? (fun q => q.1 == p.1) with | some p => p.2 | none => default
    rw [hf]
    exact h p.1 p.2 q.2 hp (by rw [← hk]; exact hq)

/-- a trace in which a re-parse of the same text differs (the shape a shared, planned statement
produces) is not functional -/
example : ¬ Functional [("select f from cpu", (0 : Nat)), ("select f from cpu", 60000)] := by
  intro h
  have := h "select f from cpu" 0 60000 (by simp) (by simp)
  cases this

/-! ## Error branches of `Unmarshal`, stated explicitly -/

/-- empty `json.RawMessage` (absent or `null` child) -/
theorem unmarshal_empty : unmarshal none = .error .syntax := by rw [unmarshal]
/-- the text `null`: zero `exprData`, empty tag -/
theorem unmarshal_null : unmarshal (some .null) = .error (.typeTag "") := by rw [unmarshal]
/-- a value that is neither an object nor `null` -/
theorem unmarshal_nonobject (j : Json) (h1 : j ≠ .null) (h2 : ∀ kvs, j ≠ .obj kvs) :
    unmarshal (some j) = .error .syntax := by
  cases j with
  | null => exact absurd rfl h1
  | obj kvs => exact absurd rfl (h2 kvs)
  | bool _ | int _ | flt _ | str _ | arr _ => rw [unmarshal] <;> simp
/-- unknown type tag: the `default` case -/
theorem unmarshal_unknown_tag (kvs : Fields) (tag : String) (ht : getStr kvs "type" = .ok tag)
    (hn : tag ∉ unmarshalTagTable) : unmarshal (some (.obj kvs)) = .error (.typeTag tag) := by
  simp [unmarshalTagTable] at hn
  rw [unmarshal]
  simp [ht, hn]
/-- a `type` that is not a string -/
theorem unmarshal_tag_not_string (kvs : Fields) (e : Err) (ht : getStr kvs "type" = .error e) :
    unmarshal (some (.obj kvs)) = .error e := by
  rw [unmarshal]; simp [ht]
/-- `paren`/`not` without (or with `null`) `expr` -/
theorem unmarshal_missing_child (kvs : Fields) (tag : String) (ht : getStr kvs "type" = .ok tag)
    (hk : tag = "paren" ∨ tag = "not") (hm : getRaw kvs "expr" = none) :
    unmarshal (some (.obj kvs)) = .error .syntax := by
  rw [unmarshal]
  rcases hk with rfl | rfl <;> simp [ht, hm, unmarshal_empty]
/-- `binary` without `left` -/
theorem unmarshal_binary_missing_left (kvs : Fields) (ht : getStr kvs "type" = .ok "binary")
    (op : Int) (ho : getInt kvs "operator" = .ok op) (hm : getRaw kvs "left" = none) :
    unmarshal (some (.obj kvs)) = .error .syntax := by
  rw [unmarshal]; simp [ht, ho, hm, unmarshal_empty]
/-- a leaf envelope without `expr` is an error, ... -/
theorem unmarshal_leaf_missing_expr (kvs : Fields) (tag : String) (ht : getStr kvs "type" = .ok tag)
    (hk : tag ∈ ["regex", "like", "in", "equals", "number", "field"]) (hm : getRaw kvs "expr" = none) :
    unmarshal (some (.obj kvs)) = .error .syntax := by
  rw [unmarshal]
  simp at hk
  rcases hk with rfl | rfl | rfl | rfl | rfl | rfl <;>
    simp [ht, hm, unmarshalRegex, unmarshalLike, unmarshalIn, unmarshalEquals, unmarshalNumber,
      unmarshalField, leafFields, bind, Except.bind]
/-- ... but missing fields INSIDE a leaf are not: they keep Go's zero value -/
theorem unmarshal_leaf_missing_fields :
    unmarshal (some (.obj [("type", .str "number"), ("expr", .obj [])])) = .ok (.number F64.zero) ∧
    unmarshal (some (.obj [("type", .str "equals"), ("expr", .obj [("key", .str "k")])]))
      = .ok (.equals "k" "") ∧
    unmarshal (some (.obj [("type", .str "call")])) = .ok (.call 0 []) := by
  refine ⟨?_, ?_, ?_⟩ <;> rw [unmarshal] <;>
    simp [getStr, getFlt, getInt, getRaw, rawElem, getRawList, arrElems, lookup, unmarshalNumber,
      unmarshalEquals, leafFields, structFields, bind, Except.bind, pure, Except.pure, unmarshalAll]
/-- a later duplicate key wins -/
theorem unmarshal_duplicate_tag :
    unmarshal (some (.obj [("type", .str "field"), ("type", .str "number"),
      ("expr", .obj [("name", .str "a")])])) = .ok (.number F64.zero) := by
  rw [unmarshal]
  simp [getStr, getFlt, getRaw, rawElem, lookup, unmarshalNumber, leafFields, structFields, bind,
    Except.bind, pure, Except.pure]
/-- statement level: `interval` present but not a string / not `<int><unit>` -/
theorem unmarshalQuery_bad_interval :
    unmarshalQuery (.obj [("interval", .int 5)]) = .error .intervalInvalid ∧
    unmarshalQuery (.obj [("interval", .null)]) = .error .intervalInvalid ∧
    unmarshalQuery (.obj [("interval", .str "5")]) = .error .intervalUnknown ∧
    unmarshalQuery (.obj [("interval", .str "10x")]) = .error .intervalUnknown := by
  have h5 : intervalValueOf "5" = .error .intervalUnknown := by
    simp [intervalValueOf, intervalValueOfChars]
  have hx : intervalValueOf "10x" = .error .intervalUnknown := by
    simp [intervalValueOf, intervalValueOfChars, unitOf, suffixUnits]
  refine ⟨?_, ?_, ?_, ?_⟩ <;>
    simp [unmarshalQuery, structFields, getBool, getStr, getInt, getRawList, getStruct, getInterval,
      lookup, bind, Except.bind, h5, hx]
/-- statement level: the empty object is the zero statement (every field optional) -/
def zeroQuery : Query :=
  { explain := false, ns := "", metricName := "", selectItems := [], allFields := false,
    condition := .nil, timeRange := ⟨0, 0⟩, interval := 0, storageInterval := 0, intervalRatio := 0,
    autoGroupByTime := false, groupBy := [], having := .nil, orderByItems := [], limit := 0 }

theorem unmarshalQuery_empty : unmarshalQuery (.obj []) = .ok zeroQuery := by
  simp [unmarshalQuery, structFields, getBool, getStr, getInt, getRawList, getStruct, getInterval,
    getStrList, getRaw, arrElems, lookup, bind, Except.bind, pure, Except.pure, unmarshalOpt, unmarshalAll,
    zeroQuery]

/-! ## "... so a leaf node executes the statement the root planned"

`payloadOf` is the modelled serialisation step of the plan stages (tied to the source by
`tie_planPayloads` / `tie_planCalls`: the payload is `MarshalJSON()` of the statement the planning
node keeps, nothing in between), `leafStatement` what the receiving processors do with
`req.Payload` (`tie_leafUnmarshals`). The real plan stages are also RUN by the harness and their
payloads fed to the leaf-side decode (`leaf-statement-differs` oracle). -/

/-- what the leaf executes, for every statement the root may hold -/
theorem leaf_executes_planned_exact (q : Query) :
    leafStatement (payloadOf q) = if q.wellFormed then .ok q.wireImage else .error .syntax :=
  query_roundtrip_exact q

/-- the leaf executes the statement the root planned (guards as in `query_roundtrip_partial`;
after `calcTimeRangeAndInterval` both intervals are products of configured whole-second
intervals, so the interval guards hold for planned statements) -/
theorem leaf_executes_planned (q : Query) (hf : q.wellFormed = true)
    (hi : (1000 : Int) ∣ q.interval) (hs : (1000 : Int) ∣ q.storageInterval) :
    leafStatement (payloadOf q) = .ok q :=
  query_roundtrip_partial q hf hi hs

/-- in particular the grouping keys arrive in the root's order (the root labels result series
by its own `GroupBy` order) -/
theorem leaf_groupBy_order (q q' : Query) (h : leafStatement (payloadOf q) = .ok q') :
    q'.groupBy = q.groupBy ∧ q'.selectItems = q.selectItems ∧ q'.orderByItems = q.orderByItems ∧
    q'.limit = q.limit := by
  rw [leaf_executes_planned_exact] at h
  by_cases hf : q.wellFormed = true
  · simp only [hf, if_true] at h
    injection h with h
    subst h
    simp [Query.wireImage]
  · simp [hf] at h

theorem leaf_executes_planned_metadata (m : Metadata) (hk : m.kind < 256)
    (h : optWellFormed m.condition = true) : leafMetadata (metaPayloadOf m) = .ok m :=
  metadata_roundtrip_partial m hk h

/-- through the bytes of the task request -/
theorem wire_leaf_executes_planned (C : TextCodec) (q : Query) (hf : q.wellFormed = true)
    (hi : (1000 : Int) ∣ q.interval) (hs : (1000 : Int) ∣ q.storageInterval) :
    (C.parse (C.encode (payloadOf q))).bind leafStatement = .ok q :=
  wire_query_roundtrip_partial C q hf hi hs

/-- a payload built from a statement with re-ordered grouping keys is NOT what the root holds
(the shape of a "canonicalising" serialisation step) -/
example : leafStatement (payloadOf { zeroQuery with groupBy := ["app", "host"] })
    ≠ .ok { zeroQuery with groupBy := ["host", "app"] } := by
  rw [leaf_executes_planned_exact]
  have : Query.wellFormed { zeroQuery with groupBy := ["app", "host"] } = true := by rfl
  rw [this]
  intro h
  injection h with h
  have := congrArg Query.groupBy h
  simp [Query.wireImage] at this


/-! # Round 8

## Decode-side reuse: the decoded statement is a function of the payload alone

`Query.UnmarshalJSON` decodes into a fresh `innerQuery{}` and the four processors decode into a
fresh `stmt.Query{}` / `stmt.MetricMetadata{}` (`tie_decodeTargets`). The model below makes both
explicit: `unmarshalQueryInto recv` is the code with an arbitrary receiver, `Worker.run pol` a
request history on one worker with the scratch value obtained by policy `pol`. -/

theorem tie_decodeTargets : Generated.C17.decodeTargets = decodeTargetTable := by decide

/-- with a receiver whose `Condition`/`Having` are nil (in particular the zero value the processors
use) `UnmarshalJSON` is the pure decode of the payload -/
theorem decode_fresh_receiver (recv : Query) (hc : recv.condition = .nil) (hh : recv.having = .nil)
    (j : Json) : unmarshalQueryInto recv j = unmarshalQuery j :=
  unmarshalQueryInto_fresh recv hc hh j

theorem decode_fresh_receiver_metadata (recv : Metadata) (hc : recv.condition = .nil) (j : Json) :
    unmarshalMetadataInto recv j = unmarshalMetadata j :=
  unmarshalMetadataInto_fresh recv hc j

/-- what the code does with ANY receiver: the pure decode, except that an absent `condition` /
`having` keeps the receiver's (the only two fields assigned under an `if`) -/
theorem decode_into_receiver_exact (recv : Query) (kvs : Fields) (q : Query)
    (h : unmarshalQuery (.obj kvs) = .ok q) :
    unmarshalQueryInto recv (.obj kvs) = .ok { q with
      condition := if getRaw kvs "condition" = none then recv.condition else q.condition,
      having := if getRaw kvs "having" = none then recv.having else q.having } := by
  simp only [unmarshalQuery, unmarshalQueryInto, structFields, bind, Except.bind, pure, Except.pure] at h ⊢
  repeat' (split at h)
  all_goals first | (cases h; done) | skip
  cases h
  rename_i hcond _ _ hhav _ _ _ _ _
  simp only [*]
  cases hc : getRaw kvs "condition" <;> cases hh : getRaw kvs "having" <;>
    simp_all [unmarshalOpt, unmarshalOptInto]

/-- every request on a worker that takes a fresh scratch value decodes to `unmarshalQuery payload`,
whatever was decoded there before -/
theorem worker_history_free (w : Worker) (history : List Json) :
    Worker.run .fresh w history = history.map unmarshalQuery :=
  worker_run_fresh w history

/-- decode is a function of the payload alone: the same payload after two different histories on
two different workers gives the same statement -/
theorem decode_is_function_of_payload (w₁ w₂ : Worker) (h₁ h₂ : List Json) (p : Json) :
    (Worker.run .fresh w₁ (h₁ ++ [p])).getLast? = (Worker.run .fresh w₂ (h₂ ++ [p])).getLast? ∧
    (Worker.run .fresh w₁ (h₁ ++ [p])).getLast? = some (unmarshalQuery p) := by
  simp [worker_run_fresh]

/-- so the leaf executes the statement the root planned after ANY request history on that leaf -/
theorem leaf_executes_planned_after_any_history (w : Worker) (history : List Json) (q : Query)
    (hf : q.wellFormed = true) (hi : (1000 : Int) ∣ q.interval) (hs : (1000 : Int) ∣ q.storageInterval) :
    (Worker.run .fresh w (history ++ [payloadOf q])).getLast? = some (.ok q) := by
  rw [(decode_is_function_of_payload w w history history _).2]
  exact congrArg some (leaf_executes_planned q hf hi hs)

/-! ## The text layer: which numbers the model covers

`NumberLiteral.Val` is an opaque IEEE-754 bit pattern in the model (`F64`); the encoder
configuration (`encoding.JSONMarshal` = jsoniter `ConfigCompatibleWithStandardLibrary`, i.e.
strconv's shortest text that parses back to the same float, `tie_marshalCodec`) is the `TextCodec`
hypothesis `parse (encode j) = j` for every value whose floats are finite. A theorem over all finite
float64 would need a verified `strconv.FormatFloat/ParseFloat` and is out of reach here. Concretely
modelled and proved: whole numbers as decimal digit strings (`number_text_whole_numbers`, every
`Int`). Everything else — fractional digits beyond 6 / beyond 17, exponents, -0, 1e21, 2^63±1,
subnormals, the largest finite value — is covered by the harness's boundary literals (fixed case 8
and the float pool), bit for bit. What CAN be said for any encoder: it must be injective on the
values it may be handed, so an encoder that prints two different finite floats alike (6 fractional
digits) has no decoder at all. -/

theorem tie_marshalCodec : Generated.C17.marshalCodec = marshalCodecTable := by decide

/-- the digit strings of whole numbers parse back exactly (every `Int`) -/
theorem number_text_whole_numbers (v : Int) : parseInt (fmtInt v) = some v := parseInt_fmtInt v

/-- any text layer that satisfies the contract is injective on printable values -/
theorem textCodec_encode_injective (C : TextCodec) (j₁ j₂ : Json) (h₁ : j₁.wireOk = true)
    (h₂ : j₂.wireOk = true) (h : C.encode j₁ = C.encode j₂) : j₁ = j₂ := by
  have p₁ := C.parse_encode j₁ h₁
  have p₂ := C.parse_encode j₂ h₂
  rw [h, p₂] at p₁
  injection p₁ with h'
  exact h'.symm

/-- an encoder that writes two different printable values with the same text (e.g. floats cut to
6 fractional digits) cannot be completed to a text layer: no decoder satisfies the contract -/
theorem lossy_encoder_has_no_decoder {T : Type} (encode : Json → T) (j₁ j₂ : Json)
    (h₁ : j₁.wireOk = true) (h₂ : j₂.wireOk = true) (hne : j₁ ≠ j₂) (hc : encode j₁ = encode j₂) :
    ¬ ∃ parse : T → Except Err Json, ∀ j : Json, j.wireOk = true → parse (encode j) = .ok j := by
  rintro ⟨parse, hp⟩
  exact hne (textCodec_encode_injective ⟨T, encode, parse, hp⟩ j₁ j₂ h₁ h₂ hc)

/-- two literals that differ only from the 7th fractional digit on are different trees with
different wire values: 0.9999999 (0x3FEFFFFFCA501ACB) vs 1 (0x3FF0000000000000) -/
example : marshal (.number ⟨0x3FEFFFFFCA501ACB⟩) ≠ marshal (.number ⟨0x3FF0000000000000⟩) := by
  simp [marshal, F64.isFinite]

/-! ## The parser glue, branch for branch -/

theorem tie_durationUnits : Generated.C17.durationUnits = durationUnitTable.map Prod.fst ∧
    Generated.C17.durationUnitConsts = ["commontimeutil.OneSecond", "commontimeutil.OneMinute",
      "commontimeutil.OneHour", "commontimeutil.OneDay", "commontimeutil.OneWeek",
      "commontimeutil.OneMonth", "commontimeutil.OneYear"] := by decide
theorem tie_durationGuard : Generated.C17.durationGuard = durationGuardTable := by rfl
theorem tie_limitParse : Generated.C17.limitParse = "strconv.ParseInt(ctx.L_INT().GetText(), 10, 32)" := by decide
theorem tie_timeRangeOps : Generated.C17.timeRangeOps =
    [("binaryOpCtx.T_GREATER() != nil || binaryOpCtx.T_GREATEREQUAL() != nil", "q.startTime = timestamp"),
     ("binaryOpCtx.T_LESS() != nil || binaryOpCtx.T_LESSEQUAL() != nil", "q.endTime = timestamp")] := by decide
theorem tie_timeOrderGuard : Generated.C17.timeOrderGuard = "query.TimeRange.End < query.TimeRange.Start" := by decide
theorem tie_groupByKey : Generated.C17.groupByKeyAssigns =
    [("q.groupBy", "append(q.groupBy, tagKey)"), ("q.interval", "q.parseDuration(ctx.DurationLit())"),
     ("q.autoGroupByTime", "true")] := by decide
theorem tie_tagFilterMachine : Generated.C17.tagFilterAttach = tagFilterAttachTable := by rfl

theorem durationUnit_facts {tok : String} {u : Int} (h : (tok, u) ∈ durationUnitTable) :
    0 < u ∧ u ≤ maxInt64 ∧ (1000 : Int) ∣ u := by
  simp [durationUnitTable, oneSecond, oneMinute, oneHour, oneDay, oneWeek, oneMonth, oneYear] at h
  rcases h with ⟨_, rfl⟩ | ⟨_, rfl⟩ | ⟨_, rfl⟩ | ⟨_, rfl⟩ | ⟨_, rfl⟩ | ⟨_, rfl⟩ | ⟨_, rfl⟩ <;>
    refine ⟨by decide, by decide, by decide⟩

/-- what `parseDuration` accepts: the value is EXACTLY `digits × unit` (no wrap-around got
through the guard) and fits int64 -/
theorem parseDuration_exact (cs : List Char) (tok : String) (u v : Int) (hu : (tok, u) ∈ durationUnitTable)
    (h : parseDuration cs (some u) = .ok v) :
    ∃ d, parseInt cs = some d ∧ v = d * u ∧ minInt64 ≤ v ∧ v ≤ maxInt64 := by
  obtain ⟨hpos, hmax, _⟩ := durationUnit_facts hu
  unfold parseDuration parseInt64 at h
  cases hp : parseInt cs with
  | none => simp [hp] at h
  | some d =>
    simp only [hp] at h
    by_cases hr : minInt64 ≤ d ∧ d ≤ maxInt64
    · simp only [hr, and_self, if_true] at h
      by_cases hg : u ≠ 0 ∧ (wrap64 (d * u)).tdiv u ≠ d
      · simp [hg] at h
      · simp only [hg, if_false] at h
        injection h with h
        have hq : (wrap64 (d * u)).tdiv u = d := by
          have hne : u ≠ 0 := by omega
          by_cases hq : (wrap64 (d * u)).tdiv u = d
          · exact hq
          · exact absurd ⟨hne, hq⟩ hg
        have hw := wrap_guard d u hpos hmax hq
        have hrange := wrap64_range (d * u)
        exact ⟨d, rfl, by rw [← h, hw], by rw [← h]; exact hrange.1, by rw [← h]; exact hrange.2⟩
    · simp [hr] at h

/-- an accepted group-by interval is a whole number of seconds: the `Interval` guard of the wire
theorems holds for whatever the parser lets through -/
theorem parseDuration_whole_seconds (cs : List Char) (tok : String) (u v : Int)
    (hu : (tok, u) ∈ durationUnitTable) (h : parseDuration cs (some u) = .ok v) : (1000 : Int) ∣ v := by
  obtain ⟨d, _, hv, _, _⟩ := parseDuration_exact cs tok u v hu h
  rw [hv]
  exact Int.dvd_trans (durationUnit_facts hu).2.2 (Int.dvd_mul_left d u)

/-- the guard rejects every product outside int64 (the repaired finding
`interval-overflow-not-whole-seconds`) ... -/
theorem parseDuration_rejects_overflow (cs : List Char) (tok : String) (u d : Int)
    (hu : (tok, u) ∈ durationUnitTable) (hp : parseInt cs = some d)
    (ho : d * u < minInt64 ∨ maxInt64 < d * u) : parseDuration cs (some u) = .error .range := by
  cases h : parseDuration cs (some u) with
  | error e =>
    unfold parseDuration parseInt64 at h
    simp only [hp] at h
    by_cases hr : minInt64 ≤ d ∧ d ≤ maxInt64
    · simp only [hr, and_self, if_true] at h
      by_cases hg : u ≠ 0 ∧ (wrap64 (d * u)).tdiv u ≠ d
      · rw [if_pos hg] at h; injection h with h; rw [h]
      · rw [if_neg hg] at h; cases h
    · rw [if_neg hr] at h; injection h with h; rw [h]
  | ok v =>
    obtain ⟨d', hd', hv, h1, h2⟩ := parseDuration_exact cs tok u v hu h
    rw [hp] at hd'; injection hd' with hd'; subst hd'
    omega

/-- ... and nothing else -/
theorem parseDuration_accepts_in_range (cs : List Char) (tok : String) (u d : Int)
    (hu : (tok, u) ∈ durationUnitTable) (hp : parseInt cs = some d)
    (hd : minInt64 ≤ d ∧ d ≤ maxInt64) (hr : minInt64 ≤ d * u ∧ d * u ≤ maxInt64) :
    parseDuration cs (some u) = .ok (d * u) := by
  obtain ⟨hpos, _, _⟩ := durationUnit_facts hu
  have hw := wrap64_of_range (d * u) hr
  have hq : (d * u).tdiv u = d := Int.mul_tdiv_cancel d (by omega)
  simp [parseDuration, parseInt64, hp, hd, hw, hq]

/-- an accepted limit fits int32 (so the unbounded `Int` of the model is faithful for it) -/
theorem visitLimit_range (cs : List Char) (n : Int) (h : visitLimit cs = .ok n) :
    0 ≤ n ∧ n ≤ maxInt32 := by
  unfold visitLimit at h
  cases hp : parseDigits cs with
  | none => simp [hp] at h
  | some m =>
    simp only [hp] at h
    by_cases hr : (m : Int) ≤ maxInt32
    · simp only [hr, if_true] at h; injection h with h; omega
    · simp [hr] at h

/-- grouping keys are stored in text order -/
theorem visitGroupBy_order (g : GroupState) (ks : List String) :
    (ks.map GroupKey.tag).foldl visitGroupByKey g = { g with groupBy := g.groupBy ++ ks } := by
  induction ks generalizing g with
  | nil => simp
  | cons k ks ih => simp [List.foldl_cons, visitGroupByKey, ih, List.append_assoc]

/-- a statement `build()` lets through has an ordered time range -/
theorem buildTimeRangeChecked_ordered (s e now : Int) (tr : TimeRange)
    (h : buildTimeRangeChecked s e now = .ok tr) : tr.start ≤ tr.stop ∧ tr = buildTimeRange s e now := by
  unfold buildTimeRangeChecked at h
  by_cases hlt : (buildTimeRange s e now).stop < (buildTimeRange s e now).start
  · simp [hlt] at h
  · simp only [hlt, if_false] at h
    injection h with h
    subst h
    exact ⟨by omega, rfl⟩

/-- `time > a and time < b`: start and end are the two literals, in either order of the text -/
theorem visitTimeRange_two_sided (a b : Int) (st : Int × Int) :
    visitTimeRange st [(.gt, a), (.lt, b)] = (a, b) ∧ visitTimeRange st [(.lt, b), (.ge, a)] = (a, b) ∧
    visitTimeRange st [(.other, a)] = st := by
  simp [visitTimeRange]

/-- THE where-condition: for every derivation of `tagFilterExpr` the listener's stack machine ends
with an empty stack and `condition` = the derivation's tree -/
theorem condition_built_from_derivation (c : Cond) (cond₀ : Expr) :
    tagRun ⟨[], cond₀⟩ c.walk = ⟨[], c.denote⟩ := by
  rw [tagRun_walk]; rfl

/-- that tree has every operand (closing the gap `validation()` leaves: it does not look at the
condition) -/
theorem condition_wellFormed_of_derivation (c : Cond) (cond₀ : Expr) :
    (tagRun ⟨[], cond₀⟩ c.walk).condition.wellFormed = true := by
  rw [condition_built_from_derivation]; exact denote_wellFormed c

/-- atoms are tag filters in the sense of `marshal_injective_tagFilter` -/
theorem atom_isTagFilter (k : AtomKind) (key : String) (vs : List String) :
    (atomExpr k key vs).isTagFilter = true :=
  filterShape_isTagFilter _ (atomExpr_shape k key vs)

/-- accepted ⇒ well formed ⇒ survives the wire, with the condition and the group-by interval
discharged from the glue models instead of assumed: `c` is the derivation of the where-clause
filter (if any), `cs`/`u` the text of `time(<duration>)` (if any) -/
theorem accepted_statement_survives_wire (q : Query) (c : Option Cond) (cond₀ : Expr)
    (hcond : q.condition = match c with
      | none => .nil
      | some c => (tagRun ⟨[], cond₀⟩ c.walk).condition)
    (hint : q.interval = 0 ∨ ∃ cs tok u, (tok, u) ∈ durationUnitTable ∧
      parseDuration cs (some u) = .ok q.interval)
    (hst : q.storageInterval = 0)
    (hv : q.validated = true) (hs : numbersFiniteList q.selectItems = true)
    (ho : numbersFiniteList q.orderByItems = true) (hh : q.having.numbersFinite = true) :
    leafStatement (payloadOf q) = .ok q := by
  have hc : optWellFormed q.condition = true := by
    rw [hcond]
    cases c with
    | none => rfl
    | some c =>
      have := condition_wellFormed_of_derivation c cond₀
      simp only []
      cases hd : (tagRun ⟨[], cond₀⟩ c.walk).condition <;> simp_all [optWellFormed]
  have hi : (1000 : Int) ∣ q.interval := by
    rcases hint with h0 | ⟨cs, tok, u, hu, hp⟩
    · rw [h0]; exact Int.dvd_zero _
    · exact parseDuration_whole_seconds cs tok u _ hu hp
  exact validated_leaf_executes q hv hs ho hh hc hi (by rw [hst]; exact Int.dvd_zero _)

/-! ## Planner-side rewriting before the statement is sent -/

theorem tie_plannerAssigns : Generated.C17.plannerAssigns = plannerAssignTable := by decide

/-- the planner step touches the four planning fields only -/
theorem planRewrite_keeps_unplanned_fields (q : Query) (tr : TimeRange) (i s r : Int) :
    let p := planRewrite q tr i s r
    p.explain = q.explain ∧ p.ns = q.ns ∧ p.metricName = q.metricName ∧ p.selectItems = q.selectItems ∧
    p.allFields = q.allFields ∧ p.condition = q.condition ∧ p.autoGroupByTime = q.autoGroupByTime ∧
    p.groupBy = q.groupBy ∧ p.having = q.having ∧ p.orderByItems = q.orderByItems ∧ p.limit = q.limit := by
  simp [planRewrite]

/-- a planned statement reaches the leaf unchanged: `Interval = StorageInterval × ratio`, and the
configured storage intervals are whole seconds (option.Interval is parsed by `Interval.ValueOf`,
`interval_values_whole_seconds`) — no interval guard left to assume -/
theorem planned_statement_survives_wire (q : Query) (tr : TimeRange) (storage ratio : Int)
    (hf : q.wellFormed = true) (hs : (1000 : Int) ∣ storage) :
    leafStatement (payloadOf (planRewrite q tr (plannedInterval storage ratio) storage ratio))
      = .ok (planRewrite q tr (plannedInterval storage ratio) storage ratio) := by
  apply leaf_executes_planned
  · simpa [planRewrite, Query.wellFormed] using hf
  · exact Int.dvd_trans hs (Int.dvd_mul_right storage ratio)
  · exact hs

/-- every value `Interval.ValueOf` returns is a whole number of seconds (so is every configured
storage interval) -/
theorem interval_values_whole_seconds (s : String) (v : Int) (h : intervalValueOf s = .ok v) :
    (1000 : Int) ∣ v := by
  unfold intervalValueOf intervalValueOfChars at h
  simp only at h
  split at h
  · cases h
  · split at h
    · cases h
    · rename_i suf _
      split at h
      · cases h
      · rename_i unit hunit
        split at h
        · cases h
        · rename_i n _
          injection h with h
          rw [← h]
          have hu : (1000 : Int) ∣ unit := by
            have : ∀ (l : List (Char × Int)), (∀ p ∈ l, (1000 : Int) ∣ p.2) →
                unitOf suf l = some unit → (1000 : Int) ∣ unit := by
              intro l hl
              induction l with
              | nil => intro h; simp [unitOf] at h
              | cons p rest ih =>
                obtain ⟨c', u'⟩ := p
                intro h
                simp only [unitOf] at h
                split at h
                · injection h with h; subst h; exact hl (c', u') (by simp)
                · exact ih (fun p hp => hl p (by simp [hp])) h
            exact this suffixUnits (by decide) hunit
          exact Int.dvd_trans hu (Int.dvd_mul_left n unit)


/-! ## One named theorem per struct field / node type of sql/stmt

`Generated.C17.fieldObligations` is regenerated from the source: every field of every type of
sql/stmt with an `UnmarshalJSON` method (the statement kinds sent between nodes) and every type
with a `Rewrite()` method (the expression node kinds). `Props/C17Fields.lean` fails with
"<Type>.<Field> has no round-trip theorem" unless a theorem of the expected name exists below;
`tie_exprNodeFields` pins the fields of the node types to the constructors of the model. -/

theorem tie_wireStatements : Generated.C17.wireStatements = ["MetricMetadata", "Query"] := by decide
theorem tie_exprNodeFields : Generated.C17.exprNodeFields = exprNodeFieldTable := by decide

/-- what the leaf holds is the wire image of what the root sent -/
theorem leaf_ok_image (q q' : Query) (h : leafStatement (payloadOf q) = .ok q') : q' = q.wireImage := by
  rw [leaf_executes_planned_exact] at h
  by_cases hf : q.wellFormed = true
  · simp only [hf, if_true] at h; injection h with h; exact h.symm
  · simp [hf] at h

theorem meta_ok_image (m m' : Metadata) (hk : m.kind < 256) (h : leafMetadata (metaPayloadOf m) = .ok m') :
    m' = m := by
  have := metadata_roundtrip_exact m hk
  unfold leafMetadata metaPayloadOf at h
  rw [this] at h
  by_cases hf : optWellFormed m.condition = true
  · simp only [hf, if_true] at h; injection h with h; exact h.symm
  · simp [hf] at h


theorem field_Query_Explain_roundtrip (q q' : Query) (h : leafStatement (payloadOf q) = .ok q') :
    q'.explain = q.explain := by rw [leaf_ok_image q q' h]; rfl

theorem field_Query_Namespace_roundtrip (q q' : Query) (h : leafStatement (payloadOf q) = .ok q') :
    q'.ns = q.ns := by rw [leaf_ok_image q q' h]; rfl

theorem field_Query_MetricName_roundtrip (q q' : Query) (h : leafStatement (payloadOf q) = .ok q') :
    q'.metricName = q.metricName := by rw [leaf_ok_image q q' h]; rfl

theorem field_Query_SelectItems_roundtrip (q q' : Query) (h : leafStatement (payloadOf q) = .ok q') :
    q'.selectItems = q.selectItems := by rw [leaf_ok_image q q' h]; rfl

theorem field_Query_AllFields_roundtrip (q q' : Query) (h : leafStatement (payloadOf q) = .ok q') :
    q'.allFields = q.allFields := by rw [leaf_ok_image q q' h]; rfl

theorem field_Query_Condition_roundtrip (q q' : Query) (h : leafStatement (payloadOf q) = .ok q') :
    q'.condition = q.condition := by rw [leaf_ok_image q q' h]; rfl

theorem field_Query_TimeRange_roundtrip (q q' : Query) (h : leafStatement (payloadOf q) = .ok q') :
    q'.timeRange = q.timeRange := by rw [leaf_ok_image q q' h]; rfl

theorem field_Query_IntervalRatio_roundtrip (q q' : Query) (h : leafStatement (payloadOf q) = .ok q') :
    q'.intervalRatio = q.intervalRatio := by rw [leaf_ok_image q q' h]; rfl

theorem field_Query_AutoGroupByTime_roundtrip (q q' : Query) (h : leafStatement (payloadOf q) = .ok q') :
    q'.autoGroupByTime = q.autoGroupByTime := by rw [leaf_ok_image q q' h]; rfl

theorem field_Query_GroupBy_roundtrip (q q' : Query) (h : leafStatement (payloadOf q) = .ok q') :
    q'.groupBy = q.groupBy := by rw [leaf_ok_image q q' h]; rfl

theorem field_Query_Having_roundtrip (q q' : Query) (h : leafStatement (payloadOf q) = .ok q') :
    q'.having = q.having := by rw [leaf_ok_image q q' h]; rfl

theorem field_Query_OrderByItems_roundtrip (q q' : Query) (h : leafStatement (payloadOf q) = .ok q') :
    q'.orderByItems = q.orderByItems := by rw [leaf_ok_image q q' h]; rfl

theorem field_Query_Limit_roundtrip (q q' : Query) (h : leafStatement (payloadOf q) = .ok q') :
    q'.limit = q.limit := by rw [leaf_ok_image q q' h]; rfl

/-- cut to whole seconds by `Interval.String`; unchanged exactly for whole seconds -/
theorem field_Query_Interval_roundtrip (q q' : Query) (h : leafStatement (payloadOf q) = .ok q') :
    q'.interval = q.interval - q.interval.tmod 1000 ∧ ((1000 : Int) ∣ q.interval → q'.interval = q.interval) := by
  rw [leaf_ok_image q q' h]
  refine ⟨rfl, fun hd => ?_⟩
  show q.interval - q.interval.tmod 1000 = q.interval
  rw [Int.tmod_eq_zero_of_dvd hd]; simp

/-- cut to whole seconds by `Interval.String`; unchanged exactly for whole seconds -/
theorem field_Query_StorageInterval_roundtrip (q q' : Query) (h : leafStatement (payloadOf q) = .ok q') :
    q'.storageInterval = q.storageInterval - q.storageInterval.tmod 1000 ∧ ((1000 : Int) ∣ q.storageInterval → q'.storageInterval = q.storageInterval) := by
  rw [leaf_ok_image q q' h]
  refine ⟨rfl, fun hd => ?_⟩
  show q.storageInterval - q.storageInterval.tmod 1000 = q.storageInterval
  rw [Int.tmod_eq_zero_of_dvd hd]; simp

theorem field_MetricMetadata_Namespace_roundtrip (m m' : Metadata) (hk : m.kind < 256)
    (h : leafMetadata (metaPayloadOf m) = .ok m') : m'.ns = m.ns := by rw [meta_ok_image m m' hk h]

theorem field_MetricMetadata_MetricName_roundtrip (m m' : Metadata) (hk : m.kind < 256)
    (h : leafMetadata (metaPayloadOf m) = .ok m') : m'.metricName = m.metricName := by rw [meta_ok_image m m' hk h]

theorem field_MetricMetadata_Type_roundtrip (m m' : Metadata) (hk : m.kind < 256)
    (h : leafMetadata (metaPayloadOf m) = .ok m') : m'.kind = m.kind := by rw [meta_ok_image m m' hk h]

theorem field_MetricMetadata_TagKey_roundtrip (m m' : Metadata) (hk : m.kind < 256)
    (h : leafMetadata (metaPayloadOf m) = .ok m') : m'.tagKey = m.tagKey := by rw [meta_ok_image m m' hk h]

theorem field_MetricMetadata_Prefix_roundtrip (m m' : Metadata) (hk : m.kind < 256)
    (h : leafMetadata (metaPayloadOf m) = .ok m') : m'.prefix_ = m.prefix_ := by rw [meta_ok_image m m' hk h]

theorem field_MetricMetadata_Condition_roundtrip (m m' : Metadata) (hk : m.kind < 256)
    (h : leafMetadata (metaPayloadOf m) = .ok m') : m'.condition = m.condition := by rw [meta_ok_image m m' hk h]

theorem field_MetricMetadata_Limit_roundtrip (m m' : Metadata) (hk : m.kind < 256)
    (h : leafMetadata (metaPayloadOf m) = .ok m') : m'.limit = m.limit := by rw [meta_ok_image m m' hk h]

theorem kind_BinaryExpr_roundtrip (l r : Expr) (op : Int) (h : (Expr.binary l r op).wellFormed = true) :
    unmarshal (marshalRaw (.binary l r op)) = .ok (.binary l r op) := expr_roundtrip_partial _ h

theorem kind_CallExpr_roundtrip (ft : Int) (ps : List Expr) (h : (Expr.call ft ps).wellFormed = true) :
    unmarshal (marshalRaw (.call ft ps)) = .ok (.call ft ps) := expr_roundtrip_partial _ h

theorem kind_EqualsExpr_roundtrip (k v : String) :
    unmarshal (marshalRaw (.equals k v)) = .ok (.equals k v) := expr_roundtrip_partial _ rfl

theorem kind_FieldExpr_roundtrip (n : String) :
    unmarshal (marshalRaw (.field n)) = .ok (.field n) := expr_roundtrip_partial _ rfl

theorem kind_InExpr_roundtrip (k : String) (vs : List String) :
    unmarshal (marshalRaw (.inE k vs)) = .ok (.inE k vs) := expr_roundtrip_partial _ rfl

theorem kind_LikeExpr_roundtrip (k v : String) :
    unmarshal (marshalRaw (.like k v)) = .ok (.like k v) := expr_roundtrip_partial _ rfl

theorem kind_NotExpr_roundtrip (e : Expr) (h : (Expr.not e).wellFormed = true) :
    unmarshal (marshalRaw (.not e)) = .ok (.not e) := expr_roundtrip_partial _ h

theorem kind_NumberLiteral_roundtrip (f : F64) (h : (Expr.number f).wellFormed = true) :
    unmarshal (marshalRaw (.number f)) = .ok (.number f) := expr_roundtrip_partial _ h

theorem kind_OrderByExpr_roundtrip (e : Expr) (d : Bool) (h : (Expr.orderBy e d).wellFormed = true) :
    unmarshal (marshalRaw (.orderBy e d)) = .ok (.orderBy e d) := expr_roundtrip_partial _ h

theorem kind_ParenExpr_roundtrip (e : Expr) (h : (Expr.paren e).wellFormed = true) :
    unmarshal (marshalRaw (.paren e)) = .ok (.paren e) := expr_roundtrip_partial _ h

theorem kind_RegexExpr_roundtrip (k r : String) :
    unmarshal (marshalRaw (.regex k r)) = .ok (.regex k r) := expr_roundtrip_partial _ rfl

theorem kind_SelectItem_roundtrip (e : Expr) (a : String) (h : (Expr.selectItem e a).wellFormed = true) :
    unmarshal (marshalRaw (.selectItem e a)) = .ok (.selectItem e a) := expr_roundtrip_partial _ h

/-! ## Non-vacuity -/

example : fullQuery.wellFormed = true ∧ (1000 : Int) ∣ fullQuery.interval ∧
    (1000 : Int) ∣ fullQuery.storageInterval := by decide
example : unmarshalQuery (marshalQuery fullQuery) = .ok fullQuery :=
  query_roundtrip_partial fullQuery (by decide) (by decide) (by decide)
/-- a tree the parser never produces: order-by inside not inside a select item inside a call -/
example : unmarshal (marshalRaw (.call (-3) [.selectItem (.not (.orderBy (.paren (.regex "a" "b")) true)) "z",
    .number ⟨0x8000000000000000⟩])) = .ok (.call (-3) [.selectItem (.not (.orderBy (.paren (.regex "a" "b")) true)) "z",
    .number ⟨0x8000000000000000⟩]) := expr_roundtrip_partial _ (by decide)
example : intervalString 604800000 = "7d" ∧ intervalString 0 = "0s" ∧ intervalString (-60000) = "-60s" ∧
    intervalString 90000 = "90s" ∧ intervalString 2592000000 = "1M" := by decide

/-! ## Where the code violates the property -/
namespace Neg

/-- A `NumberLiteral` +Inf (what `strconv.ParseFloat` returns for a literal of more than 308
digits; the parser ignores its range error) is written as `"expr":null` ... -/
theorem inf_literal_marshal :
    marshal (.number F64.posInf) = .obj [("type", .str "number"), ("expr", .null)] := by
  simp [marshal, F64.posInf, F64.isFinite]

/-- ... which the receiving `Unmarshal` rejects: the leaf cannot execute the statement. -/
theorem inf_literal_roundtrip_fails :
    unmarshal (marshalRaw (.number F64.posInf)) = .error .syntax := by
  rw [expr_roundtrip_exact]; rfl

/-- `select (*) from cpu`, `select f+* ...`, `select f+10s ...`: the parser leaves the child nil;
`Marshal(nil)` is nil, spliced as `null`, and `Unmarshal` fails on the empty message. -/
theorem nil_child_roundtrip_fails :
    marshal (.binary (.field "f") .nil 3) =
      .obj [("type", .str "binary"), ("left", .obj [("type", .str "field"), ("expr", .obj [("name", .str "f")])]),
            ("right", .null), ("operator", .int 3)] ∧
    unmarshal (marshalRaw (.binary (.field "f") .nil 3)) = .error .syntax ∧
    unmarshal (marshalRaw (.paren .nil)) = .error .syntax := by
  refine ⟨by simp [marshal], ?_, ?_⟩ <;> rw [expr_roundtrip_exact] <;> rfl

/-- Any tree that is not well formed (a nil child or a NaN/±Inf literal anywhere) is lost. -/
theorem illformed_never_roundtrips (e : Expr) (h : e.wellFormed = false) :
    unmarshal (marshalRaw e) = .error .syntax ∧ unmarshal (marshalRaw e) ≠ .ok e := by
  rw [expr_roundtrip_exact, h]
  exact ⟨rfl, by intro h'; cases h'⟩

/-- the full-strength expression round trip is false of the code -/
theorem expr_roundtrip_full_strength_false : ¬ ∀ e : Expr, unmarshal (marshalRaw e) = .ok e := by
  intro h
  have := h (.number F64.posInf)
  rw [inf_literal_roundtrip_fails] at this
  cases this

/-- The statement `select f+1<309 zeros> from cpu` as the parser builds it (the digits overflow
float64; `strconv.ParseFloat`'s range error is ignored in `visitExprAtom`). -/
def infQuery : Query :=
  { zeroQuery with
    ns := "default-ns", metricName := "cpu", limit := 20,
    timeRange := ⟨1554854400000, 1554890400000⟩,
    selectItems := [.selectItem (.binary (.field "f") (.number F64.posInf) 3) ""] }

theorem inf_statement_roundtrip_fails :
    unmarshalQuery (marshalQuery infQuery) = .error .syntax := by
  rw [query_roundtrip_exact]
  have : infQuery.wellFormed = false := by decide
  rw [this]; rfl

/-- `select f+* from cpu` as the parser builds it (`allFields` set, the `+` left without a right
operand) -/
def nilChildQuery : Query :=
  { zeroQuery with
    ns := "default-ns", metricName := "cpu", limit := 20, allFields := true,
    timeRange := ⟨1554854400000, 1554890400000⟩,
    selectItems := [.selectItem (.binary (.field "f") .nil 3) ""] }

theorem nil_child_statement_roundtrip_fails :
    unmarshalQuery (marshalQuery nilChildQuery) = .error .syntax := by
  rw [query_roundtrip_exact]
  have : nilChildQuery.wellFormed = false := by decide
  rw [this]; rfl

theorem query_roundtrip_full_strength_false : ¬ ∀ q : Query, unmarshalQuery (marshalQuery q) = .ok q := by
  intro h
  have := h infQuery
  rw [inf_statement_roundtrip_fails] at this
  cases this

/-- An interval that is not a whole number of seconds is cut by `Interval.String`. The parser
produces such a value through int64 overflow in `parseDuration`:
`group by time(100000000000000y)` gives `Interval = -26609163815616512`. -/
theorem subsecond_interval_cut :
    intervalString 1500 = "1s" ∧ intervalValueOf (intervalString 1500) = .ok 1000 ∧
    intervalValueOf (intervalString 999) = .ok 0 ∧
    intervalString (-26609163815616512) = "-26609163815616s" ∧
    intervalValueOf (intervalString (-26609163815616512)) = .ok (-26609163815616000) := by
  refine ⟨by decide, ?_, ?_, by decide, ?_⟩ <;> rw [interval_roundtrip_exact] <;> rfl

theorem subsecond_statement_changed :
    unmarshalQuery (marshalQuery { zeroQuery with interval := 1500 })
      = .ok { zeroQuery with interval := 1000 } := by
  rw [query_roundtrip_exact]
  have : Query.wellFormed { zeroQuery with interval := 1500 } = true := by rfl
  rw [this]; rfl

/-- `isCompleteExpr` without the parameter loop accepts a `having` with a nil operand inside a call
(`having sum(f + *) > 1`), which is not well formed and is lost on the wire -/
theorem params_unchecked_accepts_nil_operand :
    let e : Expr := .binary (.call 1 [.binary (.field "f") .nil 3]) (.number ⟨0x3FF0000000000000⟩) 9
    e.completeNoParams = true ∧ e.complete = false ∧ e.wellFormed = false ∧
    unmarshal (marshalRaw e) = .error .syntax := by
  refine ⟨by decide, by decide, by decide, ?_⟩
  rw [expr_roundtrip_exact]; rfl

/-- so `completeNoParams` does not imply well-formedness (the implication `complete_wellFormed`
needs the parameter loop) -/
theorem completeNoParams_not_sufficient :
    ¬ ∀ e : Expr, e.completeNoParams = true → e.numbersFinite = true → e.wellFormed = true := by
  intro h
  have := h (.call 1 [.binary (.field "f") .nil 3]) (by decide) (by decide)
  simp [Expr.wellFormed, wellFormedList] at this


/-- a worker that takes its `innerQuery` from a pool without clearing it (NOT the code: seeded
change c17-20) decodes a statement that depends on the request before: the second payload carries
only a metric name, the statement it yields still has the first request's limit and grouping keys -/
theorem pooled_scratch_leaks :
    (Worker.run .pooled ⟨[]⟩ [.obj [("limit", .int 7), ("groupBy", .arr [.str "host"])],
        .obj [("metricName", .str "cpu")]]).getLast?
      = some (.ok { zeroQ with metricName := "cpu", limit := 7, groupBy := ["host"] }) ∧
    unmarshalQuery (.obj [("metricName", .str "cpu")]) = .ok { zeroQ with metricName := "cpu" } := by
  constructor <;>
  simp [Worker.run, Worker.decode, unmarshalQueryInto, unmarshalOptInto, unmarshalQuery, structFields,
    getBool, getStr, getInt, getRawList, getStruct, getInterval, getStrList, getRaw, arrElems, lookup,
    strElems, Except.map, bind, Except.bind, pure, Except.pure, unmarshalOpt, unmarshalAll, zeroQ]

/-- so with that policy decode is NOT a function of the payload -/
theorem pooled_decode_not_function_of_payload :
    ¬ ∀ (w : Worker) (history : List Json) (p : Json),
      (Worker.run .pooled w (history ++ [p])).getLast? = some (unmarshalQuery p) := by
  intro h
  have h1 := h ⟨[]⟩ [.obj [("limit", .int 7), ("groupBy", .arr [.str "host"])]] (.obj [("metricName", .str "cpu")])
  rw [show ([Json.obj [("limit", .int 7), ("groupBy", .arr [.str "host"])]] ++ [Json.obj [("metricName", .str "cpu")]])
    = [.obj [("limit", .int 7), ("groupBy", .arr [.str "host"])], .obj [("metricName", .str "cpu")]] from rfl,
    pooled_scratch_leaks.1, pooled_scratch_leaks.2] at h1
  injection h1 with h1
  injection h1 with h1
  have := congrArg Query.limit h1
  simp [zeroQ] at this

/-- `UnmarshalJSON` into a statement value that was used before keeps its `Condition` when the
payload has none (the code assigns it under `if inner.Condition != nil` only): receivers must be
fresh, and they are (`tie_decodeTargets`) -/
theorem reused_receiver_keeps_condition :
    unmarshalQueryInto { zeroQ with condition := .equals "host" "a" } (.obj [])
      = .ok { zeroQ with condition := .equals "host" "a" } ∧
    unmarshalQuery (.obj []) = .ok zeroQ := by
  constructor <;>
  simp [unmarshalQueryInto, unmarshalOptInto, unmarshalQuery, structFields,
    getBool, getStr, getInt, getRawList, getStruct, getInterval, getStrList, getRaw, arrElems, lookup,
    bind, Except.bind, pure, Except.pure, unmarshalOpt, unmarshalAll, zeroQ]

/-- a duration whose product leaves int64 wraps to a value that is not a whole number of seconds —
what the guard of `parseDuration` keeps out (`100000000000000y`) -/
theorem duration_wrap_not_whole_seconds :
    wrap64 (100000000000000 * oneYear) = -26609163815616512 ∧
    ¬ (1000 : Int) ∣ wrap64 (100000000000000 * oneYear) ∧
    parseDuration "100000000000000".toList (some oneYear) = .error .range := by
  refine ⟨by decide, by decide, ?_⟩
  exact parseDuration_rejects_overflow _ "T_YEAR" oneYear 100000000000000 (by decide) (by decide) (by decide)

end Neg
end LinVerif.Props.C17
