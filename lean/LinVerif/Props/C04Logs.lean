/-
C04 — the edit logs a rollup record consists of survive Encode/Decode.
C01's `Props.C01.log_roundtrip` (`decodeLog l.tag (encodeLog l) = some l`, Model/Manifest.lean, tied to
kv/version/log.go by C01's facts) already covers all eight log kinds, including NewRollupFile,
DeleteRollupFile, NewReferenceFile, DeleteReferenceFile. This file only connects it to C04's records:
every log of every record of the bookkeeping model is recovered by decoding its encoding, so replaying
the manifest (reopen / crash restart) re-applies exactly the records that were committed.
-/
import LinVerif.Props.C01
import LinVerif.Model.Rollup

namespace LinVerif.Props.C04
open LinVerif.Kv

/-- the edit logs of a record (`store` = source store name as bytes, the source family id is the
first component of a `Key`; file meta of new files is irrelevant here and left out) -/
def recLogs (store : Bytes) : LinVerif.Rollup.Rec → List Log
  | .flush k _ ivs => ivs.map (fun i => Log.newRollupFile (k.2 : Nat) (i : Nat))
  | .merge _ inputs => inputs.map (fun k => Log.newReferenceFile store (k.1 : Nat) (k.2 : Nat))
  | .delRollup ds => ds.map (fun p => Log.deleteRollupFile (p.1.2 : Nat) (p.2 : Nat))
  | .delRef _ ks => ks.map (fun k => Log.deleteReferenceFile store (k.1 : Nat) (k.2 : Nat))
  | .compact _ => []

/-- Decode ∘ Encode = id on every rollup / reference log of every record (from C01's `log_roundtrip`) -/
theorem record_logs_roundtrip (store : Bytes) (r : LinVerif.Rollup.Rec) :
    ∀ l ∈ recLogs store r, decodeLog l.tag (encodeLog l) = some l :=
  fun l _ => LinVerif.Props.C01.log_roundtrip l

/-- the four kinds, spelled out -/
theorem rollup_log_kinds_roundtrip (file interval family : Int) (store : Bytes) :
    decodeLog 4 (encodeLog (.newRollupFile file interval)) = some (.newRollupFile file interval) ∧
    decodeLog 5 (encodeLog (.deleteRollupFile file interval)) = some (.deleteRollupFile file interval) ∧
    decodeLog 6 (encodeLog (.newReferenceFile store family file)) = some (.newReferenceFile store family file) ∧
    decodeLog 7 (encodeLog (.deleteReferenceFile store family file)) = some (.deleteReferenceFile store family file) :=
  ⟨LinVerif.Props.C01.log_roundtrip (.newRollupFile file interval),
   LinVerif.Props.C01.log_roundtrip (.deleteRollupFile file interval),
   LinVerif.Props.C01.log_roundtrip (.newReferenceFile store family file),
   LinVerif.Props.C01.log_roundtrip (.deleteReferenceFile store family file)⟩

end LinVerif.Props.C04
