/-
C04 — a manifest commit that FAILS in the middle of a rollup run (I/O error while writing the record).

`storeVersionSet.CommitFamilyEditLog` returns the error before it touches the version, so a failed
commit persists and applies nothing; `family.commitEditLog` turns the error into `false`. What the run
does next depends on whether the call site looks at that result (regenerated facts
`rollupSourceCommitResult`, `installCommitResult`, `cleanReferenceCommitResult`: "discarded" / "checked").

* `failing_run_checked_is_prefix_or_unavailable` — if both results are checked, the records of a run with
  a failing commit are either a PREFIX of the undisturbed run's records (source commit failed: the run
  ends) or the records of the run in which the failed interval was not available (target commit failed:
  the job fails, `rollup()` continues) — both are histories `once` / `once_at_every_commit_boundary` /
  `rollup_attempt_failed_keeps_markers` already quantify over. So with checked results a failing commit
  cannot break "exactly once / nothing lost".
* `Neg.source_commit_failure_merges_twice`, `Neg.target_commit_failure_loses_file` — with DISCARDED
  results (the code as it is) it does: the witnesses the harness replays on the real stores every run
  (cases 12 and 20, fault injected through kv/version's manifest-writer seam).
* `tie_commit_results` — which shape the code has.
-/
import LinVerif.Model.Rollup
import LinVerif.Generated.C04

namespace LinVerif.Props.C04
open LinVerif.Rollup

/-- checked results: a failing commit gives a history the exactly-once theorems already cover — a prefix
of the run's records (failed source commit), or the run in which the failed interval was not available
(failed target commit); otherwise the failed record is neither of the two (a delete-reference record, whose
loss leaves a stale reference for a file that has no rollup entry any more, or no record at all) -/
theorem failing_run_checked_is_prefix_or_unavailable (σ : St) (fam : Nat) (ivs dvs : List Iv)
    (avail : Iv → Bool) (k : Nat) :
    (∃ n, rollupRecsFailing true true σ fam ivs avail dvs k = (rollupRecs σ fam ivs avail dvs).take n) ∨
    (∃ i, rollupRecsFailing true true σ fam ivs avail dvs k
        = rollupRecs σ fam ivs (fun j => avail j && decide (j ≠ i)) dvs) ∨
    (rollupRecsFailing true true σ fam ivs avail dvs k = (rollupRecs σ fam ivs avail dvs).eraseIdx k ∧
      (∀ i ks, (rollupRecs σ fam ivs avail dvs)[k]? ≠ some (.merge i ks)) ∧
      (∀ ds, (rollupRecs σ fam ivs avail dvs)[k]? ≠ some (.delRollup ds))) := by
  unfold rollupRecsFailing
  simp only [if_true]
  split
  · rename_i i inputs h
    right; left; exact ⟨i, rfl⟩
  · rename_i ds h
    left; exact ⟨k, rfl⟩
  · rename_i x h1 h2
    right; right
    exact ⟨rfl, fun i ks hh => h1 i ks hh, fun ds hh => h2 ds hh⟩

/-- which shape the code has. On the unchanged tree all three results are discarded (the `Neg` witnesses
below apply); with fixes/C04-check-rollup-commit-results.patch the first two are checked. -/
theorem tie_commit_results :
    (Generated.C04.rollupSourceCommitResult = "discarded" ∨ Generated.C04.rollupSourceCommitResult = "checked") ∧
    (Generated.C04.installCommitResult = "discarded" ∨
      (Generated.C04.installCommitResult = "checked" ∧ Generated.C04.installReturnsResult = true)) ∧
    (Generated.C04.cleanReferenceCommitResult = "discarded" ∨ Generated.C04.cleanReferenceCommitResult = "checked") := by
  decide

namespace Neg

/-- (recorded finding `source-commit-failure-merges-twice`) one flushed file, a rollup run whose SOURCE
commit (record 1: delete the rollup entries) fails while the result is discarded: the merge record and
the delete-reference record are committed, the rollup entry stays, the reference is gone — the next
rollup merges the file a second time. With the result checked the run ends before the references are
cleaned and the second run merges nothing. -/
theorem source_commit_failure_merges_twice :
    let σ1 := St.init.apply (.flush (1, 2) true [300000])
    let run1 := rollupRecsFailing false false σ1 1 [300000] (fun _ => true) [300000] 1
    let σ2 := σ1.applyAll run1
    let σ3 := σ2.applyAll (rollupRecs σ2 1 [300000] (fun _ => true) [300000])
    run1 = [.merge 300000 [(1, 2)], .delRef 300000 [(1, 2)]] ∧
    ((1, 2), 300000) ∈ σ2.pending ∧ σ2.refs = [] ∧
    σ3.merged.count ((1, 2), 300000) = 2 ∧
    (let τ2 := σ1.applyAll (rollupRecsFailing true true σ1 1 [300000] (fun _ => true) [300000] 1)
     let τ3 := τ2.applyAll (rollupRecs τ2 1 [300000] (fun _ => true) [300000])
     τ3.merged.count ((1, 2), 300000) = 1 ∧ τ3.pending = [] ∧ τ3.refs = []) := by
  decide

/-- (recorded finding `target-commit-failure-loses-file`) the TARGET commit (record 0: merge output +
references) fails while the result is discarded: `doRollupWork` reports success, the source family deletes
the rollup entry — the file is registered, in level 0, not pending and never merged. With the result
checked the entry stays and the next run merges the file once. -/
theorem target_commit_failure_loses_file :
    let σ1 := St.init.apply (.flush (1, 2) true [300000])
    let run1 := rollupRecsFailing false false σ1 1 [300000] (fun _ => true) [300000] 0
    let σ2 := σ1.applyAll run1
    let σ3 := σ2.applyAll (rollupRecs σ2 1 [300000] (fun _ => true) [300000])
    run1 = [.delRollup [((1, 2), 300000)], .delRef 300000 [(1, 2)]] ∧
    ((1, 2), 300000) ∈ σ3.registered ∧ (1, 2) ∈ σ3.l0 ∧ σ3.pending = [] ∧
    σ3.merged.count ((1, 2), 300000) = 0 ∧
    (let τ2 := σ1.applyAll (rollupRecsFailing true true σ1 1 [300000] (fun _ => true) [300000] 0)
     let τ3 := τ2.applyAll (rollupRecs τ2 1 [300000] (fun _ => true) [300000])
     ((1, 2), 300000) ∈ τ2.pending ∧ τ3.merged.count ((1, 2), 300000) = 1 ∧ τ3.pending = []) := by
  decide

end Neg
end LinVerif.Props.C04
