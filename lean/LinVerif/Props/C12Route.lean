/-
C12 (third module) — "writing the same points into one shard or spreading them by the routing hash
over many shards ... yield the same result", write side below the shard split: the rows of one shard
group reach the data family of their own timestamp, each exactly once, every family once — for every
batch (any order, any number of families), every monotone family function.
Model `LinVerif.RowRoute` = BrokerBatchShardFamilyIterator (series/metric/row_broker.go).
-/
import LinVerif.Lemmas.C12Route
import LinVerif.Generated.C12

namespace LinVerif.Props.C12
open LinVerif.RowRoute

/-- The family iterator partitions the rows of a shard group by family: what it hands out is a
permutation of the rows (none lost, none duplicated), every row under the family time of ITS OWN
timestamp, no group empty; and for a monotone family function every family is handed out once, in
ascending order — for every batch, in any order (fast path or sorted path). -/
theorem family_groups_partition (fam : Nat → Nat) (rows : List Row) :
    ((familyGroups fam rows).flatMap (fun g => g.2)).Perm rows ∧
    (∀ g ∈ familyGroups fam rows, g.2 ≠ [] ∧ ∀ r ∈ g.2, fam r.2 = g.1) ∧
    ((∀ a b, a ≤ b → fam a ≤ fam b) →
      ((familyGroups fam rows).map (fun g => g.1)).Pairwise (fun a b => a < b)) := by
  cases rows with
  | nil => simp [familyGroups]
  | cons r0 rest =>
    have hdef : familyGroups fam (r0 :: rest) =
        if sameFamily fam (r0 :: rest) = true then [(fam r0.2, r0 :: rest)] else runs fam (sortTs (r0 :: rest)) := rfl
    rw [hdef]
    by_cases hs : sameFamily fam (r0 :: rest) = true
    · rw [if_pos hs]
      refine ⟨by simp, ?_, by intro _; simp⟩
      intro g hg
      simp only [List.mem_singleton] at hg
      subst hg
      exact ⟨by simp, sameFamily_all fam r0 rest hs⟩
    · rw [if_neg hs]
      refine ⟨?_, runs_fam fam _, ?_⟩
      · rw [runs_flat]; exact sortTs_perm _
      · intro hmono; exact runs_sorted fam hmono _ (sortTs_sorted _)

/-- the fast path is not an optimisation that changes the answer: when it applies, the sorted path
would hand out the same single family with a permutation of the same rows -/
theorem fast_path_agrees (fam : Nat → Nat) (r0 : Row) (rest : List Row)
    (hs : sameFamily fam (r0 :: rest) = true) :
    ∃ rows', runs fam (sortTs (r0 :: rest)) = [(fam r0.2, rows')] ∧ rows'.Perm (r0 :: rest) := by
  have hall := sameFamily_all fam r0 rest hs
  have hperm := sortTs_perm (r0 :: rest)
  -- every run of the sorted list has family fam r0, and runs' families are pairwise distinct by
  -- construction only under monotonicity; here: all rows share one family, so there is one run
  have hone : ∀ l : List Row, (∀ r ∈ l, fam r.2 = fam r0.2) → l ≠ [] → runs fam l = [(fam r0.2, l)] := by
    intro l
    induction l with
    | nil => intro _ h; exact absurd rfl h
    | cons x xs ih =>
      intro hl _
      rw [runs_cons]
      cases xs with
      | nil => simp [runs, hl x List.mem_cons_self]
      | cons y ys =>
        have := ih (fun r hr => hl r (List.mem_cons_of_mem _ hr)) (by simp)
        rw [this]
        simp [hl x List.mem_cons_self]
  have hne : sortTs (r0 :: rest) ≠ [] := by
    intro h
    have := hperm.length_eq
    rw [h] at this
    simp at this
  refine ⟨sortTs (r0 :: rest), hone _ ?_ hne, hperm⟩
  intro r hr
  exact hall r (hperm.mem_iff.mp hr)

namespace Neg

/-- The fast path that compares only the LAST row with the first row's family range: a batch
whose first and last row share a family with a row of another family in between hands that row out
under the wrong family (rows `(id, ts)`, family = ts / 10). -/
theorem first_last_fast_path_misfiles :
    let fam : Nat → Nat := fun t => t / 10
    let rows : List Row := [(0, 3), (1, 15), (2, 7)]
    familyGroupsFirstLast fam rows = [(0, rows)] ∧
    familyGroups fam rows = [(0, [(0, 3), (2, 7)]), (1, [(1, 15)])] ∧
    ¬ (∀ g ∈ familyGroupsFirstLast fam rows, ∀ r ∈ g.2, fam r.2 = g.1) := by
  decide

end Neg

open LinVerif.Generated.C12 in
/-- the statements `sameFamily` / `familyGroups` / `runs` mirror -/
theorem generated_family_iterator :
    isSameFamilySteps = ["if len(itr.rows) == 0", "  return true", "firstTimestamp := itr.rows[0].m.Timestamp()", "itr.groupFamilyTime = itr.familyTimeOfTimestamp(firstTimestamp)", "timeRange := itr.timeRangeOfTimestamp(firstTimestamp)", "for i := 1; i < len(itr.rows); i++", "  if !timeRange.Contains(itr.rows[i].m.Timestamp())", "    return false", "return true"] ∧
    familyResetSteps = ["itr.groupEnd = 0", "itr.groupStart = 0", "itr.rows = rows", "itr.intervalCalc = interval.Calculator()", "itr.groupFamilyTime = 0", "itr.rows = rows", "if itr.sameFamily = itr.isSameFamily(); itr.sameFamily", "  return", "sort.Sort(itr.rows)"] ∧
    hasNextFamilySteps = ["if itr.groupEnd >= len(itr.rows) || itr.groupStart > itr.groupEnd", "  return false", "if itr.sameFamily", "  itr.groupEnd = len(itr.rows)", "  itr.groupStart = 0", "  return true", "firstTimestamp := itr.rows[itr.groupEnd].m.Timestamp()", "timeRange := itr.timeRangeOfTimestamp(firstTimestamp)", "itr.groupStart = itr.groupEnd", "itr.groupFamilyTime = itr.familyTimeOfTimestamp(firstTimestamp)", "for itr.groupEnd < len(itr.rows)", "  if !timeRange.Contains(itr.rows[itr.groupEnd].m.Timestamp())", "    break", "  itr.groupEnd++", "return itr.groupStart < itr.groupEnd"] ∧
    familySortLess = "fr[i].m.Timestamp() < fr[j].m.Timestamp()" := by decide

/-- non-vacuity: three families, not time-ordered -/
example :
    familyGroups (fun t => t / 10) [(0, 25), (1, 3), (2, 14), (3, 7), (4, 21)] =
      [(0, [(1, 3), (3, 7)]), (1, [(2, 14)]), (2, [(4, 21), (0, 25)])] := by decide

end LinVerif.Props.C12
